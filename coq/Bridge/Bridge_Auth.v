(* Bridge/Bridge_Auth.v — ties Model/Auth.v to what go2coq regenerates from /repo (Gen/Auth.v).
   1. The wrapper-selection structure of startHttpServer / startGrpcServer is INTERPRETED: every
      regenerated row (assigned variable, enclosing if-conditions, statement text) is given its meaning
      on a symbolic handler state; a condition or a statement the interpreter does not know makes the
      result None.  The bridge lemmas say that for all twelve configurations the interpretation of the
      regenerated tables is exactly the handler / interceptor selection of the model.
   2. The code of the checks themselves (interceptors, getLogin, hasValidClientCert, the two HTTP
      wrappers) and the guards in CacheHandler are pinned: equal to the text the model was written
      against, so an edit breaks an obligation here and has to be re-read against the model
      (its behaviour is compared with the model exhaustively by harness/cmd/auth in any case). *)
From BR Require Import Base.Prelude Gen.Consts Gen.Auth Model.Auth.
Open Scope string_scope.
Open Scope Z_scope.

(* ------------------------------------------------------------------ *)
(* conditions of main.go on a model configuration *)

Definition eval_atom (a : string) (c : cfg) : option bool :=
  if String.eqb a "c.HtpasswdFile != """"" then Some (is_htpasswd c)
  else if String.eqb a "htpasswdSecrets != nil" then Some (is_htpasswd c)     (* see run_wiring_pinned *)
  else if String.eqb a "c.TLSCaFile != """"" then Some (is_mtls c)
  else if String.eqb a "c.TLSConfig != nil" then Some (is_mtls c)             (* TLS without a CA file is outside the domain *)
  else if String.eqb a "c.AllowUnauthenticatedReads" then Some (c_allow c)
  else if String.eqb a "!c.AllowUnauthenticatedReads" then Some (negb (c_allow c))
  else if String.eqb a "c.EnableEndpointMetrics" then Some (c_metrics c)
  else if String.eqb a "c.LDAP != nil" then Some false
  else if String.eqb a "c.IdleTimeout > 0" then Some false
  else if String.eqb a "idleTimer != nil" then Some false
  else None.

Fixpoint eval_conds (cs : list (bool * string)) (c : cfg) : option bool :=
  match cs with
  | [] => Some true
  | (pol, a) :: t =>
      match eval_atom a c, eval_conds t c with
      | Some b, Some r => Some (Bool.eqb b pol && r)
      | _, _ => None
      end
  end.

Fixpoint assoc {A} (k : string) (l : list (string * A)) : option A :=
  match l with [] => None | (k', v) :: t => if String.eqb k k' then Some v else assoc k t end.

(* generic interpreter: rows in source order; a row whose conditions hold applies its effect *)
Fixpoint interp {S} (effects : list (string * (cfg -> S -> S))) (rows : list (string * list (bool * string) * string))
         (c : cfg) (s : S) : option S :=
  match rows with
  | [] => Some s
  | (_, conds, text) :: t =>
      match assoc text effects, eval_conds conds c with
      | Some f, Some b => interp effects t c (if b then f c s else s)
      | _, _ => None
      end
  end.

(* ------------------------------------------------------------------ *)
(* startHttpServer *)

Record hstate := mkH {
  s_rd : bool; s_wr : bool;          (* checkClientCertForReads / checkClientCertForWrites *)
  s_hrd : bool; s_hwr : bool;        (* the flags h was built with *)
  s_cache : hnd; s_status : hnd; s_mw : hnd; s_ch : hnd;
  s_binit : bool;                    (* basicAuthenticator.Secrets has been set *)
  s_mux : list (string * hnd) }.

Definition h0 : hstate := mkH false false false false HNotEnabled404 HNotEnabled404 HNotEnabled404 HNotEnabled404 false [].

Definition set_cache (f : hstate -> hnd) (s : hstate) : hstate :=
  mkH (s_rd s) (s_wr s) (s_hrd s) (s_hwr s) (f s) (s_status s) (s_mw s) (s_ch s) (s_binit s) (s_mux s).
Definition set_status (f : hstate -> hnd) (s : hstate) : hstate :=
  mkH (s_rd s) (s_wr s) (s_hrd s) (s_hwr s) (s_cache s) (f s) (s_mw s) (s_ch s) (s_binit s) (s_mux s).
Definition set_mw (f : hstate -> hnd) (s : hstate) : hstate :=
  mkH (s_rd s) (s_wr s) (s_hrd s) (s_hwr s) (s_cache s) (s_status s) (f s) (s_ch s) (s_binit s) (s_mux s).
Definition set_ch (s : hstate) : hstate :=
  mkH (s_rd s) (s_wr s) (s_hrd s) (s_hwr s) (s_cache s) (s_status s) (s_mw s) (s_cache s) (s_binit s) (s_mux s).
Definition add_mux (p : string) (f : hstate -> hnd) (s : hstate) : hstate :=
  mkH (s_rd s) (s_wr s) (s_hrd s) (s_hwr s) (s_cache s) (s_status s) (s_mw s) (s_ch s) (s_binit s) ((s_mux s ++ [(p, f s)])%list).

Definition nop {S} : cfg -> S -> S := fun _ s => s.

Definition http_effects : list (string * (cfg -> hstate -> hstate)) := [
  ("mux := http.NewServeMux()", nop);
  ("*httpServer = &http.Server{ Handler: mux, ReadTimeout: c.HTTPReadTimeout, TLSConfig: c.TLSConfig, WriteTimeout: c.HTTPWriteTimeout, }", nop);
  ("checkClientCertForReads := c.TLSCaFile != """" && !c.AllowUnauthenticatedReads",
     fun c s => mkH (is_mtls c && negb (c_allow c)) (s_wr s) (s_hrd s) (s_hwr s) (s_cache s) (s_status s) (s_mw s) (s_ch s) (s_binit s) (s_mux s));
  ("checkClientCertForWrites := c.TLSCaFile != """"",
     fun c s => mkH (s_rd s) (is_mtls c) (s_hrd s) (s_hwr s) (s_cache s) (s_status s) (s_mw s) (s_ch s) (s_binit s) (s_mux s));
  (* arguments six and seven are the parameters checkClientCertForReads / ...ForWrites: NewHTTPCache_pinned *)
  ("h := server.NewHTTPCache(diskCache, c.AccessLogger, c.ErrorLogger, validateAC, c.EnableACKeyInstanceMangling, checkClientCertForReads, checkClientCertForWrites, gitCommit, gitTags, c.MaxBlobSize)",
     fun _ s => mkH (s_rd s) (s_wr s) (s_rd s) (s_wr s) (s_cache s) (s_status s) (s_mw s) (s_ch s) (s_binit s) (s_mux s));
  ("cacheHandler := h.CacheHandler", fun _ => set_cache (fun s => HCacheHandler (s_hrd s) (s_hwr s)));
  ("var ldapAuthenticator authenticator", nop);
  ("var basicAuthenticator auth.BasicAuth", nop);
  ("cacheHandler = unauthenticatedReadWrapper(cacheHandler, htpasswdSecrets, c.HTTPAddress)",
     fun _ => set_cache (fun s => HUnauthRead (s_cache s)));
  ("basicAuthenticator = auth.BasicAuth{Realm: c.HTTPAddress, Secrets: htpasswdSecrets}",
     fun _ s => mkH (s_rd s) (s_wr s) (s_hrd s) (s_hwr s) (s_cache s) (s_status s) (s_mw s) (s_ch s) true (s_mux s));
  ("cacheHandler = basicAuthWrapper(cacheHandler, &basicAuthenticator)", fun _ => set_cache (fun s => HBasicAuth (s_cache s)));
  ("cacheHandler = ldapAuthWrapper(cacheHandler, ldapAuthenticator)", fun _ => set_cache (fun s => HLdap (s_cache s)));
  ("ch := cacheHandler", fun _ => set_ch);
  ("cacheHandler = http.HandlerFunc(func(w http.ResponseWriter, r *http.Request) { idleTimer.ResetTimer() ch(w, r) })",
     fun _ => set_cache (fun s => HIdle (s_ch s)));
  ("var statusHandler http.HandlerFunc = h.StatusPageHandler", fun _ => set_status (fun _ => HStatusPage));
  ("statusHandler = h.VerifyClientCertHandler(statusHandler).ServeHTTP", fun _ => set_status (fun s => HVerifyCert (s_status s)));
  ("statusHandler = basicAuthWrapper(statusHandler, &basicAuthenticator)", fun _ => set_status (fun s => HBasicAuth (s_status s)));
  ("statusHandler = ldapAuthWrapper(statusHandler, ldapAuthenticator)", fun _ => set_status (fun s => HLdap (s_status s)));
  ("middlewareHandler := middlewarestd.Handler(""metrics"", metricsMdlw, promhttp.Handler())",
     fun _ => set_mw (fun _ => HMetricsMw HPromHandler));
  ("middlewareHandler = h.VerifyClientCertHandler(middlewareHandler)", fun _ => set_mw (fun s => HVerifyCert (s_mw s)));
  ("middlewareHandler = basicAuthWrapper(middlewareHandler.ServeHTTP, &basicAuthenticator)", fun _ => set_mw (fun s => HBasicAuth (s_mw s)));
  ("middlewareHandler = ldapAuthWrapper(middlewareHandler.ServeHTTP, ldapAuthenticator)", fun _ => set_mw (fun s => HLdap (s_mw s)));
  ("mux.Handle(""/metrics"", middlewareHandler)", fun _ => add_mux "/metrics" s_mw);
  ("statusHandler = middlewarestd.Handler(""status"", metricsMdlw, statusHandler).ServeHTTP",
     fun _ => set_status (fun s => HMetricsMw (s_status s)));
  ("cacheHandler = func(w http.ResponseWriter, r *http.Request) { middlewarestd.Handler(r.Method, metricsMdlw, http.HandlerFunc(ch)).ServeHTTP(w, r) }",
     fun _ => set_cache (fun s => HMetricsMw (s_ch s)));
  ("mux.HandleFunc(""/metrics"", func(w http.ResponseWriter, r *http.Request) { http.Error(w, ""Endpoint metrics are not enabled on this server."", http.StatusNotFound) })",
     fun _ => add_mux "/metrics" (fun _ => HNotEnabled404));
  ("mux.HandleFunc(""/status"", statusHandler)", fun _ => add_mux "/status" s_status);
  ("mux.HandleFunc(""/"", cacheHandler)", fun _ => add_mux "/" s_cache)
].

(* what the regenerated startHttpServer registers on its mux (pattern, handler), and whether
   basicAuthenticator was initialised *)
Definition http_mux_of_source (c : cfg) : option (list (string * hnd) * bool) :=
  match interp http_effects Gen.Auth.http_wiring c h0 with
  | Some s => Some (s_mux s, s_binit s)
  | None => None
  end.

Lemma http_wiring_bridge : forall c : cfg,
  http_mux_of_source c =
    Some ([("/metrics", metrics_handler c); ("/status", status_handler c); ("/", cache_handler c)], basic_init c).
Proof. intros [[| |] [|] [|]]; vm_compute; reflexivity. Qed.

(* ------------------------------------------------------------------ *)
(* startGrpcServer *)

Definition gstate := (list icpt * list icpt)%type.      (* streamInterceptors, unaryInterceptors *)
Definition app_stream (i : cfg -> icpt) : cfg -> gstate -> gstate := fun c s => ((fst s ++ [i c])%list, snd s).
Definition app_unary (i : cfg -> icpt) : cfg -> gstate -> gstate := fun c s => (fst s, (snd s ++ [i c])%list).

Definition grpc_effects : list (string * (cfg -> gstate -> gstate)) := [
  ("opts := []grpc.ServerOption{}", nop);
  ("streamInterceptors := []grpc.StreamServerInterceptor{}", fun _ s => ([], snd s));
  ("unaryInterceptors := []grpc.UnaryServerInterceptor{}", fun _ s => (fst s, []));
  ("streamInterceptors = append(streamInterceptors, grpc_prometheus.StreamServerInterceptor)", app_stream (fun _ => IProm));
  ("unaryInterceptors = append(unaryInterceptors, grpc_prometheus.UnaryServerInterceptor)", app_unary (fun _ => IProm));
  ("opts = append(opts, grpc.Creds(credentials.NewTLS(c.TLSConfig)))", nop);
  ("streamInterceptors = append(streamInterceptors, server.GRPCmTLSStreamServerInterceptor(c.AllowUnauthenticatedReads))",
     app_stream (fun c => IMtls (c_allow c)));
  ("unaryInterceptors = append(unaryInterceptors, server.GRPCmTLSUnaryServerInterceptor(c.AllowUnauthenticatedReads))",
     app_unary (fun c => IMtls (c_allow c)));
  (* gba carries c.AllowUnauthenticatedReads; its two methods are appended below *)
  ("gba := server.NewGrpcBasicAuth(htpasswdSecrets, c.AllowUnauthenticatedReads)", nop);
  ("streamInterceptors = append(streamInterceptors, gba.StreamServerInterceptor)", app_stream (fun c => IBasic (c_allow c)));
  ("unaryInterceptors = append(unaryInterceptors, gba.UnaryServerInterceptor)", app_unary (fun c => IBasic (c_allow c)));
  ("it := server.NewGrpcIdleTimer(idleTimer)", nop);
  ("streamInterceptors = append(streamInterceptors, it.StreamServerInterceptor)", app_stream (fun _ => IIdle));
  ("unaryInterceptors = append(unaryInterceptors, it.UnaryServerInterceptor)", app_unary (fun _ => IIdle));
  ("opts = append(opts, grpc.ChainStreamInterceptor(streamInterceptors...))", nop);
  ("opts = append(opts, grpc.ChainUnaryInterceptor(unaryInterceptors...))", nop);
  ("*grpcServer = grpc.NewServer(opts...)", nop)
].

Definition grpc_chains_of_source (c : cfg) : option gstate :=
  interp grpc_effects Gen.Auth.grpc_wiring c ([], []).

Lemma grpc_wiring_bridge : forall c : cfg,
  grpc_chains_of_source c = Some (grpc_chain c, grpc_chain c).
Proof. intros [[| |] [|] [|]]; vm_compute; reflexivity. Qed.

Lemma wiring_is_source : forall c : cfg,
  http_mux_of_source c =
    Some ([("/metrics", metrics_handler c); ("/status", status_handler c); ("/", cache_handler c)], basic_init c) /\
  grpc_chains_of_source c = Some (grpc_chain c, grpc_chain c).
Proof. intros c. split; [apply http_wiring_bridge|apply grpc_wiring_bridge]. Qed.

(* htpasswdSecrets is non-nil exactly when an htpasswd file is configured *)
Lemma run_wiring_pinned :
  Gen.Auth.run_wiring =
    [("htpasswdSecrets", [], "var htpasswdSecrets auth.SecretProvider");
     ("htpasswdSecrets", [(true, "c.HtpasswdFile != """"")], "htpasswdSecrets = auth.HtpasswdFileProvider(c.HtpasswdFile)")].
Proof. reflexivity. Qed.

(* ------------------------------------------------------------------ *)
(* server/http.go *)

(* CacheHandler switches on the request method; GET and HEAD are guarded by the reads flag, PUT by
   the writes flag, each as the first statement of its clause (go2coq checks that the guarded block
   returns); the default clause needs no guard: it only answers 405.  Nothing before the switch
   touches the cache.  This is HCacheHandler in Model.Auth.serve. *)
Lemma cacheHandler_guards_pinned :
  Gen.Auth.cacheHandler_switch = "m := r.Method; m" /\
  Gen.Auth.cacheHandler_cache_calls_before_switch = [] /\
  Gen.Auth.cacheHandler_cert_checks =
    [("http.MethodGet", "h.checkClientCertForReads && !h.hasValidClientCert(w, r)");
     ("http.MethodPut", "h.checkClientCertForWrites && !h.hasValidClientCert(w, r)");
     ("http.MethodHead", "h.checkClientCertForReads && !h.hasValidClientCert(w, r)");
     ("default", "")].
Proof. repeat split; reflexivity. Qed.

Lemma NewHTTPCache_pinned :
  nth_error Gen.Auth.NewHTTPCache_params 5 = Some "checkClientCertForReads" /\
  nth_error Gen.Auth.NewHTTPCache_params 6 = Some "checkClientCertForWrites" /\
  Gen.Auth.NewHTTPCache_cert_fields =
    ["checkClientCertForReads: checkClientCertForReads"; "checkClientCertForWrites: checkClientCertForWrites"].
Proof. repeat split; reflexivity. Qed.

(* config/tls.go: the only client-certificate policy is "verify if given" against the CA pool *)
Lemma tls_client_auth_pinned :
  Gen.Auth.tls_client_auth = ["ClientCAs: caCertPool"; "ClientAuth: tls.VerifyClientCertIfGiven"].
Proof. reflexivity. Qed.

Lemma health_exemption_pinned :
  Gen.Auth.grpcHealthServiceName = Spec.health_check.
Proof. reflexivity. Qed.

(* ------------------------------------------------------------------ *)
(* the text of the checks the model mirrors *)

Definition expected_src_main_basicAuthWrapper : string :=
  "func basicAuthWrapper(handler http.HandlerFunc, authenticator *auth.BasicAuth) http.HandlerFunc { return auth.JustCheck(authenticator, handler) }".
Definition expected_src_main_unauthenticatedReadWrapper : string :=
  "func unauthenticatedReadWrapper(handler http.HandlerFunc, secrets auth.SecretProvider, addr string) http.HandlerFunc { authenticator := &auth.BasicAuth{Realm: addr, Secrets: secrets} return func(w http.ResponseWriter, r *http.Request) { if r.Method == http.MethodGet || r.Method == http.MethodHead { handler(w, r) return } if authenticator.CheckAuth(r) != """" { handler(w, r) return } http.Error(w, ""Authorization required"", http.StatusUnauthorized) } }".
Definition expected_src_http_hasValidClientCert : string :=
  "func (h *httpCache) hasValidClientCert(w http.ResponseWriter, r *http.Request) bool { if r == nil { http.Error(w, ""invalid request"", http.StatusBadRequest) h.logResponse(http.StatusBadRequest, r) return false } if r.TLS == nil { http.Error(w, ""missing TLS connection info"", http.StatusUnauthorized) h.logResponse(http.StatusUnauthorized, r) return false } if len(r.TLS.VerifiedChains) == 0 || len(r.TLS.VerifiedChains[0]) == 0 { http.Error(w, ""no valid client certificate"", http.StatusUnauthorized) h.logResponse(http.StatusUnauthorized, r) return false } return true }".
Definition expected_src_http_VerifyClientCertHandler : string :=
  "func (h *httpCache) VerifyClientCertHandler(wrapMe http.Handler) http.Handler { return http.HandlerFunc(func(w http.ResponseWriter, r *http.Request) { if !h.hasValidClientCert(w, r) { return } wrapMe.ServeHTTP(w, r) }) }".
Definition expected_src_grpc_GRPCmTLSStreamServerInterceptor : string :=
  "func GRPCmTLSStreamServerInterceptor(allowUnauthenticatedReads bool) grpc.StreamServerInterceptor { return func(srv interface{}, ss grpc.ServerStream, info *grpc.StreamServerInfo, handler grpc.StreamHandler) error { if allowUnauthenticatedReads { _, ro := readOnlyMethods[info.FullMethod] if ro { return handler(srv, ss) } } err := checkGRPCClientCert(ss.Context()) if err != nil { return err } return handler(srv, ss) } }".
Definition expected_src_grpc_GRPCmTLSUnaryServerInterceptor : string :=
  "func GRPCmTLSUnaryServerInterceptor(allowUnauthenticatedReads bool) grpc.UnaryServerInterceptor { return func(ctx context.Context, req interface{}, info *grpc.UnaryServerInfo, handler grpc.UnaryHandler) (interface{}, error) { if info.FullMethod == grpcHealthServiceName { return handler(ctx, req) } if allowUnauthenticatedReads { _, ro := readOnlyMethods[info.FullMethod] if ro { return handler(ctx, req) } } err := checkGRPCClientCert(ctx) if err != nil { return nil, err } return handler(ctx, req) } }".
Definition expected_src_grpc_checkGRPCClientCert : string :=
  "func checkGRPCClientCert(ctx context.Context) error { p, ok := peer.FromContext(ctx) if !ok { return status.Error(codes.Unauthenticated, ""no peer found"") } tlsInfo, ok := p.AuthInfo.(credentials.TLSInfo) if !ok { return status.Error(codes.Unauthenticated, ""unrecognised peer transport credentials"") } if len(tlsInfo.State.VerifiedChains) == 0 || len(tlsInfo.State.VerifiedChains[0]) == 0 { return status.Error(codes.Unauthenticated, ""could not verify peer certificate"") } return nil }".
Definition expected_src_basic_StreamServerInterceptor : string :=
  "func (b *GrpcBasicAuth) StreamServerInterceptor(srv interface{}, ss grpc.ServerStream, info *grpc.StreamServerInfo, handler grpc.StreamHandler) error { if info.FullMethod == grpcHealthServiceName { return handler(srv, ss) } if b.allowUnauthenticatedReadOnly { _, ro := readOnlyMethods[info.FullMethod] if ro { return handler(srv, ss) } } username, password, err := getLogin(ss.Context()) if err != nil { return err } if username == """" || password == """" { return errAccessDenied } if !b.allowed(username, password) { return errAccessDenied } return handler(srv, ss) }".
Definition expected_src_basic_UnaryServerInterceptor : string :=
  "func (b *GrpcBasicAuth) UnaryServerInterceptor(ctx context.Context, req interface{}, info *grpc.UnaryServerInfo, handler grpc.UnaryHandler) (interface{}, error) { if info.FullMethod == grpcHealthServiceName { return handler(ctx, req) } if b.allowUnauthenticatedReadOnly { _, ro := readOnlyMethods[info.FullMethod] if ro { return handler(ctx, req) } } username, password, err := getLogin(ctx) if err != nil { return nil, err } if username == """" || password == """" { return nil, errAccessDenied } if !b.allowed(username, password) { return nil, errAccessDenied } return handler(ctx, req) }".
Definition expected_src_basic_getLogin : string :=
  "func getLogin(ctx context.Context) (username, password string, err error) { md, ok := metadata.FromIncomingContext(ctx) if !ok { return """", """", errNoMetadata } for k, v := range md { if k == "":authority"" && len(v) > 0 { fields := strings.SplitN(v[0], "":"", 2) if len(fields) < 2 { continue } username = fields[0] fields = strings.SplitN(fields[1], ""@"", 2) if len(fields) < 2 { continue } password = fields[0] return username, password, nil } if k == ""authorization"" && len(v) > 0 && strings.HasPrefix(v[0], ""Basic "") { auth, err := base64.StdEncoding.DecodeString(strings.TrimPrefix(v[0], ""Basic "")) if err != nil { continue } parts := strings.SplitN(string(auth), "":"", 2) if len(parts) < 2 { continue } username, password = parts[0], parts[1] return username, password, nil } } return """", """", errNoAuthMetadata }".
Definition expected_src_basic_allowed : string :=
  "func (b *GrpcBasicAuth) allowed(username, password string) bool { ignoredRealm := """" requiredSecret := b.secrets(username, ignoredRealm) if requiredSecret == """" { return false } return auth.CheckSecret(password, requiredSecret) }".

Lemma auth_sources_pinned :
  Gen.Auth.src_main_basicAuthWrapper = expected_src_main_basicAuthWrapper /\
  Gen.Auth.src_main_unauthenticatedReadWrapper = expected_src_main_unauthenticatedReadWrapper /\
  Gen.Auth.src_http_hasValidClientCert = expected_src_http_hasValidClientCert /\
  Gen.Auth.src_http_VerifyClientCertHandler = expected_src_http_VerifyClientCertHandler /\
  Gen.Auth.src_grpc_GRPCmTLSStreamServerInterceptor = expected_src_grpc_GRPCmTLSStreamServerInterceptor /\
  Gen.Auth.src_grpc_GRPCmTLSUnaryServerInterceptor = expected_src_grpc_GRPCmTLSUnaryServerInterceptor /\
  Gen.Auth.src_grpc_checkGRPCClientCert = expected_src_grpc_checkGRPCClientCert /\
  Gen.Auth.src_basic_StreamServerInterceptor = expected_src_basic_StreamServerInterceptor /\
  Gen.Auth.src_basic_UnaryServerInterceptor = expected_src_basic_UnaryServerInterceptor /\
  Gen.Auth.src_basic_getLogin = expected_src_basic_getLogin /\
  Gen.Auth.src_basic_allowed = expected_src_basic_allowed.
Proof. repeat split; reflexivity. Qed.
