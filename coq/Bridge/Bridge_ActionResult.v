(* Bridge/Bridge_ActionResult.v — the model's tables equal what go2coq regenerates from the Go
   sources on every run: the checks of validate.ActionResult (loop, condition text, error text,
   in source order), maybeNilDigest, the hash pattern, the inlining budget, and the order of the
   validation / metadata / marshal / Put calls in UpdateActionResult, GetActionResult and the HTTP
   PUT handler.  Adding, removing, reordering or rewording a check, or moving the AC Put in front
   of the CAS Puts, breaks one of these lemmas. *)
From BR Require Import Base.Prelude Gen.Consts Gen.ActionResult Model.ActionResult.
Open Scope string_scope.
Open Scope list_scope.
Open Scope Z_scope.

Lemma validate_checks_pinned : Gen.ActionResult.validate_checks = check_table.
Proof. reflexivity. Qed.

Lemma validate_ranges_pinned :
  Gen.ActionResult.validate_ranges =
  ["OutputFiles"; "OutputDirectories"; "OutputFileSymlinks"; "OutputSymlinks"; "OutputDirectorySymlinks"].
Proof. reflexivity. Qed.

Lemma digest_checks_pinned : Gen.ActionResult.digest_checks = digest_check_table.
Proof. reflexivity. Qed.

(* the pattern [is_hash] implements, and the constants the model takes from Gen *)
Lemma hash_regex_pinned : re_validate_HashKeyRegex = "^[a-f0-9]{64}$".
Proof. reflexivity. Qed.

Lemma constants_pinned :
  maxInline = 3 * 1024 * 1024 /\ hashKeyLength = 64 /\ sha256HashStrSize = 64 /\
  emptySha = "e3b0c44298fc1c149afbf4c8996fb92427ae41e4649b934ca495991b7852b855" /\
  disk_emptySha256 = server_emptySha256 /\ is_hash emptySha = true.
Proof. repeat split; reflexivity. Qed.

(* UpdateActionResult: key check, validation, worker metadata, marshalling, the three CAS Puts
   (output files, stdout, stderr), and only then the AC Put — the order [update_action_result]
   transcribes, and the one C11_reject_stores_nothing depends on *)
Lemma update_call_order_pinned :
  Gen.ActionResult.update_call_order =
  ["s.validateHash"; "validate.ActionResult"; "addWorkerMetadataGRPC"; "proto.Marshal";
   "Put cache.CAS"; "Put cache.CAS"; "Put cache.CAS"; "Put cache.AC"].
Proof. reflexivity. Qed.

(* in the model the AC put is the last operation of an accepted call: the same fact, computed *)
Lemma model_update_order_example :
  let f := mkOF "o" (Some (mkDigest emptySha 0)) false (mkBytes 3 "x") in
  let ar := mkAR [Some f] [] [] [] [] 0 (mkBytes 2 "y") None (mkBytes 1 "z") None None in
  map is_ac_put
    (snd (fst (update_action_result (fun (s : unit) _ => (s, None)) "w" true tt
                 (Some (mkUpd (Some (mkDigest emptySha 0)) (Some ar))))))
  = [false; false; false; true].
Proof. vm_compute. reflexivity. Qed.

Lemma get_call_order_pinned :
  Gen.ActionResult.get_call_order =
  ["s.validateHash"; "validate.ActionResult"; "s.cache.GetValidatedActionResult";
   "maybeInline &result.StdoutRaw &result.StdoutDigest";
   "maybeInline &result.StderrRaw &result.StderrDigest";
   "maybeInline &of.Contents &of.Digest"].
Proof. reflexivity. Qed.

Lemma http_put_order_pinned :
  Gen.ActionResult.http_put_call_order =
  ["io.ReadAll"; "decoder.DecodeAll"; "addWorkerMetadataHTTP"; "validate.ActionResult"; "proto.Marshal"; "Put kind"]
  /\ Gen.ActionResult.http_put_guards =
  ["h.checkClientCertForWrites && !h.hasValidClientCert(w, r)"; "sb != """"";
   "contentLength == -1"; "contentLength == 0 && kind == cache.CAS && hash != emptySha256";
   "contentLength > h.maxCasBlobSizeBytes"; "ce == ""zstd"""; "ce != """" && ce != ""identity"""].
Proof. split; reflexivity. Qed.

Lemma worker_metadata_conds_pinned :
  Gen.ActionResult.addWorkerMetadataGRPC_conds =
  ["ar.ExecutionMetadata == nil"; "ar.ExecutionMetadata.Worker != """""; "!ok"; "addr == """"";
   "!strings.ContainsAny(addr, "":"")"; "err != nil"]
  /\ Gen.ActionResult.addWorkerMetadataHTTP_conds =
  ["ct == ""application/json"""; "err != nil"; "ar.ExecutionMetadata == nil";
   "ar.ExecutionMetadata.Worker != """""; "worker == """""; "err != nil || worker == """""].
Proof. split; reflexivity. Qed.

(* GetValidatedActionResult: what is appended to pendingValidations and under which guards —
   the walk [pending] / [referenced] transcribe (C06) *)
Lemma pending_walk_pinned :
  Gen.ActionResult.pending_appends = ["f.Digest"; "f.Digest"; "f.Digest"; "result.StdoutDigest"; "result.StderrDigest"]
  /\ Gen.ActionResult.pending_walk =
  ["range result.OutputFiles"; "if len(f.Contents) == 0"; "range result.OutputDirectories";
   "range tree.Root.GetFiles()"; "if f.Digest != nil"; "range tree.GetChildren()"; "range child.GetFiles()";
   "if f.Digest != nil"; "if result.StdoutDigest != nil"; "if result.StderrDigest != nil"].
Proof. split; reflexivity. Qed.

(* the model's validator visits the checks in the order of the table: each class of error is
   produced by a message that fails exactly that check and passes all earlier ones *)
Lemma check_order_witnessed :
  let h := emptySha in
  let okd := Some (mkDigest h 0) in
  let ar fs ds s1 s2 s3 so se := Some (mkAR fs s1 s2 ds s3 0 no_bytes so no_bytes se None) in
  map validate_r
    [ None;
      ar [None] [None] [] [] [] None None;
      ar [Some (mkOF "" okd false no_bytes)] [None] [] [] [] None None;
      ar [Some (mkOF "/a" None false no_bytes)] [] [] [] [] None None;
      ar [Some (mkOF "a" None false no_bytes)] [] [] [] [] None None;
      ar [Some (mkOF "a" (Some (mkDigest h (-1))) false no_bytes)] [] [] [] [] None None;
      ar [] [None] [None] [] [] None None;
      ar [] [Some (mkOD "/d" None)] [] [] [] None None;
      ar [] [Some (mkOD "" None)] [] [] [] None None;
      ar [] [Some (mkOD "" (Some (mkDigest "zz" 0)))] [] [] [] None None;
      ar [] [] [None] [None] [] None None;
      ar [] [] [Some (mkSL "" "")] [] [] None None;
      ar [] [] [Some (mkSL "/p" "")] [] [] None None;
      ar [] [] [Some (mkSL "/p" "t")] [] [] None None;
      ar [] [] [] [None] [None] None None;
      ar [] [] [] [Some (mkSL "" "")] [] None None;
      ar [] [] [] [Some (mkSL "/p" "")] [] None None;
      ar [] [] [] [Some (mkSL "/p" "t")] [] None None;
      ar [] [] [] [] [None] (Some (mkDigest "" 0)) None;
      ar [] [] [] [] [Some (mkSL "" "")] None None;
      ar [] [] [] [] [Some (mkSL "/p" "")] None None;
      ar [] [] [] [] [Some (mkSL "/p" "t")] None None;
      ar [] [] [] [] [] (Some (mkDigest h (-5))) (Some (mkDigest "" 0));
      ar [] [] [] [] [] okd (Some (mkDigest "" 0)) ]
  = map (fun e => Ok (Some e)) all_verr.
Proof. vm_compute. reflexivity. Qed.
