(* Bridge/Bridge_Keys.v — the constants, patterns, format strings, keywords and decision structure that
   Model/Keys.v and Model/ByteStream.v copy from the source equal what tools/go2coq regenerates from
   /repo (Gen/Consts.v, Gen/Funcs.v, Gen/Keys.v).  An edit of the source breaks one of these. *)
From BR Require Import Base.Prelude Gen.Consts Gen.Funcs Gen.Keys Model.Keys Model.ByteStream.
Open Scope string_scope.
Open Scope Z_scope.

(* ---- constants and patterns *)
Lemma blobNameSHA256_pinned : re_server_blobNameSHA256 = "^/?(.*/)?(ac/|cas/)([a-f0-9]{64})$".
Proof. reflexivity. Qed.
Lemma HashKeyRegex_pinned : re_validate_HashKeyRegex = "^[a-f0-9]{64}$".
Proof. reflexivity. Qed.
Lemma hash_constants_pinned :
  hashKeyLength = 64 /\ sha256HashStrSize = 64 /\
  server_emptySha256 = Keys.emptySha256 /\ disk_emptySha256 = Keys.emptySha256 /\
  is_hash Keys.emptySha256 = true.
Proof. repeat split; reflexivity. Qed.
Lemma compression_constants_pinned : Identity = cmp_identity /\ Zstandard = cmp_zstd.
Proof. split; reflexivity. Qed.

(* ---- EntryKind.String / DirName / LookupKey *)
Lemma kind_string_bridge k : Gen.EntryKind_String (kind_to_Z k) = kind_string k.
Proof. destruct k; reflexivity. Qed.
Lemma dir_name_bridge k : Gen.EntryKind_DirName (kind_to_Z k) = dir_name k.
Proof. destruct k; reflexivity. Qed.
Lemma lookup_key_bridge k h :
  stmts_cache_LookupKey = ["return kind.String() + ""/"" + hash"] /\
  lookup_key k h = Gen.EntryKind_String (kind_to_Z k) ++ nth 0 lits_cache_LookupKey "" ++ h.
Proof. split; [reflexivity|destruct k; reflexivity]. Qed.

Lemma transform_ac_key_pinned :
  conds_cache_TransformActionCacheKey = ["instance == """""] /\
  stmts_cache_TransformActionCacheKey =
    ["if instance == """""; "return key"; "h.Write([]byte(key))"; "h.Write([]byte(instance))";
     "newKey := hex.EncodeToString(b[:])";
     "logger.Printf(""REMAP AC HASH %s : %s => %s"", key, instance, newKey)"; "return newKey"].
Proof. split; reflexivity. Qed.

(* ---- FileLocation / FileLocationBase: the model is the reading of the regenerated format strings.
   [fmt_subst] substitutes the arguments for the %s / %d verbs of a format string. *)
Fixpoint fmt_subst (f : string) (args : list string) : string :=
  match f with
  | "" => ""
  | String c f' =>
      if Ascii.eqb c "%" then
        match f', args with
        | String _ f'', a :: args' => match f'' with "" => a | _ => a ++ fmt_subst f'' args' end
        | _, _ => "?"
        end
      else String c (fmt_subst f' args)
  end.

Definition gen_file_location (k : kind) (legacy : bool) (hash : string) (size : Z) (random : string) : result string :=
  let L i := nth i lits_disk_FileLocation "?" in
  if (String.length hash <? 2)%nat then Panic "FileLocation: hash[:2]" else
  match k with
  | RAW => Ok (path_join [L 0%nat; take 2 hash; hash ++ L 1%nat ++ random])
  | AC => Ok (path_join [L 2%nat; take 2 hash; hash ++ L 3%nat ++ random])
  | CAS => if legacy then Ok (fmt_subst (L 4%nat) [take 2 hash; hash; random])
           else Ok (fmt_subst (L 5%nat) [take 2 hash; hash; Z_to_dec size; random])
  end.

Lemma file_location_bridge k legacy hash size random :
  file_location k legacy hash size random = gen_file_location k legacy hash size random.
Proof.
  unfold file_location, gen_file_location.
  destruct (String.length hash <? 2)%nat; [reflexivity|].
  destruct k; [reflexivity|destruct legacy; reflexivity|reflexivity].
Qed.

Lemma file_location_structure_pinned :
  conds_disk_FileLocation = ["kind == cache.RAW"; "kind == cache.AC"; "legacy"] /\
  stmts_disk_FileLocation =
    ["if kind == cache.RAW"; "return path.Join(""raw.v2"", hash[:2], hash+""-""+random)";
     "if kind == cache.AC"; "return path.Join(""ac.v2"", hash[:2], hash+""-""+random)";
     "if legacy"; "return fmt.Sprintf(""cas.v2/%s/%s-%s.v1"", hash[:2], hash, random)";
     "return fmt.Sprintf(""cas.v2/%s/%s-%d-%s"", hash[:2], hash, size, random)"].
Proof. split; reflexivity. Qed.

Definition gen_file_location_base (k : kind) (legacy : bool) (hash : string) (size : Z) : result string :=
  let L i := nth i lits_disk_FileLocationBase "?" in
  if (String.length hash <? 2)%nat then Panic "FileLocationBase: hash[:2]" else
  match k with
  | RAW => Ok (path_join [L 0%nat; take 2 hash; hash])
  | AC => Ok (path_join [L 1%nat; take 2 hash; hash])
  | CAS => if legacy then Ok (path_join [L 2%nat; take 2 hash; hash])
           else Ok (fmt_subst (L 3%nat) [take 2 hash; hash; Z_to_dec size])
  end.

Lemma file_location_base_bridge k legacy hash size :
  file_location_base k legacy hash size = gen_file_location_base k legacy hash size.
Proof.
  unfold file_location_base, gen_file_location_base.
  destruct (String.length hash <? 2)%nat; [reflexivity|].
  destruct k; [reflexivity|destruct legacy; reflexivity|reflexivity].
Qed.

Lemma file_location_base_structure_pinned :
  conds_disk_FileLocationBase = ["kind == cache.RAW"; "kind == cache.AC"; "legacy"] /\
  stmts_disk_FileLocationBase =
    ["if kind == cache.RAW"; "return path.Join(""raw.v2"", hash[:2], hash)";
     "if kind == cache.AC"; "return path.Join(""ac.v2"", hash[:2], hash)";
     "if legacy"; "return path.Join(""cas.v2"", hash[:2], hash)";
     "return fmt.Sprintf(""cas.v2/%s/%s-%d"", hash[:2], hash, size)"].
Proof. split; reflexivity. Qed.

(* the directory names used by FileLocation are EntryKind.DirName *)
Lemma file_location_dirs_are_dir_names :
  nth 0 lits_disk_FileLocation "" = dir_name RAW /\ nth 2 lits_disk_FileLocation "" = dir_name AC /\
  starts_with (dir_name CAS ++ "/") (nth 4 lits_disk_FileLocation "") = true /\
  starts_with (dir_name CAS ++ "/") (nth 5 lits_disk_FileLocation "") = true.
Proof. repeat split; reflexivity. Qed.

(* ---- getElementPath: the prefix chain *)
Definition gen_element_kind (key : string) : kind :=
  let L i := nth i lits_disk_getElementPath "?" in
  if starts_with (L 0%nat) key then CAS else if starts_with (L 1%nat) key then AC
  else if starts_with (L 2%nat) key then RAW else AC.
Lemma element_kind_bridge key : element_kind key = gen_element_kind key.
Proof. reflexivity. Qed.
Lemma getElementPath_pinned :
  stmts_disk_getElementPath =
    ["hash := ks[len(ks)-sha256.Size*2:]"; "if strings.HasPrefix(ks, ""cas"")"; "kind = cache.CAS";
     "if strings.HasPrefix(ks, ""ac"")"; "kind = cache.AC"; "if strings.HasPrefix(ks, ""raw"")"; "kind = cache.RAW";
     "return filepath.Join(c.dir, c.FileLocation(kind, value.legacy, hash, value.size, value.random))"] /\
  conds_disk_getElementPath =
    ["strings.HasPrefix(ks, ""cas"")"; "strings.HasPrefix(ks, ""ac"")"; "strings.HasPrefix(ks, ""raw"")"].
Proof. split; reflexivity. Qed.

(* ---- compressed reads *)
Lemma zstd_guard_pinned :
  stmts_disk_get_zstd_guard = ["if kind != cache.CAS && zstd"; "return nil, -1, errOnlyCompressedCAS"] /\
  lits_disk_errOnlyCompressedCAS = ["Only CAS blobs are available in compressed form"] /\
  stmts_disk_GetZstd = ["return c.get(ctx, cache.CAS, hash, size, offset, true)"].
Proof. repeat split; reflexivity. Qed.

(* ---- parseRequestURL, CacheHandler *)
Lemma parseRequestURL_pinned :
  conds_server_parseRequestURL = ["m == nil"; "len(parts) != 2"; "parts[0] == ""cas/"""; "validateAC"] /\
  stmts_server_parseRequestURL =
    ["m := blobNameSHA256.FindStringSubmatch(url)"; "instance = strings.TrimSuffix(m[1], ""/"")";
     "parts := m[2:]"; "hash = parts[1]"; "if parts[0] == ""cas/"""; "return cache.CAS, hash, instance, nil";
     "if validateAC"; "return cache.AC, hash, instance, nil"; "return cache.RAW, hash, instance, nil"].
Proof. split; reflexivity. Qed.
Lemma CacheHandler_key_pinned :
  stmts_server_CacheHandler_key =
    ["kind, hash, instance, err := parseRequestURL(r.URL.Path, h.validateAC)";
     "if h.mangleACKeys && (kind == cache.AC || kind == cache.RAW)";
     "hash = cache.TransformActionCacheKey(hash, instance, h.accessLogger)";
     "if kind == cache.CAS && strings.Contains(r.Header.Get(""Accept-Encoding""), ""zstd"")";
     "rdr, sizeBytes, err = h.cache.GetZstd(r.Context(), hash, -1, 0)"].
Proof. reflexivity. Qed.

(* ---- validateHash; gRPC: validate the client's hash first, mangle afterwards *)
Lemma validateHash_pinned :
  conds_server_validateHash =
    ["size == int64(0)"; "hash == emptySha256"; "len(hash) != hashKeyLength"; "!validate.HashKeyRegex.MatchString(hash)"].
Proof. reflexivity. Qed.
Lemma grpc_ac_key_order_pinned :
  stmts_server_GetActionResult_key =
    ["err := s.validateHash(req.ActionDigest.Hash, req.ActionDigest.SizeBytes, logPrefix)";
     "if s.mangleACKeys";
     "req.ActionDigest.Hash = cache.TransformActionCacheKey(req.ActionDigest.Hash, req.InstanceName, s.accessLogger)"] /\
  stmts_server_UpdateActionResult_key = stmts_server_GetActionResult_key.
Proof. split; reflexivity. Qed.

(* ---- ByteStream resource names *)
Lemma resource_keywords_pinned :
  keywords_server_parseWriteResource = ["/"; "uploads"; "blobs"; "compressed-blobs"; "zstd"] /\
  keywords_server_parseReadResource = ["/"; "blobs"; "compressed-blobs"; "zstd"].
Proof. split; reflexivity. Qed.
Lemma parseWriteResource_pinned :
  conds_server_parseWriteResource =
    ["fields[i] == ""uploads"""; "len(rem) < 4"; "rem[1] == ""blobs"""; "err != nil"; "size < 0"; "err != nil";
     "rem[1] != ""compressed-blobs"" || len(rem) < 5 || rem[2] != ""zstd"""; "err != nil"; "size < 0"; "err != nil"] /\
  stmts_server_parseWriteResource =
    ["fields := strings.Split(r, ""/"")"; "if fields[i] == ""uploads"""; "rem = fields[i+1:]";
     "if rem[1] == ""blobs"""; "hash := rem[2]"; "size, err := strconv.ParseInt(rem[3], 10, 64)"; "if err != nil";
     "return """", 0, casblob.Identity, status.Errorf(codes.InvalidArgument, ""Unable to parse size: %s from %q"", rem[3], r)";
     "sizeStr := rem[4]"; "hash := rem[3]"].
Proof. split; reflexivity. Qed.
Lemma parseReadResource_pinned :
  conds_server_parseReadResource =
    ["fields[i] == ""blobs"""; "fields[i] == ""compressed-blobs"""; "foundBlobs"; "len(rem) != 2"; "err != nil";
     "size < 0"; "err != nil"; "!foundCompressedBlobs || len(rem) != 3"; "rem[0] != ""zstd"""; "err != nil";
     "size < 0"; "err != nil"] /\
  stmts_server_parseReadResource =
    ["fields := strings.Split(name, ""/"")"; "if fields[i] == ""blobs"""; "rem = fields[i+1:]";
     "if fields[i] == ""compressed-blobs"""; "rem = fields[i+1:]"; "if foundBlobs"; "hash := rem[0]";
     "size, err := strconv.ParseInt(rem[1], 10, 64)"; "if err != nil";
     "msg := fmt.Sprintf(""Invalid size: %s from %q"", rem[1], name)"; "hash := rem[1]"; "sizeStr := rem[2]"].
Proof. split; reflexivity. Qed.

(* ---- ByteStream.Write: the skeleton of the two goroutines (which condition sends what on which
   channel, in source order) and every update of committed_size *)
Lemma Write_channels_pinned :
  stmts_server_Write_channels =
    ["putResult := make(chan error, 1)"; "recvResult := make(chan error, 1)";
     "if err == io.EOF"; "if firstIteration";
     "recvResult <- status.Error(codes.InvalidArgument, ""Write stream closed without any WriteRequest"")";
     "if cmp == casblob.Identity && resp.CommittedSize != size"; "recvResult <- status.Error(codes.Unknown, msg)";
     "recvResult <- io.EOF"; "if err != nil"; "recvResult <- status.Error(codes.Internal, err.Error())";
     "if resourceName == """""; "recvResult <- status.Error(codes.InvalidArgument, msg)";
     "if err != nil"; "recvResult <- err";
     "if size > s.maxCasBlobSizeBytes";
     "recvResult <- status.Errorf(codes.InvalidArgument, ""Blob size %d exceeds maximum allowed size %d"", size, s.maxCasBlobSizeBytes)";
     "if exists && !(size == 0 && hash == emptySha256)"; "putResult <- io.EOF";
     "if req.WriteOffset != 0"; "recvResult <- err";
     "if !ok"; "recvResult <- errDecoderPoolFail"; "if err != nil"; "recvResult <- err";
     "putResult <- err";
     "if req.ResourceName != """" && resourceName != req.ResourceName"; "recvResult <- status.Error(codes.InvalidArgument, msg)";
     "if err != nil"; "recvResult <- status.Error(codes.Internal, err.Error())";
     "if cmp == casblob.Identity && resp.CommittedSize > size"; "recvResult <- status.Error(codes.OutOfRange, msg)";
     "if req.FinishWrite"; "if cmp == casblob.Identity && resp.CommittedSize != size";
     "recvResult <- status.Error(codes.Unknown, msg)"; "recvResult <- io.EOF";
     "err, ok := <-recvResult"; "err := <-putResult"; "err := <-putResult"].
Proof. reflexivity. Qed.
(* the early-return condition of the model is this one (Contains answers [contains]) *)
Lemma Write_early_return_pinned :
  In "exists && !(size == 0 && hash == emptySha256)" conds_server_Write /\
  forall present h sz, early_return present h sz = contains present h sz && negb ((sz =? 0) && String.eqb h Keys.emptySha256).
Proof. split; [cbn; tauto|reflexivity]. Qed.
(* presence is asked for the DECLARED size, in Write and in QueryWriteStatus (the model's [contains
   present hash size] is about a blob with this hash and this size) *)
Lemma Contains_args_pinned :
  stmts_server_Write_contains = ["if firstIteration"; "exists, _ := s.cache.Contains(srv.Context(), cache.CAS, hash, size)"] /\
  stmts_server_QueryWriteStatus_contains = ["exists, _ := s.cache.Contains(ctx, cache.CAS, hash, size)"].
Proof. split; reflexivity. Qed.
Lemma Write_committed_pinned :
  filter (fun s => starts_with "resp.CommittedSize" s) stmts_server_Write_committed =
    ["resp.CommittedSize = size"; "resp.CommittedSize = -1"; "resp.CommittedSize = req.WriteOffset";
     "resp.CommittedSize += int64(n)"].
Proof. reflexivity. Qed.
Lemma QueryWriteStatus_pinned :
  conds_server_QueryWriteStatus = ["req == nil"; "err != nil"; "!exists"] /\
  stmts_server_QueryWriteStatus =
    ["hash, size, _, err := s.parseWriteResource(req.ResourceName)";
     "exists, _ := s.cache.Contains(ctx, cache.CAS, hash, size)"].
Proof. split; reflexivity. Qed.
