(* Bridge/Bridge_Front.v — the texts regenerated from /repo (Gen/Front.v: main.go's wiring of
   max_blob_size, GetCapabilities, maxChunkSize, the gRPCErrCode table, and per endpoint the guards and
   the disk-cache calls in source order) are exactly the ones Model/Front.v was written against.
   Every lemma is by reflexivity: an edit of a guard, a call argument or the wiring breaks it. *)
From BR Require Import Base.Prelude Gen.Front Model.LRU Model.Disk Model.Front.
Open Scope string_scope.
Open Scope Z_scope.

(* ---- the wiring and constants the model itself carries ---- *)

Lemma wiring_pinned : Gen.Front.front_wiring = Model.Front.wiring_expected.
Proof. reflexivity. Qed.

(* whatever main.go passes for max_blob_size, it passes the SAME expression to the disk layer, the
   HTTP handler and the gRPC server, and GetCapabilities reports the gRPC server's field *)
Lemma wiring_one_value :
  exists e, In ("disk.WithMaxBlobSize", e) front_wiring /\ In ("server.NewHTTPCache#9", e) front_wiring /\
            In ("server.ListenAndServeGRPC#6", e) front_wiring.
Proof. exists "c.MaxBlobSize". cbv [front_wiring In]. tauto. Qed.

Lemma maxChunkSize_pinned : Gen.Front.front_maxChunkSize = Model.Front.maxChunkSize.
Proof. reflexivity. Qed.

(* ---- texts the adapters mirror (snapshot of the source the model was written against) ---- *)

Definition expected_wiring_inner : list (string * string) :=
[
  ("ListenAndServeGRPC->ServeGRPC#5", "maxCasBlobSizeBytes");
  ("ServeGRPC: grpcServer.maxCasBlobSizeBytes", "maxCasBlobSizeBytes");
  ("NewHTTPCache: httpCache.maxCasBlobSizeBytes", "maxCasBlobSizeBytes")
].
Lemma wiring_inner_pinned : Gen.Front.front_wiring_inner = expected_wiring_inner.
Proof. reflexivity. Qed.

Definition expected_caps_SupportedCompressors : string :=
"[]pb.Compressor_Value{pb.Compressor_ZSTD}".
Lemma caps_SupportedCompressors_pinned : Gen.Front.front_caps_SupportedCompressors = expected_caps_SupportedCompressors.
Proof. reflexivity. Qed.

Definition expected_caps_SupportedBatchUpdateCompressors : string :=
"[]pb.Compressor_Value{pb.Compressor_ZSTD}".
Lemma caps_SupportedBatchUpdateCompressors_pinned : Gen.Front.front_caps_SupportedBatchUpdateCompressors = expected_caps_SupportedBatchUpdateCompressors.
Proof. reflexivity. Qed.

Definition expected_caps_BlobSpliceSupport : string :=
"true".
Lemma caps_BlobSpliceSupport_pinned : Gen.Front.front_caps_BlobSpliceSupport = expected_caps_BlobSpliceSupport.
Proof. reflexivity. Qed.

Definition expected_gRPCErrCode : list (string * string) :=
[
  ("if err == nil", "codes.OK");
  ("case http.StatusInsufficientStorage", "codes.ResourceExhausted");
  ("case http.StatusBadRequest", "codes.InvalidArgument");
  ("case http.StatusNotFound", "codes.NotFound");
  ("otherwise", "dflt")
].
Lemma gRPCErrCode_pinned : Gen.Front.front_gRPCErrCode = expected_gRPCErrCode.
Proof. reflexivity. Qed.

Definition expected_validateHash_conds : list string :=
[
  "size == int64(0)";
  "hash == emptySha256";
  "len(hash) != hashKeyLength";
  "!validate.HashKeyRegex.MatchString(hash)"
].
Lemma validateHash_conds_pinned : Gen.Front.front_validateHash_conds = expected_validateHash_conds.
Proof. reflexivity. Qed.

Definition expected_http_headers : list string :=
[
  "Accept-Encoding";
  "Content-Type";
  "Content-Encoding";
  "Content-Length";
  "X-Digest-SizeBytes"
].
Lemma http_headers_pinned : Gen.Front.front_http_headers = expected_http_headers.
Proof. reflexivity. Qed.

Definition expected_http_put_conds : list string :=
[
  "h.checkClientCertForWrites && !h.hasValidClientCert(w, r)";
  "sb != """"";
  "err != nil";
  "contentLength == -1";
  "contentLength == 0 && kind == cache.CAS && hash != emptySha256";
  "contentLength > h.maxCasBlobSizeBytes";
  "ce == ""zstd""";
  "ce != """" && ce != ""identity""";
  "h.validateAC && kind == cache.AC";
  "err != nil";
  "zstdCompressed";
  "err != nil";
  "int64(len(data)) != contentLength";
  "err != nil";
  "err != nil";
  "err != nil";
  "zstdCompressed";
  "!ok";
  "err != nil";
  "z != nil";
  "err != nil";
  "ok";
  "cerr.Code == http.StatusInsufficientStorage"
].
Lemma http_put_conds_pinned : Gen.Front.front_http_put_conds = expected_http_put_conds.
Proof. reflexivity. Qed.

Definition expected_http_put_calls : list string :=
[
  "Put(kind, hash, contentLength, rdr)"
].
Lemma http_put_calls_pinned : Gen.Front.front_http_put_calls = expected_http_put_calls.
Proof. reflexivity. Qed.

Definition expected_http_get_calls : list string :=
[
  "GetZstd(hash, -1, 0)";
  "Get(kind, hash, -1, 0)"
].
Lemma http_get_calls_pinned : Gen.Front.front_http_get_calls = expected_http_get_calls.
Proof. reflexivity. Qed.

Definition expected_http_head_calls : list string :=
[
  "Contains(kind, hash, -1)"
].
Lemma http_head_calls_pinned : Gen.Front.front_http_head_calls = expected_http_head_calls.
Proof. reflexivity. Qed.

Definition expected_BatchUpdateBlobs_conds : list string :=
[
  "in == nil";
  "req == nil";
  "req.Digest == nil";
  "err != nil";
  "req.Compressor != pb.Compressor_IDENTITY && req.Compressor != pb.Compressor_ZSTD";
  "req.Compressor == pb.Compressor_ZSTD";
  "err != nil";
  "int64(len(req.Data)) != req.Digest.SizeBytes";
  "err != nil && err != io.EOF"
].
Lemma BatchUpdateBlobs_conds_pinned : Gen.Front.front_BatchUpdateBlobs_conds = expected_BatchUpdateBlobs_conds.
Proof. reflexivity. Qed.

Definition expected_BatchUpdateBlobs_calls : list string :=
[
  "Put(cache.CAS, req.Digest.Hash, int64(len(req.Data)), bytes.NewReader(req.Data))"
].
Lemma BatchUpdateBlobs_calls_pinned : Gen.Front.front_BatchUpdateBlobs_calls = expected_BatchUpdateBlobs_calls.
Proof. reflexivity. Qed.

Definition expected_getBlobData_conds : list string :=
[
  "size < 0";
  "size == 0";
  "err != nil";
  "rdr != nil";
  "rdr == nil";
  "sizeBytes != size";
  "err != nil"
].
Lemma getBlobData_conds_pinned : Gen.Front.front_getBlobData_conds = expected_getBlobData_conds.
Proof. reflexivity. Qed.

Definition expected_getBlobData_calls : list string :=
[
  "Get(cache.CAS, hash, size, 0)"
].
Lemma getBlobData_calls_pinned : Gen.Front.front_getBlobData_calls = expected_getBlobData_calls.
Proof. reflexivity. Qed.

Definition expected_getBlobResponse_conds : list string :=
[
  "allowZstd";
  "rc != nil";
  "err != nil";
  "rc == nil || foundSize != digest.SizeBytes";
  "err != nil";
  "err == errBlobNotFound";
  "err != nil"
].
Lemma getBlobResponse_conds_pinned : Gen.Front.front_getBlobResponse_conds = expected_getBlobResponse_conds.
Proof. reflexivity. Qed.

Definition expected_getBlobResponse_calls : list string :=
[
  "GetZstd(digest.Hash, digest.SizeBytes, 0)"
].
Lemma getBlobResponse_calls_pinned : Gen.Front.front_getBlobResponse_calls = expected_getBlobResponse_calls.
Proof. reflexivity. Qed.

Definition expected_BatchReadBlobs_conds : list string :=
[
  "in == nil";
  "c == pb.Compressor_ZSTD";
  "digest == nil";
  "err != nil"
].
Lemma BatchReadBlobs_conds_pinned : Gen.Front.front_BatchReadBlobs_conds = expected_BatchReadBlobs_conds.
Proof. reflexivity. Qed.

Definition expected_BatchReadBlobs_calls : list string :=
[

].
Lemma BatchReadBlobs_calls_pinned : Gen.Front.front_BatchReadBlobs_calls = expected_BatchReadBlobs_calls.
Proof. reflexivity. Qed.

Definition expected_GetTree_conds : list string :=
[
  "in == nil";
  "in.RootDigest == nil";
  "err != nil";
  "err == errBlobNotFound";
  "err != nil";
  "err != nil";
  "err != nil";
  "err != nil"
].
Lemma GetTree_conds_pinned : Gen.Front.front_GetTree_conds = expected_GetTree_conds.
Proof. reflexivity. Qed.

Definition expected_GetTree_calls : list string :=
[

].
Lemma GetTree_calls_pinned : Gen.Front.front_GetTree_calls = expected_GetTree_calls.
Proof. reflexivity. Qed.

Definition expected_fillDirectories_conds : list string :=
[
  "err != nil";
  "dirNode == nil || dirNode.Digest == nil";
  "err != nil";
  "cycle";
  "err == errBlobNotFound";
  "err != nil";
  "err != nil";
  "err != nil"
].
Lemma fillDirectories_conds_pinned : Gen.Front.front_fillDirectories_conds = expected_fillDirectories_conds.
Proof. reflexivity. Qed.

Definition expected_fillDirectories_calls : list string :=
[

].
Lemma fillDirectories_calls_pinned : Gen.Front.front_fillDirectories_calls = expected_fillDirectories_calls.
Proof. reflexivity. Qed.

Definition expected_SpliceBlob_conds : list string :=
[
  "req == nil";
  "req.DigestFunction != pb.DigestFunction_UNKNOWN && req.DigestFunction != pb.DigestFunction_SHA256";
  "ok";
  "len(req.ChunkDigests) == 0";
  "chunkDigest == nil";
  "chunkDigest.SizeBytes < 0";
  "chunkDigest.SizeBytes == 0 || chunkDigest.Hash == emptySha256";
  "!validate.HashKeyRegex.MatchString(chunkDigest.Hash)";
  "chunkTotal <= 0";
  "req.BlobDigest == nil";
  "err != nil";
  "rc != nil";
  "rc == nil";
  "err != nil";
  "copiedBytes != chunkDigest.SizeBytes";
  "s.maxCasBlobSizeBytes > 0 && req.BlobDigest.SizeBytes > s.maxCasBlobSizeBytes";
  "req.BlobDigest.SizeBytes == 0 || req.BlobDigest.Hash == emptySha256";
  "req.BlobDigest.SizeBytes < 0";
  "checkBlobDigestHashMatchesRegex && !validate.HashKeyRegex.MatchString(req.BlobDigest.Hash)";
  "chunkTotal != req.BlobDigest.SizeBytes";
  "alreadyHaveSplicedBlob";
  "err != nil";
  "rc != nil";
  "rc == nil";
  "err != nil";
  "copiedBytes != chunkDigest.SizeBytes";
  "err != nil";
  "ok && writerErr != nil"
].
Lemma SpliceBlob_conds_pinned : Gen.Front.front_SpliceBlob_conds = expected_SpliceBlob_conds.
Proof. reflexivity. Qed.

Definition expected_SpliceBlob_calls : list string :=
[
  "Get(cache.CAS, chunkDigest.Hash, chunkDigest.SizeBytes, 0)";
  "Contains(cache.CAS, req.BlobDigest.Hash, req.BlobDigest.SizeBytes)";
  "Get(cache.CAS, chunkDigest.Hash, chunkDigest.SizeBytes, 0)";
  "Put(cache.CAS, req.BlobDigest.Hash, req.BlobDigest.SizeBytes, pr)"
].
Lemma SpliceBlob_calls_pinned : Gen.Front.front_SpliceBlob_calls = expected_SpliceBlob_calls.
Proof. reflexivity. Qed.

Definition expected_Read_conds : list string :=
[
  "req == nil";
  "err != nil";
  "size == 0";
  "cmp == casblob.Identity";
  "err != nil";
  "req.ReadOffset < 0";
  "cmp != casblob.Identity && req.ReadLimit != 0";
  "req.ReadLimit < 0";
  "req.ReadOffset > size";
  "cmp == casblob.Zstandard";
  "rc != nil";
  "err != nil";
  "rc == nil";
  "foundSize != size";
  "bufSize > maxChunkSize";
  "n > 0";
  "limitedSend";
  "(sendLimitRemaining - int64(n)) < 0";
  "sendErr != nil";
  "err == io.EOF";
  "err != nil"
].
Lemma Read_conds_pinned : Gen.Front.front_Read_conds = expected_Read_conds.
Proof. reflexivity. Qed.

Definition expected_Read_calls : list string :=
[
  "GetZstd(hash, size, req.ReadOffset)";
  "Get(cache.CAS, hash, size, req.ReadOffset)"
].
Lemma Read_calls_pinned : Gen.Front.front_Read_calls = expected_Read_calls.
Proof. reflexivity. Qed.

Definition expected_Write_conds : list string :=
[
  "err == io.EOF";
  "firstIteration";
  "cmp == casblob.Identity && resp.CommittedSize != size";
  "err != nil";
  "firstIteration";
  "resourceName == """"";
  "err != nil";
  "size > s.maxCasBlobSizeBytes";
  "exists && !(size == 0 && hash == emptySha256)";
  "cmp == casblob.Identity";
  "req.WriteOffset != 0";
  "cmp == casblob.Zstandard";
  "!ok";
  "err != nil";
  "req.ResourceName != """" && resourceName != req.ResourceName";
  "err != nil";
  "cmp == casblob.Identity && resp.CommittedSize > size";
  "req.FinishWrite";
  "cmp == casblob.Identity && resp.CommittedSize != size";
  "!ok";
  "err == io.EOF";
  "err != nil";
  "err == io.EOF";
  "err != nil";
  "err == nil";
  "err == io.EOF";
  "err != nil";
  "err != nil";
  "err != nil"
].
Lemma Write_conds_pinned : Gen.Front.front_Write_conds = expected_Write_conds.
Proof. reflexivity. Qed.

Definition expected_Write_calls : list string :=
[
  "Contains(cache.CAS, hash, size)";
  "Put(cache.CAS, hash, size, rc)"
].
Lemma Write_calls_pinned : Gen.Front.front_Write_calls = expected_Write_calls.
Proof. reflexivity. Qed.

Definition expected_UpdateActionResult_conds : list string :=
[
  "req == nil";
  "req.ActionDigest == nil";
  "err != nil";
  "s.mangleACKeys";
  "err != nil";
  "err != nil";
  "len(data) == 0";
  "f != nil && len(f.Contents) > 0";
  "f.Digest == nil";
  "err != nil && err != io.EOF";
  "len(req.ActionResult.StdoutRaw) > 0";
  "req.ActionResult.StdoutDigest != nil";
  "err != nil && err != io.EOF";
  "len(req.ActionResult.StderrRaw) > 0";
  "req.ActionResult.StderrDigest != nil";
  "err != nil && err != io.EOF";
  "err != nil && err != io.EOF"
].
Lemma UpdateActionResult_conds_pinned : Gen.Front.front_UpdateActionResult_conds = expected_UpdateActionResult_conds.
Proof. reflexivity. Qed.

Definition expected_UpdateActionResult_calls : list string :=
[
  "Put(cache.CAS, f.Digest.Hash, f.Digest.SizeBytes, bytes.NewReader(f.Contents))";
  "Put(cache.CAS, hash, sizeBytes, bytes.NewReader(req.ActionResult.StdoutRaw))";
  "Put(cache.CAS, hash, sizeBytes, bytes.NewReader(req.ActionResult.StderrRaw))";
  "Put(cache.AC, req.ActionDigest.Hash, int64(len(data)), bytes.NewReader(data))"
].
Lemma UpdateActionResult_calls_pinned : Gen.Front.front_UpdateActionResult_calls = expected_UpdateActionResult_calls.
Proof. reflexivity. Qed.

Definition expected_maybeInline_conds : list string :=
[
  "(*inlinedSoFar + int64(len(*slice))) > maxInlineSize";
  "digest != nil && *digest != nil && (*inlinedSoFar+(*digest).SizeBytes) > maxInlineSize";
  "!inline";
  "len(*slice) == 0";
  "*digest == nil";
  "!found";
  "err == nil || err == io.EOF";
  "len(*slice) > 0";
  "digest == nil || *digest == nil || (*digest).SizeBytes == 0";
  "(*digest).SizeBytes > 0";
  "err != nil"
].
Lemma maybeInline_conds_pinned : Gen.Front.front_maybeInline_conds = expected_maybeInline_conds.
Proof. reflexivity. Qed.

Definition expected_maybeInline_calls : list string :=
[
  "Contains(cache.CAS, (*digest).Hash, (*digest).SizeBytes)";
  "Put(cache.CAS, (*digest).Hash, (*digest).SizeBytes, bytes.NewReader(*slice))"
].
Lemma maybeInline_calls_pinned : Gen.Front.front_maybeInline_calls = expected_maybeInline_calls.
Proof. reflexivity. Qed.

Definition expected_FetchBlob_conds : list string :=
[
  "req == nil";
  "q == nil";
  "strings.HasPrefix(q.Name, QualifierHTTPHeaderPrefix)";
  "strings.HasPrefix(q.Name, QualifierHTTPHeaderUrlPrefix)";
  "len(parts) != 2";
  "err != nil";
  "uriIndex < 0 || uriIndex >= len(req.GetUris())";
  "!found";
  "q.Name == ""checksum.sri"" && strings.HasPrefix(q.Value, ""sha256-"")";
  "err != nil";
  "!found";
  "size < 0";
  "r != nil";
  "err != nil || actualSize < 0";
  "found";
  "err == nil";
  "translateGRPCErrCodeFromClient(err) == codes.ResourceExhausted || gRPCErrCode(err, codes.Unknown) == codes.ResourceExhausted"
].
Lemma FetchBlob_conds_pinned : Gen.Front.front_FetchBlob_conds = expected_FetchBlob_conds.
Proof. reflexivity. Qed.

Definition expected_FetchBlob_calls : list string :=
[
  "Contains(cache.CAS, sha256Str, -1)";
  "Get(cache.CAS, sha256Str, -1, 0)"
].
Lemma FetchBlob_calls_pinned : Gen.Front.front_FetchBlob_calls = expected_FetchBlob_calls.
Proof. reflexivity. Qed.

Definition expected_fetchItem_conds : list string :=
[
  "err != nil";
  "u.Scheme != ""http"" && u.Scheme != ""https""";
  "err != nil";
  "err != nil";
  "resp.StatusCode < 200 || resp.StatusCode >= 300";
  "expectedHash == """" || expectedSize < 0";
  "err != nil";
  "expectedHash != """" && hashStr != expectedHash";
  "err != nil && err != io.EOF"
].
Lemma fetchItem_conds_pinned : Gen.Front.front_fetchItem_conds = expected_fetchItem_conds.
Proof. reflexivity. Qed.

Definition expected_fetchItem_calls : list string :=
[
  "Put(cache.CAS, expectedHash, expectedSize, rc)"
].
Lemma fetchItem_calls_pinned : Gen.Front.front_fetchItem_calls = expected_fetchItem_calls.
Proof. reflexivity. Qed.

Definition expected_FindMissingBlobs_conds : list string :=
[
  "req == nil";
  "digest == nil";
  "err != nil";
  "err != nil"
].
Lemma FindMissingBlobs_conds_pinned : Gen.Front.front_FindMissingBlobs_conds = expected_FindMissingBlobs_conds.
Proof. reflexivity. Qed.

Definition expected_FindMissingBlobs_calls : list string :=
[
  "FindMissingCasBlobs(req.BlobDigests)"
].
Lemma FindMissingBlobs_calls_pinned : Gen.Front.front_FindMissingBlobs_calls = expected_FindMissingBlobs_calls.
Proof. reflexivity. Qed.

Definition expected_BatchUpdateBlobs_codes : list string :=
[
  "int32(codes.InvalidArgument)";
  "int32(gRPCErrCode(err, codes.Internal))";
  "int32(codes.InvalidArgument)";
  "int32(gRPCErrCode(err, codes.Internal))"
].
Lemma BatchUpdateBlobs_codes_pinned : Gen.Front.front_BatchUpdateBlobs_codes = expected_BatchUpdateBlobs_codes.
Proof. reflexivity. Qed.

Definition expected_Read_codes : list string :=
[
  "codes.Unknown";
  "codes.InvalidArgument";
  "codes.InvalidArgument";
  "codes.OutOfRange";
  "codes.OutOfRange";
  "code";
  "codes.NotFound";
  "codes.Internal";
  "codes.OutOfRange";
  "codes.Unknown";
  "codes.Unknown"
].
Lemma Read_codes_pinned : Gen.Front.front_Read_codes = expected_Read_codes.
Proof. reflexivity. Qed.

Definition expected_Write_codes : list string :=
[
  "codes.InvalidArgument";
  "codes.Unknown";
  "codes.Internal";
  "codes.InvalidArgument";
  "codes.InvalidArgument";
  "codes.InvalidArgument";
  "codes.Internal";
  "codes.OutOfRange";
  "codes.Unknown";
  "codes.Internal";
  "codes.Internal";
  "codes.Internal";
  "gRPCErrCode(err, codes.Internal)";
  "codes.Internal";
  "code";
  "codes.Unknown"
].
Lemma Write_codes_pinned : Gen.Front.front_Write_codes = expected_Write_codes.
Proof. reflexivity. Qed.

Definition expected_SpliceBlob_codes : list string :=
[
  "codes.InvalidArgument";
  "codes.InvalidArgument";
  "codes.InvalidArgument";
  "codes.InvalidArgument";
  "codes.InvalidArgument";
  "codes.InvalidArgument";
  "codes.InvalidArgument";
  "codes.InvalidArgument";
  "codes.InvalidArgument";
  "codes.Unknown";
  "codes.NotFound";
  "codes.Unknown";
  "codes.Unknown";
  "codes.InvalidArgument";
  "codes.InvalidArgument";
  "codes.InvalidArgument";
  "codes.InvalidArgument";
  "codes.InvalidArgument";
  "codes.Unknown";
  "codes.NotFound";
  "codes.Unknown";
  "codes.Unknown";
  "gRPCErrCode(err, codes.Unknown)"
].
Lemma SpliceBlob_codes_pinned : Gen.Front.front_SpliceBlob_codes = expected_SpliceBlob_codes.
Proof. reflexivity. Qed.

Definition expected_GetTree_codes : list string :=
[
  "codes.NotFound";
  "codes.Unknown";
  "codes.DataLoss"
].
Lemma GetTree_codes_pinned : Gen.Front.front_GetTree_codes = expected_GetTree_codes.
Proof. reflexivity. Qed.

(* the whole FindMissingBlobs handler: nil checks and validateHash per digest, then the request's own
   digest list handed to the disk layer, and its answer returned as it is *)
Definition expected_FindMissingBlobs_src : string :=
  "{ if req == nil { return nil, errNilFindMissingBlobsRequest } errorPrefix := ""GRPC CAS HEAD"" for _, digest := range req.BlobDigests { if digest == nil { return nil, errNilDigest } err := s.validateHash(digest.Hash, digest.SizeBytes, errorPrefix) if err != nil { return nil, err } } missingBlobs, err := s.cache.FindMissingCasBlobs(ctx, req.BlobDigests) if err != nil { return nil, err } return &pb.FindMissingBlobsResponse{MissingBlobDigests: missingBlobs}, nil }".
Lemma FindMissingBlobs_src_pinned : Gen.Front.front_FindMissingBlobs_src = expected_FindMissingBlobs_src.
Proof. reflexivity. Qed.
