(* Bridge/Bridge_Config.v — the hand-written, stage-structured validate_config of Model/Config.v
   IS the statement-by-statement translation of validateConfig (and URLBackendConfig.validate)
   that go2coq regenerates from /repo/config/config.go; plus pins of the pieces of source the
   translator handles by a fixed rule rather than by translation. *)
From BR Require Import Base.Prelude Gen.Config Model.Config.
Open Scope string_scope.
Open Scope Z_scope.

Ltac split_if :=
  match goal with
  | |- context [if ?b then _ else _] =>
      lazymatch b with
      | context [if _ then _ else _] => fail
      | context [match _ with _ => _ end] => fail
      | _ => destruct b eqn:?
      end
  end.

Lemma url_backend_validate_bridge X b p :
  GC.URLBackendConfig_validate X b p = url_backend_validate b p.
Proof.
  unfold GC.URLBackendConfig_validate, url_backend_validate, nonempty, err.
  destruct (URLBackendConfig_BaseURL b) as [u|]; [|reflexivity].
  destruct (String.eqb (URL_Scheme u) p), (String.eqb (URL_Scheme u) (p ++ "s")),
    (String.eqb (URLBackendConfig_KeyFile b) ""), (String.eqb (URLBackendConfig_CertFile b) ""),
    (String.eqb (URLBackendConfig_CaFile b) ""); reflexivity.
Qed.

Lemma st_url_backend_bridge X o p :
  match o with
  | Some g => GC.bind (GC.URLBackendConfig_validate X g p) (fun _ => Ok tt)
  | None => Ok tt
  end = st_url_backend o p.
Proof.
  destruct o as [b|]; [|reflexivity]. simpl. rewrite url_backend_validate_bridge.
  destruct (url_backend_validate b p) as [[]| | |]; reflexivity.
Qed.

(* walk down the generated if-chain: the head of the left-hand side says what to split next;
   the right-hand side has the same conditions, so it follows *)
Ltac head_step :=
  lazymatch goal with
  | |- (if ?b then _ else _) = _ => destruct b eqn:?
  | |- GC.bind (if ?b then _ else _) _ = _ => destruct b eqn:?
  | |- GC.bind (match ?x with _ => _ end) _ = _ => destruct x eqn:?
  | |- GC.bind (Ok _) _ = _ => cbv beta iota delta [GC.bind]
  | |- (let x := _ in _) = _ => cbv zeta
  | |- match ?x with _ => _ end = _ => destruct x eqn:?
  end.
(* every conversion attempt is bounded: on a changed source the proof must fail, not search *)
Ltac bounded_refl := timeout 30 reflexivity.
Ltac walk := repeat (try bounded_refl; head_step).

Theorem validate_config_bridge X c : GC.validateConfig X c = validate_config X c.
Proof.
  unfold GC.validateConfig, validate_config.
  rewrite !st_url_backend_bridge.
  unfold st_required, st_http, st_grpc, grpc_listens, st_profile, st_tls_auth_limits, st_gcs, st_s3, st_azblob,
    st_buckets, st_ldap, ldap_defaults, st_logging, proxy_count, err, b2z.
  destruct (Config_S3CloudStorage c) as [s3|] eqn:Es3, (Config_HTTPBackend c) as [hb|] eqn:Ehb,
    (Config_GoogleCloudStorage c) as [gcs|] eqn:Egcs, (Config_AzBlobConfig c) as [az|] eqn:Eaz,
    (Config_GRPCBackend c) as [gb|] eqn:Egb.
  all: do 4 (try bounded_refl; head_step).
  all: try bounded_refl.
  all: cbv zeta.
  all: match goal with |- (if ?b then _ else _) = _ => let v := eval vm_compute in b in change b with v end; cbv iota.
  all: try bounded_refl.
  all: walk.
Qed.

(* ------------------------------------------------------------------ *)
(* pieces the translator handles by a fixed rule: their source text is pinned *)

(* the membership loops the model's auth-method predicates stand for *)
Lemma IsValidAuthMethod_pinned :
  GC.src_IsValidAuthMethod_s3proxy = "func IsValidAuthMethod(authMethod string) bool { for _, b := range GetAuthMethods() { if authMethod == b { return true } } return false }"
  /\ GC.src_IsValidAuthMethod_azblobproxy = GC.src_IsValidAuthMethod_s3proxy
  /\ (forall up m, s3proxy_IsValidAuthMethod (model_ext up) m = mem_str m GC.s3proxy_auth_methods)
  /\ (forall up m, azblobproxy_IsValidAuthMethod (model_ext up) m = mem_str m GC.azblobproxy_auth_methods).
Proof. repeat split; reflexivity. Qed.

(* URLBackendConfig.UnmarshalYAML: GC.yaml_Unmarshal_by_tags reads url through url.Parse and the
   other three keys by their tags (go2coq checks which fields the method copies); this is the
   method it was derived from *)
Lemma UnmarshalYAML_pinned :
  GC.src_URLBackendConfig_UnmarshalYAML =
  "func (c *URLBackendConfig) UnmarshalYAML(unmarshal func(interface{}) error) error { aux := &struct { URLStr string `yaml:""url""` CertFile string `yaml:""cert_file""` KeyFile string `yaml:""key_file""` CaFile string `yaml:""ca_file""` }{} if err := unmarshal(aux); err != nil { return err } u, err := url.Parse(aux.URLStr) if err != nil { return err } c.BaseURL = u c.CertFile = aux.CertFile c.KeyFile = aux.KeyFile c.CaFile = aux.CaFile return nil }"
  /\ GC.yaml_undecoded = [].
Proof. split; reflexivity. Qed.

(* the tabulated key mapping is the one computed from the generated wiring and tag tables *)
Lemma key_table_spec :
  key_table = map (fun r => (snd (fst r), key_of_yaml (snd (fst r)))) GC.yaml_fields.
Proof. vm_compute. reflexivity. Qed.

(* the front ends are the generated translations themselves *)
Lemma front_ends_are_generated X s :
  from_flags X s = (if flags_ok s then GC.get X (ctx_of (fun n => lookup n s)) else Err (EOther E_CLI))
  /\ from_yaml X s = (if yaml_keys_ok s then GC.NewFromYaml X (yaml_data_of (fun n => lookup n s)) else Err (EOther E_NOYAML))
  /\ yaml_Unmarshal (model_ext (url_Parse X)) = GC.yaml_Unmarshal_by_tags (url_Parse X).
Proof. repeat split; reflexivity. Qed.
