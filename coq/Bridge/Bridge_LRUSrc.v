(* Bridge/Bridge_LRUSrc.v — the correspondence case of the TRANSLATED lru.go together with the
   hypotheses of the refinement theorems, as one boolean the `lrugen` driver evaluates on every history
   the real SizedLRU ran: the translated code reproduces what the implementation showed, and the
   history satisfies [bounded_run] (so Properties/LRU_src.v applies to it).  Depends on definitions
   only (Proofs/LRU_refine_base.v defines [bounded_run]), not on the refinement proofs: the case file
   still evaluates when a proof is broken. *)
From BR Require Import Base.Prelude Model.LRU Model.GoLRU Model.GoLRURun Proofs.LRU_refine_base.
Open Scope Z_scope.

Definition gcase_bounded_ok (cs : Z * Z * list op * list (out * snap)) : bool :=
  let '(mx, hd, ops, observed) := cs in
  gcase_ok cs && (0 <? mx) && bounded_run (init mx hd) ops.
