(* Bridge/Bridge_Names.v — the literals the name printers and recognisers of Model/Names.v and the
   migration of Model/Load.v are built from are the ones in /repo's sources today (regenerated
   into Gen/Consts.v, Gen/Funcs.v and Gen/Names.v on every run).  Everything here is by
   computation: an edited pattern, suffix, directory name, format string or template makes one of
   these lemmas fail even if every round-trip test in /repo stays green. *)
From BR Require Import Base.Prelude Gen.Consts Gen.Funcs Gen.Names Model.Names Model.Load
  Proofs.Names_strings Proofs.Names_roundtrip.
Open Scope string_scope.
Open Scope Z_scope.

(* ------------------------------------------------------------------ *)
(* patterns and fixed names of load.go *)

Lemma scanDir_pattern_pinned :
  Gen.Consts.re_disk_re = "^([a-f0-9]{64})(?:-([1-9][0-9]*))?-([0-9a-zA-Z]+)(\.v1)?$".
Proof. reflexivity. Qed.

Lemma dir_patterns_pinned :
  Gen.Consts.re_disk_dre = "^[a-f0-9]{2}$" /\ Gen.Consts.re_disk_v1DirRegex = "^[a-f0-9]{2}$" /\
  Gen.Consts.re_validate_HashKeyRegex = "^[a-f0-9]{64}$" /\ Gen.Consts.sha256HashStrSize = 64.
Proof. repeat split; reflexivity. Qed.

Lemma special_names_pinned :
  Model.Names.lowercaseDSStoreFile = Gen.Consts.lowercaseDSStoreFile /\
  Model.Names.lostAndFound = Gen.Consts.lostAndFound.
Proof. split; reflexivity. Qed.

Lemma migration_suffixes_pinned :
  Gen.Names.migrateDirectory_concat = [v0_suffix; v1_suffix] /\
  Gen.Names.migrateV1Subdir_concat = [v1_suffix_cas; v1_suffix_other] /\
  v0_suffix = "-222444666" /\ v1_suffix = ".v1" /\ v1_suffix_cas = "-556677.v1" /\ v1_suffix_other = "-112233".
Proof. repeat split; reflexivity. Qed.

(* The order in which existing files enter the index.  The model (Model/Load.v) sorts the scanned
   files by [sf_atime] — the file's ACCESS time and nothing else — with [<=] ([insert_by]), and adds
   them first to last, unlinking what Add refuses.  These are the statements of load.go that say the
   same: the only assignment to the sort key in scanDir, the comparison and the swap of the sort,
   the sort call, the Add loop, and
   getElementPath's result (FileLocation of the entry's own fields: [item_place]).  Any edit of them (e.g. taking the modification time into
   account) breaks this lemma even if no generated directory distinguishes the two. *)
Lemma scanDir_sort_key_pinned :
  Gen.Names.scanDir_ts_assign = ["metadata[n].ts = atime.Get(info)"] /\
  Gen.Names.scanResult_Less_body = "{ return r.metadata[i].ts.Before(r.metadata[j].ts) }" /\
  Gen.Names.scanResult_Swap_body =
    "{ r.item[i], r.item[j] = r.item[j], r.item[i] r.metadata[i], r.metadata[j] = r.metadata[j], r.metadata[i] }" /\
  Gen.Names.getElementPath_return =
    ["return filepath.Join(c.dir, c.FileLocation(kind, value.legacy, hash, value.size, value.random))"] /\
  Gen.Names.loadExistingFiles_sort = ["sort.Sort(result)"] /\
  Gen.Names.loadExistingFiles_add_loop =
    ["for i := 0; i < len(result.item); i++ { ok := c.lru.Add(result.metadata[i].lookupKey, *result.item[i]) if !ok { err = os.Remove(c.getElementPath(result.metadata[i].lookupKey, *result.item[i])) if err != nil { return err } } }"].
Proof. repeat split; reflexivity. Qed.

(* ------------------------------------------------------------------ *)
(* key spaces *)

Lemma kind_names_bridge k :
  Gen.EntryKind_String (kind_num k) = kind_str k /\ Gen.EntryKind_DirName (kind_num k) = kind_dir k.
Proof. destruct k; split; reflexivity. Qed.

Lemma lookup_key_bridge k h :
  Gen.Names.LookupKey_concat = ["/"] /\
  lookup_key k h = Gen.EntryKind_String (kind_num k) ++ nth 0 Gen.Names.LookupKey_concat "" ++ h.
Proof. destruct k; split; reflexivity. Qed.

(* scanDir: directory prefixes it recognises and the key prefixes it assigns, pairwise *)
Lemma scanDir_prefixes_bridge :
  Gen.Names.scanDir_prefix = map (fun k => kind_dir k ++ "/") [CAS; AC; RAW] /\
  Gen.Names.scanDir_assign = map (fun k => lookup_key k "") [CAS; AC; RAW] /\
  Gen.Names.scanDir_cmp = [v1_suffix; kind_dir AC; kind_dir CAS; kind_dir RAW] /\
  (forall k, kind_of_dir (kind_dir k) = Some k).
Proof. repeat split; try reflexivity. intros k; destruct k; reflexivity. Qed.

Lemma getElementPath_bridge key :
  Gen.Names.getElementPath_prefix = [kind_str CAS; kind_str AC; kind_str RAW] /\
  key_kind key =
    if prefix (nth 0 Gen.Names.getElementPath_prefix "") key then CAS
    else if prefix (nth 1 Gen.Names.getElementPath_prefix "") key then AC
    else if prefix (nth 2 Gen.Names.getElementPath_prefix "") key then RAW else AC.
Proof. split; reflexivity. Qed.

(* ------------------------------------------------------------------ *)
(* FileLocation / FileLocationBase are built from the literals of disk.go *)

Lemma fileLocation_literals_pinned :
  Gen.Names.FileLocation_joinfmt = fileLocation_joinfmt /\
  Gen.Names.FileLocation_concat = fileLocation_concat /\
  Gen.Names.FileLocationBase_joinfmt = fileLocationBase_joinfmt.
Proof. repeat split; reflexivity. Qed.

Lemma file_location_bridge k legacy hash size random :
  file_location k legacy hash size random =
  match k with
  | RAW => join3 (nth 0 Gen.Names.FileLocation_joinfmt "") (take2 hash)
                 (hash ++ nth 0 Gen.Names.FileLocation_concat "" ++ random)
  | AC => join3 (nth 1 Gen.Names.FileLocation_joinfmt "") (take2 hash)
                (hash ++ nth 1 Gen.Names.FileLocation_concat "" ++ random)
  | CAS => if legacy then sprintf (nth 2 Gen.Names.FileLocation_joinfmt "") [take2 hash; hash; random]
           else sprintf (nth 3 Gen.Names.FileLocation_joinfmt "") [take2 hash; hash; print_dec size; random]
  end.
Proof. destruct k; reflexivity. Qed.

Lemma file_location_base_bridge k legacy hash size :
  file_location_base k legacy hash size =
  match k with
  | RAW => join3 (nth 0 Gen.Names.FileLocationBase_joinfmt "") (take2 hash) hash
  | AC => join3 (nth 1 Gen.Names.FileLocationBase_joinfmt "") (take2 hash) hash
  | CAS => if legacy then join3 (nth 2 Gen.Names.FileLocationBase_joinfmt "") (take2 hash) hash
           else sprintf (nth 3 Gen.Names.FileLocationBase_joinfmt "") [take2 hash; hash; print_dec size]
  end.
Proof. destruct k; reflexivity. Qed.

(* the directory part of a file location is the key space's DirName *)
Lemma file_location_dir_bridge :
  map (fun k => nth (match k with RAW => 0 | AC => 1 | CAS => 2 end) Gen.Names.FileLocationBase_joinfmt "")
      [RAW; AC; CAS] = map kind_dir [RAW; AC; CAS].
Proof. reflexivity. Qed.

(* ------------------------------------------------------------------ *)
(* backends *)

Lemma objectKey_literals_pinned :
  Gen.Names.s3_objectKeyV1_joinfmt = [] /\ Gen.Names.s3_objectKeyV2_joinfmt = [kind_dir CAS] /\
  Gen.Names.az_objectKeyV1_joinfmt = [] /\ Gen.Names.az_objectKeyV2_joinfmt = [kind_dir CAS] /\
  Gen.Names.s3_objectKeyV1_cmp = [""] /\ Gen.Names.s3_objectKeyV2_cmp = [""] /\
  Gen.Names.az_objectKeyV1_cmp = [""] /\ Gen.Names.az_objectKeyV2_cmp = [""] /\
  Gen.Names.az_Get_concat = ["/"] /\ Gen.Names.az_Contains_concat = ["/"] /\ Gen.Names.az_UploadFile_concat = ["/"].
Proof. repeat split; reflexivity. Qed.

Lemma object_key_bridge pre k h :
  object_key_v2 pre k h =
    join_prefix pre ++ join3 (match k with CAS => nth 0 Gen.Names.s3_objectKeyV2_joinfmt "" | _ => Gen.EntryKind_String (kind_num k) end) (take2 h) h /\
  object_key_v1 pre k h = join_prefix pre ++ join3 (Gen.EntryKind_String (kind_num k)) (take2 h) h /\
  az_key Zstd pre k h =
    (if String.eqb pre (nth 0 Gen.Names.az_objectKeyV2_cmp "x") then object_key_v2 pre k h
     else pre ++ nth 0 Gen.Names.az_Get_concat "" ++ object_key_v2 pre k h).
Proof. destruct k; repeat split; reflexivity. Qed.

Lemma http_literals_pinned :
  Gen.Names.http_New_joinfmt = [fmt_http_cas_v2; fmt_http; fmt_http] /\
  Gen.Names.http_New_case = ["zstd"; "uncompressed"] /\ Gen.Names.http_New_trim = ["/"].
Proof. repeat split; reflexivity. Qed.

Lemma http_url_bridge m base k h :
  http_url m base k h =
  match m, k with
  | Zstd, CAS => sprintf (nth 0 Gen.Names.http_New_joinfmt "") [base; h]
  | Zstd, _ => sprintf (nth 1 Gen.Names.http_New_joinfmt "") [base; Gen.EntryKind_String (kind_num k); h]
  | Uncompressed, _ => sprintf (nth 2 Gen.Names.http_New_joinfmt "") [base; Gen.EntryKind_String (kind_num k); h]
  end.
Proof. destruct m, k; reflexivity. Qed.

Lemma grpc_templates_pinned :
  Gen.Names.grpc_Get_assign = [fmt_grpc_read_v1; fmt_grpc_read_v2] /\
  firstn 2 Gen.Names.grpc_UploadFile_assign = [fmt_grpc_write_v1; fmt_grpc_write_v2].
Proof. split; reflexivity. Qed.

(* ------------------------------------------------------------------ *)
(* the combined statements of Properties/C20_names.v (model facts + pinned literals) *)

Lemma C20_names_lemma :
  Gen.Consts.re_disk_re = "^([a-f0-9]{64})(?:-([1-9][0-9]*))?-([0-9a-zA-Z]+)(\.v1)?$" /\
  Gen.Names.FileLocation_joinfmt = ["raw.v2"; "ac.v2"; "cas.v2/%s/%s-%s.v1"; "cas.v2/%s/%s-%d-%s"] /\
  Gen.Names.FileLocation_concat = ["-"; "-"] /\
  (forall k legacy hash size random,
     is_hash hash = true -> is_random random = true -> 1 <= size <= maxInt64 ->
     file_location k legacy hash size random =
       join3 (Gen.EntryKind_DirName (kind_num k)) (take2 hash) (print_name (shape k legacy hash size random)) /\
     recognise (basename (file_location k legacy hash size random)) = Some (shape k legacy hash size random)) /\
  (forall name p, recognise name = Some p -> print_name p = name /\ parsed_ok p).
Proof.
  split; [reflexivity|]. split; [reflexivity|]. split; [reflexivity|]. split.
  - intros k legacy hash size random Hh Hr Hs. split; [|apply names_roundtrip; assumption].
    rewrite file_location_eq. destruct k; reflexivity.
  - exact recognise_spec.
Qed.

Lemma C20_name_shapes_lemma :
  forall hash size random,
    file_location AC false hash size random = "ac.v2/" ++ take2 hash ++ "/" ++ hash ++ "-" ++ random /\
    file_location RAW false hash size random = "raw.v2/" ++ take2 hash ++ "/" ++ hash ++ "-" ++ random /\
    file_location CAS false hash size random = "cas.v2/" ++ take2 hash ++ "/" ++ hash ++ "-" ++ print_dec size ++ "-" ++ random /\
    file_location CAS true hash size random = "cas.v2/" ++ take2 hash ++ "/" ++ hash ++ "-" ++ random ++ ".v1".
Proof.
  intros. unfold file_location, join3, fmt_cas_v1, fmt_cas_v2. cbn [sprintf Ascii.eqb Bool.eqb].
  rewrite ?app_nil_r_s. repeat split; reflexivity.
Qed.

Lemma C20_migration_targets_lemma :
  Gen.Names.migrateDirectory_concat = ["-222444666"; ".v1"] /\
  Gen.Names.migrateV1Subdir_concat = ["-556677.v1"; "-112233"] /\
  forall k hash, is_hash hash = true ->
    recognise (v0_target_name k hash) = Some (mkParsed hash None "222444666" (match k with CAS => true | _ => false end)) /\
    recognise (v1_target_name k hash) =
      Some (mkParsed hash None (match k with CAS => "556677" | _ => "112233" end) (match k with CAS => true | _ => false end)).
Proof.
  split; [reflexivity|]. split; [reflexivity|]. intros k hash Hh. split.
  - replace (v0_target_name k hash) with (print_name (mkParsed hash None "222444666" (match k with CAS => true | _ => false end)))
      by (destruct k; reflexivity).
    apply recognise_print. repeat split; auto.
  - replace (v1_target_name k hash) with
      (print_name (mkParsed hash None (match k with CAS => "556677" | _ => "112233" end) (match k with CAS => true | _ => false end)))
      by (destruct k; reflexivity).
    apply recognise_print. repeat split; auto. destruct k; reflexivity.
Qed.

Lemma C20_backend_literals_lemma :
  Gen.Names.s3_objectKeyV2_joinfmt = ["cas.v2"] /\ Gen.Names.az_objectKeyV2_joinfmt = ["cas.v2"] /\
  Gen.Names.http_New_joinfmt = ["%s/cas.v2/%s"; "%s/%s/%s"; "%s/%s/%s"] /\
  Gen.Names.grpc_Get_assign = ["blobs/%s/%d"; "compressed-blobs/zstd/%s/%d"] /\
  firstn 2 Gen.Names.grpc_UploadFile_assign = ["uploads/%s/blobs/%s/%d"; "uploads/%s/compressed-blobs/zstd/%s/%d"] /\
  (forall k, Gen.EntryKind_String (kind_num k) = kind_str k /\ Gen.EntryKind_DirName (kind_num k) = kind_dir k).
Proof.
  repeat split; try reflexivity; destruct k; reflexivity.
Qed.
