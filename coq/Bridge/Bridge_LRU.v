(* Bridge/Bridge_LRU.v — the regenerated (wrap-explicit) translations of lru.go's pure functions
   agree with the mathematical definitions the LRU model and its proofs use, on the stated ranges. *)
From BR Require Import Base.Prelude Gen.Consts Gen.Funcs Model.LRU.
Open Scope Z_scope.

Lemma BlockSize_pinned : Gen.Consts.BlockSize = 4096 /\ Model.LRU.BlockSize = Gen.Consts.BlockSize.
Proof. split; reflexivity. Qed.

(* roundUp4k: (n + BlockSize - 1) & -BlockSize in int64 is rounding up to a multiple of 4096,
   for every n the code can pass (0 <= n, n + 4095 representable) *)
Lemma roundUp4k_bridge n : 0 <= n <= maxInt64 - 4096 -> Gen.roundUp4k n = roundUp4k n.
Proof.
  unfold maxInt64. intros H. unfold Gen.roundUp4k, roundUp4k.
  rewrite (wrap64_id (n + 4096)) by (unfold in_i64, two63; lia).
  rewrite (wrap64_id (n + 4096 - 1)) by (unfold in_i64, two63; lia).
  change (-4096) with (- 2 ^ 12). rewrite land_neg_pow2 by lia.
  change (2 ^ 12) with 4096. replace (n + 4096 - 1) with (n + 4095) by lia.
  apply wrap64_id. unfold in_i64, two63. lia.
Qed.

(* the overflow-safe comparison is right for ALL int64 inputs satisfying its documented contract *)
Lemma sumLargerThan_bridge a b c :
  0 < a <= maxInt64 -> 0 <= b <= maxInt64 -> 0 < c <= maxInt64 ->
  Gen.sumLargerThan a b c = sumLargerThan a b c.
Proof.
  unfold maxInt64, Gen.sumLargerThan, sumLargerThan. intros Ha Hb Hc.
  destruct (Z_lt_ge_dec (a + b) two63) as [Hs|Hs].
  - rewrite wrap64_id by (unfold in_i64, two63 in *; lia).
    destruct (a + b >? c) eqn:E; [reflexivity|].
    destruct (a + b <=? 0) eqn:E2; [lia|reflexivity].
  - (* the int64 sum wrapped: it is negative, and the mathematical sum exceeds every int64 c *)
    assert (Hw : wrap64 (a + b) = a + b - two64).
    { unfold wrap64, two63, two64 in *.
      replace (a + b + 9223372036854775808) with ((a + b - 9223372036854775808) + 1 * 18446744073709551616) by lia.
      rewrite Z.mod_add by lia. rewrite Z.mod_small by lia. lia. }
    rewrite Hw. unfold two63, two64 in *.
    destruct (a + b - 18446744073709551616 >? c) eqn:E1; [lia|].
    destruct (a + b - 18446744073709551616 <=? 0) eqn:E2; [|lia].
    symmetry. lia.
Qed.

Lemma isSizeMismatch_spec r f :
  Gen.isSizeMismatch r f = true <-> (0 <= r /\ 0 <= f /\ r <> f).
Proof. unfold Gen.isSizeMismatch. lia. Qed.
