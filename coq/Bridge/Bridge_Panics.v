(* Bridge/Bridge_Panics.v — the regenerated panic-site inventory is exactly the reviewed ledger. *)
From BR Require Import Base.Prelude Gen.Panics Model.PanicSites.

Lemma panic_sites_reviewed : Gen.Panics.panic_sites = Model.PanicSites.sites.
Proof. vm_compute. reflexivity. Qed.

(* no site is left in a category that means "can fire on a request" *)
Lemma every_site_has_a_reason : forallb (fun x => negb (String.eqb (snd x) "")) Model.PanicSites.ledger = true.
Proof. vm_compute. reflexivity. Qed.
