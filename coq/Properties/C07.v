(* Properties/C07.v — "Under any interleaving of concurrent uploads, overwrites, reads, existence
   checks, evictions and backend fetches on the same or different keys, every read returns either a
   miss or the complete bytes of one upload to that key that was not wholly after the read — never a
   torn, mixed, truncated or wrongly sized value — a read already streaming is unaffected by a
   concurrent eviction or overwrite, and an upload acknowledged before a lookup starts is found
   unless space pressure evicted it.  No interleaving makes the accounting or directory contents
   diverge (C03, C04 still hold at quiescence), deadlocks a request, or depends on unsynchronised
   memory access."

   Only statements, each closed by an already proved lemma, with Print Assumptions beneath.
   The transition system is Model/Disk.v (see Properties/C04.v); all theorems quantify over ALL
   label lists: any number of threads, any schedule, every failure branch, the remover at any
   moment.  Granularity: one atom = one index critical section or one file-system call; that nothing
   shared is touched outside these atoms is checked by the -race harness run, not proved. *)
From Coq Require Import Permutation.
From BR Require Import Base.Prelude Model.LRU Proofs.LRU_inv Proofs.LRU_spec Model.Disk
  Proofs.LRU_order Proofs.Disk_inv1 Proofs.Disk_inv2 Proofs.Disk_inv Proofs.Disk_conc Proofs.Disk_conc2 Proofs.Disk_conc3.
Open Scope Z_scope.

(* ---- accounting and directory: every reachable state, and quiescence ---- *)

Theorem C07_inv :
  forall (c : cfg) (max_size hard_limit : Z) (ls : list label),
    0 < max_size -> Forall label_ok ls -> SysInv c (srun c (sinit max_size hard_limit) ls).
Proof. exact srun_inv. Qed.
Print Assumptions C07_inv.

Theorem C07_quiescent :
  forall (c : cfg) (max_size hard_limit : Z) (ls : list label),
    0 < max_size -> Forall label_ok ls ->
    let s := srun c (sinit max_size hard_limit) ls in
    all_done (thr s) ->
    res (lru (sd s)) = 0 /\
    (evq (lru (sd s)) = [] ->
     Permutation (map f_path (files (sd s))) (map entry_path (map ent (order (lru (sd s))))) /\
     NoDup (map f_path (files (sd s))) /\
     (forall e, In e (order (lru (sd s))) ->
        exists f, find_file (entry_path (ent e)) (files (sd s)) = Some f /\ f_complete f = true
                  /\ f_len f = sizeOnDisk (evalue (ent e))) /\
     (forall f, In f (files (sd s)) ->
        exists e, In e (order (lru (sd s))) /\ f_path f = entry_path (ent e))).
Proof.
  intros c mx hd ls Hm Hok s Hd. split; [apply disk_quiescent_res; assumption|].
  intros Hq. apply disk_quiescent_dir; assumption.
Qed.
Print Assumptions C07_quiescent.

(* ---- whole values ---- *)

(* [commits c s ls] is the log of the run: (key, content identity, logical size, bytes in the file)
   of every successful commit — an upload (verified: see C07_commit_verified) or a backend fetch —
   in the order they happened.  [fresh_names]: no file name is created twice in the run (see the
   discussion at its definition in Proofs/Disk_conc.v and the counterexample below).

   Every answered read is the empty-blob shortcut, or returns exactly the content identity, the size
   and the number of bytes of ONE logged commit of THAT key: never a mixture of two uploads, never a
   truncation, never the size of one and the bytes of another.  For AC/RAW entries and for
   uncompressed CAS entries size and bytes coincide; for compressed CAS entries [s] is the logical
   size and [flen] the size of the compressed file, both of the same commit.
   The commit is in the log of the run up to the moment of the response, so it did not start wholly
   after the read ended; since the theorem holds for every prefix of a run it holds at every moment. *)
Theorem C07_whole_value :
  forall (c : cfg) (max_size hard_limit : Z) (ls : list label),
    0 < max_size -> Forall label_ok ls -> fresh_names c (sinit max_size hard_limit) ls ->
    forall t k hash sz off zstd b rnd s cid flen,
      In t (thr (srun c (sinit max_size hard_limit) ls)) ->
      t_req t = RGet k hash sz off zstd b rnd -> t_pc t = Done (GetHit s cid flen) ->
      (k = CAS /\ hash = emptySha256 /\ sz <= 0 /\ s = 0 /\ cid = 0 /\ flen = 0)
      \/ In (lookup_key k hash, cid, s, flen) (commits c (sinit max_size hard_limit) ls).
Proof. exact whole_value. Qed.
Print Assumptions C07_whole_value.

(* an upload reaches its commit only after verification: exact length, clean end of stream, and for
   CAS the SHA-256 verdict — so a logged upload is a complete one *)
Theorem C07_commit_verified :
  forall (c : cfg) (max_size hard_limit : Z) (ls : list label),
    0 < max_size -> Forall label_ok ls -> fresh_names c (sinit max_size hard_limit) ls ->
    forall t k hash sz st rnd od,
      In t (thr (srun c (sinit max_size hard_limit) ls)) ->
      t_req t = RPut k hash sz st rnd -> t_pc t = PutCommit od ->
      st_len st = sz /\ st_err st = false /\ (k = CAS -> st_hash_ok st = true).
Proof. exact commit_verified. Qed.
Print Assumptions C07_commit_verified.

(* ---- a read already streaming ---- *)

(* Once the file is open (pc GetValidate v id f, f = the snapshot of the opened file) the response is
   a function of the reader's own state: the same for EVERY state of index and directory, and the
   step changes neither.  Other labels do not touch the reader's thread.  So evictions, unlinks and
   overwrites between the open and the response cannot change what is delivered. *)
Theorem C07_stream_stable :
  forall (c : cfg) (t : thread) v id f,
    t_pc t = GetValidate v id f -> wf_thread t ->
    forall d, tstep c d t = Some (d, validate_result c t).
Proof. exact stream_stable. Qed.
Print Assumptions C07_stream_stable.

Theorem C07_others_keep_thread :
  forall (c : cfg) (s : sys) (l : label) (i : nat) (t : thread),
    l <> LStep i -> nth_error (thr s) i = Some t -> nth_error (thr (sstep c s l)) i = Some t.
Proof. exact other_labels_keep_thread. Qed.
Print Assumptions C07_others_keep_thread.

Theorem C07_threads_wellformed :
  forall (c : cfg) (max_size hard_limit : Z) (ls : list label),
    Forall wf_thread (thr (srun c (sinit max_size hard_limit) ls)).
Proof. intros. apply srun_wf. constructor. Qed.
Print Assumptions C07_threads_wellformed.

(* ---- progress ---- *)

(* In every reachable state every request that has not been answered has an enabled step, unless it
   is about to create its temp file and the name the oracle gives it exists already (the Go code
   draws another name then; with fresh names this does not occur).  Critical sections are atoms of
   the model, so no interleaving deadlocks a request at this granularity. *)
Theorem C07_progress :
  forall (c : cfg) (max_size hard_limit : Z) (ls : list label) (t : thread),
    In t (thr (srun c (sinit max_size hard_limit) ls)) ->
    (forall r, t_pc t <> Done r) -> ~ name_taken c (sd (srun c (sinit max_size hard_limit) ls)) t ->
    tstep c (sd (srun c (sinit max_size hard_limit) ls)) t <> None.
Proof. exact progress. Qed.
Print Assumptions C07_progress.

Theorem C07_no_internal_accounting_error :
  forall (c : cfg) (max_size hard_limit : Z) (ls : list label),
    0 < max_size -> Forall label_ok ls ->
    let s := srun c (sinit max_size hard_limit) ls in
    forall t, In t (thr s) -> snd (LRU.unreserve (t_held t) (lru (sd s))) = Ok tt.
Proof. exact no_thread_error_from_accounting. Qed.
Print Assumptions C07_no_internal_accounting_error.

(* ---- an acknowledged upload is found ---- *)

(* (1) An acknowledged upload (Done PutOk, not the empty blob) is in the commit log. *)
Theorem C07_acked_is_logged :
  forall (c : cfg) (max_size hard_limit : Z) (ls : list label) t k hash sz st rnd,
    0 < max_size -> Forall label_ok ls -> fresh_names c (sinit max_size hard_limit) ls ->
    In t (thr (srun c (sinit max_size hard_limit) ls)) ->
    t_req t = RPut k hash sz st rnd -> t_pc t = Done PutOk ->
    (k = CAS /\ sz = 0 /\ hash = emptySha256)
    \/ exists od, In (lookup_key k hash, st_cid st, sz, od) (commits c (sinit max_size hard_limit) ls).
Proof. exact acked_is_logged. Qed.
Print Assumptions C07_acked_is_logged.

(* (2) The commit step indexes the key with the committed item, unless its own Add had to evict
   under pressure (cur + what the item needs next to the version it replaces > max_size). *)
Theorem C07_commit_indexes_unless_pressure :
  forall (c : cfg) (max_size hard_limit : Z) (ls : list label) i t d' t' key cid lsz len,
    0 < max_size -> Forall label_ok ls -> fresh_names c (sinit max_size hard_limit) ls ->
    let s := srun c (sinit max_size hard_limit) ls in
    nth_error (thr s) i = Some t -> tstep c (sd s) t = Some (d', t') ->
    commit_of t t' = Some (key, cid, lsz, len) ->
    pressure_commit (sd s) t d' \/
    exists v, peek key (lru (sd (sstep c s (LStep i)))) = Some v /\ size v = lsz /\ sizeOnDisk v = len.
Proof. exact commit_indexes_unless_pressure. Qed.
Print Assumptions C07_commit_indexes_unless_pressure.

(* (3) Exactly which steps can take an indexed key out of the index.  In a reachable state of a run
   with fresh names, if key K is indexed before a label and not after it, the label is a thread step
   and it is
   - a successful Reserve (PutStart / GetProxyDecide) with  n + cur > max_size   (space pressure), or
   - a successful Add (PutCommit / GetCommit) with  cur + delta > max_size        (space pressure), or
   - the guarded drop after a failed validation: pc GetDrop v id of a Get for a COMPRESSED CAS entry
     (legacy v = false) whose requested size is neither -1 nor the logical size of the entry it
     validated (sz <> -1, sz <> size v).  Files of indexed entries are complete and carry the indexed
     logical size (si_files + the log invariant), and the fast path checks the size before opening;
     so this needs a Get that reached the slow path and found there an entry of the same CAS key
     with ANOTHER logical size — two accepted contents of different size for one SHA-256, which the
     oracle columns of the model allow and a real hash function does not.
   The removal in GetSlow is dead (the entry found under the lock has its file), the remover and
   spawning do not touch the recency list, every other step permutes it. *)
Theorem C07_only_pressure_or_corruption_removes :
  forall (c : cfg) (max_size hard_limit : Z) (ls : list label) (l : label) (K : string),
    0 < max_size -> Forall label_ok ls -> fresh_names c (sinit max_size hard_limit) ls ->
    let s := srun c (sinit max_size hard_limit) ls in
    loses c s l K ->
    exists i t d' t', l = LStep i /\ nth_error (thr s) i = Some t /\ tstep c (sd s) t = Some (d', t') /\
      (pressure_reserve (sd s) t d' \/ pressure_commit (sd s) t d' \/ failed_validation_drop t).
Proof. exact only_pressure_or_corruption_removes. Qed.
Print Assumptions C07_only_pressure_or_corruption_removes.

(* (4) The indexed value of a key is always the LAST commit of that key in the log. *)
Theorem C07_indexed_is_last_commit :
  forall (c : cfg) (max_size hard_limit : Z) (ls : list label) (K : string) (v : item),
    0 < max_size -> Forall label_ok ls -> fresh_names c (sinit max_size hard_limit) ls ->
    peek K (lru (sd (srun c (sinit max_size hard_limit) ls))) = Some v ->
    exists cid X1 X2,
      commits c (sinit max_size hard_limit) ls = X1 ++ (K, cid, size v, sizeOnDisk v) :: X2 /\
      Forall (fun cm => ckey cm <> K) X2.
Proof. exact indexed_is_last_commit. Qed.
Print Assumptions C07_indexed_is_last_commit.

(* (5) Found if acknowledged.  If K is indexed at some moment (by (2): right after the commit of the
   acknowledged upload unless that Add ran under pressure) and no later label loses it (by (3): no
   eviction of K under pressure, no drop), then at the end K is indexed with the last commit of K;
   every commit of K in the log — by (1) the acknowledged upload's is one — is that commit or an
   earlier one: K is indexed with the acknowledged item or a later commit's. *)
Theorem C07_found_if_acked :
  forall (c : cfg) (max_size hard_limit : Z) (ls1 ls2 : list label) (K : string),
    0 < max_size -> Forall label_ok (ls1 ++ ls2) -> fresh_names c (sinit max_size hard_limit) (ls1 ++ ls2) ->
    peek K (lru (sd (srun c (sinit max_size hard_limit) ls1))) <> None ->
    (forall a l b, ls2 = a ++ l :: b -> ~ loses c (srun c (srun c (sinit max_size hard_limit) ls1) a) l K) ->
    exists v cid X1 X2,
      peek K (lru (sd (srun c (sinit max_size hard_limit) (ls1 ++ ls2)))) = Some v /\
      commits c (sinit max_size hard_limit) (ls1 ++ ls2) = X1 ++ (K, cid, size v, sizeOnDisk v) :: X2 /\
      Forall (fun cm => ckey cm <> K) X2 /\
      (forall cm, In cm (commits c (sinit max_size hard_limit) (ls1 ++ ls2)) -> ckey cm = K ->
         In cm (X1 ++ [(K, cid, size v, sizeOnDisk v)])).
Proof. exact found_if_acked. Qed.
Print Assumptions C07_found_if_acked.

(* (6) ... and an indexed key is found by a lookup: a new well-formed Get with unknown size (-1) or
   the indexed size, run alone to completion, answers with a hit that is a logged commit of the key. *)
Theorem C07_indexed_is_found :
  forall (c : cfg) (max_size hard_limit : Z) (ls : list label),
    0 < max_size -> Forall label_ok ls -> fresh_names c (sinit max_size hard_limit) ls ->
    let s := srun c (sinit max_size hard_limit) ls in
    forall k hash sz off zstd b rnd v,
      Z.of_nat (String.length hash) = hashLen ->
      kind_eqb k CAS && (sz <=? 0) && String.eqb hash emptySha256 = false ->
      negb (kind_eqb k CAS) && zstd = false -> 0 <= off -> (sz > 0 -> off < sz) ->
      peek (lookup_key k hash) (lru (sd s)) = Some v ->
      sz = -1 \/ sz = size v ->
      exists d' cid flen,
        exec c (sd s) (RGet k hash sz off zstd b rnd) = (d', Some (GetHit (size v) cid flen)) /\
        In (lookup_key k hash, cid, size v, flen) (commits c (sinit max_size hard_limit) ls) /\
        files d' = files (sd s).
Proof. exact found_if_indexed. Qed.
Print Assumptions C07_indexed_is_found.

(* ---- examples ---- *)

Definition ex_hash : string := "aaaaaaaaaaaaaaaaaaaaaaaaaaaaaaaaaaaaaaaaaaaaaaaaaaaaaaaaaaaaaaaa".
Definition ex_cfg : cfg := mkCfg false 1000000 1000000 false.

(* A reader parked between lookup and open loses the race against an overwrite and the unlink of the
   file it was going to open; it takes the slow path (second lookup under the lock) and returns the
   whole second upload.  Premises hold, names are fresh, the response is a logged commit. *)
Definition ex_race : list label :=
  [LSpawn (RPut CAS ex_hash 5000 (mkStream 1 5000 false true 5000) "r1");
   LSpawn (RGet CAS ex_hash 5000 0 false BMiss "g");
   LSpawn (RPut CAS ex_hash 5000 (mkStream 2 5000 false true 5000) "r2");
   LStep 0; LStep 0; LStep 0; LStep 0; LStep 0; LStep 0;   (* upload 1: reserve ... commit, clean-up *)
   LStep 1;                                                 (* the reader looks up the key: upload 1 *)
   LStep 2; LStep 2; LStep 2; LStep 2; LStep 2; LStep 2;   (* upload 2 replaces upload 1 *)
   LEvict;                                                  (* the remover unlinks upload 1's file *)
   LStep 1;                                                 (* open fails: the reader goes to the slow path *)
   LStep 1; LStep 1].                                       (* second lookup under the lock, open, validate *)

Example C07_example_slow_path :
  Forall label_ok ex_race /\ fresh_names ex_cfg (sinit 16384 0) ex_race /\
  map t_pc (thr (srun ex_cfg (sinit 16384 0) (firstn 18 ex_race))) = [Done PutOk; GetSlow; Done PutOk] /\
  map t_pc (thr (srun ex_cfg (sinit 16384 0) ex_race)) = [Done PutOk; Done (GetHit 5000 2 5000); Done PutOk] /\
  commits ex_cfg (sinit 16384 0) ex_race = [("cas/" ++ ex_hash, 1, 5000, 5000); ("cas/" ++ ex_hash, 2, 5000, 5000)]%string.
Proof.
  split; [|split].
  - unfold ex_race. repeat (apply Forall_cons; [simpl; try exact I; lia|]). apply Forall_nil.
  - apply fresh_fromb_ok. vm_compute. reflexivity.
  - vm_compute. repeat split; reflexivity.
Qed.

(* Why [fresh_names] is a premise: the same race, but a third upload (a short one, never committed)
   creates its temp file under the name upload 1 had, after that file was unlinked and before the
   parked reader opens it.  The reader serves 1000 bytes of upload 3 as a 5000-byte value: not a
   logged commit.  (Uncompressed CAS storage; the Go code has no further check on this path and
   relies on the 9-digit pseudo-random suffix of tempfile.Create never repeating in that window.) *)
Definition ex_reuse : list label :=
  [LSpawn (RPut CAS ex_hash 5000 (mkStream 1 5000 false true 5000) "r1");
   LSpawn (RGet CAS ex_hash 5000 0 false BMiss "g");
   LSpawn (RPut CAS ex_hash 5000 (mkStream 2 5000 false true 5000) "r2");
   LSpawn (RPut CAS ex_hash 5000 (mkStream 3 1000 true false 0) "r1");
   LStep 0; LStep 0; LStep 0; LStep 0; LStep 0; LStep 0;
   LStep 1;
   LStep 2; LStep 2; LStep 2; LStep 2; LStep 2; LStep 2;
   LEvict;
   LStep 3; LStep 3; LStep 3;                               (* upload 3: reserve, create "r1" again, write 1000 bytes *)
   LStep 1; LStep 1].                                       (* the reader opens that file and answers *)

Example whole_value_needs_fresh_names :
  Forall label_ok ex_reuse /\ fresh_fromb ex_cfg (sinit 16384 0) [] ex_reuse = false /\
  map t_pc (thr (srun ex_cfg (sinit 16384 0) ex_reuse))
    = [Done PutOk; Done (GetHit 5000 3 1000); Done PutOk; PutFinish] /\
  ~ In (("cas/" ++ ex_hash)%string, 3, 5000, 1000) (commits ex_cfg (sinit 16384 0) ex_reuse).
Proof.
  split; [|split; [|split]].
  - unfold ex_reuse. repeat (apply Forall_cons; [simpl; try exact I; lia|]). apply Forall_nil.
  - vm_compute. reflexivity.
  - vm_compute. reflexivity.
  - vm_compute. intros [H|[H|[]]]; discriminate H.
Qed.

(* The negative-size read (finding, fixed in /repo: disk.get refuses size < -1).  Compressed storage,
   an acknowledged upload, then a Get with size -5: it is refused with BadRequest and the entry stays
   indexed; a later Get with the right size hits.  (Before the fix the reader passed the lookup,
   failed the header check and dropped the valid entry.) *)
Definition ex_cfg_zstd : cfg := mkCfg true 1000000 1000000 false.
Definition ex_negative : list label :=
  [LSpawn (RPut CAS ex_hash 5000 (mkStream 1 5000 false true 2000) "r1");
   LStep 0; LStep 0; LStep 0; LStep 0; LStep 0; LStep 0;   (* upload acknowledged: Done PutOk *)
   LSpawn (RGet CAS ex_hash (-5) 0 true BMiss "g1");
   LStep 1;                                                 (* refused *)
   LSpawn (RGet CAS ex_hash 5000 0 false BMiss "g2");
   LStep 2; LStep 2; LStep 2].

Example negative_size_is_refused :
  Forall label_ok ex_negative /\ fresh_names ex_cfg_zstd (sinit 1000000 0) ex_negative /\
  (let s := srun ex_cfg_zstd (sinit 1000000 0) ex_negative in
   map t_pc (thr s) = [Done PutOk; Done (GetErr EBadRequest); Done (GetHit 5000 1 2000)] /\
   LRU.stats (lru (sd s)) = (4096, 0, 1, 8192)).
Proof.
  split; [|split].
  - unfold ex_negative. repeat (apply Forall_cons; [simpl; try exact I; lia|]). apply Forall_nil.
  - apply fresh_fromb_ok. vm_compute. reflexivity.
  - vm_compute. repeat split; reflexivity.
Qed.
