(* Properties/C07.v — "Under any interleaving of concurrent uploads, overwrites, reads, existence
   checks, evictions and backend fetches on the same or different keys, every read returns either a
   miss or the complete bytes of one upload to that key that was not wholly after the read — never a
   torn, mixed, truncated or wrongly sized value — a read already streaming is unaffected by a
   concurrent eviction or overwrite, and an upload acknowledged before a lookup starts is found
   unless space pressure evicted it.  No interleaving makes the accounting or directory contents
   diverge (C03, C04 still hold at quiescence), deadlocks a request, or depends on unsynchronised
   memory access."

   Only statements, each closed by an already proved lemma, with Print Assumptions beneath.
   The transition system is Model/Disk.v (see Properties/C04.v); all theorems quantify over ALL
   label lists: any number of threads, any schedule, every failure branch, the remover at any
   moment.  Granularity: one atom = one index critical section or one file-system call; that nothing
   shared is touched outside these atoms is checked by the -race harness run, not proved. *)
From Coq Require Import Permutation.
From BR Require Import Base.Prelude Model.LRU Proofs.LRU_inv Proofs.LRU_spec Model.Disk
  Proofs.Disk_inv1 Proofs.Disk_inv2 Proofs.Disk_inv Proofs.Disk_conc Proofs.Disk_conc2.
Open Scope Z_scope.

(* ---- accounting and directory: every reachable state, and quiescence ---- *)

Theorem C07_inv :
  forall (c : cfg) (max_size hard_limit : Z) (ls : list label),
    0 < max_size -> Forall label_ok ls -> SysInv c (srun c (sinit max_size hard_limit) ls).
Proof. exact srun_inv. Qed.
Print Assumptions C07_inv.

Theorem C07_quiescent :
  forall (c : cfg) (max_size hard_limit : Z) (ls : list label),
    0 < max_size -> Forall label_ok ls ->
    let s := srun c (sinit max_size hard_limit) ls in
    all_done (thr s) ->
    res (lru (sd s)) = 0 /\
    (evq (lru (sd s)) = [] ->
     Permutation (map f_path (files (sd s))) (map entry_path (map ent (order (lru (sd s))))) /\
     NoDup (map f_path (files (sd s))) /\
     (forall e, In e (order (lru (sd s))) ->
        exists f, find_file (entry_path (ent e)) (files (sd s)) = Some f /\ f_complete f = true
                  /\ f_len f = sizeOnDisk (evalue (ent e))) /\
     (forall f, In f (files (sd s)) ->
        exists e, In e (order (lru (sd s))) /\ f_path f = entry_path (ent e))).
Proof.
  intros c mx hd ls Hm Hok s Hd. split; [apply disk_quiescent_res; assumption|].
  intros Hq. apply disk_quiescent_dir; assumption.
Qed.
Print Assumptions C07_quiescent.

(* ---- whole values ---- *)

(* [commits c s ls] is the log of the run: (key, content identity, logical size, bytes in the file)
   of every successful commit — an upload (verified: see C07_commit_verified) or a backend fetch —
   in the order they happened.  [fresh_names]: no file name is created twice in the run (see the
   discussion at its definition in Proofs/Disk_conc.v and the counterexample below).

   Every answered read is the empty-blob shortcut, or returns exactly the content identity, the size
   and the number of bytes of ONE logged commit of THAT key: never a mixture of two uploads, never a
   truncation, never the size of one and the bytes of another.  For AC/RAW entries and for
   uncompressed CAS entries size and bytes coincide; for compressed CAS entries [s] is the logical
   size and [flen] the size of the compressed file, both of the same commit.
   The commit is in the log of the run up to the moment of the response, so it did not start wholly
   after the read ended; since the theorem holds for every prefix of a run it holds at every moment. *)
Theorem C07_whole_value :
  forall (c : cfg) (max_size hard_limit : Z) (ls : list label),
    0 < max_size -> Forall label_ok ls -> fresh_names c (sinit max_size hard_limit) ls ->
    forall t k hash sz off zstd b rnd s cid flen,
      In t (thr (srun c (sinit max_size hard_limit) ls)) ->
      t_req t = RGet k hash sz off zstd b rnd -> t_pc t = Done (GetHit s cid flen) ->
      (k = CAS /\ hash = emptySha256 /\ sz <= 0 /\ s = 0 /\ cid = 0 /\ flen = 0)
      \/ In (lookup_key k hash, cid, s, flen) (commits c (sinit max_size hard_limit) ls).
Proof. exact whole_value. Qed.
Print Assumptions C07_whole_value.

(* an upload reaches its commit only after verification: exact length, clean end of stream, and for
   CAS the SHA-256 verdict — so a logged upload is a complete one *)
Theorem C07_commit_verified :
  forall (c : cfg) (max_size hard_limit : Z) (ls : list label),
    0 < max_size -> Forall label_ok ls -> fresh_names c (sinit max_size hard_limit) ls ->
    forall t k hash sz st rnd od,
      In t (thr (srun c (sinit max_size hard_limit) ls)) ->
      t_req t = RPut k hash sz st rnd -> t_pc t = PutCommit od ->
      st_len st = sz /\ st_err st = false /\ (k = CAS -> st_hash_ok st = true).
Proof. exact commit_verified. Qed.
Print Assumptions C07_commit_verified.

(* ---- a read already streaming ---- *)

(* Once the file is open (pc GetValidate v id f, f = the snapshot of the opened file) the response is
   a function of the reader's own state: the same for EVERY state of index and directory, and the
   step changes neither.  Other labels do not touch the reader's thread.  So evictions, unlinks and
   overwrites between the open and the response cannot change what is delivered. *)
Theorem C07_stream_stable :
  forall (c : cfg) (t : thread) v id f,
    t_pc t = GetValidate v id f -> wf_thread t ->
    forall d, tstep c d t = Some (d, validate_result c t).
Proof. exact stream_stable. Qed.
Print Assumptions C07_stream_stable.

Theorem C07_others_keep_thread :
  forall (c : cfg) (s : sys) (l : label) (i : nat) (t : thread),
    l <> LStep i -> nth_error (thr s) i = Some t -> nth_error (thr (sstep c s l)) i = Some t.
Proof. exact other_labels_keep_thread. Qed.
Print Assumptions C07_others_keep_thread.

Theorem C07_threads_wellformed :
  forall (c : cfg) (max_size hard_limit : Z) (ls : list label),
    Forall wf_thread (thr (srun c (sinit max_size hard_limit) ls)).
Proof. intros. apply srun_wf. constructor. Qed.
Print Assumptions C07_threads_wellformed.

(* ---- progress ---- *)

(* In every reachable state every request that has not been answered has an enabled step, unless it
   is about to create its temp file and the name the oracle gives it exists already (the Go code
   draws another name then; with fresh names this does not occur).  Critical sections are atoms of
   the model, so no interleaving deadlocks a request at this granularity. *)
Theorem C07_progress :
  forall (c : cfg) (max_size hard_limit : Z) (ls : list label) (t : thread),
    In t (thr (srun c (sinit max_size hard_limit) ls)) ->
    (forall r, t_pc t <> Done r) -> ~ name_taken c (sd (srun c (sinit max_size hard_limit) ls)) t ->
    tstep c (sd (srun c (sinit max_size hard_limit) ls)) t <> None.
Proof. exact progress. Qed.
Print Assumptions C07_progress.

Theorem C07_no_internal_accounting_error :
  forall (c : cfg) (max_size hard_limit : Z) (ls : list label),
    0 < max_size -> Forall label_ok ls ->
    let s := srun c (sinit max_size hard_limit) ls in
    forall t, In t (thr s) -> snd (LRU.unreserve (t_held t) (lru (sd s))) = Ok tt.
Proof. exact no_thread_error_from_accounting. Qed.
Print Assumptions C07_no_internal_accounting_error.

(* ---- an acknowledged upload is found ---- *)

(* PARTIAL form of "an upload acknowledged before a lookup starts is found unless space pressure
   evicted it".  Proved: in every reachable state of a run with fresh names, if the key is indexed
   ([peek] is the lookup without touching), a new well-formed Get for it with unknown size (-1) or
   with the indexed size, run alone to completion ([exec]: spawn + its steps, no other label in
   between), answers with a hit whose (content identity, size, bytes) is a logged commit of that key
   (storage mode and kind arbitrary; for compressed CAS entries this uses that the header's logical
   size equals the indexed size).
   Missing for the full statement: (a) that the indexed value is the LAST commit of the key in the
   log, hence the acknowledged upload or a newer one (needs the index's recency list tracked through
   every operation); (b) that only space pressure removes an entry.  (b) is FALSE of the code as it
   is: see [found_if_acked_refuted_by_negative_size] below. *)
Theorem C07_found_if_acked_partial :
  forall (c : cfg) (max_size hard_limit : Z) (ls : list label),
    0 < max_size -> Forall label_ok ls -> fresh_names c (sinit max_size hard_limit) ls ->
    let s := srun c (sinit max_size hard_limit) ls in
    forall k hash sz off zstd b rnd v,
      Z.of_nat (String.length hash) = hashLen ->
      kind_eqb k CAS && (sz <=? 0) && String.eqb hash emptySha256 = false ->
      negb (kind_eqb k CAS) && zstd = false -> 0 <= off -> (sz > 0 -> off < sz) ->
      peek (lookup_key k hash) (lru (sd s)) = Some v ->
      sz = -1 \/ sz = size v ->
      exists d' cid flen,
        exec c (sd s) (RGet k hash sz off zstd b rnd) = (d', Some (GetHit (size v) cid flen)) /\
        In (lookup_key k hash, cid, size v, flen) (commits c (sinit max_size hard_limit) ls) /\
        files d' = files (sd s).
Proof. exact found_if_indexed. Qed.
Print Assumptions C07_found_if_acked_partial.

(* ---- examples ---- *)

Definition ex_hash : string := "aaaaaaaaaaaaaaaaaaaaaaaaaaaaaaaaaaaaaaaaaaaaaaaaaaaaaaaaaaaaaaaa".
Definition ex_cfg : cfg := mkCfg false 1000000 1000000 false.

(* A reader parked between lookup and open loses the race against an overwrite and the unlink of the
   file it was going to open; it takes the slow path (second lookup under the lock) and returns the
   whole second upload.  Premises hold, names are fresh, the response is a logged commit. *)
Definition ex_race : list label :=
  [LSpawn (RPut CAS ex_hash 5000 (mkStream 1 5000 false true 5000) "r1");
   LSpawn (RGet CAS ex_hash 5000 0 false BMiss "g");
   LSpawn (RPut CAS ex_hash 5000 (mkStream 2 5000 false true 5000) "r2");
   LStep 0; LStep 0; LStep 0; LStep 0; LStep 0; LStep 0;   (* upload 1: reserve ... commit, clean-up *)
   LStep 1;                                                 (* the reader looks up the key: upload 1 *)
   LStep 2; LStep 2; LStep 2; LStep 2; LStep 2; LStep 2;   (* upload 2 replaces upload 1 *)
   LEvict;                                                  (* the remover unlinks upload 1's file *)
   LStep 1;                                                 (* open fails: the reader goes to the slow path *)
   LStep 1; LStep 1].                                       (* second lookup under the lock, open, validate *)

Example C07_example_slow_path :
  Forall label_ok ex_race /\ fresh_names ex_cfg (sinit 16384 0) ex_race /\
  map t_pc (thr (srun ex_cfg (sinit 16384 0) (firstn 18 ex_race))) = [Done PutOk; GetSlow; Done PutOk] /\
  map t_pc (thr (srun ex_cfg (sinit 16384 0) ex_race)) = [Done PutOk; Done (GetHit 5000 2 5000); Done PutOk] /\
  commits ex_cfg (sinit 16384 0) ex_race = [("cas/" ++ ex_hash, 1, 5000, 5000); ("cas/" ++ ex_hash, 2, 5000, 5000)]%string.
Proof.
  split; [|split].
  - unfold ex_race. repeat (apply Forall_cons; [simpl; try exact I; lia|]). apply Forall_nil.
  - apply fresh_fromb_ok. vm_compute. reflexivity.
  - vm_compute. repeat split; reflexivity.
Qed.

(* Why [fresh_names] is a premise: the same race, but a third upload (a short one, never committed)
   creates its temp file under the name upload 1 had, after that file was unlinked and before the
   parked reader opens it.  The reader serves 1000 bytes of upload 3 as a 5000-byte value: not a
   logged commit.  (Uncompressed CAS storage; the Go code has no further check on this path and
   relies on the 9-digit pseudo-random suffix of tempfile.Create never repeating in that window.) *)
Definition ex_reuse : list label :=
  [LSpawn (RPut CAS ex_hash 5000 (mkStream 1 5000 false true 5000) "r1");
   LSpawn (RGet CAS ex_hash 5000 0 false BMiss "g");
   LSpawn (RPut CAS ex_hash 5000 (mkStream 2 5000 false true 5000) "r2");
   LSpawn (RPut CAS ex_hash 5000 (mkStream 3 1000 true false 0) "r1");
   LStep 0; LStep 0; LStep 0; LStep 0; LStep 0; LStep 0;
   LStep 1;
   LStep 2; LStep 2; LStep 2; LStep 2; LStep 2; LStep 2;
   LEvict;
   LStep 3; LStep 3; LStep 3;                               (* upload 3: reserve, create "r1" again, write 1000 bytes *)
   LStep 1; LStep 1].                                       (* the reader opens that file and answers *)

Example whole_value_needs_fresh_names :
  Forall label_ok ex_reuse /\ fresh_fromb ex_cfg (sinit 16384 0) [] ex_reuse = false /\
  map t_pc (thr (srun ex_cfg (sinit 16384 0) ex_reuse))
    = [Done PutOk; Done (GetHit 5000 3 1000); Done PutOk; PutFinish] /\
  ~ In (("cas/" ++ ex_hash)%string, 3, 5000, 1000) (commits ex_cfg (sinit 16384 0) ex_reuse).
Proof.
  split; [|split; [|split]].
  - unfold ex_reuse. repeat (apply Forall_cons; [simpl; try exact I; lia|]). apply Forall_nil.
  - vm_compute. reflexivity.
  - vm_compute. reflexivity.
  - vm_compute. intros [H|[H|[]]]; discriminate H.
Qed.

(* FINDING (reproduced against the real disk layer, see the report).  Compressed storage (the
   default).  An upload is acknowledged; the cache is nearly empty (max_size 1 000 000).  A reader
   asks for the same blob with size -5: the lookup passes (isSizeMismatch ignores sizes < 0), the
   header check "expectedSize != -1 && header size != expectedSize" fails, and the reader drops the
   VALID entry from the index (guarded RemoveElement; the remover then unlinks the file).  A later
   Get with the right size misses.  No space pressure is involved, so the clause "found unless
   space pressure evicted it" does not hold of the code.  Over gRPC the negative size arrives through
   BatchReadBlobs with zstd among the acceptable compressors: validateHash does not reject negative
   sizes and getBlobResponse passes digest.SizeBytes to GetZstd unchecked. *)
Definition ex_cfg_zstd : cfg := mkCfg true 1000000 1000000 false.
Definition ex_negative : list label :=
  [LSpawn (RPut CAS ex_hash 5000 (mkStream 1 5000 false true 2000) "r1");
   LStep 0; LStep 0; LStep 0; LStep 0; LStep 0; LStep 0;   (* upload acknowledged: Done PutOk *)
   LSpawn (RGet CAS ex_hash (-5) 0 true BMiss "g1");
   LStep 1; LStep 1; LStep 1; LStep 1; LStep 1;            (* lookup, open, validate fails, DROP, miss *)
   LSpawn (RGet CAS ex_hash 5000 0 false BMiss "g2");
   LStep 2; LStep 2; LStep 2].

Example found_if_acked_refuted_by_negative_size :
  Forall label_ok ex_negative /\ fresh_names ex_cfg_zstd (sinit 1000000 0) ex_negative /\
  (let s := srun ex_cfg_zstd (sinit 1000000 0) (firstn 7 ex_negative) in
   map t_pc (thr s) = [Done PutOk] /\ LRU.stats (lru (sd s)) = (4096, 0, 1, 8192)) /\
  (let s := srun ex_cfg_zstd (sinit 1000000 0) ex_negative in
   map t_pc (thr s) = [Done PutOk; Done GetMiss; Done GetMiss] /\ LRU.stats (lru (sd s)) = (0, 0, 0, 0)).
Proof.
  split; [|split].
  - unfold ex_negative. repeat (apply Forall_cons; [simpl; try exact I; lia|]). apply Forall_nil.
  - apply fresh_fromb_ok. vm_compute. reflexivity.
  - vm_compute. repeat split; reflexivity.
Qed.
