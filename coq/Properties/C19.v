(* Properties/C19.v — "Configuration: flags and YAML agree; invalid set-ups are refused at start".
   Only statements, each closed by an already proved lemma, with Print Assumptions beneath.

   Objects.  GC.* is REGENERATED from /repo on every check (Gen/Config.v): the Config structs, the
   flag table, and the statement-by-statement translations GC.get, GC.newFromArgs, GC.NewFromYaml,
   GC.validateConfig.  [settings] are the explicitly given keys (by flag name); [from_flags] runs
   GC.get on the cli context they produce (command line and environment alike), [from_yaml] runs
   GC.NewFromYaml on the YAML document they spell; [validate_config] is the stage-structured copy of
   GC.validateConfig (C19_validate_is_generated).  [X : Ext] holds the library functions
   (net.SplitHostPort, url.Parse, ...): the class theorems hold for EVERY X. *)
From BR Require Import Base.Prelude Gen.Config Model.Config Bridge.Bridge_Config
  Proofs.Config_validate Proofs.Config_agree Proofs.Config_agree2 Proofs.Config_agree3 Proofs.Config_wiring.
Open Scope string_scope.
Open Scope Z_scope.

(* ------------------------------------------------------------------ *)
(* the model of validation is the translated source *)

Theorem C19_validate_is_generated : forall X c, GC.validateConfig X c = validate_config X c.
Proof. exact validate_config_bridge. Qed.
Print Assumptions C19_validate_is_generated.

(* ------------------------------------------------------------------ *)
(* invalid set-ups are refused, whatever all other fields are *)

Theorem C19_missing_dir : forall X c, Config_Dir c = "" -> validate_config X c = Err (EOther 1).
Proof. exact class_missing_dir. Qed.
Print Assumptions C19_missing_dir.

Theorem C19_missing_or_nonpositive_max_size : forall X c, Config_MaxSize c <= 0 -> exists e, validate_config X c = Err e.
Proof. exact class_max_size. Qed.
Print Assumptions C19_missing_or_nonpositive_max_size.

Theorem C19_unknown_storage_mode :
  forall X c, Config_StorageMode c <> "zstd" -> Config_StorageMode c <> "uncompressed" -> exists e, validate_config X c = Err e.
Proof.
  intros X c H1 H2. apply class_storage_mode. unfold known_storage_mode.
  apply orb_false_iff; split; apply String.eqb_neq; assumption.
Qed.
Print Assumptions C19_unknown_storage_mode.

Theorem C19_unknown_zstd_implementation :
  forall X c, Config_ZstdImplementation c <> "go" -> Config_ZstdImplementation c <> "cgo" -> exists e, validate_config X c = Err e.
Proof.
  intros X c H1 H2. apply class_zstd_implementation. unfold known_zstd_implementation.
  apply orb_false_iff; split; apply String.eqb_neq; assumption.
Qed.
Print Assumptions C19_unknown_zstd_implementation.

(* both listeners on TCP, same non-empty port text *)
Theorem C19_http_and_grpc_on_one_port :
  forall X c hh gh p,
    String.prefix "unix://" (Config_HTTPAddress c) = false -> net_SplitHostPort X (Config_HTTPAddress c) = Some (hh, p) ->
    Config_GRPCAddress c <> "" -> Config_GRPCAddress c <> "none" ->
    String.prefix "unix://" (Config_GRPCAddress c) = false -> net_SplitHostPort X (Config_GRPCAddress c) = Some (gh, p) ->
    p <> "" -> exists e, validate_config X c = Err e.
Proof.
  intros X c hh gh p U1 S1 N1 N2 U2 S2 NE. apply (class_same_port X c hh gh p); try assumption.
  unfold grpc_listens. apply andb_true_iff; split; apply negb_true_iff, String.eqb_neq; assumption.
Qed.
Print Assumptions C19_http_and_grpc_on_one_port.

Theorem C19_half_specified_tls :
  forall X c, (Config_TLSCertFile c <> "" /\ Config_TLSKeyFile c = "") \/ (Config_TLSCertFile c = "" /\ Config_TLSKeyFile c <> "") ->
    exists e, validate_config X c = Err e.
Proof. exact class_half_tls. Qed.
Print Assumptions C19_half_specified_tls.

Theorem C19_mtls_without_server_certificate :
  forall X c, Config_TLSCaFile c <> "" -> (Config_TLSCertFile c = "" \/ Config_TLSKeyFile c = "") -> exists e, validate_config X c = Err e.
Proof. exact class_mtls_without_certificate. Qed.
Print Assumptions C19_mtls_without_server_certificate.

Theorem C19_unauthenticated_reads_without_authentication :
  forall X c, Config_AllowUnauthenticatedReads c = true ->
    Config_TLSCaFile c = "" -> Config_HtpasswdFile c = "" -> Config_LDAP c = None -> exists e, validate_config X c = Err e.
Proof.
  intros X c A H1 H2 H3. apply class_unauthenticated_reads; [exact A|].
  unfold no_authentication. rewrite H1, H2, H3. reflexivity.
Qed.
Print Assumptions C19_unauthenticated_reads_without_authentication.

(* proxy_count = number of configured backends among s3 / http / gcs / azblob / grpc *)
Theorem C19_more_than_one_proxy_backend : forall X c, proxy_count c > 1 -> exists e, validate_config X c = Err e.
Proof. exact class_many_backends. Qed.
Print Assumptions C19_more_than_one_proxy_backend.

Theorem C19_nonpositive_blob_limits :
  forall X c, Config_MaxBlobSize c <= 0 \/ Config_MaxProxyBlobSize c <= 0 -> exists e, validate_config X c = Err e.
Proof. exact class_blob_limits. Qed.
Print Assumptions C19_nonpositive_blob_limits.

(* malformed_listener X a: a = unix:// without a path, or a TCP address net.SplitHostPort refuses *)
Theorem C19_malformed_http_address : forall X c, malformed_listener X (Config_HTTPAddress c) -> exists e, validate_config X c = Err e.
Proof. exact class_malformed_http. Qed.
Print Assumptions C19_malformed_http_address.

Theorem C19_malformed_grpc_address :
  forall X c, Config_GRPCAddress c <> "" -> Config_GRPCAddress c <> "none" ->
    malformed_listener X (Config_GRPCAddress c) -> exists e, validate_config X c = Err e.
Proof.
  intros X c N1 N2 M. apply class_malformed_grpc; [|exact M].
  unfold grpc_listens. apply andb_true_iff; split; apply negb_true_iff, String.eqb_neq; assumption.
Qed.
Print Assumptions C19_malformed_grpc_address.

(* and both front ends end in that validation: what they accept has passed it *)
Theorem C19_accepted_means_validated :
  forall up s c, from_flags (model_ext up) s = Ok c \/ from_yaml (model_ext up) s = Ok c ->
    exists c0, validate_config (model_ext up) c0 = Ok c.
Proof. exact accepted_means_validated. Qed.
Print Assumptions C19_accepted_means_validated.

(* ------------------------------------------------------------------ *)
(* wiring: finite check over the generated tables *)

(* wiring_ok (Proofs/Config_wiring.v), in words: every basic field reachable from the YAML file has
   exactly one yaml key, and no two fields share one; every field except the YAML-only
   endpoint_metrics_duration_buckets and s3_proxy.key_version is fed by exactly one flag (the three
   listener addresses by their flag plus the deprecated host/port flags); the deprecated YAML keys
   host/port/grpc_port/profile_host/profile_port have a flag of the same name; a top-level field's
   yaml key IS its flag's name, a section field's yaml key and flag end in the same word; every flag
   is read with the accessor of its own type EXCEPT ldap.cache_time (IntFlag read with
   ctx.Duration); flag names are distinct, every flag has an environment variable and no two flags
   share one; every flag is read by get() except the dead s3.key_version. *)
Theorem C19_wiring : wiring_ok = true.
Proof. exact wiring_checked. Qed.
Print Assumptions C19_wiring.

Theorem C19_wiring_one_flag_one_key :
  forall p yp k, In (p, yp, k) yaml_fields ->
    ~ In p deprecated_fields -> ~ In p yaml_only_fields ->
    flags_feeding p = 1%nat
    /\ count (fun r => String.eqb (fst (fst r)) p) yaml_fields = 1%nat
    /\ count (fun r => String.eqb (snd (fst r)) yp) yaml_fields = 1%nat.
Proof.
  intros p yp k Hin D Y. apply (one_flag_per_field p yp k Hin).
  - destruct (mem_str p deprecated_fields) eqn:E; [|reflexivity]. exfalso. apply D.
    unfold mem_str in E. apply existsb_exists in E as [x [Hx E]]. apply String.eqb_eq in E. subst x. exact Hx.
  - destruct (mem_str p yaml_only_fields) eqn:E; [|reflexivity]. exfalso. apply Y.
    unfold mem_str in E. apply existsb_exists in E as [x [Hx E]]. apply String.eqb_eq in E. subst x. exact Hx.
Qed.
Print Assumptions C19_wiring_one_flag_one_key.

(* ------------------------------------------------------------------ *)
(* agreement of the front ends *)

(* The statement of the property: for all settings both syntaxes can express (accepted by the cli
   library, every key has a YAML spelling, listener addresses explicit), the effective
   configurations are identical. *)
Definition C19_agree_statement (P : settings -> Prop) : Prop :=
  forall up s, P s -> eff (from_flags (model_ext up) s) = eff (from_yaml (model_ext up) s).
Definition C19_agree : Prop := C19_agree_statement settings_valid.

(* It is FALSE of the code as it is, in three places (each is a finding; the first two are listed
   as F19 / F21 in known_findings.jsonl, the harness reproduces them on the real code every run): *)

(* F19  --ldap.cache_time=100: accepted and ignored (3600 stays); YAML cache_time: 100: refused *)
Theorem C19_agree_refuted : ~ C19_agree.
Proof.
  intros H. destruct cache_time_differs as [V [_ [_ [D _]]]].
  apply D. apply (H up_any s_cache_time V).
Qed.
Print Assumptions C19_agree_refuted.

(* F21  azblob.* without azblob.tenant_id (not needed for shared_key): flags build no backend, YAML does;
   this persists when ldap.cache_time is not used *)
Theorem C19_agree_refuted_section_without_trigger :
  ~ C19_agree_statement (fun s => settings_valid s /\ lookup "ldap.cache_time" s = None /\ s3_defaults_given s = true).
Proof.
  intros H. destruct no_trigger_differs as [V [C [S [D _]]]].
  apply D. apply (H up_any s_no_trigger). auto.
Qed.
Print Assumptions C19_agree_refuted_section_without_trigger.

(* omitted s3.bucket_lookup_type / s3.aws_profile: flag defaults "auto" / "default", YAML "" *)
Theorem C19_agree_refuted_s3_defaults :
  ~ C19_agree_statement (fun s => settings_valid s /\ lookup "ldap.cache_time" s = None /\ sections_triggered s = true).
Proof.
  intros H. destruct s3_defaults_differ as [V [C [S D]]].
  apply D. apply (H up_any s_s3_defaults). auto.
Qed.
Print Assumptions C19_agree_refuted_s3_defaults.

(* What holds: expressible_in_both s  :=  settings_valid s, ldap.cache_time not among the settings,
   no key of a section (http_proxy, grpc_proxy, gcs_proxy, ldap, s3, azblob) given unless the
   section's trigger key (url, url, bucket, url, bucket, tenant_id) is given and not empty, and
   s3.bucket_lookup_type and s3.aws_profile given whenever s3.bucket is. *)
Definition C19_agree_partial_statement : Prop := C19_agree_statement expressible_in_both.

Theorem C19_agree_partial : C19_agree_partial_statement.
Proof. intros up s H. exact (agree_partial up s H). Qed.
Print Assumptions C19_agree_partial.

(* two ingredients of that proof, of independent interest:
   (a) validation cannot tell apart two configurations that differ only in the hard limit being
       -1 or 0 and the LDAP user attribute being "" or "uid" — the two places where the front ends'
       defaults differ harmlessly; *)
Theorem C19_agree_validation_ignores_harmless_defaults :
  forall X c1 c2, canon c1 = canon c2 ->
    eff (bind (GC.validateConfig X c1) (fun c => Ok c)) = eff (bind (GC.validateConfig X c2) (fun c => Ok c)).
Proof. exact finish_eff. Qed.
Print Assumptions C19_agree_validation_ignores_harmless_defaults.

(*  (b) every single flag read equals the read of its YAML key (same value when given, same default
        when omitted), for every flag whose cli default is the YAML default *)
Theorem C19_agree_reads :
  forall s, flags_ok s = true ->
    let ctx := ctx_of (fun n => lookup n s) in
    let y := yaml_data_of (fun n => lookup n s) in
    (forall k yk d, flag_is k KString (VS d) = true -> settings_key yk = k -> Ctx_String ctx k = yS y yk d) /\
    (forall k yk d, (flag_is k KInt (VI d) || flag_is k KInt64 (VI d)) = true -> settings_key yk = k ->
                    Ctx_Int ctx k = yI y yk d /\ Ctx_Int64 ctx k = yI y yk d) /\
    (forall k yk d, flag_is k KBool (VB d) = true -> settings_key yk = k -> Ctx_Bool ctx k = yB y yk d) /\
    (forall k yk d, flag_is k KDuration (VD d) = true -> settings_key yk = k -> Ctx_Duration ctx k = yD y yk d).
Proof.
  intros s H. repeat split.
  - apply (ctxS s H).
  - apply (ctxI s H); assumption.
  - apply (ctxI s H); assumption.
  - apply (ctxB s H).
  - apply (ctxD s H).
Qed.
Print Assumptions C19_agree_reads.

(* ------------------------------------------------------------------ *)
(* non-vacuity *)

(* a setting with TLS, htpasswd, unauthenticated reads, an https proxy with client certificate and
   profile_address "none" is expressible in both, accepted by both, and the two agree *)
Example C19_example_valid_setting :
  expressible_in_both s_good
  /\ eff (from_flags (model_ext up_good) s_good) = eff (from_yaml (model_ext up_good) s_good)
  /\ exists c, from_yaml (model_ext up_good) s_good = Ok c /\ Config_GRPCAddress c = "[::1]:9092" /\ Config_ProfileAddress c = "".
Proof. exact good_agrees. Qed.

(* the class hypotheses are satisfiable: addresses the modelled net.SplitHostPort refuses *)
Example C19_example_malformed :
  map split_host_port ["localhost"; "8080"; "1.2.3.4:80:90"; "[::1"; "[::1]"; "::1:8080"; "host:80]"; "a[b:1"; "[::1]8080:1"; ""]
  = [None; None; None; None; None; None; None; None; None; None].
Proof. exact split_host_port_malformed. Qed.
