(* Properties/C12_backends.v — "Proxy backend: faithful read/write-through, faults degrade to miss or
   error" at the level of the REAL proxy implementations (cache/httpproxy, cache/grpcproxy incl.
   readcloser.go, utils/backendproxy; Model/ProxyBackends.v).  Properties/C12.v proves the property
   for the disk cache against an arbitrary backend behaviour [bget]; here every answer of a backend
   server is mapped to what the proxies hand up, shown to be one of those behaviours, and the write
   side (chunking, HTTP HEAD/PUT, the upload queue) is specified.  Only statements, each closed by an
   already proved lemma. *)
From BR Require Import Base.Prelude Model.LRU Proofs.LRU_inv Model.Disk Proofs.Disk_ack Proofs.Disk_fun_get
  Gen.ProxySrc Model.ProxyBackends Proofs.ProxyBackends_read Proofs.ProxyBackends_upload
  Proofs.ProxyBackends_queue Proofs.ProxyBackends_disk.
Open Scope list_scope.
Open Scope Z_scope.

(* ================= HTTP backend, read side ================= *)

(* For EVERY reply (transport error or any status, Content-Length header absent / numeric / unparsable,
   any body): Get answers error, miss or found, never anything else ... *)
Theorem C12b_http_get_total : forall v2cas rp,
  http_get v2cas rp = PErr \/ http_get v2cas rp = PMiss \/ exists s d e, http_get v2cas rp = PFound s d e.
Proof. exact http_get_total. Qed.
Print Assumptions C12b_http_get_total.

(* ... "found" only for a 200 with usable size metadata, and the size handed up is exactly that
   metadata: the parsed Content-Length, or for CAS in zstd mode the positive logical size of the blob
   header (which needs 16 body bytes) ... *)
Theorem C12b_http_get_found : forall v2cas rp s d e,
  http_get v2cas rp = PFound s d e ->
  exists r, rp = HReply r /\ h_status r = 200 /\ d = h_body r /\ e = h_berr r /\
            (if v2cas then 16 <= h_body r /\ 0 < s /\ s = h_hdrsize r else h_cl r = CLInt s).
Proof. exact http_get_found_inv. Qed.
Print Assumptions C12b_http_get_found.

(* ... so every fault gives an error or a miss ... *)
Theorem C12b_http_get_faults : forall v2cas rp,
  http_fault v2cas rp -> http_get v2cas rp = PErr \/ http_get v2cas rp = PMiss.
Proof. exact http_get_fault_degrades. Qed.
Print Assumptions C12b_http_get_faults.

(* ... and by status: 404 is the only miss; every other status that is not 200 (1xx, 201-299, 3xx,
   4xx, 5xx) is an error *)
Theorem C12b_http_get_status : forall r v2cas,
  (h_status r = 404 -> http_get v2cas (HReply r) = PMiss) /\
  (h_status r <> 404 -> h_status r <> 200 -> http_get v2cas (HReply r) = PErr).
Proof. exact http_get_status. Qed.
Print Assumptions C12b_http_get_status.

Theorem C12b_http_contains : forall v2cas rp s,
  http_contains v2cas rp = HasYes s ->
  exists r, rp = HReply r /\ h_status r = 200 /\ s = (if v2cas then -1 else h_clen r).
Proof. exact http_contains_yes_inv. Qed.
Print Assumptions C12b_http_contains.

(* ================= gRPC backend, read side ================= *)

(* "found": AC/RAW — GetActionResult succeeded, size = length of the marshalled result; CAS — size is
   the requested one or, if unknown, the one FetchBlob's OK answer states, content = concatenation of
   the ByteStream.Read messages, error flag = the stream's *)
Theorem C12b_grpc_get_found : forall k hex_ok size g s d e,
  grpc_get k hex_ok size g = PFound s d e ->
  match k with
  | CAS => rd_open_err (g_rd g) = false /\ d = sum_chunks (rd_chunks (g_rd g)) /\ e = rd_end_err (g_rd g) /\
           (if size <? 0 then hex_ok = true /\ g_fb g = FBResp 0 (Some s) else s = size)
  | _ => g_ac g = ACOk s /\ d = s /\ e = false
  end.
Proof. exact grpc_get_found_inv. Qed.
Print Assumptions C12b_grpc_get_found.

(* for EVERY backend answer the Get returns error, miss or found ... *)
Theorem C12b_grpc_get_total : forall k hex_ok size g,
  grpc_get k hex_ok size g = PErr \/ grpc_get k hex_ok size g = PMiss \/
  exists s d e, grpc_get k hex_ok size g = PFound s d e.
Proof. exact grpc_get_total. Qed.
Print Assumptions C12b_grpc_get_total.

(* ... in particular an OK answer of FetchBlob without a blob_digest (for a CAS entry of unknown
   size; formerly a nil dereference, finding F33) is an error for Get and "no" for Contains ... *)
Theorem C12b_grpc_get_never_panics : forall hex_ok size g st,
  size < 0 -> g_fb g = FBResp st None ->
  grpc_get CAS hex_ok size g = PErr /\ grpc_contains CAS hex_ok size g = HasNo.
Proof. exact grpc_no_digest_is_error. Qed.
Print Assumptions C12b_grpc_get_never_panics.

(* ... and every fault (rpc error, NotFound, non-OK status, OK without digest, failing Read call,
   hash that is not hex, any error of GetActionResult) gives an error or a miss *)
Theorem C12b_grpc_get_faults : forall k hex_ok size g,
  grpc_fault k hex_ok size g ->
  grpc_get k hex_ok size g = PErr \/ grpc_get k hex_ok size g = PMiss.
Proof. exact grpc_get_fault_degrades. Qed.
Print Assumptions C12b_grpc_get_faults.

(* a miss is reported only for AC/RAW on NotFound; an absent CAS blob surfaces as an error *)
Theorem C12b_grpc_get_miss : forall k hex_ok size g,
  grpc_get k hex_ok size g = PMiss <-> k <> CAS /\ g_ac g = ACErr 5.
Proof. exact grpc_get_miss_iff. Qed.
Print Assumptions C12b_grpc_get_miss.

Theorem C12b_grpc_contains : forall k hex_ok size g s,
  grpc_contains k hex_ok size g = HasYes s ->
  match k with
  | CAS => if size <? 0 then hex_ok = true /\ g_fb g = FBResp 0 (Some s)
           else s = size /\ exists n, g_fm g = FMResp n /\ n <= 0
  | _ => g_ac g = ACOk s /\ 0 <= s
  end.
Proof. exact grpc_contains_yes_inv. Qed.
Print Assumptions C12b_grpc_contains.

(* readcloser.go: for every read-buffer size, every buffered remainder and every sequence of messages,
   io.Copy over the adapter receives exactly the concatenation of the payloads and a clean end when
   the stream ends with io.EOF ... *)
Theorem C12b_stream_reader_faithful : forall k, (0 < k)%nat -> forall fuel s acc,
  (stream_measure s < fuel)%nat ->
  copy_all false k fuel s acc = Some (acc ++ r_buf s ++ List.concat (r_msgs s), false).
Proof. exact copy_all_clean. Qed.
Print Assumptions C12b_stream_reader_faithful.

(* ... and a prefix of it followed by an error when the stream ends with an error *)
Theorem C12b_stream_reader_error : forall k, (0 < k)%nat -> forall fuel s acc,
  (stream_measure s < fuel)%nat ->
  exists p q, copy_all true k fuel s acc = Some (acc ++ p, true) /\
              r_buf s ++ List.concat (r_msgs s) = p ++ q.
Proof. exact copy_all_fail. Qed.
Print Assumptions C12b_stream_reader_error.

(* ================= the bridge to the disk-level theorems ================= *)

(* every outcome of a real proxy is one of the backend behaviours of Model/Disk.v: errors are BErr,
   misses BMiss, a found object keeps its announced size, delivered length and stream verdict *)
Theorem C12b_outcome_is_bget : forall ob o,
  match o with
  | PErr => to_bget ob o = BErr
  | PMiss => to_bget ob o = BMiss
  | PFound s d e => to_bget ob o = BFound s (o_full ob) d e 1 (o_logical ob)
  end.
Proof. exact to_bget_spec. Qed.
Print Assumptions C12b_outcome_is_bget.

(* disk.Cache + httpproxy: a hit for a locally absent key means the backend answered 200 with a
   usable announcement of exactly the reported size, the body ended without error, and the disk layer
   validated what arrived *)
Theorem C12b_http_hit_validated : forall c d k hash sz off zstd rp ob rnd d' s cid flen,
  let b := to_bget ob (http_get (c_zstd c && kind_eqb k CAS) rp) in
  peek (lookup_key k hash) (lru d) = None ->
  exec c d (RGet k hash sz off zstd b rnd) = (d', Some (GetHit s cid flen)) ->
  get_shortcut k hash sz \/
  exists r, rp = HReply r /\ h_status r = 200 /\ h_berr r = false /\ flen = h_body r /\
            (if c_zstd c && kind_eqb k CAS then 16 <= h_body r /\ 0 < s /\ s = h_hdrsize r
             else h_cl r = CLInt s) /\
            fetch_good c k sz s b /\ sz <= c_maxproxy c.
Proof. exact http_disk_hit_validated. Qed.
Print Assumptions C12b_http_hit_validated.

Theorem C12b_http_fault_never_hit : forall c d k hash sz off zstd rp ob rnd d' s cid flen,
  http_fault (c_zstd c && kind_eqb k CAS) rp ->
  peek (lookup_key k hash) (lru d) = None -> ~ get_shortcut k hash sz ->
  exec c d (RGet k hash sz off zstd (to_bget ob (http_get (c_zstd c && kind_eqb k CAS) rp)) rnd)
    <> (d', Some (GetHit s cid flen)).
Proof. exact http_fault_never_hit. Qed.
Print Assumptions C12b_http_fault_never_hit.

(* disk.Cache + grpcproxy *)
Theorem C12b_grpc_hit_validated : forall c d k hash hex_ok sz off zstd g ob rnd d' s cid flen,
  let b := to_bget ob (grpc_get k hex_ok sz g) in
  peek (lookup_key k hash) (lru d) = None ->
  exec c d (RGet k hash sz off zstd b rnd) = (d', Some (GetHit s cid flen)) ->
  get_shortcut k hash sz \/
  (match k with
   | CAS => rd_open_err (g_rd g) = false /\ rd_end_err (g_rd g) = false /\
            flen = sum_chunks (rd_chunks (g_rd g)) /\
            (if sz <? 0 then hex_ok = true /\ g_fb g = FBResp 0 (Some s) else s = sz)
   | _ => g_ac g = ACOk s /\ flen = s
   end /\ fetch_good c k sz s b /\ sz <= c_maxproxy c).
Proof. exact grpc_disk_hit_validated. Qed.
Print Assumptions C12b_grpc_hit_validated.

Theorem C12b_grpc_fault_never_hit : forall c d k hash hex_ok sz off zstd g ob rnd d' s cid flen,
  grpc_fault k hex_ok sz g ->
  peek (lookup_key k hash) (lru d) = None -> ~ get_shortcut k hash sz ->
  exec c d (RGet k hash sz off zstd (to_bget ob (grpc_get k hex_ok sz g)) rnd) <> (d', Some (GetHit s cid flen)).
Proof. exact grpc_fault_never_hit. Qed.
Print Assumptions C12b_grpc_fault_never_hit.

(* a stream that ends with an error — at any byte offset, also after the last byte — never gives a hit *)
Theorem C12b_stream_error_never_hit : forall c d k hash sz off zstd ob size delivered rnd d' s cid flen,
  peek (lookup_key k hash) (lru d) = None -> ~ get_shortcut k hash sz ->
  exec c d (RGet k hash sz off zstd (to_bget ob (PFound size delivered true)) rnd) <> (d', Some (GetHit s cid flen)).
Proof. exact stream_error_never_hit. Qed.
Print Assumptions C12b_stream_error_never_hit.

(* ================= write side ================= *)

(* The chunk theorem, from the GENERATED constant maxChunkSize: for every entry (any LogicalSize in
   int64... any SizeOnDisk, any file length, either storage mode), wherever a Send fails, every
   WriteRequest of an upload carries between 1 and maxChunkSize data bytes and — with its resource
   name (at most 152 bytes: "uploads/" uuid "/compressed-blobs/zstd/" hash "/" size) and protobuf
   framing (at most 8 bytes) — fits the default receive limit of a gRPC server (4194304); the first
   request carries the resource name and no other does. *)
Theorem C12b_upload_chunks_fit : forall v2 logical sod flen open_err fa,
  0 <= flen ->
  let msgs := sends_of (grpc_upload_cas open_err fa (file_reads flen (buf_size sod ProxySrc.maxChunkSize))) in
  (forall h n, In (h, n) msgs ->
     0 < n <= ProxySrc.maxChunkSize /\ msg_size v2 logical (h, n) <= grpc_default_max_recv) /\
  first_only true msgs.
Proof. exact upload_msgs_fit_gen. Qed.
Print Assumptions C12b_upload_chunks_fit.

(* the requirement is sharp: a chunk size of 4 MiB makes the first request of a 4 MiB + 1 file too large *)
Theorem C12b_chunk_4MiB_too_large :
  exists m, In m (sends_of (grpc_upload_cas false None (file_reads 4194305 (buf_size 4194305 4194304)))) /\
            msg_size false 4194305 m > grpc_default_max_recv.
Proof. exact chunk_4MiB_does_not_fit. Qed.
Print Assumptions C12b_chunk_4MiB_too_large.

(* a healthy upload sends exactly the bytes of the file, whatever the chunk size *)
Theorem C12b_upload_sends_whole_file : forall flen b, 0 <= flen -> 0 < b ->
  sumZ snd (sends_of (grpc_upload_cas false None (file_reads flen b))) = flen.
Proof. exact upload_file_total. Qed.
Print Assumptions C12b_upload_sends_whole_file.

(* for ANY reader obeying io.Reader (n <= len(buf)): every chunk is non-empty and at most the buffer *)
Theorem C12b_upload_any_reader : forall b reads, reads_within b reads ->
  forall first idx fa h n, In (h, n) (sends_of (up_loop first idx fa reads)) -> 0 < n <= b.
Proof. exact up_loop_sends_bounded. Qed.
Print Assumptions C12b_upload_any_reader.

(* the file's reader is closed exactly once in every arm of both UploadFile implementations *)
Theorem C12b_grpc_upload_closes_once : forall open_err fa reads, rc_closes (grpc_upload_cas open_err fa reads) = 1.
Proof. exact grpc_upload_closes_once. Qed.
Print Assumptions C12b_grpc_upload_closes_once.

Theorem C12b_http_upload_closes_once : forall logical sod e, closes_of_file (http_upload logical sod e) = 1.
Proof. exact http_upload_closes_once. Qed.
Print Assumptions C12b_http_upload_closes_once.

(* HTTP: at most one PUT, attempted exactly when the HEAD did not answer 200, with Content-Length =
   SizeOnDisk and the on-disk file as body; the status of its reply is never looked at *)
Theorem C12b_http_upload_put : forall logical sod e,
  puts_of (http_upload logical sod e) =
    if hu_headreq_err e || hu_putreq_err e ||
       (match hu_head e with HReply r => h_status r =? http_StatusOK | _ => false end)
    then [] else [(negb (logical =? 0), sod)].
Proof. exact http_upload_puts. Qed.
Print Assumptions C12b_http_upload_put.

Theorem C12b_http_upload_status_blind : forall logical sod a h b r1 r2,
  h_berr r1 = h_berr r2 ->
  http_upload logical sod (mkHUp a h b (HReply r1)) = http_upload logical sod (mkHUp a h b (HReply r2)).
Proof. exact http_upload_status_blind. Qed.
Print Assumptions C12b_http_upload_status_blind.

(* AC/RAW over gRPC: the upload loop spins for ever exactly when the LOCAL reader keeps failing
   before SizeOnDisk bytes were read (observation; not a backend fault) *)
Theorem C12b_grpc_upload_ac_hang : forall logical sod avail tail_err parses ok,
  grpc_upload_ac logical sod avail tail_err parses ok = AUHang <-> avail < sod /\ tail_err = true.
Proof. exact grpc_upload_ac_hang_iff. Qed.
Print Assumptions C12b_grpc_upload_ac_hang.

(* ================= the upload queue ================= *)

(* for every sequence of Puts, worker receives and UploadFile completions: every item that was Put
   is in exactly one place (waiting, being uploaded, finished, refused) ... *)
Theorem C12b_queue_conservation : forall c evs x,
  places (qrun c evs) x = lt1 x (q_next (qrun c evs)).
Proof. exact queue_conservation. Qed.
Print Assumptions C12b_queue_conservation.

(* ... handed to UploadFile at most once, never when Put refused it ... *)
Theorem C12b_queue_upload_once : forall c evs x,
  (cnt (q_started (qrun c evs)) x <= 1)%nat /\
  (cnt (q_started (qrun c evs)) x + cnt (q_dropped (qrun c evs)) x <= 1)%nat.
Proof. exact queue_upload_once. Qed.
Print Assumptions C12b_queue_upload_once.

(* ... its reader closed exactly when it was refused or its UploadFile returned, at most once ... *)
Theorem C12b_queue_closed_once : forall c evs x,
  cnt (q_closed (qrun c evs)) x =
    (cnt (q_dropped (qrun c evs)) x + cnt (q_done (qrun c evs)) x)%nat /\
  (cnt (q_closed (qrun c evs)) x <= 1)%nat.
Proof. exact queue_closed_once. Qed.
Print Assumptions C12b_queue_closed_once.

(* ... the queue bounded by max_queued_uploads and the uploads in progress by num_uploaders ... *)
Theorem C12b_queue_bounded : forall c evs,
  Z.of_nat (List.length (q_queue (qrun c evs))) <= Z.max 0 (q_cap c) /\
  Z.of_nat (List.length (q_running (qrun c evs))) <= Z.max 0 (q_workers c).
Proof. exact queue_bounded. Qed.
Print Assumptions C12b_queue_bounded.

(* ... a Put refused only when there is no queue or it is full (Put itself is one total step: it
   never waits for the backend) ... *)
Theorem C12b_put_refused_iff : forall c s,
  q_dropped (qstep c s QPut) <> q_dropped s <->
  q_enabled c = false \/ q_cap c <= Z.of_nat (List.length (q_queue s)).
Proof. exact put_refused_iff. Qed.
Print Assumptions C12b_put_refused_iff.

(* ... and at quiescence every item was refused or uploaded exactly once, its reader closed once *)
Theorem C12b_queue_quiescent : forall c evs x,
  q_queue (qrun c evs) = [] -> q_running (qrun c evs) = [] -> (x < q_next (qrun c evs))%nat ->
  (cnt (q_dropped (qrun c evs)) x + cnt (q_started (qrun c evs)) x = 1)%nat /\
  cnt (q_closed (qrun c evs)) x = 1%nat.
Proof. exact queue_quiescent. Qed.
Print Assumptions C12b_queue_quiescent.

(* ================= non-vacuity ================= *)

(* HTTP: a healthy 200 is found with the announced size; 204, 206, 301, 500 and a transport error are
   errors, 404 a miss; a missing or unparsable Content-Length is an error; in zstd mode a body of 15
   bytes or a header size of 0 is an error.  gRPC: NotFound is a miss for AC and an error for an
   unknown-size CAS entry; an OK FetchBlob without digest is an error, with digest 7 the entry is found.  A stream of three messages read
   with a 4-byte buffer arrives complete; when the stream then
   fails, the two bytes still buffered are dropped with the error.  Uploads of 4 MiB + 1 bytes with 2 MiB chunks: three chunks, the largest
   request 2097299 bytes.  A queue of capacity 2 with one worker refuses the 4th and 5th of five
   quick Puts. *)
Example C12b_example :
  let ok := mkHResp 200 (CLInt 1000) 1000 1000 false 0 in
  let st (n : Z) := mkHResp n (CLInt 9) 9 9 false 0 in
  http_get false (HReply ok) = PFound 1000 1000 false /\
  (forall n, In n [201; 204; 206; 301; 302; 400; 403; 500; 503] -> http_get false (HReply (st n)) = PErr) /\
  http_get false (HReply (st 404)) = PMiss /\ http_get false HTransportErr = PErr /\
  http_get false (HReply (mkHResp 200 CLAbsent (-1) 1000 false 0)) = PErr /\
  http_get false (HReply (mkHResp 200 CLBad (-1) 1000 false 0)) = PErr /\
  http_get true (HReply (mkHResp 200 CLAbsent (-1) 15 false 77)) = PErr /\
  http_get true (HReply (mkHResp 200 CLAbsent (-1) 1000 false 0)) = PErr /\
  http_get true (HReply (mkHResp 200 CLAbsent (-1) 1000 true 3000)) = PFound 3000 1000 true /\
  http_fault false (HReply (st 500)) /\ http_fault true (HReply (mkHResp 200 CLAbsent (-1) 15 false 77)) /\
  (let g := mkG (ACErr 5) (FBResp 5 None) (FMResp 1) (mkRd false [3; 4] false) in
   grpc_get AC true (-1) g = PMiss /\ grpc_get CAS true (-1) g = PErr /\ grpc_get CAS true 7 g = PFound 7 7 false /\
   grpc_contains CAS true 7 g = HasNo /\ grpc_fault CAS true (-1) g) /\
  grpc_get CAS true (-1) (mkG (ACErr 5) (FBResp 0 None) FMErr (mkRd false [] false)) = PErr /\
  grpc_get CAS true (-1) (mkG (ACErr 5) (FBResp 0 (Some 7)) FMErr (mkRd false [3; 4] false)) = PFound 7 7 false /\
  copy_all false 4 20 (mkR [] [[1; 2; 3]; []; [4; 5; 6; 7; 8; 9]]) [] = Some ([1; 2; 3; 4; 5; 6; 7; 8; 9], false) /\
  copy_all true 4 20 (mkR [] [[1; 2; 3]; [4; 5; 6; 7; 8; 9]]) [] = Some ([1; 2; 3; 4; 5; 6; 7], true) /\
  sends_of (grpc_upload_cas false None (file_reads 4194305 (buf_size 4194305 2097152)))
    = [(true, 2097152); (false, 2097152); (false, 1)] /\
  map (msg_size true 4194305) [(true, 2097152); (false, 2097152); (false, 1)] = [2097299; 2097157; 3] /\
  (let s := qrun (mkQC 1 2) [QPut; QTake; QPut; QPut; QPut; QPut; QFinish 0; QTake; QFinish 1; QTake; QFinish 2] in
   q_dropped s = [3; 4]%nat /\ q_started s = [0; 1; 2]%nat /\ q_closed s = [3; 4; 0; 1; 2]%nat /\
   q_queue s = [] /\ q_running s = []) /\
  closes_of_file (http_upload 10 10 (mkHUp false (HReply (st 404)) false (HReply (st 500)))) = 1 /\
  puts_of (http_upload 10 10 (mkHUp false (HReply (st 404)) false (HReply (st 500)))) = [(true, 10)] /\
  puts_of (http_upload 10 10 (mkHUp false (HReply (st 200)) false HTransportErr)) = [].
Proof.
  cbv zeta. repeat split; try (vm_compute; reflexivity).
  - intros n Hn. cbn in Hn. repeat (destruct Hn as [<-|Hn]; [vm_compute; reflexivity|]). contradiction.
  - vm_compute. left. discriminate.
  - vm_compute. right. left. reflexivity.
  - vm_compute. right. split; [reflexivity|]. right. right. left. exists 5, None. split; [reflexivity|discriminate].
Qed.
