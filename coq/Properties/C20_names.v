(* Properties/C20_names.v — the naming part of C20 "Stored format stays compatible: v2 directories
   and backend objects remain usable": file naming per key space is part of the published v2
   format and stays stable; backend object and resource names are a fixed, injective function of
   key space, hash, storage mode and prefix.  (The blob-format part is Properties/C20.v.)
   Only statements, each closed by an already proved lemma, with Print Assumptions beneath. *)
From BR Require Import Base.Prelude Gen.Consts Gen.Funcs Gen.Names Model.Names
  Proofs.Names_strings Proofs.Names_roundtrip Proofs.Names_backend Bridge.Bridge_Names.
Open Scope string_scope.
Open Scope Z_scope.

(* The published v2 naming, with every literal taken from today's sources (Gen): a cache entry is
   stored as  <DirName(key space)>/<first two hex digits>/<name>  where <name> is the printed form
   of (hash, [size], random, [.v1]) in the shape of its key space; scanDir's pattern — whose text
   is pinned — reads back exactly those fields; and whatever the pattern accepts is such a printed
   form.  A change of a directory name, separator, format string, suffix or of the pattern breaks
   this theorem (or the bridge lemmas it is stated with). *)
Theorem C20_names :
  Gen.Consts.re_disk_re = "^([a-f0-9]{64})(?:-([1-9][0-9]*))?-([0-9a-zA-Z]+)(\.v1)?$" /\
  Gen.Names.FileLocation_joinfmt = ["raw.v2"; "ac.v2"; "cas.v2/%s/%s-%s.v1"; "cas.v2/%s/%s-%d-%s"] /\
  Gen.Names.FileLocation_concat = ["-"; "-"] /\
  (forall k legacy hash size random,
     is_hash hash = true -> is_random random = true -> 1 <= size <= maxInt64 ->
     file_location k legacy hash size random =
       join3 (Gen.EntryKind_DirName (kind_num k)) (take2 hash) (print_name (shape k legacy hash size random)) /\
     recognise (basename (file_location k legacy hash size random)) = Some (shape k legacy hash size random)) /\
  (forall name p, recognise name = Some p -> print_name p = name /\ parsed_ok p).
Proof. exact C20_names_lemma. Qed.
Print Assumptions C20_names.

(* The four published shapes, spelled out. *)
Theorem C20_name_shapes :
  forall hash size random,
    file_location AC false hash size random = "ac.v2/" ++ take2 hash ++ "/" ++ hash ++ "-" ++ random /\
    file_location RAW false hash size random = "raw.v2/" ++ take2 hash ++ "/" ++ hash ++ "-" ++ random /\
    file_location CAS false hash size random = "cas.v2/" ++ take2 hash ++ "/" ++ hash ++ "-" ++ print_dec size ++ "-" ++ random /\
    file_location CAS true hash size random = "cas.v2/" ++ take2 hash ++ "/" ++ hash ++ "-" ++ random ++ ".v1".
Proof. exact C20_name_shapes_lemma. Qed.
Print Assumptions C20_name_shapes.

(* The legacy layouts migrate to names of the same grammar, with the fixed suffixes of load.go. *)
Theorem C20_migration_targets :
  Gen.Names.migrateDirectory_concat = ["-222444666"; ".v1"] /\
  Gen.Names.migrateV1Subdir_concat = ["-556677.v1"; "-112233"] /\
  forall k hash, is_hash hash = true ->
    recognise (v0_target_name k hash) = Some (mkParsed hash None "222444666" (match k with CAS => true | _ => false end)) /\
    recognise (v1_target_name k hash) =
      Some (mkParsed hash None (match k with CAS => "556677" | _ => "112233" end) (match k with CAS => true | _ => false end)).
Proof. exact C20_migration_targets_lemma. Qed.
Print Assumptions C20_migration_targets.

(* ---- backend names -------------------------------------------------------------------------- *)

(* S3 and Azure object keys (objectKeyV1 in "uncompressed" mode, objectKeyV2 in "zstd" mode): for
   a fixed prefix and mode, (key space, hash) |-> key is injective on hashes.  The Azure backend
   prepends the prefix a second time; that does not affect injectivity. *)
Theorem C20_s3_keys_injective :
  forall m pre k k' h h', is_hash h = true -> is_hash h' = true ->
    s3_key m pre k h = s3_key m pre k' h' -> k = k' /\ h = h'.
Proof. exact s3_key_injective. Qed.
Print Assumptions C20_s3_keys_injective.

Theorem C20_azblob_keys_injective :
  forall m pre k k' h h', is_hash h = true -> is_hash h' = true ->
    az_key m pre k h = az_key m pre k' h' -> k = k' /\ h = h'.
Proof. exact az_key_injective. Qed.
Print Assumptions C20_azblob_keys_injective.

(* New-format (cas.v2) and old-format (cas) CAS objects never share a name under one prefix. *)
Theorem C20_cas_object_keys_differ_between_modes :
  forall pre h h', s3_key Zstd pre CAS h <> s3_key Uncompressed pre CAS h'.
Proof. exact cas_object_keys_differ_between_modes. Qed.
Print Assumptions C20_cas_object_keys_differ_between_modes.

(* HTTP and GCS request URLs: for a fixed base URL and mode, injective in (key space, hash). *)
Theorem C20_http_urls_injective :
  forall m base k k' h h', is_hash h = true -> is_hash h' = true ->
    http_url m base k h = http_url m base k' h' -> k = k' /\ h = h'.
Proof. exact http_url_injective. Qed.
Print Assumptions C20_http_urls_injective.

(* gRPC: a CAS blob is requested by the ByteStream resource name, which determines hash and size;
   AC and RAW entries are requested from the ActionCache service by hash.  RAW and AC of the same
   hash are the SAME backend object (grpcproxy treats RAW as "a special case of AC").  That is an
   identification of two key spaces, not of two hashes: RAW entries exist only when the front end
   runs with --disable_http_ac_validation, where they ARE the action results stored over HTTP, and
   the backend stores an uploaded RAW entry only if it parses as an ActionResult; CAS never
   collides with either. *)
Theorem C20_grpc_names_injective :
  forall m k k' h h' s s', is_hash h = true -> is_hash h' = true -> 0 <= s -> 0 <= s' ->
    grpc_key m k h s = grpc_key m k' h' s' ->
    h = h' /\ ((k = CAS /\ k' = CAS /\ s = s') \/ (k <> CAS /\ k' <> CAS)).
Proof. exact grpc_key_injective. Qed.
Print Assumptions C20_grpc_names_injective.

Theorem C20_grpc_raw_is_ac : forall m h s s', grpc_key m RAW h s = grpc_key m AC h s'.
Proof. exact grpc_raw_is_ac. Qed.
Print Assumptions C20_grpc_raw_is_ac.

Theorem C20_grpc_upload_names_injective :
  forall m uuid h h' s s', is_hash h = true -> is_hash h' = true -> 0 <= s -> 0 <= s' ->
    grpc_write_name m uuid h s = grpc_write_name m uuid h' s' -> h = h' /\ s = s'.
Proof. exact grpc_write_name_injective. Qed.
Print Assumptions C20_grpc_upload_names_injective.

(* The backend name functions of the model are built from the literals in today's sources. *)
Theorem C20_backend_literals :
  Gen.Names.s3_objectKeyV2_joinfmt = ["cas.v2"] /\ Gen.Names.az_objectKeyV2_joinfmt = ["cas.v2"] /\
  Gen.Names.http_New_joinfmt = ["%s/cas.v2/%s"; "%s/%s/%s"; "%s/%s/%s"] /\
  Gen.Names.grpc_Get_assign = ["blobs/%s/%d"; "compressed-blobs/zstd/%s/%d"] /\
  firstn 2 Gen.Names.grpc_UploadFile_assign = ["uploads/%s/blobs/%s/%d"; "uploads/%s/compressed-blobs/zstd/%s/%d"] /\
  (forall k, Gen.EntryKind_String (kind_num k) = kind_str k /\ Gen.EntryKind_DirName (kind_num k) = kind_dir k).
Proof. exact C20_backend_literals_lemma. Qed.
Print Assumptions C20_backend_literals.

(* ---- non-vacuity ---------------------------------------------------------------------------- *)

Definition hX := "0123456789abcdef0123456789abcdef0123456789abcdef0123456789abcdef".

Example C20_names_example :
  is_hash hX = true /\ is_random "aB9" = true /\
  file_location CAS false hX 1234 "aB9" = "cas.v2/01/" ++ hX ++ "-1234-aB9" /\
  recognise (hX ++ "-1234-aB9") = Some (mkParsed hX (Some 1234) "aB9" false) /\
  s3_key Zstd "team/cache" CAS hX = "team/cache/cas.v2/01/" ++ hX /\
  s3_key Uncompressed "" CAS hX = "cas/01/" ++ hX /\
  az_key Zstd "p" AC hX = "p/p/ac/01/" ++ hX /\
  http_url Zstd "http://h:8080" CAS hX = "http://h:8080/cas.v2/" ++ hX /\
  grpc_key Zstd CAS hX 42 = GBlob ("compressed-blobs/zstd/" ++ hX ++ "/42") /\
  grpc_key Zstd RAW hX 42 = GAction hX.
Proof. vm_compute. repeat split; reflexivity. Qed.
