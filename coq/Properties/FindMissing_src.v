(* Properties/FindMissing_src.v — the find-missing theorems read on the code as translated NOW
   (Gen/FindMissingSrc.v is regenerated from /repo/cache/disk/findmissing.go on every run; Gen/LRUSrc.v
   from lru.go).  Only statements, each closed by an already proved lemma. *)
From BR Require Import Base.Prelude Gen.Consts Gen.Funcs Model.LRU Model.GoLRU Gen.LRUSrc Model.GoLRURun
  Proofs.LRU_inv Proofs.LRU_refine_base Model.Disk Proofs.Disk_fun_fm Model.GoFindMissing Gen.FindMissingSrc
  Proofs.FindMissing_refine.
Open Scope Z_scope.

(* the translated findMissingLocalCAS computes the model's fm_local: the number of missing digests,
   the request with the slots of the found digests set to nil, and the index state — contents,
   counters and the recency list, in which every hit has been moved to the front in request order
   (C05: a FindMissingBlobs hit is a use); the empty digest is found without a lookup *)
Theorem FMsrc_local_refines : forall c ds bs,
  WF c -> Inv (abs c) -> List.length bs = List.length ds -> Z.of_nat (List.length ds) < two63 ->
  exists c' r,
    fm_local (abs c) (combine ds bs) = (abs c', r) /\ WF c' /\ Inv (abs c') /\
    FMSrc_findMissingLocalCAS c (map Some ds) = Ok (c', (nil_found r, zcount r)).
Proof. exact FindMissing_refine.FMsrc_local_refines. Qed.
Print Assumptions FMsrc_local_refines.

(* Non-vacuity: an index holding a (5 bytes) and b (7 bytes), b more recent; the request asks for
   the empty digest, a with the right size, an absent digest, b with a wrong size, and a again.
   Both entries are touched (a wrong-size lookup is a use too): a ends up most recent. *)
Definition ex_c : gst :=
  match grun (ginit 100000 0) [OAdd "cas/aa" (mkItem 5 5 "r" true); OAdd "cas/bb" (mkItem 7 7 "s" true)]%string with
  | Some c => c | None => ginit 1 0 end.
Definition ex_req : list digest := [(disk_emptySha256, 0); ("aa", 5); ("cc", 9); ("bb", 8); ("aa", 5)]%string.

Example FMsrc_example :
  match FMSrc_findMissingLocalCAS ex_c (map Some ex_req) with
  | Ok (c', (blobs, missing)) =>
      blobs = [None; None; Some ("cc", 9); Some ("bb", 8); None]%string /\ missing = 2 /\
      map (fun e => ekey (ent e)) (order (abs ex_c)) = ["cas/aa"; "cas/bb"]%string /\
      map (fun e => ekey (ent e)) (order (abs c')) = ["cas/bb"; "cas/aa"]%string /\
      fm_local (abs ex_c) (combine ex_req (repeat BHasNo 5)) =
        (abs c', [None; None; Some (("cc", 9), BHasNo); Some (("bb", 8), BHasNo); None]%string)
  | _ => False
  end.
Proof. vm_compute. repeat split; reflexivity. Qed.

(* the translated filterNonNil on a concrete slice (the general statement,
   FindMissing_refine.FMsrc_filter_statement, is not proved): the non-nil elements in order,
   duplicates kept; the input slice, compacted in place, starts with them *)
Example FMsrc_filter_example :
  FMSrc_filterNonNil [None; Some ("a", 1); None; Some ("b", 2); Some ("a", 1); None]%string =
  Ok ([Some ("a", 1); Some ("b", 2); Some ("a", 1); Some ("b", 2); Some ("a", 1); None]%string,
      [Some ("a", 1); Some ("b", 2); Some ("a", 1)]%string).
Proof. vm_compute. reflexivity. Qed.

(* a nil pointer in the request of findMissingLocalCAS is a nil dereference, not a miss *)
Example FMsrc_nil_panics :
  FMSrc_findMissingLocalCAS ex_c [Some ("aa", 5); None]%string = Panic "nil pointer dereference".
Proof. vm_compute. reflexivity. Qed.
