(* Properties/C10.v — "FindMissingBlobs reports exactly the absent digests" (disk level: the
   sequential semantics [exec] of Model/Disk.v, whose FindMissing program mirrors
   cache/disk/findmissing.go: batches of 20, one critical section per batch, one backend check per
   locally missing slot).  Only statements, each closed by an already proved lemma. *)
From Coq Require Import Permutation.
From BR Require Import Base.Prelude Model.LRU Proofs.LRU_inv Model.Disk Proofs.Disk_fun_fm.
Open Scope Z_scope.

(* what "present" means: in the local cache with the stated size (the empty blob always is) … *)
Theorem C10_present_local_meaning : forall l h sz,
  present_local l (h, sz) = true <->
  (sz = 0 /\ h = emptySha256) \/
  (exists v, peek (lookup_key CAS h) l = Some v /\ mismatch sz (size v) = false).
Proof. exact fm_present_local_cases. Qed.
Print Assumptions C10_present_local_meaning.

(* … or a backend is configured, the digest is within max_proxy_blob_size, and the backend says yes *)
Theorem C10_present_meaning : forall c l x bh,
  present c l (x, bh) = true <->
  present_local l x = true \/
  (c_proxy c = true /\ snd x <= c_maxproxy c /\ exists fsz, bh = BHasYes fsz).
Proof. exact fm_present_cases. Qed.
Print Assumptions C10_present_meaning.

(* The answer is exactly the sub-LIST of the request (order and duplicates preserved) of the digests
   that are not present, for every request length (any number of batches of 20), every index state,
   every configuration and every backend answer column ([bs], padded with "no"); the index keeps
   its contents and counters (lookups only touch the recency order), files are untouched. *)
Theorem C10_exact : forall c d ds bs, Inv (lru d) ->
  exists d',
    exec c d (RFindMissing ds bs false) =
      (d', Some (Missing (map fst (filter (fun x => negb (present c (lru d) x))
                                          (combine ds (bs ++ repeat BHasNo (List.length ds))))))) /\
    Inv (lru d') /\ (forall k, peek k (lru d') = peek k (lru d)) /\ files d' = files d /\ handed d' = handed d /\
    cur (lru d') = cur (lru d) /\ res (lru d') = res (lru d) /\ unc (lru d') = unc (lru d) /\
    evq (lru d') = evq (lru d) /\ maxs (lru d') = maxs (lru d) /\ hard (lru d') = hard (lru d) /\
    Permutation (order (lru d')) (order (lru d)).
Proof. exact fm_exact. Qed.
Print Assumptions C10_exact.

(* fail-fast mode (dependency check of GetActionResult): "missing" iff the exact answer is non-empty *)
Theorem C10_failfast : forall c d ds bs d' r, Inv (lru d) ->
  exec c d (RFindMissing ds bs true) = (d', r) ->
  (r = Some MissingFailFast <-> fm_answer c (lru d) ds bs <> []) /\
  (r = Some (Missing []) <-> fm_answer c (lru d) ds bs = []).
Proof. exact fm_failfast_iff. Qed.
Print Assumptions C10_failfast.

Theorem C10_failfast_total : forall c d ds bs, Inv (lru d) ->
  exists d', exec c d (RFindMissing ds bs true) =
               (d', Some (match fm_answer c (lru d) ds bs with [] => Missing [] | _ :: _ => MissingFailFast end)) /\
             fm_frame d d'.
Proof. exact fm_failfast. Qed.
Print Assumptions C10_failfast_total.

Theorem C10_empty_never_missing : forall c l ds bs, ~ In (emptySha256, 0) (fm_answer c l ds bs).
Proof. exact fm_empty_never_missing. Qed.
Print Assumptions C10_empty_never_missing.

(* a digest larger than max_proxy_blob_size is never taken as present on the backend's word *)
Theorem C10_oversize_never_present_from_backend : forall c l ds bs h sz bh,
  sz > c_maxproxy c -> present_local l (h, sz) = false ->
  In ((h, sz), bh) (fm_todo ds bs) -> In (h, sz) (fm_answer c l ds bs).
Proof. exact fm_oversize_never_present_from_backend. Qed.
Print Assumptions C10_oversize_never_present_from_backend.

(* Non-vacuity: 46 digests (three batches) over an index holding one blob, with a backend that
   holds a second one and an oversize third one; duplicates and the empty digest included. *)
Example C10_example :
  let ha := string_of_list_ascii (repeat "a"%char 64) in
  let hb := string_of_list_ascii (repeat "b"%char 64) in
  let hc := string_of_list_ascii (repeat "c"%char 64) in
  let c := mkCfg true 1000000 100 true in
  let d := mkD (fst (LRU.add (lookup_key CAS ha) (mkItem 5 5 "r" true) (LRU.init 100000 0))) [] [] in
  let ds := repeat (ha, 5) 21 ++ [(hb, 7); (emptySha256, 0); (hc, 200); (ha, 6)] ++ repeat (hb, 7) 21 in
  let bs := repeat BHasNo 21 ++ [BHasYes 7; BHasNo; BHasYes 200; BHasNo] ++ repeat BHasNo 20 ++ [BHasYes 7] in
  Inv (lru d) /\
  snd (exec c d (RFindMissing ds bs false)) = Some (Missing ([(hc, 200); (ha, 6)] ++ repeat (hb, 7) 20)) /\
  snd (exec c d (RFindMissing ds bs true)) = Some MissingFailFast /\
  snd (exec c d (RFindMissing (repeat (ha, 5) 41 ++ [(hb, 7)]) (repeat BHasNo 41 ++ [BHasYes 7]) true)) = Some (Missing []).
Proof.
  cbv zeta. split; [|vm_compute; repeat split; reflexivity].
  apply add_inv; [apply init_inv; lia|unfold item_ok; cbn; lia].
Qed.
