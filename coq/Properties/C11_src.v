(* Properties/C11_src.v — the validator of C11 as TRANSLATED from /repo/utils/validate/action_result.go
   on this run (Gen/ValidateSrc.v, statement by statement; every field selection through a pointer is
   a [deref] that panics on nil) computes what the model every C11 theorem is about computes.  Only
   statements, each closed by an already proved lemma, with Print Assumptions beneath. *)
From BR Require Import Base.Prelude Model.ActionResult Model.GoValidate Gen.ValidateSrc Proofs.Validate_refine.
Open Scope string_scope.
Open Scope Z_scope.

Theorem C11src_maybeNilDigest_refines :
  forall d, ValidateSrc_maybeNilDigest d = maybe_nil_digest d.
Proof. exact ValidateSrc_maybeNilDigest_refines. Qed.
Print Assumptions C11src_maybeNilDigest_refines.

(* for every message, nil and nil elements included: same verdict, same error, and a panic of the
   translated code exactly where the model says the Go code would dereference nil (nowhere: C14) *)
Theorem C11src_ActionResult_refines :
  forall ar, ValidateSrc_ActionResult ar = validate_r ar.
Proof. exact ValidateSrc_ActionResult_refines. Qed.
Print Assumptions C11src_ActionResult_refines.

Theorem C11src_ActionResult_validate :
  forall ar, (e <- ValidateSrc_ActionResult ar;; match e with None => Ok tt | Some _ => Err EBadRequest end)
             = validate ar.
Proof. exact ValidateSrc_ActionResult_validate. Qed.
Print Assumptions C11src_ActionResult_validate.

(* instances on both sides: a valid message, one failing in the middle of the fourth loop, a nil element *)
Example C11src_instances :
  ValidateSrc_ActionResult (Some ex_valid) = Ok None /\ validate_r (Some ex_valid) = Ok None /\
  ValidateSrc_ActionResult None = Ok (Some VNilAR).
Proof. vm_compute. repeat split; reflexivity. Qed.
