(* Properties/C20.v — "Stored format stays compatible: v2 directories and backend objects remain
   usable", the CAS blob file-format part: everything WriteAndClose writes conforms to the published
   layout (Model/FormatSpec.v, an independent description), every conformant file — whatever chunk
   size its header states, whoever compressed the chunks — is read back exactly by both readers,
   and the constants regenerated from the Go source are the published ones.
   Only statements closed by proved lemmas, with Print Assumptions beneath. *)
From BR Require Import Base.Prelude Gen.Consts Gen.Funcs Model.Casblob Model.FormatSpec
  Proofs.Casblob_le Proofs.Casblob_header Proofs.Casblob_nopanic Proofs.Casblob_read
  Proofs.Casblob_write Proofs.Casblob_spec Proofs.Casblob_conform Proofs.Casblob_toy
  Proofs.Casblob_main Bridge.Bridge_Casblob.
Open Scope list_scope.
Open Scope Z_scope.

(* what an acknowledged compressed write leaves on disk is a conformant v2 file for exactly the
   bytes that were streamed in: the independent decoder recovers size, type, chunk size and
   chunks that decode to the data cut at multiples of the chunk size *)
Theorem C20_writer_conforms :
  forall (enc : list Z -> list Z) (dec_all dec_stream : list Z -> option (list Z)),
    (forall x, dec_all (enc x) = Some x) ->
    (forall f p r, dec_all f = Some p -> dec_stream (f ++ r) = option_map (app p) (dec_stream r)) ->
    dec_stream [] = Some [] ->
  forall (hashok : list Z -> bool),
    (forall x, bytes_ok x = true -> bytes_ok (enc x) = true) ->
  forall (c : Z) (data : list Z) (ends : bool) (size ret : Z) (file : list Z),
    0 < c < two32 -> in_i64 size -> bytes_ok data = true ->
    write_and_close enc hashok c Zstandard data ends size = Ok (ret, file) ->
    zlen file <= maxAlloc -> 8 * (cdiv size c + 1) + 29 < two32 ->
    conformant dec_all file data /\ ret = zlen file /\ size = zlen data /\ hashok data = true.
Proof. exact writer_conforms. Qed.
Print Assumptions C20_writer_conforms.

(* any conformant file, ANY chunk size the header states, any encoder whose frames the decoder
   accepts: both readers deliver data[off:] for every offset and for expected size n or -1 *)
Theorem C20_reader_total_on_spec :
  forall (enc enc_stream : list Z -> list Z) (dec_all dec_stream : list Z -> option (list Z)),
    codec_laws enc dec_all dec_stream ->
  forall (file data : list Z) (e off : Z),
    conformant dec_all file data -> zlen file <= maxAlloc ->
    e = -1 \/ e = zlen data -> 0 <= off <= zlen data ->
    uncompressed_reader dec_all dec_stream file e off = Ok (zskipn off data) /\
    exists out, zstd_reader enc enc_stream dec_all file e off = Ok out /\
                dec_stream out = Some (zskipn off data).
Proof. exact reader_total_on_spec. Qed.
Print Assumptions C20_reader_total_on_spec.

(* conformant files are exactly the byte files with the layout the reader model relies on *)
Theorem C20_conformant_iff_layout :
  forall (dec_all : list Z -> option (list Z)) (file data : list Z),
    zlen file <= maxAlloc ->
    (conformant dec_all file data <->
     in_range file /\ exists h frames ps, layout dec_all file h frames ps /\ List.concat ps = data).
Proof.
  intros dec_all file data Ha. split.
  - intros Hc. split.
    + destruct Hc as (c & chunks & ps & Hd & _). apply spec_decode_inv in Hd. apply Hd.
    + destruct (conformant_layout dec_all file data Hc Ha) as (h & frames & ps & L & E & _).
      exists h, frames, ps. split; assumption.
  - intros (R & h & frames & ps & L & <-). eapply layout_conformant; eassumption.
Qed.
Print Assumptions C20_conformant_iff_layout.

(* byte positions of the header fields, little-endian, tied to the regenerated constants *)
Theorem C20_header_layout :
  forall (h : header) (body : list Z),
    fields_ok h ->
    let f := encode_header h ++ body in
    firstn 4 f = [80; 42; 77; 24] /\
    u32_of f = skippableFrameMagicNumber /\
    u32_of (skipn 4 f) = chunkTableOffset + 8 * zlen (h_offs h) - 8 /\
    i64_of (skipn 8 f) = h_usize h /\
    u8_of (skipn 16 f) = h_comp h /\
    u32_of (skipn 17 f) = h_chunk h /\
    i64_of (skipn 21 f) = zlen (h_offs h) /\
    decode_offsets (List.length (h_offs h)) (skipn (Z.to_nat chunkTableOffset) f) = h_offs h /\
    skipn (Z.to_nat (Gen.header_size (h_offs h))) f = body.
Proof. exact header_layout. Qed.
Print Assumptions C20_header_layout.

(* the constants compiled into this build are the published ones *)
Theorem C20_constants_pinned :
  skippableFrameMagicNumber = 407710288 /\ skippableFrameMagicNumber = spec_magic /\
  chunkTableOffset = 29 /\ chunkTableOffset = spec_fixed_part /\
  Identity = 0 /\ Zstandard = 1 /\ Identity = spec_identity /\ Zstandard = spec_zstandard /\
  defaultChunkSize = 1048576 /\ defaultChunkSize = spec_default_chunk /\
  (forall offs, 8 * zlen offs + 29 < two32 -> 8 + Gen.header_frameSize offs = Gen.header_size offs).
Proof.
  repeat split; try reflexivity. exact header_is_one_skippable_frame.
Qed.
Print Assumptions C20_constants_pinned.

(* observation (not a violation: the disk cache never calls WriteAndClose with Identity, it stores
   uncompressed CAS blobs as raw .v1 files): a file written with Identity compression keeps the
   chunk table of a write in progress, [29; 0], and is rejected by readHeader *)
Theorem C20_identity_written_file_rejected :
  forall (enc : list Z -> list Z) (hashok : list Z -> bool) (c : Z) (data : list Z) (ends : bool)
         (size ret : Z) (file : list Z),
    0 <= c < two32 -> in_i64 size ->
    write_and_close enc hashok c Identity data ends size = Ok (ret, file) ->
    is_ok (parse_header file) = false.
Proof. exact identity_written_file_rejected. Qed.
Print Assumptions C20_identity_written_file_rejected.

(* for C08: every file state of a compressed write before the final table rewrite is rejected *)
Theorem C20_torn_file_rejected :
  forall (c t size : Z) (nchunks : nat) (frames : list (list Z)) (st : list Z),
    in_i64 size -> 0 <= t < 256 -> 0 <= c < two32 ->
    (1 <= nchunks)%nat -> 8 * (Z.of_nat nchunks + 1) + 29 < two32 ->
    In st (torn_states c t size nchunks frames) ->
    is_ok (parse_header st) = false.
Proof. exact torn_file_rejected. Qed.
Print Assumptions C20_torn_file_rejected.

(* for C14: no file makes readHeader panic *)
Theorem C20_parse_header_never_panics : forall bytes, is_panic (parse_header bytes) = false.
Proof. exact parse_header_never_panics. Qed.
Print Assumptions C20_parse_header_never_panics.

(* ------------------------------------------------------------------ *)
(* Non-vacuity: with the toy codec, a 5-byte blob in chunks of 2 is written to a file that the
   independent decoder takes apart into the three chunks, and a hand-made conformant file with
   chunk size 3 (a chunk size this build never writes) is read back by both readers. *)
Example C20_example_writer :
  exists ret file,
    write_and_close toy_enc (fun _ => true) 2 Zstandard [10; 20; 30; 40; 50] false 5 = Ok (ret, file) /\
    bytes_ok [10; 20; 30; 40; 50] = true /\
    spec_decode file = Some (5, 1, 2, [[7; 10; 7; 20]; [7; 30; 7; 40]; [7; 50]]).
Proof. eexists; eexists. split; [vm_compute; reflexivity|]. split; vm_compute; reflexivity. Qed.

Example C20_example_foreign_chunk_size :
  let data := [1; 2; 3; 4; 5; 6; 7] in
  let file := encode_header (mkHeader 7 1 3 [61; 67; 73; 75]) ++
              toy_enc [1; 2; 3] ++ toy_enc [4; 5; 6] ++ toy_enc [7] in
  conformant toy_dec_all file data /\ zlen file <= maxAlloc /\
  uncompressed_reader toy_dec_all toy_dec_stream file 7 4 = Ok [5; 6; 7].
Proof.
  cbv zeta. split; [|split; [vm_compute; congruence|vm_compute; reflexivity]].
  exists 3, [toy_enc [1; 2; 3]; toy_enc [4; 5; 6]; toy_enc [7]], [[1; 2; 3]; [4; 5; 6]; [7]].
  split; [vm_compute; reflexivity|]. split; [lia|]. split.
  - split; [reflexivity|]. split; [discriminate|]. split.
    + intros [|[|i]] Hi; simpl in *; try reflexivity; lia.
    + simpl. lia.
  - repeat constructor.
Qed.
