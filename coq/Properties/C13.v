(* Properties/C13.v — "Authentication: no unauthenticated write; reads open only when allowed".
   Only statements, each closed by an already proved lemma, with Print Assumptions beneath.

   Domains (all finite, all named in the statements):
     cfg                  {no auth, htpasswd, mTLS} x allow_unauthenticated_reads x enable_endpoint_metrics
                          (every value of the record; all_cfgs lists the 12 of them)
     method_names         every method of every gRPC service ServeGRPC registers — REGENERATED from
                          server/grpc.go and the ServiceDesc literals (Gen.Auth.grpc_services), the
                          conditionally registered Remote Asset service included
     endpoint x hmethod   /cas/<hash>, /ac/<hash>, /status, /metrics  x  GET, HEAD, PUT, POST, DELETE
     grpc_creds/http_creds   the credential table of Model/Auth.v: {none, malformed (4 shapes), empty user,
                          empty password, unknown user, wrong password, valid (3 users, 3 hash schemes)}
                          over the authorization header and over :authority, x {plain, TLS without
                          certificate, unverified certificate, valid certificate, ...}
   valid_for c bp reads the LABEL of the credential (htpasswd: a valid login; mTLS: a verified
   certificate); connects c bp says the client can talk to the listener at all (TLS to the mTLS
   listener and a certificate, if any, that verifies; plain text otherwise).
   grpc_decide / http_decide = true means the request reaches the service handler / the endpoint's
   own code.  Their tie to /repo: Bridge_Auth (wiring of main.go interpreted from the regenerated
   tables, sources of the checks pinned) and the exhaustive driver harness/cmd/auth. *)
From BR Require Import Base.Prelude Gen.Consts Gen.Auth Model.Auth Proofs.Auth_props Bridge.Bridge_Auth.
Open Scope string_scope.
Open Scope Z_scope.

(* With htpasswd or mTLS authentication, a gRPC method that is not known to leave cache content
   unchanged (Spec.non_mutating, written from the protocol definitions) never reaches its handler
   without valid credentials — whatever allow_unauthenticated_reads and enable_endpoint_metrics are. *)
Theorem C13_no_unauth_mutation :
  forall (c : cfg) (m : string) (bp : bcred * pcred),
    In m method_names -> In bp grpc_creds ->
    auth_on c = true -> mutating m = true -> valid_for c bp = false ->
    grpc_decide c m (wire2 bp) = false.
Proof. exact no_unauth_grpc_mutation. Qed.
Print Assumptions C13_no_unauth_mutation.

(* HTTP likewise: on the cache endpoints nothing but GET and HEAD is served without valid
   credentials, and a PUT is answered 401 (or the connection is refused). *)
Theorem C13_no_unauth_mutation_http :
  forall (c : cfg) (e : endpoint) (m : hmethod) (bp : bcred * pcred),
    In bp http_creds ->
    auth_on c = true -> is_cache_ep e = true -> is_read m = false -> valid_for c bp = false ->
    http_decide c e m (wire2 bp) = false /\
    (m = PUT -> http_outcome c e m (wire2 bp) = H401 \/ http_outcome c e m (wire2 bp) = HNoConn).
Proof. exact no_unauth_http_mutation. Qed.
Print Assumptions C13_no_unauth_mutation_http.

(* Without valid credentials a gRPC method is open exactly when it is the health check, or
   allow_unauthenticated_reads is set and the method is in the server's readOnlyMethods table
   (which C13_table_sound shows to contain non-mutating methods only). *)
Theorem C13_reads_closed_unless_allowed :
  forall (c : cfg) (m : string) (bp : bcred * pcred),
    In m method_names -> In bp grpc_creds ->
    auth_on c = true -> valid_for c bp = false ->
    grpc_decide c m (wire2 bp) =
      connects c bp && (String.eqb m Spec.health_check || (c_allow c && read_only m)).
Proof. exact grpc_reads_closed. Qed.
Print Assumptions C13_reads_closed_unless_allowed.

Theorem C13_reads_closed_unless_allowed_http :
  forall (c : cfg) (e : endpoint) (m : hmethod) (bp : bcred * pcred),
    In bp http_creds ->
    auth_on c = true -> is_cache_ep e = true -> is_read m = true -> valid_for c bp = false ->
    http_decide c e m (wire2 bp) = (c_allow c && connects c bp) /\
    (http_decide c e m (wire2 bp) = false ->
       http_outcome c e m (wire2 bp) = H401 \/ http_outcome c e m (wire2 bp) = HNoConn).
Proof. exact http_reads_closed. Qed.
Print Assumptions C13_reads_closed_unless_allowed_http.

(* /status and /metrics (any method) without valid credentials: 401 / no connection unless
   allow_unauthenticated_reads is set, whether or not endpoint metrics are enabled.  The one other
   answer is the 404 "Endpoint metrics are not enabled" stub of a server that has no /metrics. *)
Theorem C13_status_metrics_closed_unless_allowed :
  forall (c : cfg) (e : endpoint) (m : hmethod) (bp : bcred * pcred),
    In bp http_creds ->
    auth_on c = true -> is_cache_ep e = false -> valid_for c bp = false ->
    match http_outcome c e m (wire2 bp) with
    | H401 => c_allow c = false
    | HNoConn => connects c bp = false
    | H404Stub => e = EpMetrics /\ c_metrics c = false
    | HServed => c_allow c = true /\ connects c bp = true
    | _ => False
    end.
Proof. exact status_metrics_closed. Qed.
Print Assumptions C13_status_metrics_closed_unless_allowed.

(* The health check is open to every client that can connect, in every configuration ... *)
Theorem C13_health_open :
  forall (c : cfg) (bp : bcred * pcred),
    In bp grpc_creds -> connects c bp = true ->
    grpc_decide c Spec.health_check (wire2 bp) = true.
Proof. exact health_open. Qed.
Print Assumptions C13_health_open.

(* ... and it is the only method that is: every other registered method is refused to some
   connected client in some configuration with authentication. *)
Theorem C13_only_health_always_open :
  forall m : string, In m method_names -> m <> Spec.health_check ->
    exists (c : cfg) (bp : bcred * pcred),
      auth_on c = true /\ In bp grpc_creds /\ connects c bp = true /\ grpc_decide c m (wire2 bp) = false.
Proof. exact only_health_always_open. Qed.
Print Assumptions C13_only_health_always_open.

(* Valid credentials are accepted: every gRPC method reaches its handler; every HTTP request is
   served, except where there is nothing to serve (405 for methods CacheHandler does not know, the
   /metrics stub). *)
Theorem C13_valid_accepted :
  forall c : cfg,
    (forall bp m, In bp grpc_creds -> In m method_names ->
       valid_for c bp = true -> connects c bp = true -> grpc_decide c m (wire2 bp) = true) /\
    (forall bp e m, In bp http_creds ->
       valid_for c bp = true -> connects c bp = true -> http_accepts c e m (http_outcome c e m (wire2 bp))).
Proof. exact valid_accepted. Qed.
Print Assumptions C13_valid_accepted.

(* The server's table of methods open under allow_unauthenticated_reads contains only non-mutating
   methods, all of them registered; the exempted health method is the registered health check. *)
Theorem C13_table_sound :
  incl Gen.Consts.readOnlyMethods Spec.non_mutating /\
  incl Gen.Consts.readOnlyMethods (map fst always_registered) /\
  In Gen.Auth.grpcHealthServiceName (map fst always_registered) /\
  Gen.Auth.grpcHealthServiceName = Spec.health_check /\
  In Gen.Auth.grpcHealthServiceName Spec.non_mutating.
Proof. exact table_sound. Qed.
Print Assumptions C13_table_sound.

Theorem C13_no_auth_all_open :
  forall c : cfg, auth_on c = false ->
    (forall bp m, In bp grpc_creds -> In m method_names -> connects c bp = true ->
       grpc_decide c m (wire2 bp) = true) /\
    (forall bp e m, In bp http_creds -> connects c bp = true ->
       http_outcome c e m (wire2 bp) <> H401 /\ http_outcome c e m (wire2 bp) <> HNoConn /\
       http_outcome c e m (wire2 bp) <> HPanic).
Proof. exact no_auth_all_open. Qed.
Print Assumptions C13_no_auth_all_open.

(* getLogin iterates over a Go map: on the credential domain the iteration order is irrelevant. *)
Theorem C13_login_order_irrelevant :
  forall bp, In bp grpc_creds ->
    login_ok (getLogin (fun l => l) (wire2 bp)) = login_ok (getLogin (@rev _) (wire2 bp)).
Proof. exact login_order_irrelevant. Qed.
Print Assumptions C13_login_order_irrelevant.

(* The handler selection the theorems speak about is the one main.go performs (regenerated tables,
   interpreted), for every configuration. *)
Theorem C13_wiring_is_source :
  forall c : cfg,
    http_mux_of_source c =
      Some ([("/metrics", metrics_handler c); ("/status", status_handler c); ("/", cache_handler c)], basic_init c) /\
    grpc_chains_of_source c = Some (grpc_chain c, grpc_chain c).
Proof. exact wiring_is_source. Qed.
Print Assumptions C13_wiring_is_source.

(* ---------------- non-vacuity ---------------- *)

(* the methods the property names as content-changing are in the regenerated domain and are not
   in the non-mutating table; the credential domains contain every state the property lists *)
Example C13_domain_covers_the_property :
  forallb (fun m => mem m method_names && mutating m) Spec.named_mutating = true /\
  blabels_present grpc_creds = true /\ clabels_present grpc_creds = true /\
  blabels_present http_creds = true /\ clabels_present http_creds = true /\
  List.length all_cfgs = 12%nat.
Proof. repeat split; vm_compute; reflexivity. Qed.

(* the hypotheses of C13_no_unauth_mutation are satisfiable by CONNECTED clients: htpasswd with
   unauthenticated reads and endpoint metrics, BatchUpdateBlobs, wrong password -> refused, while the
   same request with a valid login, and an allowed read without one, go through *)
Example C13_instance_htpasswd :
  let c := mkCfg MHtpasswd true true in
  match named "hdr-wrong-pass" "plain", named "authority-valid-alice" "plain" with
  | Some bad, Some good =>
      mem BatchUpdateBlobs method_names = true /\ in_grpc_creds bad = true /\ auth_on c = true /\
      mutating BatchUpdateBlobs = true /\ valid_for c bad = false /\ connects c bad = true /\
      grpc_decide c BatchUpdateBlobs (wire2 bad) = false /\
      grpc_decide c BatchUpdateBlobs (wire2 good) = true /\
      grpc_decide c GetActionResult (wire2 bad) = true /\
      grpc_decide (mkCfg MHtpasswd false true) GetActionResult (wire2 bad) = false /\
      (* non-mutating but not in the server's table: stays closed *)
      grpc_decide c QueryWriteStatus (wire2 bad) = false
  | _, _ => False
  end.
Proof. vm_compute. repeat split; reflexivity. Qed.

(* mTLS with unauthenticated reads: PUT without certificate 401, GET served, PUT with certificate
   served; an unverified certificate does not even connect *)
Example C13_instance_mtls :
  let c := mkCfg MMTLS true false in
  match named "none" "tls-no-cert", named "none" "tls-valid-cert", named "hdr-valid-alice" "tls-unverified-cert" with
  | Some nocert, Some cert, Some badcert =>
      in_http_creds nocert = true /\ valid_for c nocert = false /\ connects c nocert = true /\
      http_outcome c EpCas PUT (wire2 nocert) = H401 /\
      http_outcome c EpCas GET (wire2 nocert) = HServed /\
      http_outcome c EpAc PUT (wire2 cert) = HServed /\
      http_outcome c EpCas GET (wire2 badcert) = HNoConn /\
      http_outcome (mkCfg MMTLS false false) EpCas GET (wire2 nocert) = H401
  | _, _, _ => False
  end.
Proof. vm_compute. repeat split; reflexivity. Qed.

(* the fix 8efecd4: /status stays behind authentication when endpoint metrics are enabled *)
Example C13_status_with_endpoint_metrics :
  match named "none" "plain", named "none" "tls-no-cert" with
  | Some anon, Some nocert =>
      http_outcome (mkCfg MHtpasswd false true) EpStatus GET (wire2 anon) = H401 /\
      http_outcome (mkCfg MMTLS false true) EpStatus GET (wire2 nocert) = H401 /\
      http_outcome (mkCfg MHtpasswd false true) EpMetrics GET (wire2 anon) = H401 /\
      http_outcome (mkCfg MHtpasswd true true) EpStatus GET (wire2 anon) = HServed
  | _, _ => False
  end.
Proof. vm_compute. repeat split; reflexivity. Qed.
