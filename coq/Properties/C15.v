(* Properties/C15.v — "Keyspaces are isolated; instance-name mangling separates action results".
   Only statements, each closed by an already proved lemma, with Print Assumptions beneath.
   (The frame property over cache histories is stated in the disk model; here: the key-level facts it
   rests on, the request-URL parser, and the key mangling of both front ends.) *)
From BR Require Import Base.Prelude Gen.Consts Gen.Funcs Gen.Keys Model.Keys
  Proofs.Keys_strings Proofs.Keys_inj Proofs.Keys_url Proofs.Keys_mangle Bridge.Bridge_Keys.
Open Scope string_scope.
Open Scope Z_scope.

(* Lookup keys: equal keys have equal key space and equal hash — for ALL strings, hence in particular
   for well-formed hashes; keys of different key spaces are never equal. *)
Theorem C15_keys_injective :
  forall k h k' h', lookup_key k h = lookup_key k' h' -> k = k' /\ h = h'.
Proof. exact lookup_key_inj. Qed.
Print Assumptions C15_keys_injective.

Theorem C15_keys_injective_hashes :
  forall k h k' h', is_hash h = true -> is_hash h' = true ->
    lookup_key k h = lookup_key k' h' -> k = k' /\ h = h'.
Proof. intros k h k' h' _ _. apply lookup_key_inj. Qed.
Print Assumptions C15_keys_injective_hashes.

Theorem C15_key_spaces_disjoint :
  forall k h k' h', k <> k' -> lookup_key k h <> lookup_key k' h'.
Proof. exact lookup_key_kinds_disjoint. Qed.
Print Assumptions C15_key_spaces_disjoint.

(* File names: two entries that live in the same file have the same key space and the same hash
   (whatever their sizes, random suffixes and storage formats), and the file is below the directory
   of its key space. *)
Theorem C15_file_names_injective :
  forall k legacy h size random k' legacy' h' size' random' p,
    is_hash h = true -> is_hash h' = true -> rand_ok random = true -> rand_ok random' = true ->
    file_location k legacy h size random = Ok p ->
    file_location k' legacy' h' size' random' = Ok p ->
    k = k' /\ h = h'.
Proof. exact file_location_inj. Qed.
Print Assumptions C15_file_names_injective.

Theorem C15_file_in_key_space_directory :
  forall k legacy h size random p,
    is_hash h = true -> rand_ok random = true ->
    file_location k legacy h size random = Ok p -> starts_with (dir_name k ++ "/") p = true.
Proof. exact file_location_in_dir. Qed.
Print Assumptions C15_file_in_key_space_directory.

(* getElementPath: the prefix test recovers key space and hash of every lookup key, so evictions and
   the loader touch exactly the file FileLocation names. *)
Theorem C15_element_path_picks_the_right_file :
  forall dir k h legacy size random, String.length h = 64%nat ->
    element_kind (lookup_key k h) = k /\ element_hash (lookup_key k h) = h /\
    element_path dir (lookup_key k h) legacy size random =
      match file_location k legacy h size random with
      | Ok loc => Ok (path_join [dir; loc])
      | r => r
      end.
Proof.
  intros. split; [apply element_kind_lookup_key|]. split; [apply element_hash_lookup_key; assumption|].
  apply element_path_lookup_key; assumption.
Qed.
Print Assumptions C15_element_path_picks_the_right_file.

(* Compressed reads are only ever served from the CAS: the guard in get, and the HTTP front end. *)
Theorem C15_zstd_only_cas :
  forall k, (zstd_allowed k = true <-> k = CAS) /\
            (forall accepts, http_serves_zstd k accepts = true -> k = CAS) /\
            (k <> CAS -> get_guard k true = Err EBadRequest).
Proof.
  intros k. split; [apply zstd_allowed_iff|]. split; [apply http_serves_zstd_only_cas|].
  intros N. destruct (get_guard_spec k true) as [E|[E _]]; [|exact E].
  exfalso. apply N. apply zstd_allowed_iff. unfold zstd_allowed. rewrite E. reflexivity.
Qed.
Print Assumptions C15_zstd_only_cas.

(* The request-URL recogniser.  Every path  P/ac/<hash>  or  P/cas/<hash>  with a newline-free P is
   accepted; the hash is the last 64 digits; the instance is P minus ONE leading slash (nothing else
   is normalised: inner, doubled and trailing slashes, and segments such as ac, cas, blobs stay). *)
Theorem C15_url_accepts :
  forall P cas h validateAC, no_newline P = true -> is_hash h = true ->
    parse_request_url (P ++ "/" ++ kw cas ++ h) validateAC = Some (kind_of cas validateAC, h, strip_lead P).
Proof. exact parse_prefixed. Qed.
Print Assumptions C15_url_accepts.

(* ... and whatever is accepted has that form. *)
Theorem C15_url_sound :
  forall url validateAC k h i, parse_request_url url validateAC = Some (k, h, i) ->
    is_hash h = true /\ no_newline i = true /\
    exists pre cas, url = pre ++ kw cas ++ h /\ k = kind_of cas validateAC /\
                    (pre = "" \/ pre = "/" \/ pre = i ++ "/" \/ pre = "/" ++ i ++ "/").
Proof. exact parse_request_url_sound. Qed.
Print Assumptions C15_url_sound.

(* Both front ends compute the same action-cache key for instance I and hash h, for EVERY
   newline-free I (empty, nested, with ac / cas / blobs segments, unicode bytes): over HTTP from the
   path /I/ac/h (/ac/h when I is empty), over gRPC from instance_name = I.  With validation enabled
   they also use the same key space; without it HTTP uses RAW. *)
Theorem C15_mangle_agree :
  forall (H : string -> string) (mangle : bool) I h,
    no_newline I = true -> is_hash h = true ->
    let key := if mangle then transform_ac_key H h I else h in
    front_key H mangle true true h I = Some (AC, key) /\
    front_key H mangle true false h I = Some (AC, key) /\
    front_key H mangle false true h I = Some (RAW, key).
Proof. exact mangle_agree. Qed.
Print Assumptions C15_mangle_agree.

(* Equal mangled keys: equal (key, instance), or an explicit SHA-256 coincidence. *)
Theorem C15_mangle_separates :
  forall (H : string -> string) k I k' I',
    String.length k = String.length k' ->
    transform_ac_key H k I = transform_ac_key H k' I' ->
    (k = k' /\ I = I') \/
    (I <> "" /\ I' <> "" /\ k ++ I <> k' ++ I' /\ H (k ++ I) = H (k' ++ I')) \/
    (I = "" /\ I' <> "" /\ k = H (k' ++ I')) \/
    (I <> "" /\ I' = "" /\ H (k ++ I) = k').
Proof. exact transform_separates. Qed.
Print Assumptions C15_mangle_separates.

Theorem C15_mangle_separates_instances :
  forall (H : string -> string) k I I',
    transform_ac_key H k I = transform_ac_key H k I' ->
    I = I' \/ (k ++ I <> k ++ I' /\ H (k ++ I) = H (k ++ I')) \/
    (I = "" /\ k = H (k ++ I')) \/ (I' = "" /\ H (k ++ I) = k).
Proof. exact transform_separates_same_key. Qed.
Print Assumptions C15_mangle_separates_instances.

(* The same for the requests the front ends ACCEPT: well-formedness of the hash is no longer a
   premise, it follows from acceptance (gRPC validates the client's hash before mangling it; over
   HTTP the pattern does). *)
Theorem C15_grpc_mangle_separates :
  forall (H : string -> string) k I size k' I' size' key,
    grpc_ac_key H true k I size = Ok key -> grpc_ac_key H true k' I' size' = Ok key ->
    (k = k' /\ I = I') \/
    (I <> "" /\ I' <> "" /\ k ++ I <> k' ++ I' /\ H (k ++ I) = H (k' ++ I')) \/
    (I = "" /\ I' <> "" /\ k = H (k' ++ I')) \/
    (I <> "" /\ I' = "" /\ H (k ++ I) = k').
Proof. exact grpc_mangle_separates. Qed.
Print Assumptions C15_grpc_mangle_separates.

Theorem C15_http_mangle_separates :
  forall (H : string -> string) validateAC url url' k h i k' h' i',
    parse_request_url url validateAC = Some (k, h, i) -> parse_request_url url' validateAC = Some (k', h', i') ->
    k <> CAS -> k' <> CAS ->
    http_request_key H true validateAC url = http_request_key H true validateAC url' ->
    (h = h' /\ i = i') \/
    (i <> "" /\ i' <> "" /\ h ++ i <> h' ++ i' /\ H (h ++ i) = H (h' ++ i')) \/
    (i = "" /\ i' <> "" /\ h = H (h' ++ i')) \/
    (i <> "" /\ i' = "" /\ H (h ++ i) = h').
Proof. exact http_mangle_separates. Qed.
Print Assumptions C15_http_mangle_separates.

(* gRPC: a malformed ActionDigest.Hash is rejected with InvalidArgument whatever the instance name and
   whether or not mangling is enabled; what is accepted was a well-formed hash before mangling.
   (Formerly refuted: the hash used to be validated only after mangling; fixed in /repo 721c198.) *)
Theorem C15_grpc_rejects_malformed_hash :
  forall (H : string -> string) (mangle : bool) k I size,
    (is_hash k = false -> grpc_ac_key H mangle k I size = Err EBadRequest) /\
    (forall key, grpc_ac_key H mangle k I size = Ok key ->
       is_hash k = true /\ key = (if mangle then transform_ac_key H k I else k)).
Proof. intros. split; [apply grpc_rejects_malformed|intros key; apply grpc_key_accept_inv]. Qed.
Print Assumptions C15_grpc_rejects_malformed_hash.

(* With mangling disabled the instance name has no effect on any lookup; CAS requests ignore it always. *)
Theorem C15_mangle_off :
  forall (H : string -> string) validateAC I I' h size,
    no_newline I = true -> no_newline I' = true -> is_hash h = true ->
    http_request_key H false validateAC (http_ac_url I h) = http_request_key H false validateAC (http_ac_url I' h) /\
    grpc_ac_key H false h I size = grpc_ac_key H false h I' size.
Proof. intros. split; [apply mangle_off_http; assumption|apply mangle_off_grpc]. Qed.
Print Assumptions C15_mangle_off.

Theorem C15_cas_ignores_instance :
  forall (H : string -> string) mangle validateAC P P' h,
    no_newline P = true -> no_newline P' = true -> is_hash h = true ->
    http_request_key H mangle validateAC (P ++ "/" ++ kw true ++ h) = Some (CAS, h) /\
    http_request_key H mangle validateAC (P' ++ "/" ++ kw true ++ h) = Some (CAS, h).
Proof. exact cas_ignores_instance. Qed.
Print Assumptions C15_cas_ignores_instance.

(* What does NOT hold (finding, outside the property's domain): an instance name with a newline is
   unreachable over HTTP (`.` does not match it) while gRPC serves it. *)
Theorem C15_mangle_agree_newline_refuted :
  exists I h, is_hash h = true /\ parse_request_url (http_ac_url I h) true = None /\
              forall H, exists k, grpc_ac_key H true h I 1 = Ok k.
Proof. exact newline_instance_refuted. Qed.
Print Assumptions C15_mangle_agree_newline_refuted.

(* Non-vacuity: a hash, a nested instance name with reserved words and non-ASCII bytes, a toy H whose
   values have the shape of a hash; the premises hold and the computed entries are as stated. *)
Example C15_example :
  let h := emptySha256 in
  let I := "main/ac/blobs/" ++ sb [195; 188] ++ "/cas" in
  let H := fun x : string => if Nat.even (String.length x) then emptySha256 else
                             "0000000000000000000000000000000000000000000000000000000000000001" in
  hash_valued H /\ is_hash h = true /\ no_newline I = true /\ rand_ok "123abcXYZ" = true /\
  parse_request_url ("/" ++ I ++ "/ac/" ++ h) true = Some (AC, h, I) /\
  parse_request_url ("//x//cas/" ++ h) false = Some (CAS, h, "/x/") /\
  front_key H true true true h I = front_key H true true false h I /\
  grpc_ac_key H true (h ++ "a") "b" 1 = Err EBadRequest /\
  file_location CAS false h 42 "123abcXYZ" = Ok ("cas.v2/e3/" ++ h ++ "-42-123abcXYZ") /\
  file_location AC false h 42 "123abcXYZ" = Ok ("ac.v2/e3/" ++ h ++ "-123abcXYZ").
Proof.
  cbv zeta. split.
  - intros x. destruct (Nat.even (String.length x)); reflexivity.
  - repeat split; vm_compute; reflexivity.
Qed.
