(* Properties/C17_paths.v — C17 on the front-end adapters (Model/Front.v): "max_size_hard_limit refuses
   overload with a retryable error; reads continue — every write path".
   Only statements, each closed by an already proved lemma, with Print Assumptions beneath.

   The index refuses a reservation with EInsufficient (HTTP 507) exactly when the limit is on and
   currentSize + deletion backlog + new size exceeds it (Properties/C17.v, C17_admission), and such a
   refusal changes nothing (C17_refusal_pure).  Here: what each write path makes of it.
   [SErr EInsufficient] = HTTP 507 Insufficient Storage / gRPC RESOURCE_EXHAUSTED — the retryable class.
   (SpliceBlob and FetchBlob used to drop the class — findings F37, F38, repaired — and are part of the
   statement now; the driver and the Example keep them as regression cases.) *)
From BR Require Import Base.Prelude Gen.Front Model.LRU Proofs.LRU_inv Model.Disk Model.Front
  Proofs.Front_base Proofs.Front_ack Proofs.Front_limit Proofs.Front_hardlimit Proofs.Front_examples Bridge.Bridge_Front.
Open Scope list_scope.
Open Scope Z_scope.

(* the disk layer under the limit: the Put of an item that does not fit next to what is stored plus
   what still waits for deletion is refused with EInsufficient at once, and the state it leaves has the
   same files, the same entries in the same order, the same accounting and the same backlog *)
Theorem C17_paths_disk_layer_refusal :
  forall c d k hash sz st rnd,
    Inv (lru d) -> 0 < sz <= c_maxblob (fc_disk c) -> Z.of_nat (String.length hash) = hashLen ->
    sz <= maxs (lru d) -> sz + res (lru d) <= maxs (lru d) ->
    ~ (hard (lru d) <= 0 \/ cur (lru d) + qbytes (lru d) + sz <= hard (lru d)) ->
    let d' := after_refusal d sz in
    disk_put c d k hash sz st rnd = (d', Some EInsufficient) /\
    files d' = files d /\ handed d' = handed d /\
    order (lru d') = order (lru d) /\ evq (lru d') = evq (lru d) /\ cur (lru d') = cur (lru d) /\
    res (lru d') = res (lru d) /\ unc (lru d') = unc (lru d) /\ qbytes (lru d') = qbytes (lru d).
Proof. exact hard_limit_refusal. Qed.
Print Assumptions C17_paths_disk_layer_refusal.

(* every write path whose request is otherwise in order answers a disk-layer refusal [e] with the
   status derived from e — for e = EInsufficient the retryable class — and does nothing else: the
   resulting state d' is the disk layer's *)
Theorem C17_paths_refusal_is_retryable :
  forall c,
  (* HTTP PUT /cas, plain and zstd *)
  (forall d hash cl xd ce b rnd len d' e,
     http_declared cl xd = Some len -> 0 < len <= fc_http_max c -> ce <> CeOther ->
     disk_put c d CAS hash len (stream_of b) rnd = (d', Some e) ->
     http_put c d true hash cl xd ce b rnd = (d', SErr e)) /\
  (* HTTP PUT /ac *)
  (forall d hash cl arlen rnd d' e,
     0 <= cl <= fc_http_max c ->
     disk_put c d AC hash arlen (mkStream 0 arlen false true arlen) rnd = (d', Some e) ->
     http_put_ac c d hash cl true arlen rnd = (d', SErr e)) /\
  (* BatchUpdateBlobs, per blob *)
  (forall d en d' e,
     (forall n, bu_comp en <> COther n) -> b_clean (bu_body en) = true -> b_len (bu_body en) = bu_size en ->
     disk_put c d CAS (bu_hash en) (bu_size en) (stream_of (bu_body en)) (bu_rnd en) = (d', Some e) ->
     bu_one c d en = (d', SErr (grpc_code e EInternal))) /\
  (* ByteStream.Write, blobs/ and compressed-blobs/zstd/, any number of messages, completely received *)
  (forall d z hash size m0 rest b rnd piped d' e,
     0 <= size <= fc_grpc_max c -> validate_hash hash size = true ->
     bs_shortcut (snd (fst (disk_contains c d CAS hash size))) hash size = false -> wm_off m0 = 0 ->
     recv_loop z size 0 true (m0 :: rest) false = (piped, None) ->
     disk_put c (fst (fst (disk_contains c d CAS hash size))) CAS hash size (bs_stream z b piped false) rnd = (d', Some e) ->
     bs_write c d (WN z hash size) (m0 :: rest) false b rnd = (d', SErr (grpc_code e EInternal))) /\
  (* UpdateActionResult without inlined blobs *)
  (forall d ahash asize arlen rnd none1 none2 d' e,
     validate_hash ahash asize = true -> arlen <> 0 -> in_present none1 = false -> in_present none2 = false ->
     disk_put c d AC ahash arlen (mkStream 0 arlen false true arlen) rnd = (d', Some e) ->
     update_ar c d ahash asize true [] none1 none2 arlen rnd = (d', SErr (grpc_code e EInternal))) /\
  (* UpdateActionResult whose first inlined blob is refused: the ActionResult is not stored either *)
  (forall d ahash asize files so se arlen rnd i t d' e,
     validate_hash ahash asize = true -> arlen <> 0 -> files ++ [so; se] = i :: t -> in_present i = true ->
     disk_put c d CAS (fst (inl_digest i)) (snd (inl_digest i)) (inl_stream i) (in_rnd i) = (d', Some e) ->
     update_ar c d ahash asize true files so se arlen rnd = (d', SErr (grpc_code e EInternal))) /\
  (* SpliceBlob whose chunks were all read *)
  (forall d dfn cs h s computed concat_ok cid rnd total d2 d3 d' e,
     (dfn = 0 \/ dfn = 1) -> cs <> [] -> check_chunks cs 0 = Some total -> total = s -> 0 < s ->
     (fc_grpc_max c > 0 -> s <= fc_grpc_max c) -> h <> emptySha256 -> hash_re h = true ->
     disk_contains c d CAS h s = (d2, false, -1) ->
     feed_chunks c d2 cs 0 = (d3, s, None) ->
     disk_put c d3 CAS h s (mkStream cid s false concat_ok s) rnd = (d', Some e) ->
     splice c d dfn cs (Some (h, s)) computed concat_ok cid rnd = (d', SErr (grpc_code e EInternal))) /\
  (* FetchBlob: RESOURCE_EXHAUSTED at once, no further URI is tried *)
  (forall d u t h d',
     up_ok u = true -> 0 <= up_cl u ->
     disk_put c d CAS h (up_cl u) (stream_of (up_body u)) (up_rnd u) = (d', Some EInsufficient) ->
     fetch_uris c d (u :: t) (Some h) = (d', SErr EInsufficient, None)) /\
  grpc_code EInsufficient EInternal = EInsufficient.
Proof.
  intros c.
  split; [exact (http_put_disk_refusal c)|]. split; [exact (http_put_ac_disk_refusal c)|].
  split; [exact (bu_one_disk_refusal c)|]. split; [exact (bs_write_disk_refusal c)|].
  split; [exact (update_ar_disk_refusal c)|]. split; [exact (update_ar_inlined_disk_refusal c)|].
  split; [exact (splice_disk_refusal c)|]. split; [exact (fetch_uris_disk_refusal c)|exact retryable_class].
Qed.
Print Assumptions C17_paths_refusal_is_retryable.

(* the table the gRPC adapters use is the source's: 507 -> RESOURCE_EXHAUSTED, 400 -> InvalidArgument,
   404 -> NotFound, anything else -> the caller's default *)
Theorem C17_paths_error_table_pinned :
  Gen.Front.front_gRPCErrCode =
    [("if err == nil", "codes.OK");
     ("case http.StatusInsufficientStorage", "codes.ResourceExhausted");
     ("case http.StatusBadRequest", "codes.InvalidArgument");
     ("case http.StatusNotFound", "codes.NotFound");
     ("otherwise", "dflt")]%string /\
  Gen.Front.front_Write_codes = expected_Write_codes /\
  Gen.Front.front_BatchUpdateBlobs_codes = expected_BatchUpdateBlobs_codes.
Proof. split; [exact gRPCErrCode_pinned|]. split; [exact Write_codes_pinned|exact BatchUpdateBlobs_codes_pinned]. Qed.
Print Assumptions C17_paths_error_table_pinned.

(* non-vacuity: a cache of 3 blocks with the limit one block above; filled, one more upload admitted
   (its eviction waits in the backlog: the remover is held back), then every write path refused with
   its class and nothing changed (Stats and backlog identical), reads served, and after the remover
   ran the same upload admitted; with the limit off the same uploads are admitted *)
Example C17_paths_example :
  run_ops (wired false 100000) store0 (hl_fill ++ hl_refused ++ hl_reads ++ hl_retry) = hl_expected.
Proof. exact hard_limit_scenario. Qed.
