(* Properties/C16.v — "ByteStream.Write and QueryWriteStatus follow the upload protocol".
   Only statements, each closed by an already proved lemma, with Print Assumptions beneath.

   A Write call is a list of request messages (resource_name, write_offset, number of data bytes,
   finish_write) followed by the client's half-close.  Parameters of the handler model:
   maxsz = max_cas_blob_size; present = a blob with the declared hash and size is in the cache;
   put_ok j = disk.Put accepts the concatenated data of the first j messages followed by a clean EOF;
   beh = whether Put returns before the end of the stream (with an error when its reader fails; with
   nil, [PutNilEarly], when it only probes its reader: the empty digest); sel = which of two
   simultaneously ready result channels the handler's select takes.  [consumed msgs] = the messages
   up to and including the first finish_write. *)
From BR Require Import Base.Prelude Gen.Consts Gen.Keys Model.Keys Model.ByteStream
  Proofs.Keys_strings Proofs.ByteStream_names Proofs.ByteStream_write Bridge.Bridge_Keys.
Open Scope string_scope.
Open Scope Z_scope.

(* A successful Write: either the blob was there (committed_size = size for blobs/, -1 for
   compressed-blobs/, no Put started), or Put was handed exactly the data of the consumed messages
   followed by a clean EOF and accepted it, committed_size is the number of payload bytes sent
   (= the blob size for blobs/), and the blob is stored — for every chunking. *)
Theorem C16_committed :
  forall sel beh perr maxsz present put_ok msgs cs,
    let o := write_handler sel beh perr maxsz present put_ok msgs in
    w_status o = Ok cs ->
    exists m rest h sz c,
      msgs = m :: rest /\ parse_write_resource (m_name m) = Ok (h, sz, c) /\ sz <= maxsz /\
      ((early_return present h sz = true /\ cs = (if c =? cmp_identity then sz else -1) /\
        w_put_started o = false /\ w_stored o = false)
       \/
       (early_return present h sz = false /\ m_off m = 0 /\ names_ok (m_name m) (consumed msgs) = true /\
        cs = sumlen (consumed msgs) /\ ((c =? cmp_identity) = true -> cs = sz) /\
        (nil_early_free beh = true ->
         w_put_clean o = Some (List.length (consumed msgs)) /\
         put_ok (List.length (consumed msgs)) = true /\ w_stored o = true))).
Proof. exact handler_ok_inv. Qed.
Print Assumptions C16_committed.

(* ... and in both cases the blob is present afterwards. *)
Theorem C16_present_after_success :
  forall sel beh perr maxsz present put_ok msgs cs,
    let o := write_handler sel beh perr maxsz present put_ok msgs in
    nil_early_free beh = true ->
    w_status o = Ok cs ->
    exists m rest h sz c, msgs = m :: rest /\ parse_write_resource (m_name m) = Ok (h, sz, c) /\
                          contains (present_after present o) h sz = true.
Proof.
  intros sel beh perr maxsz present put_ok msgs cs o NF H.
  destruct (handler_ok_inv sel beh perr maxsz present put_ok msgs cs H) as (m & rest & h & sz & c & E & P & _ & Cases).
  exists m, rest, h, sz, c. split; [exact E|]. split; [exact P|].
  unfold present_after, early_return, contains in *. fold o in Cases.
  destruct Cases as [(C & _)|(_ & _ & _ & _ & _ & Put)].
  - apply andb_true_iff in C as [C _].
    apply orb_true_iff in C as [C|C]; [rewrite C; reflexivity|rewrite C, orb_true_r; reflexivity].
  - destruct (Put NF) as (_ & _ & S). rewrite S, !orb_true_r. reflexivity.
Qed.
Print Assumptions C16_present_after_success.

(* Nothing is ever stored by a call that does not report success; the handler neither panics nor hangs. *)
Theorem C16_stored_only_on_success :
  forall sel beh perr maxsz present put_ok msgs,
    let o := write_handler sel beh perr maxsz present put_ok msgs in
    ((exists cs, w_status o = Ok cs) \/ (exists e, w_status o = Err e)) /\
    (w_stored o = true -> exists cs j, w_status o = Ok cs /\ w_put_clean o = Some j /\ put_ok j = true).
Proof. intros. split; [apply handler_total|apply handler_stored_only_ok]. Qed.
Print Assumptions C16_stored_only_on_success.

(* For a blob not yet present: no message at all, an unparsable resource name, a blob beyond the
   size limit, a non-zero first write_offset, a resource name that changes among the consumed
   messages, or (blobs/) more or fewer bytes than declared — each fails the call and stores nothing. *)
Theorem C16_rejects :
  forall sel beh perr maxsz present put_ok msgs,
    let o := write_handler sel beh perr maxsz present put_ok msgs in
    (msgs = [] \/
     exists m rest, msgs = m :: rest /\
       ((forall x, parse_write_resource (m_name m) <> Ok x) \/
        exists h sz c, parse_write_resource (m_name m) = Ok (h, sz, c) /\
          (sz > maxsz \/
           (early_return present h sz = false /\
            (m_off m <> 0 \/
             names_ok (m_name m) (consumed msgs) = false \/
             ((c =? cmp_identity) = true /\ sumlen (consumed msgs) <> sz)))))) ->
    (exists e, w_status o = Err e) /\ w_stored o = false.
Proof. exact handler_rejects. Qed.
Print Assumptions C16_rejects.

(* Whichever of the two result channels the select takes, the outcome class (OK + committed size, or
   error) and what is stored are the same; a Put that fails early (it can never accept then) gives the
   same class as one failing at the end. *)
Theorem C16_select_independent :
  forall sel sel' beh perr maxsz present put_ok msgs,
    nil_early_free beh = true ->
    outcome (write_handler sel beh perr maxsz present put_ok msgs) =
    outcome (write_handler sel' beh perr maxsz present put_ok msgs).
Proof. exact select_independent. Qed.
Print Assumptions C16_select_independent.

(* It is NOT true of the handler alone for a Put that returns nil before the end of the stream: the same
   call would end OK — acknowledging data Put never accepted — or with an internal error, depending on
   the select.  disk.Put did that for the empty digest with undecodable zstd data until /repo 0b4ddfa
   (found with this machinery); it now reads to EOF before returning nil, so nil_early_free holds. *)
Theorem C16_select_independent_nil_early_refuted :
  exists perr maxsz present put_ok msgs k cs,
    w_status (write_handler false (PutNilEarly k) perr maxsz present put_ok msgs) = Ok cs /\
    w_status (write_handler true (PutNilEarly k) perr maxsz present put_ok msgs) = Err EInternal /\
    put_ok (List.length (consumed msgs)) = false.
Proof. exact select_dependent_nil_early. Qed.
Print Assumptions C16_select_independent_nil_early_refuted.

Theorem C16_early_put_failure_same_class :
  forall sel sel' k e perr maxsz present put_ok msgs,
    (forall j, put_ok j = false) ->
    outcome (write_handler sel (PutFailsEarly k e) perr maxsz present put_ok msgs) =
    outcome (write_handler sel' PutToEnd perr maxsz present put_ok msgs).
Proof. exact early_put_failure_same_class. Qed.
Print Assumptions C16_early_put_failure_same_class.

(* The blob already exists (and is not the empty digest, which always "exists" and takes the normal
   protocol): the call returns after the first message with the blob size (blobs/) or
   -1 (compressed-blobs/), whatever that message's offset, data and finish_write are and whatever
   follows in the stream (it is not required), and no Put is started. *)
Theorem C16_existing_blob_early_return :
  forall sel beh perr maxsz present put_ok m rest h sz c,
    parse_write_resource (m_name m) = Ok (h, sz, c) -> sz <= maxsz ->
    contains present h sz = true -> is_empty_digest h sz = false ->
    write_handler sel beh perr maxsz present put_ok (m :: rest) =
    mkOut (Ok (if c =? cmp_identity then sz else -1)) false None false.
Proof.
  intros sel beh perr maxsz present put_ok m rest h sz c P Hm C NE.
  apply (existing_blob_early_return sel beh perr maxsz present put_ok m rest h sz c P Hm).
  unfold early_return. rewrite C, NE. reflexivity.
Qed.
Print Assumptions C16_existing_blob_early_return.

(* Data sent for the empty digest is not acknowledged: there is no early return for it; over blobs/
   any payload byte fails the call (whatever Put does); in general, whenever Put refuses what it was
   handed (for the empty digest: it received a byte) the call fails — and nothing is stored. *)
Theorem C16_empty_digest_with_data_rejected :
  forall sel beh perr maxsz present put_ok m rest c,
    let msgs := m :: rest in
    let o := write_handler sel beh perr maxsz present put_ok msgs in
    parse_write_resource (m_name m) = Ok (emptySha256, 0, c) ->
    early_return present emptySha256 0 = false /\
    (((c =? cmp_identity) = true /\ sumlen (consumed msgs) <> 0) \/
     (nil_early_free beh = true /\ put_ok (List.length (consumed msgs)) = false) ->
     (exists e, w_status o = Err e) /\ w_stored o = false).
Proof.
  intros sel beh perr maxsz present put_ok m rest c msgs o P.
  split; [apply empty_digest_no_early_return|]. intros [[Hc Hs]|[NF NP]].
  - apply handler_rejects. right. exists m, rest. split; [reflexivity|]. right.
    exists emptySha256, 0, c. split; [exact P|]. right.
    split; [apply empty_digest_no_early_return|]. right; right. split; assumption.
  - apply handler_put_refuses; [exact NF|].
    intros m' rest' h sz c' E P'. injection E as <- <-. rewrite P in P'. injection P' as <- <- <-.
    split; [apply empty_digest_no_early_return|exact NP].
Qed.
Print Assumptions C16_empty_digest_with_data_rejected.

(* QueryWriteStatus: complete with the full size exactly when the blob is present; otherwise 0 and
   incomplete; an unparsable name is an error. *)
Theorem C16_qws :
  forall present name,
    (forall sz, query_write_status present name = Ok (sz, true) <->
                exists h c, parse_write_resource name = Ok (h, sz, c) /\ contains present h sz = true) /\
    (forall cs, query_write_status present name = Ok (cs, false) <->
                cs = 0 /\ exists h sz c, parse_write_resource name = Ok (h, sz, c) /\ contains present h sz = false) /\
    (forall e, parse_write_resource name = Err e -> query_write_status present name = Err e).
Proof.
  intros present name. split; [intros; apply qws_complete_iff|]. split; [intros; apply qws_incomplete_iff|].
  intros e P. pose proof (qws_spec present name) as S. rewrite P in S. exact S.
Qed.
Print Assumptions C16_qws.

(* Resource names: for every instance prefix (any segments other than the reserved one: "uploads" for
   writes, "blobs"/"compressed-blobs" for reads), every uuid and every trailing metadata, the parser
   yields the embedded hash, size and compressor.  szs is any size text ParseInt accepts. *)
Theorem C16_names :
  forall inst uuid h szs sz meta (z : bool),
    forallb (not_kw "uploads") inst = true ->
    forallb no_slash (inst ++ uuid :: h :: szs :: meta)%list = true ->
    parse_int64 szs = Some sz -> 0 <= sz -> validate_hash h sz = Ok tt ->
    parse_write_resource
      (join_slash (inst ++ "uploads" :: uuid ::
                   (if z then ["compressed-blobs"; "zstd"] else ["blobs"]) ++ h :: szs :: meta)%list)
    = Ok (h, sz, if z then cmp_zstd else cmp_identity).
Proof. exact names_write. Qed.
Print Assumptions C16_names.

Theorem C16_names_read :
  forall inst h szs sz (z : bool),
    forallb not_read_kw inst = true ->
    forallb no_slash (inst ++ [h; szs])%list = true ->
    parse_int64 szs = Some sz -> 0 <= sz -> validate_hash h sz = Ok tt ->
    parse_read_resource
      (join_slash (inst ++ (if z then ["compressed-blobs"; "zstd"] else ["blobs"]) ++ [h; szs])%list)
    = Ok (h, sz, if z then cmp_zstd else cmp_identity).
Proof. exact names_read. Qed.
Print Assumptions C16_names_read.

(* whatever the write-name parser accepts carries a validated hash and a non-negative size *)
Theorem C16_names_sound :
  forall name h sz c, parse_write_resource name = Ok (h, sz, c) ->
    0 <= sz /\ validate_hash h sz = Ok tt /\ (c = cmp_identity \/ c = cmp_zstd).
Proof. intros name h sz c. apply parse_write_fields_inv. Qed.
Print Assumptions C16_names_sound.

(* the decimal size texts a client produces are read back (boundary values, by computation) *)
Theorem C16_size_text_roundtrip :
  forallb (fun z => match parse_int64 (Z_to_dec z) with Some z' => z =? z' | None => false end)
          [0; 1; 9; 10; 99; 100; 4096; 1048576; 4294967296; 9223372036854775807; -1; -9223372036854775808] = true /\
  parse_int64 "9223372036854775808" = None /\ parse_int64 "" = None /\ parse_int64 "+7" = Some 7 /\
  parse_int64 "1_0" = None /\ parse_int64 "-" = None.
Proof. repeat split; vm_compute; reflexivity. Qed.
Print Assumptions C16_size_text_roundtrip.

(* Non-vacuity: a three-message upload (with an empty message and the name repeated) of a 5-byte blob
   under a nested instance name with metadata; an existing blob; a rejected overlong upload. *)
Example C16_example :
  let h := "a665a45920422f9d417e4867efdc4fb8a04a1f3fff1fa07e998e86f7f7a27ae3" in
  let name := "main/blobs/x/uploads/u-1/blobs/" ++ h ++ "/5/meta/data" in
  let msgs := [mkMsg name 0 2 false; mkMsg "" 0 0 false; mkMsg name 0 3 true; mkMsg "junk" 0 9 false] in
  parse_write_resource name = Ok (h, 5, cmp_identity) /\
  consumed msgs = firstn 3 msgs /\
  write_handler false PutToEnd EInternal 100 false (fun j => Nat.eqb j 3) msgs = mkOut (Ok 5) true (Some 3%nat) true /\
  write_handler true PutToEnd EInternal 100 true (fun _ => false) msgs = mkOut (Ok 5) false None false /\
  w_status (write_handler false PutToEnd EInternal 100 false (fun _ => true)
              [mkMsg name 0 2 false; mkMsg name 0 4 true]) = Err EOutOfRange /\
  w_status (write_handler false PutToEnd EBadRequest 100 true (fun j => Nat.eqb j 0)
              [mkMsg ("uploads/u/blobs/" ++ emptySha256 ++ "/0") 0 1 true]) = Err EOutOfRange /\
  w_status (write_handler false PutToEnd EBadRequest 100 true (fun j => Nat.eqb j 0)
              [mkMsg ("uploads/u/compressed-blobs/zstd/" ++ emptySha256 ++ "/0") 0 18 true]) = Err EBadRequest /\
  w_status (write_handler false PutToEnd EBadRequest 100 true (fun _ => true)
              [mkMsg ("uploads/u/blobs/" ++ emptySha256 ++ "/0") 0 0 true]) = Ok 0 /\
  query_write_status true (name ++ "/more") = Ok (5, true) /\
  parse_read_resource ("a/b/compressed-blobs/zstd/" ++ h ++ "/5") = Ok (h, 5, cmp_zstd).
Proof. cbv zeta. repeat split; vm_compute; reflexivity. Qed.
