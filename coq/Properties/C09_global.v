(* Properties/C09_global.v — C09 "Restart keeps what fits, evicts oldest first", stated GLOBALLY over
   the whole load (Properties/C09.v states eviction per insertion).  Only statements, each closed by
   an already proved lemma, with Print Assumptions beneath, and examples on a 5-file directory.

   Vocabulary (Proofs/Load_global.v; Properties/C09.v for the rest):
     r_of x              4 KiB-rounded size on disk of scanned file x
     fitsb mx x          x can be indexed at all: r_of x <= mx
     cands mx l          the indexable files of l not superseded by a later indexable file of their key
     trim mx l           drop from the old end while the total of r_of exceeds mx
     lstep mx S x        one Add on the level of files: refuse x if it alone exceeds mx, else remove
                         the entry of x's key from S, append x, trim
     survivors mx l      fold_left (lstep mx) l []  — an executable description of the outcome
     fitting_suffix mx l K            l = A ++ K for some A, and total(K) <= mx
     longest_fitting_suffix mx l K    a fitting suffix of which every fitting suffix is a suffix
     key_mono mx l       for each key, a later indexable file of l is not smaller (rounded) than an
                         earlier indexable file of that key
     same_key_same_size  indexable files of one key have one rounded size *)
From Coq Require Import Permutation Sorting.Sorted.
From BR Require Import Base.Prelude Model.LRU Model.Names Model.Load Proofs.LRU_inv
  Proofs.Names_strings Proofs.Names_roundtrip Proofs.Load_add Proofs.Load_loop Proofs.Load_scan
  Proofs.Load_main Proofs.Load_prov Proofs.Load_global Proofs.Load_global2 Proofs.Load_global3.
Open Scope Z_scope.
Open Scope list_scope.

(* ---- the exact outcome ------------------------------------------------------------------------ *)

(* For every directory of the population grammar and every max_size > 0: the index after start-up
   holds exactly kept = survivors max_size (files sorted oldest first), in that (recency) order;
   the files left are exactly the files of kept; the accounted size is the sum of the rounded
   sizes over kept and at most max_size; kept is a suffix (the newest part) of the candidates whose
   total fits; every kept entry is a scanned file. *)
Theorem C09_global_exact :
  forall max_size hard_limit t files s files_left,
    population_ok t = true -> 0 < max_size ->
    scanned t = Ok files -> startup max_size hard_limit t = Ok (s, files_left) ->
    let kept := survivors max_size (sort_atime files) in
    map ent (order s) = map sf_entry kept /\
    Permutation files_left (map sf_place kept) /\
    cur s = sumZ r_of kept /\ sumZ r_of kept <= max_size /\
    fitting_suffix max_size (cands max_size (sort_atime files)) kept /\
    incl kept files.
Proof. exact startup_survivors. Qed.
Print Assumptions C09_global_exact.

(* trim is "the longest fitting suffix" (no hypothesis on sizes), and that notion is unambiguous *)
Theorem C09_global_trim_is_longest :
  forall mx l, 0 <= mx -> longest_fitting_suffix mx l (trim mx l).
Proof. exact trim_longest. Qed.
Print Assumptions C09_global_trim_is_longest.

Theorem C09_global_longest_unique :
  forall mx l K1 K2, longest_fitting_suffix mx l K1 -> longest_fitting_suffix mx l K2 -> K1 = K2.
Proof. exact longest_fitting_suffix_unique. Qed.
Print Assumptions C09_global_longest_unique.

(* ---- longest fitting suffix ------------------------------------------------------------------- *)

(* When, for each key, more recently accessed indexable files are not smaller than older ones, the
   index holds exactly the LONGEST fitting suffix of the candidates. *)
Theorem C09_global_longest :
  forall max_size hard_limit t files s files_left,
    population_ok t = true -> 0 < max_size ->
    scanned t = Ok files -> startup max_size hard_limit t = Ok (s, files_left) ->
    key_mono max_size (sort_atime files) ->
    exists kept,
      map ent (order s) = map sf_entry kept /\
      longest_fitting_suffix max_size (cands max_size (sort_atime files)) kept.
Proof. exact startup_longest. Qed.
Print Assumptions C09_global_longest.

(* Distinct keys among the indexable files (one file per key): the index holds exactly the longest
   fitting suffix of the indexable files sorted oldest first. *)
Theorem C09_global_longest_distinct_keys :
  forall max_size hard_limit t files s files_left,
    population_ok t = true -> 0 < max_size ->
    scanned t = Ok files -> startup max_size hard_limit t = Ok (s, files_left) ->
    NoDup (map sf_key (filter (fitsb max_size) files)) ->
    exists kept,
      map ent (order s) = map sf_entry kept /\
      longest_fitting_suffix max_size (filter (fitsb max_size) (sort_atime files)) kept.
Proof. exact startup_longest_distinct. Qed.
Print Assumptions C09_global_longest_distinct_keys.

(* Duplicate files per key allowed, but all indexable files of one key have one rounded size (in
   particular: every file has the same rounded size). *)
Theorem C09_global_longest_same_size :
  forall max_size hard_limit t files s files_left,
    population_ok t = true -> 0 < max_size ->
    scanned t = Ok files -> startup max_size hard_limit t = Ok (s, files_left) ->
    same_key_same_size max_size files ->
    exists kept,
      map ent (order s) = map sf_entry kept /\
      longest_fitting_suffix max_size (cands max_size (sort_atime files)) kept.
Proof. exact startup_longest_same_size. Qed.
Print Assumptions C09_global_longest_same_size.

(* Without such a hypothesis "longest fitting suffix of the candidates" is FALSE: a directory of the
   grammar with pairwise distinct access times on which a strictly longer suffix of the candidates
   fits than what is indexed (an entry was evicted to make room for a file that a smaller file of
   the same key superseded later). *)
Theorem C09_global_longest_refuted :
  exists max_size hard_limit t files s files_left,
    population_ok t = true /\ 0 < max_size /\
    scanned t = Ok files /\ startup max_size hard_limit t = Ok (s, files_left) /\
    NoDup (map sf_atime files) /\
    exists K', fitting_suffix max_size (cands max_size (sort_atime files)) K' /\
               (List.length (order s) < List.length K')%nat.
Proof. exact longest_suffix_refuted. Qed.
Print Assumptions C09_global_longest_refuted.

(* What holds in general: every candidate that is not kept was, at some moment of the oldest-first
   pass (after the files P), the old end of a run e :: K of then-live candidates (candidates of P)
   whose total exceeded max_size. *)
Theorem C09_global_evicted_reason :
  forall max_size hard_limit t files s files_left,
    population_ok t = true -> 0 < max_size ->
    scanned t = Ok files -> startup max_size hard_limit t = Ok (s, files_left) ->
    exists evicted kept,
      cands max_size (sort_atime files) = evicted ++ kept /\
      map ent (order s) = map sf_entry kept /\
      forall e, In e evicted ->
        exists P rest pre K, sort_atime files = P ++ rest /\ cands max_size P = pre ++ e :: K /\
                             sumZ r_of (e :: K) > max_size.
Proof. exact startup_evicted_reason. Qed.
Print Assumptions C09_global_evicted_reason.

(* ... and that criterion is exact at every moment: whenever a run e :: K of live candidates
   exceeds max_size, what is indexed at that moment lies strictly inside K. *)
Theorem C09_global_too_much_is_evicted :
  forall mx P pre e K,
    0 <= mx -> nonneg P -> cands mx P = pre ++ e :: K -> sumZ r_of (e :: K) > mx ->
    exists K1, K = K1 ++ survivors mx P.
Proof. exact too_much_is_evicted. Qed.
Print Assumptions C09_global_too_much_is_evicted.

(* ---- kept entries unchanged; deletions -------------------------------------------------------- *)

(* Every kept entry is a scanned file indexed under the key of its directory and name, with the
   logical size its name carries (else its file size) and its file size on disk; getElementPath
   leads back to the very file; and that file has size, access time and content of a file of the
   original directory whose name it extends. *)
Theorem C09_global_kept_content :
  forall max_size hard_limit t files s files_left,
    population_ok t = true -> 0 < max_size ->
    scanned t = Ok files -> startup max_size hard_limit t = Ok (s, files_left) ->
    let kept := survivors max_size (sort_atime files) in
    map ent (order s) = map sf_entry kept /\
    Permutation files_left (map sf_place kept) /\
    Forall (fun x =>
      In x files /\
      item_place (sf_key x) (sf_item x) = sf_place x /\
      print_name (s_parsed x) = f_name (s_file x) /\
      sf_key x = lookup_key (s_kind x) (p_hash (s_parsed x)) /\
      sizeOnDisk (sf_item x) = f_size (s_file x) /\
      size (sf_item x) = match p_size (s_parsed x) with Some n => n | None => f_size (s_file x) end /\
      exists g, In g (tree_files t) /\ derived g (s_file x)) kept.
Proof. exact startup_kept_content. Qed.
Print Assumptions C09_global_kept_content.

(* Each indexable file is either kept or handed to the background remover exactly once: the
   remover's queue (the eviction queue at the end of the Add loop, which start-up then drains)
   together with the index is a permutation of the indexable files' entries; on the level of
   places, queue + files left = the indexable files; with pairwise distinct places no file is
   queued twice and no kept file is queued.  (Files too large on their own are unlinked directly.) *)
Theorem C09_global_deleted_once :
  forall max_size hard_limit t files s files_left,
    population_ok t = true -> 0 < max_size ->
    scanned t = Ok files -> startup max_size hard_limit t = Ok (s, files_left) ->
    exists s1 files1,
      load_loop (sort_atime files) (init max_size hard_limit) (map sf_place files) = Ok (s1, files1) /\
      (s, files_left) = finish (s1, files1) /\
      Permutation (map sf_entry (filter (fitsb max_size) (sort_atime files))) (evq s1 ++ map ent (order s)) /\
      Permutation (map sf_place (filter (fitsb max_size) files)) (map eplace (evq s1) ++ files_left) /\
      (NoDup (map sf_place files) -> NoDup (map eplace (evq s1) ++ files_left)).
Proof. exact startup_deleted_once. Qed.
Print Assumptions C09_global_deleted_once.

(* a boolean test for key_mono on concrete directories *)
Theorem C09_global_key_monob_sound :
  forall mx l, key_monob mx l = true -> key_mono mx l.
Proof. exact key_monob_sound. Qed.
Print Assumptions C09_global_key_monob_sound.

(* ---- non-vacuity: a 5-file directory ---------------------------------------------------------- *)

(* witness_tree szA szA' (Proofs/Load_global2.v): raw D 20000 bytes t=5, cas C 4096 t=10,
   ac A szA t=20, ac B 4096 t=30, ac A' (same key as A) szA' t=40; max_size = 4 blocks. *)

(* A = 1 block, A' = 3 blocks: key_mono holds (the later file of the key is larger); D is too large,
   A is superseded, C is evicted; kept = B, A' = the longest fitting suffix of the candidates C, B, A' *)
Example C09_global_example_mono :
  let files := witness_files 4096 12288 in
  population_ok (witness_tree 4096 12288) = true /\
  scanned (witness_tree 4096 12288) = Ok files /\
  startup 16384 0 (witness_tree 4096 12288) = Ok (witness_state 4096 12288, witness_left 4096 12288) /\
  key_monob 16384 (sort_atime files) = true /\
  map sf_atime (cands 16384 (sort_atime files)) = [10; 30; 40] /\
  map sf_atime (survivors 16384 (sort_atime files)) = [30; 40] /\
  map ent (order (witness_state 4096 12288)) = map sf_entry (survivors 16384 (sort_atime files)) /\
  survivors 16384 (sort_atime files) = trim 16384 (cands 16384 (sort_atime files)) /\
  cur (witness_state 4096 12288) = 16384.
Proof. vm_compute. repeat split; reflexivity. Qed.

(* equal sizes per key (A = A' = 2 blocks), max_size 3 blocks: C is evicted for B while A is live,
   A' replaces A; kept = B, A' = the longest fitting suffix of the candidates C, B, A' (4 blocks) *)
Example C09_global_example_same_size :
  let files := witness_files 8192 8192 in
  population_ok (witness_tree 8192 8192) = true /\
  scanned (witness_tree 8192 8192) = Ok files /\
  key_monob 12288 (sort_atime files) = true /\
  map sf_atime (cands 12288 (sort_atime files)) = [10; 30; 40] /\
  map sf_atime (survivors 12288 (sort_atime files)) = [30; 40] /\
  survivors 12288 (sort_atime files) = trim 12288 (cands 12288 (sort_atime files)) /\
  match startup 12288 0 (witness_tree 8192 8192) with
  | Ok (s, _) => map ent (order s) = map sf_entry (survivors 12288 (sort_atime files)) /\ cur s = 12288
  | _ => False
  end.
Proof. vm_compute. repeat split; reflexivity. Qed.

(* the refuting directory (A = 3 blocks, A' = 1 block): key_mono fails, kept = B, A' (2 blocks)
   although C, B, A' (3 blocks) fit; C was evicted when the live candidates C, A, B were 5 blocks *)
Example C09_global_example_refuting :
  let files := witness_files 12288 4096 in
  population_ok (witness_tree 12288 4096) = true /\
  key_monob 16384 (sort_atime files) = false /\
  map sf_atime (cands 16384 (sort_atime files)) = [10; 30; 40] /\
  sumZ r_of (cands 16384 (sort_atime files)) = 12288 /\
  map sf_atime (survivors 16384 (sort_atime files)) = [30; 40] /\
  map ent (order (witness_state 12288 4096)) = map sf_entry (survivors 16384 (sort_atime files)) /\
  map sf_atime (cands 16384 (firstn 4 (sort_atime files))) = [10; 20; 30] /\
  sumZ r_of (cands 16384 (firstn 4 (sort_atime files))) = 20480 /\
  List.length (evq (witness_state 12288 4096)) = 0%nat.
Proof. vm_compute. repeat split; reflexivity. Qed.

(* distinct keys: max_size 2 blocks on the same directory makes A (3 blocks) and D unindexable, the
   indexable files C, B, A' have distinct keys, and kept = B, A' = the longest fitting suffix *)
Example C09_global_example_distinct :
  let files := witness_files 12288 4096 in
  NoDup (map sf_key (filter (fitsb 8192) files)) /\
  map sf_atime (filter (fitsb 8192) (sort_atime files)) = [10; 30; 40] /\
  map sf_atime (survivors 8192 (sort_atime files)) = [30; 40] /\
  match startup 8192 0 (witness_tree 12288 4096) with
  | Ok (s, _) => map ent (order s) = map sf_entry (survivors 8192 (sort_atime files)) /\ cur s = 8192
  | _ => False
  end.
Proof.
  split; [vm_compute; repeat constructor; simpl; intuition discriminate|].
  vm_compute. repeat split; reflexivity.
Qed.
