(* Properties/C09.v — "Restart on any bazel-remote directory keeps what fits, evicts oldest first".
   Only statements, each closed by an already proved lemma, with Print Assumptions beneath.

   Vocabulary (Model/Load.v, Proofs/Load_loop.v, Proofs/Load_scan.v):
     tree                the cache directory three levels deep, lists in os.ReadDir order
     population_ok t     t is produced by the population grammar: current-layout files whose names
                         scanDir's pattern accepts in the shape FileLocation gives to their key
                         space and in the directory of their hash, v0 (flat) and v1 (two-level)
                         legacy directories ac/ cas/ raw/ (with .DS_Store and stray files),
                         any number of files per key, lost+found directories and .DS_Store files
                         at each level
     startup mx hd t     disk.New(dir, mx, WithMaxSizeHardLimit(hd)): MkdirAll, migration, scan,
                         sort by access time, Add oldest first, unlink what cannot be added,
                         wait for the eviction queue; result = index state + files left
     scanned t           the files scanDir reports after MkdirAll and migration
     cands mx files      the files that can be indexed at all (rounded size <= mx) and are not
                         superseded by a more recently accessed indexable file of the same key *)
From Coq Require Import Permutation Sorting.Sorted.
From BR Require Import Base.Prelude Model.LRU Model.Names Model.Load Proofs.LRU_inv
  Proofs.Names_strings Proofs.Names_roundtrip Proofs.Load_add Proofs.Load_loop Proofs.Load_scan
  Proofs.Load_main Proofs.Load_prov Bridge.Bridge_LRU Bridge.Bridge_Names.
Open Scope Z_scope.
Open Scope list_scope.

(* ---- names ---------------------------------------------------------------------------------- *)

(* Every name FileLocation writes (all four shapes: ac.v2 and raw.v2 hash-random, cas.v2
   hash-size-random and hash-random.v1) is recognised by scanDir's pattern with exactly the fields
   that were printed, for every hash, every non-empty alphanumeric random part (including
   all-digit ones) and every size from 1 to MaxInt64. *)
Theorem C09_names_roundtrip :
  forall k legacy hash size random,
    is_hash hash = true -> is_random random = true -> 1 <= size <= maxInt64 ->
    recognise (basename (file_location k legacy hash size random)) = Some (shape k legacy hash size random).
Proof. exact names_roundtrip. Qed.
Print Assumptions C09_names_roundtrip.

(* Conversely, whatever the pattern (followed by ParseInt) accepts is the printed form of the
   fields it yields: the grammar and the printer agree. *)
Theorem C09_names_recognised_are_printed :
  forall name p, recognise name = Some p -> print_name p = name /\ parsed_ok p.
Proof. exact recognise_spec. Qed.
Print Assumptions C09_names_recognised_are_printed.

(* The lookup key scanDir derives (directory name -> key space, group 1 -> hash) is LookupKey. *)
Theorem C09_lookup_key :
  forall k legacy hash size random,
    is_hash hash = true -> is_random random = true -> 1 <= size <= maxInt64 ->
    exists p, recognise (basename (file_location k legacy hash size random)) = Some p /\
              kind_of_dir (kind_dir k) = Some k /\ lookup_key k (p_hash p) = lookup_key k hash.
Proof. exact lookup_key_of_location. Qed.
Print Assumptions C09_lookup_key.

(* ---- start-up ------------------------------------------------------------------------------- *)

(* On every population of the grammar and every max_size > 0 start-up succeeds (no error, no
   panic, no hang) — in particular with files larger than max_size. *)
Theorem C09_starts :
  forall max_size hard_limit t,
    population_ok t = true -> 0 < max_size ->
    exists s files_left, startup max_size hard_limit t = Ok (s, files_left).
Proof. exact startup_succeeds. Qed.
Print Assumptions C09_starts.

(* The candidates in access-time order split into an evicted prefix and the survivors: the
   recency list after loading is exactly the survivors, oldest first (so later evictions continue
   in access-time order); everything evicted for lack of space is at most as recently accessed as
   every survivor — strictly less recently when access times are pairwise distinct; and a scanned
   file that is neither survivor nor evicted is too large on its own (removed whatever its age)
   or superseded by a more recently accessed indexable file of the same key. *)
Theorem C09_oldest_first :
  forall max_size hard_limit t files s files_left,
    population_ok t = true -> 0 < max_size ->
    scanned t = Ok files -> startup max_size hard_limit t = Ok (s, files_left) ->
    exists evicted survivors,
      cands max_size (sort_atime files) = evicted ++ survivors /\
      map ent (order s) = map sf_entry survivors /\
      StronglySorted older_eq survivors /\
      (forall y z, In y evicted -> In z survivors -> sf_atime y <= sf_atime z) /\
      (NoDup (map sf_atime files) ->
         forall y z, In y evicted -> In z survivors -> sf_atime y < sf_atime z) /\
      (forall x, In x files ->
         In x survivors \/ In x evicted \/ fitsb max_size x = false \/
         exists y, In y files /\ sf_key y = sf_key x /\ fitsb max_size y = true /\ sf_atime x <= sf_atime y).
Proof. exact survivors_oldest_first. Qed.
Print Assumptions C09_oldest_first.

(* Each single insertion evicts minimally: an entry is evicted only if, with it still indexed,
   the new entry would not fit. *)
Theorem C09_insertion_evicts_only_when_needed :
  forall k v s s' r,
    Inv s -> item_ok v -> res s = 0 -> add k v s = (s', r) ->
    let rv := roundUp4k (sizeOnDisk v) in
    (rv > maxs s /\ s' = s /\ r = Ok false) \/
    (rv <= maxs s /\ r = Ok true /\ Inv s' /\ res s' = 0 /\ maxs s' = maxs s /\ hard s' = hard s /\
     exists l1 old l2 ev,
       order s = l1 ++ old ++ l2 /\ (List.length old <= 1)%nat /\
       (forall e, In e old -> key_of e = k) /\
       ~ In k (map key_of (l1 ++ l2)) /\
       map ent (l1 ++ l2) ++ [mkEntry k v] = map ent ev ++ map ent (order s') /\
       evq s' = evq s ++ map ent old ++ map ent ev /\
       (cur s + rv <= maxs s -> ev = []) /\
       (forall ev1 e ev2, ev = ev1 ++ e :: ev2 ->
          cur s - sumZ r4k_disk old - sumZ r4k_disk ev1 + rv > maxs s)).
Proof. exact add_spec. Qed.
Print Assumptions C09_insertion_evicts_only_when_needed.

(* When the indexable files fit into max_size together, nothing is evicted: every key keeps its
   most recently accessed indexable file. *)
Theorem C09_keeps_what_fits :
  forall max_size hard_limit t files s files_left,
    population_ok t = true -> 0 < max_size ->
    scanned t = Ok files -> startup max_size hard_limit t = Ok (s, files_left) ->
    sumZ (fit_r max_size) files <= max_size ->
    map ent (order s) = map sf_entry (cands max_size (sort_atime files)) /\
    Permutation files_left (map sf_place (cands max_size (sort_atime files))).
Proof. exact keeps_all_when_fits. Qed.
Print Assumptions C09_keeps_what_fits.

(* Survivors keep key, size and file: each is indexed under LookupKey(key space of its directory,
   hash of its name) with the logical size its name carries (else its file size) and its file
   size on disk; getElementPath leads back to the very file; and these files are still there. *)
Theorem C09_content :
  forall max_size hard_limit t files s files_left,
    population_ok t = true -> 0 < max_size ->
    scanned t = Ok files -> startup max_size hard_limit t = Ok (s, files_left) ->
    exists survivors,
      map ent (order s) = map sf_entry survivors /\ incl survivors files /\
      Permutation files_left (map sf_place survivors) /\
      Forall (fun x =>
        item_place (sf_key x) (sf_item x) = sf_place x /\
        print_name (s_parsed x) = f_name (s_file x) /\
        sf_key x = lookup_key (s_kind x) (p_hash (s_parsed x)) /\
        sizeOnDisk (sf_item x) = f_size (s_file x) /\
        size (sf_item x) = match p_size (s_parsed x) with Some n => n | None => f_size (s_file x) end) survivors.
Proof. exact survivors_content. Qed.
Print Assumptions C09_content.

(* Unchanged content: start-up never invents or alters a file.  Every file the scan reports — in
   particular every survivor (C09_content: survivors are among them) — has the size, access time
   and content of a file of the original directory whose name it extends (by nothing for
   current-layout files, by the migration suffix for legacy files).  Holds for any directory on
   which the scan succeeds. *)
Theorem C09_unchanged_content :
  forall t files, scanned t = Ok files -> from_orig (tree_files t) (map s_file files).
Proof. exact scanned_provenance. Qed.
Print Assumptions C09_unchanged_content.

(* The accounting matches the directory: the index invariant of C03 holds, nothing is reserved or
   queued, the accounted size is the sum of the 4 KiB-rounded sizes of the indexed entries and at
   most max_size, Stats() reports exactly that, keys are unique, and the files left in the
   directory are exactly (as a multiset) the files of the indexed entries. *)
Theorem C09_accounting :
  forall max_size hard_limit t s files_left,
    population_ok t = true -> 0 < max_size -> startup max_size hard_limit t = Ok (s, files_left) ->
    Inv s /\ maxs s = max_size /\ res s = 0 /\ evq s = [] /\
    cur s = entries_size s /\ cur s <= max_size /\ unc s = logical_size s /\
    stats s = (entries_size s, 0, Z.of_nat (List.length (order s)), logical_size s) /\
    NoDup (map key_of (order s)) /\
    Permutation files_left (map eplace (map ent (order s))).
Proof. exact startup_accounting. Qed.
Print Assumptions C09_accounting.

(* ---- non-vacuity ---------------------------------------------------------------------------- *)

Open Scope string_scope.
Definition hA := "aa11111111111111111111111111111111111111111111111111111111111111".
Definition hB := "bb22222222222222222222222222222222222222222222222222222222222222".
Definition hC := "cc33333333333333333333333333333333333333333333333333333333333333".
Definition hD := "dd44444444444444444444444444444444444444444444444444444444444444".

(* a v0 file and a v1 file (with .DS_Store and a stray file) under ac/, two files for one CAS key
   in both storage modes, a raw file larger than max_size, lost+found at three levels *)
Definition example_tree : tree :=
  [TD "lost+found" []; TF (mkFile ".DS_Store" 6148 50 0);
   TD "ac" [SF (mkFile hA 5000 100 1); SF (mkFile "notes.txt" 3 1 0);
            SD "bb" [LF (mkFile ".DS_Store" 1 1 0); LF (mkFile hB 100 200 2)]];
   TD "cas.v2" [SD "cc" [LF (mkFile (hC ++ "-9000-abc") 4000 300 3); LF (mkFile (hC ++ "-xyz.v1") 9000 400 4);
                         LD "lost+found"];
                SD "lost+found" []];
   TD "raw.v2" [SF (mkFile ".ds_store" 1 1 0); SD "dd" [LF (mkFile (hD ++ "-77") 20000 150 5)]]].

(* the example is in the grammar; with max_size = 4 blocks: the raw file (5 blocks) is removed
   whatever its age, the older CAS file is superseded, the oldest entry (the v0 file) is evicted,
   the migrated v1 file and the newer CAS file survive in access-time order *)
Example C09_example :
  population_ok example_tree = true /\
  match startup 16384 0 example_tree with
  | Ok (s, files_left) =>
      map (fun e => ekey (ent e)) (order s) = ["ac/" ++ hB; "cas/" ++ hC] /\
      stats s = (16384, 0, 2, 16384) /\
      map place_str files_left = ["cas.v2/cc/" ++ hC ++ "-xyz.v1"; "ac.v2/bb/" ++ hB ++ "-112233"]
  | _ => False
  end.
Proof. vm_compute. repeat split; reflexivity. Qed.

Example C09_example_names :
  recognise (hA ++ "-123") = Some (mkParsed hA None "123" false) /\
  recognise (hA ++ "-123-abc") = Some (mkParsed hA (Some 123) "abc" false) /\
  recognise (hA ++ "-0123-abc") = None /\
  scan_name (hA ++ "-9223372036854775808-abc") = Err EOutOfRange.
Proof. vm_compute. repeat split; reflexivity. Qed.
