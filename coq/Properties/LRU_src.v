(* Properties/LRU_src.v — the theorems about the SizedLRU index hold of the code AS TRANSLATED from
   /repo/cache/disk/lru.go on this run (Gen/LRUSrc.v, statement by statement, int64 wrap-around written
   out), not only of the hand-written model Model/LRU.v.  Only statements, each closed by an already
   proved lemma, with Print Assumptions beneath.

   [gst] is the record of the struct's fields (Model/GoLRU.v), [gstep]/[grun]/[gtrace] run operation
   histories with the translated functions (Model/GoLRURun.v), [abs] reads a Go state as a model state.
   [bounded_run] (a boolean over the MODEL's run) excludes 64-bit wrap-around only: max_size <= 2^61,
   item sizes and the logical/queued byte counters below 2^62, Unreserve argument representable; the
   drivers evaluate it on every history they run. *)
From BR Require Import Base.Prelude Gen.Funcs Model.LRU Model.GoLRU Gen.LRUSrc Model.GoLRURun
  Proofs.LRU_inv Proofs.LRU_refine_base Proofs.LRU_refine.
Open Scope Z_scope.

(* one operation of the translated code is one step of the model, for every operation *)
Theorem LRUsrc_step_refines :
  forall c o c' r, WF c -> Inv (abs c) -> boundedb (abs c) o = true ->
    gstep c o = Some (c', r) -> WF c' /\ step (abs c) o = (abs c', r).
Proof. exact gstep_refines. Qed.
Print Assumptions LRUsrc_step_refines.

(* the translated eviction loops end (no spinning Add, no internal error of Reserve) in every state
   that satisfies the accounting invariant *)
Theorem LRUsrc_step_terminates :
  forall c o, WF c -> Inv (abs c) -> boundedb (abs c) o = true -> gstep c o <> None.
Proof. exact gstep_terminates. Qed.
Print Assumptions LRUsrc_step_terminates.

(* and conversely the model says "spins" exactly when the translated loop does not end *)
Theorem LRUsrc_step_hang_iff :
  forall c o, WF c -> Inv (abs c) -> boundedb (abs c) o = true ->
    (gstep c o = None <-> snd (step (abs c) o) = RHang).
Proof. intros c o H1 H2 H3. split; [exact (gstep_none c o H1 H2 H3)|exact (gstep_hang c o H1 H2 H3)]. Qed.
Print Assumptions LRUsrc_step_hang_iff.

(* whole histories from the empty cache: same outputs, same snapshots after every operation *)
Theorem LRUsrc_trace_refines :
  forall mx hd ops, 0 < mx -> bounded_run (init mx hd) ops = true ->
    gtrace (ginit mx hd) ops = trace (init mx hd) ops
    /\ Forall (fun ob => fst ob <> RHang) (trace (init mx hd) ops).
Proof. exact gtrace_refines. Qed.
Print Assumptions LRUsrc_trace_refines.

(* every Go state the translated code reaches stands for the model's state and satisfies the
   invariant all LRU theorems start from: they are theorems about the translated code *)
Theorem LRUsrc_run_refines :
  forall mx hd ops, 0 < mx -> bounded_run (init mx hd) ops = true ->
    exists c', grun (ginit mx hd) ops = Some c' /\ WF c' /\ abs c' = run (init mx hd) ops /\ Inv (abs c').
Proof. exact grun_refines. Qed.
Print Assumptions LRUsrc_run_refines.

(* C03 read on the struct's fields: currentSize = reservedSize + blocks of the entries, never above
   maxSize; uncompressedSize and queuedEvictionsSize are the sums they are documented to be *)
Theorem LRUsrc_accounting :
  forall mx hd ops c', 0 < mx -> bounded_run (init mx hd) ops = true -> grun (ginit mx hd) ops = Some c' ->
    g_currentSize c' = g_reservedSize c' + sumZ r4k_disk (order (abs c')) /\
    g_currentSize c' <= g_maxSize c' /\ 0 <= g_reservedSize c' /\
    g_uncompressedSize c' = sumZ r4k_size (order (abs c')) /\
    g_queuedEvictionsSize c' = sumZ qsz (g_queue c').
Proof. exact grun_accounting. Qed.
Print Assumptions LRUsrc_accounting.

(* the two correspondence checks (translated code vs implementation, model vs implementation) accept
   the same cases *)
Theorem LRUsrc_case_ok :
  forall mx hd ops obs, 0 < mx -> bounded_run (init mx hd) ops = true ->
    gcase_ok (mx, hd, ops, obs) = case_ok (mx, hd, ops, obs).
Proof. exact gcase_ok_case_ok. Qed.
Print Assumptions LRUsrc_case_ok.

(* the hypotheses are met by a history with overwrite, eviction, reservations (also negative and
   2^70), stale-free handle removal, the background remover *)
Example LRUsrc_nonvacuous :
  bounded_run (init 16384 40000) ex_ops = true /\
  gtrace (ginit 16384 40000) ex_ops = trace (init 16384 40000) ex_ops /\
  (List.length ex_ops >= 20)%nat.
Proof. split; [exact ex_bounded|split; [exact ex_gtrace|vm_compute; lia]]. Qed.
