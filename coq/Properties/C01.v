(* Properties/C01.v — "CAS uploads are acknowledged only if bytes match the digest" at the level of
   the disk cache (cache/disk/disk.go Put, modelled step by step in Model/Disk.v; SHA-256 and zstd
   are oracle columns of the request: [st_hash_ok], [st_ondisk]).  Only statements, each closed by
   an already proved lemma. *)
From BR Require Import Base.Prelude Model.LRU Proofs.LRU_inv Proofs.LRU_order Model.Disk Proofs.Disk_ack
  Proofs.Disk_fun_fm Proofs.Disk_fun_put.
Open Scope Z_scope.

(* An upload answered OK delivered exactly the declared number of bytes, ended cleanly, and (CAS)
   hashed to the declared digest — or it was the empty blob sent without data. *)
Theorem C01_ack_sound : forall c d k hash sz st rnd d',
  exec c d (RPut k hash sz st rnd) = (d', Some PutOk) ->
  (put_guards c hash sz /\ upload_good c k sz st) \/ empty_ok k hash sz st.
Proof. exact exec_put_ok_sound. Qed.
Print Assumptions C01_ack_sound.

(* The same under every interleaving of any number of concurrent requests, the background remover
   and the backend (thread-local invariant of the step function). *)
Theorem C01_ack_sound_concurrent : forall c mx hd ls t k hash sz st rnd,
  In t (thr (srun c (sinit mx hd) ls)) -> t_req t = RPut k hash sz st rnd -> t_pc t = Done PutOk ->
  (put_guards c hash sz /\ upload_good c k sz st) \/ empty_ok k hash sz st.
Proof. exact put_ok_sound. Qed.
Print Assumptions C01_ack_sound_concurrent.

(* After an acknowledgement the digest is present: indexed under its key with the declared logical
   size, and the file at the entry's path is complete and holds this upload's content.  The premise
   [res + roundUp4k od <= max] excludes the self-eviction corner of SizedLRU.Add (LRU_order,
   [self_eviction_possible]; known finding F13). *)
Theorem C01_ack_implies_present : forall c d k hash sz st rnd d',
  Inv (lru d) -> 0 <= st_ondisk st ->
  exec c d (RPut k hash sz st rnd) = (d', Some PutOk) ->
  ~ empty_shortcut k hash sz ->
  res (lru d) + roundUp4k (put_od c k sz st) <= maxs (lru d) ->
  peek (lookup_key k hash) (lru d') = Some (mkItem sz (put_od c k sz st) rnd (put_legacy c k)) /\
  (exists f, find_file (put_path c k hash sz rnd) (files d') = Some f /\
             f_complete f = true /\ f_cid f = st_cid st /\ f_len f = put_od c k sz st /\ f_logical f = sz) /\
  find_file (put_path c k hash sz rnd) (files d) = None /\
  Inv (lru d') /\ res (lru d') = res (lru d).
Proof. exact put_ack_present_file. Qed.
Print Assumptions C01_ack_implies_present.

(* the path under which a later read looks for the entry's file is the one the upload wrote *)
Theorem C01_entry_path_is_upload_path : forall c k hash sz st rnd,
  path_of (lookup_key k hash) (mkItem sz (put_od c k sz st) rnd (put_legacy c k)) = put_path c k hash sz rnd.
Proof. exact path_of_put_item. Qed.
Print Assumptions C01_entry_path_is_upload_path.

(* A rejected upload makes nothing present (in particular not the claimed digest), returns its
   reservation and leaves the directory as it was (no temp file). *)
Theorem C01_reject_clean : forall c d k hash sz st rnd d' e,
  Inv (lru d) -> 0 <= st_ondisk st ->
  exec c d (RPut k hash sz st rnd) = (d', Some (PutErr e)) ->
  Inv (lru d') /\ res (lru d') = res (lru d) /\ files d' = files d /\
  (forall k', peek k' (lru d) = None -> peek k' (lru d') = None).
Proof. exact put_reject_clean. Qed.
Print Assumptions C01_reject_clean.

(* Completeness: a well-formed upload whose bytes are as declared is acknowledged whenever the
   explicit space conditions hold (the reservation is accepted: size <= max, res + size <= max, hard
   limit not exceeded; the item fits next to the reservations once the old version is discounted).
   [k = CAS -> zstd -> 0 < sz]: the only digest of zero bytes is the empty one (oracle consistency). *)
Theorem C01_ack_complete : forall c d k hash sz st rnd,
  Inv (lru d) -> 0 <= st_ondisk st ->
  put_guards c hash sz -> upload_good c k sz st -> ~ empty_shortcut k hash sz ->
  (k = CAS -> c_zstd c = true -> 0 < sz) ->
  find_file (put_path c k hash sz rnd) (files d) = None ->
  (0 < sz -> sz <= maxs (lru d) /\ sz + res (lru d) <= maxs (lru d) /\
             (hard (lru d) <= 0 \/ cur (lru d) + qbytes (lru d) + sz <= hard (lru d))) ->
  roundUp4k (put_od c k sz st) <= maxs (lru d) ->
  res (lru d) + add_delta (lookup_key k hash) (put_item c k sz st rnd) (commit_index d sz) <= maxs (lru d) ->
  exists d', exec c d (RPut k hash sz st rnd) = (d', Some PutOk).
Proof. exact put_ack_complete. Qed.
Print Assumptions C01_ack_complete.

Theorem C01_ack_complete_simple : forall c d k hash sz st rnd,
  Inv (lru d) -> 0 <= st_ondisk st ->
  put_guards c hash sz -> upload_good c k sz st -> ~ empty_shortcut k hash sz ->
  (k = CAS -> c_zstd c = true -> 0 < sz) ->
  find_file (put_path c k hash sz rnd) (files d) = None ->
  (0 < sz -> sz <= maxs (lru d) /\ sz + res (lru d) <= maxs (lru d) /\
             (hard (lru d) <= 0 \/ cur (lru d) + qbytes (lru d) + sz <= hard (lru d))) ->
  res (lru d) + roundUp4k (put_od c k sz st) <= maxs (lru d) ->
  exists d', exec c d (RPut k hash sz st rnd) = (d', Some PutOk).
Proof. exact put_ack_complete_simple. Qed.
Print Assumptions C01_ack_complete_simple.

(* The upload program is the big-step function [put_fun] (create, write, verify, hand off, commit,
   deferred clean-up), for every input. *)
Theorem C01_put_program : forall c d k hash sz st rnd,
  exec c d (RPut k hash sz st rnd) = put_fun c d k hash sz st rnd.
Proof. exact exec_put_eq. Qed.
Print Assumptions C01_put_program.

(* Non-vacuity.  A compressed-mode CAS upload of 5000 bytes whose stream is as declared satisfies
   every premise of completeness and soundness, is acknowledged, indexed and on disk; the same upload
   with a wrong hash, a short stream or a stream error is rejected and leaves nothing. *)
Example C01_example :
  let ha := string_of_list_ascii (repeat "a"%char 64) in
  let c := mkCfg true 1000000 100000 true in
  let d := dinit 65536 0 in
  let good := mkStream 7 5000 false true 1234 in
  (Inv (lru d) /\ put_guards c ha 5000 /\ upload_good c CAS 5000 good /\ ~ empty_shortcut CAS ha 5000 /\
   find_file (put_path c CAS ha 5000 "r1") (files d) = None /\
   res (lru d) + roundUp4k (put_od c CAS 5000 good) <= maxs (lru d)) /\
  snd (exec c d (RPut CAS ha 5000 good "r1")) = Some PutOk /\
  peek (lookup_key CAS ha) (lru (fst (exec c d (RPut CAS ha 5000 good "r1")))) = Some (mkItem 5000 1234 "r1" false) /\
  map file_row (files (fst (exec c d (RPut CAS ha 5000 good "r1")))) = [(lookup_key CAS ha, 5000, "r1"%string, false, 1234)] /\
  (forall bad, In bad [mkStream 7 5000 false false 1234; mkStream 7 4999 false true 1234; mkStream 7 5000 true true 1234;
                       mkStream 7 5001 false true 1234] ->
     snd (exec c d (RPut CAS ha 5000 bad "r1")) = Some (PutErr EInternal) /\
     files (fst (exec c d (RPut CAS ha 5000 bad "r1"))) = [] /\
     LRU.stats (lru (fst (exec c d (RPut CAS ha 5000 bad "r1")))) = (0, 0, 0, 0)).
Proof.
  cbv zeta. split; [|split; [vm_compute; reflexivity|split; [vm_compute; reflexivity|split; [vm_compute; reflexivity|]]]].
  - split; [apply init_inv; lia|]. split; [unfold put_guards; split; [cbn [c_maxblob]; lia|vm_compute; reflexivity]|].
    split; [unfold upload_good; cbn; repeat split; reflexivity|].
    split; [intros (_ & H & _); discriminate|]. split; [reflexivity|]. vm_compute. discriminate.
  - intros bad [<-|[<-|[<-|[<-|[]]]]]; vm_compute; repeat split; reflexivity.
Qed.
