(* Properties/C03.v — "Accounted size never exceeds max_size and equals entries plus reservations".
   Only statements, each closed by an already proved lemma, with Print Assumptions beneath. *)
From BR Require Import Base.Prelude Gen.Consts Gen.Funcs Model.LRU Proofs.LRU_inv Bridge.Bridge_LRU.
Open Scope Z_scope.

(* Every state reachable from an empty index by ANY finite history of index operations
   (add / overwrite, lookup, removal by key or by handle, reserve, unreserve, background removal)
   accounts exactly for its entries plus the reserved bytes, and never for more than max_size;
   the logical total and the entry count reported by Stats()/status are exact as well. *)
Theorem C03_accounting_exact_and_bounded :
  forall (max_size hard_limit : Z) (history : list op),
    0 < max_size -> Forall op_ok history ->
    let s := run (init max_size hard_limit) history in
    cur s = res s + entries_size s /\ cur s <= max_size /\ 0 <= res s /\
    unc s = logical_size s /\
    stats s = (res s + entries_size s, res s, Z.of_nat (List.length (order s)), logical_size s) /\
    NoDup (map key_of (order s)) /\
    qbytes s = sumZ qsz (evq s).
Proof. exact lru_accounting. Qed.
Print Assumptions C03_accounting_exact_and_bounded.

(* No operation of any history spins or blocks: the two eviction loops terminate. *)
Theorem C03_no_operation_gets_stuck :
  forall (max_size hard_limit : Z) (history : list op),
    0 < max_size -> Forall op_ok history ->
    Forall (fun ob => fst ob <> RHang) (trace (init max_size hard_limit) history).
Proof. intros. apply trace_no_hang; [apply init_inv; assumption|assumption]. Qed.
Print Assumptions C03_no_operation_gets_stuck.

(* The block rounding and the overflow-safe comparison in the regenerated source mean what the
   model says, for every int64 input within their documented contracts. *)
Theorem C03_roundUp4k_is_block_rounding :
  forall n, 0 <= n <= maxInt64 - 4096 ->
    Gen.roundUp4k n = roundUp4k n /\ n <= roundUp4k n < n + 4096 /\ roundUp4k n mod 4096 = 0.
Proof. intros n H. split; [apply roundUp4k_bridge; exact H|]. split; [apply roundUp4k_bounds|apply roundUp4k_mult]. Qed.
Print Assumptions C03_roundUp4k_is_block_rounding.

Theorem C03_sumLargerThan_spec :
  forall a b c, 0 < a <= maxInt64 -> 0 <= b <= maxInt64 -> 0 < c <= maxInt64 ->
    Gen.sumLargerThan a b c = (a + b >? c).
Proof. exact sumLargerThan_bridge. Qed.
Print Assumptions C03_sumLargerThan_spec.

(* Non-vacuity: a concrete history with an overwrite, evictions, a refused and an accepted
   reservation satisfies the premises and ends in a state with entries AND reserved bytes. *)
Example C03_example :
  let h := [OAdd "cas/a" (mkItem 5000 5045 "1" false); OAdd "cas/b" (mkItem 4096 100 "2" false);
            OReserve 8192; OAdd "cas/a" (mkItem 100 100 "3" false); OGet "cas/b"; OReserve 4096;
            OAdd "cas/c" (mkItem 9000 9000 "4" true); OUnreserve 8192; ODrain] in
  Forall op_ok h /\
  stats (run (init 20480 0) h) = (12288, 4096, 2, 8192).
Proof.
  cbv zeta. split; [|vm_compute; reflexivity].
  repeat (apply Forall_cons; [simpl; try exact I; unfold item_ok; simpl; lia|]). apply Forall_nil.
Qed.
