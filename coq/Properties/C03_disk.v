(* Properties/C03_disk.v — C03 at the level of the whole disk cache: for EVERY interleaving of any
   number of concurrent requests (uploads, overwrites, reads, existence checks, find-missing,
   failing and aborted uploads, backend fetches with arbitrary faults) and of the background
   remover, the accounted size is exact and bounded, the reserved bytes are exactly what the
   requests in flight hold, and they return to zero whenever no request is in flight. *)
From BR Require Import Base.Prelude Model.LRU Model.Disk Proofs.LRU_inv Proofs.Disk_inv1 Proofs.Disk_inv.
Open Scope Z_scope.

Theorem C03_disk_accounting_every_interleaving :
  forall (c : cfg) (max_size hard_limit : Z) (schedule : list label),
    0 < max_size -> Forall label_ok schedule ->
    let s := srun c (sinit max_size hard_limit) schedule in
    cur (lru (sd s)) = res (lru (sd s)) + entries_size (lru (sd s)) /\
    cur (lru (sd s)) <= max_size /\
    res (lru (sd s)) = sumZ t_held (thr s) /\
    0 <= res (lru (sd s)) /\
    Forall (fun t => 0 <= t_held t) (thr s).
Proof. exact disk_accounting. Qed.
Print Assumptions C03_disk_accounting_every_interleaving.

Theorem C03_reserved_zero_at_quiescence :
  forall (c : cfg) (max_size hard_limit : Z) (schedule : list label),
    0 < max_size -> Forall label_ok schedule ->
    let s := srun c (sinit max_size hard_limit) schedule in
    Forall (fun t => exists r, t_pc t = Done r) (thr s) -> res (lru (sd s)) = 0.
Proof. exact disk_quiescent_res. Qed.
Print Assumptions C03_reserved_zero_at_quiescence.
