(* Properties/ReadHeader_src.v — readHeader as TRANSLATED from /repo/cache/disk/casblob/casblob.go on
   this run (Gen/ReadHeaderSrc.v: every read, every `if`, every arithmetic expression with its
   int64/uint32 wrap-around, every `/`, `%`, index and `make` as a checked operation, in source
   order; run-time Model/GoCasblob.v) computes exactly what Casblob.parse_header computes, for every
   file content.  The theorems of C20/C02/C08/C14 about parse_header are therefore theorems about the
   code as it is now.  The one premise, zlen file < 2^63, is the type of os.FileInfo.Size().
   Only statements, each closed by an already proved lemma, with Print Assumptions beneath. *)
From BR Require Import Base.Prelude Gen.Consts Gen.Funcs Model.Casblob Model.FormatSpec Model.GoCasblob
  Gen.ReadHeaderSrc Proofs.Casblob_read Proofs.Casblob_toy Proofs.ReadHeader_refine Proofs.ReadHeader_props.
Open Scope list_scope.
Open Scope Z_scope.

(* same header, same error class, a panic exactly where the model has one *)
Theorem RHsrc_refines :
  forall file, zlen file < two63 -> ReadHeaderSrc_readHeader (open_file file) = parse_header file.
Proof. exact readHeader_refines. Qed.
Print Assumptions RHsrc_refines.

(* no division by zero, no index out of range, no oversized make — whatever the bytes *)
Theorem RHsrc_never_panics :
  forall file, zlen file < two63 -> is_panic (ReadHeaderSrc_readHeader (open_file file)) = false.
Proof. exact readHeader_src_never_panics. Qed.
Print Assumptions RHsrc_never_panics.

(* the loop over the chunk table ends within the bound the translator derived from its header *)
Theorem RHsrc_terminates :
  forall file s, zlen file < two63 -> ReadHeaderSrc_readHeader (open_file file) <> Hang s.
Proof. exact readHeader_src_terminates. Qed.
Print Assumptions RHsrc_terminates.

(* every file state of a compressed write before the final table rewrite is rejected (C08) *)
Theorem RHsrc_torn_rejected :
  forall (c t size : Z) (nchunks : nat) (frames : list (list Z)) (st : list Z),
    in_i64 size -> 0 <= t < 256 -> 0 <= c < two32 ->
    (1 <= nchunks)%nat -> 8 * (Z.of_nat nchunks + 1) + 29 < two32 ->
    In st (torn_states c t size nchunks frames) -> zlen st < two63 ->
    is_ok (ReadHeaderSrc_readHeader (open_file st)) = false.
Proof. exact readHeader_src_torn_rejected. Qed.
Print Assumptions RHsrc_torn_rejected.

(* every file conformant to the published layout (Model/FormatSpec.v) is accepted, with the header
   the layout describes: Zstandard, the logical size, the offsets of its frames *)
Theorem RHsrc_accepts_conformant :
  forall (dec_all : list Z -> option (list Z)) (file data : list Z),
    conformant dec_all file data -> zlen file <= maxAlloc ->
    exists h frames ps,
      ReadHeaderSrc_readHeader (open_file file) = Ok h /\
      layout dec_all file h frames ps /\ List.concat ps = data /\ h_usize h = zlen data.
Proof. exact readHeader_src_accepts_conformant. Qed.
Print Assumptions RHsrc_accepts_conformant.

(* the casblob driver's header cases, evaluated on the translated source *)
Theorem RHsrc_case_ok :
  forall file obs, zlen file < two63 ->
    src_case_ok ReadHeaderSrc_readHeader (CHeader file obs) = case_ok (CHeader file obs).
Proof. exact src_case_ok_header. Qed.
Print Assumptions RHsrc_case_ok.

(* ------------------------------------------------------------------ *)
(* Instances, evaluated on the translated code itself. *)

(* ex_file (Proofs/ReadHeader_props.v): a three-chunk file with chunk size 3 (toy codec): accepted with its header; and both sides agree *)
Example RHsrc_example_accept :
  zlen ex_file < two63 /\
  ReadHeaderSrc_readHeader (open_file ex_file) = Ok (mkHeader 7 1 3 [61; 67; 73; 75]) /\
  parse_header ex_file = Ok (mkHeader 7 1 3 [61; 67; 73; 75]).
Proof. split; [vm_compute; reflexivity|]. split; vm_compute; reflexivity. Qed.

(* the same file with each check violated in turn: the error class of each return statement *)
Example RHsrc_example_errors :
  (* truncated below the minimum *)
  ReadHeaderSrc_readHeader (open_file (firstn 45 ex_file)) = Err E_small /\
  (* wrong magic *)
  ReadHeaderSrc_readHeader (open_file (0 :: skipn 1 ex_file)) = Err E_magic /\
  (* a chunk count that does not fit the file (would be a 2^62-entry make) *)
  ReadHeaderSrc_readHeader (open_file (firstn 21 ex_file ++ enc_i64 4611686018427387904 ++ skipn 29 ex_file)) = Err E_fit /\
  (* chunk size 0: caught before the division *)
  ReadHeaderSrc_readHeader (open_file (firstn 17 ex_file ++ enc_u32 0 ++ skipn 21 ex_file)) = Err E_chunk0 /\
  (* chunk count that disagrees with size / chunk size *)
  ReadHeaderSrc_readHeader (open_file (firstn 17 ex_file ++ enc_u32 2 ++ skipn 21 ex_file)) = Err E_count /\
  (* frame size field *)
  ReadHeaderSrc_readHeader (open_file (firstn 4 ex_file ++ enc_u32 52 ++ skipn 8 ex_file)) = Err E_frame /\
  (* table not increasing *)
  ReadHeaderSrc_readHeader (open_file (encode_header (mkHeader 7 1 3 [61; 67; 67; 75]) ++ skipn 61 ex_file)) = Err E_incr /\
  (* last offset is not the file size: one trailing byte *)
  ReadHeaderSrc_readHeader (open_file (ex_file ++ [0])) = Err E_last.
Proof. repeat split; vm_compute; reflexivity. Qed.

(* a torn state of a real write: the header with the zero table plus the first frame *)
Example RHsrc_example_torn :
  let st := encode_header (header0 3 1 7 3) ++ toy_enc [1; 2; 3] in
  In st (torn_states 3 1 7 3 [toy_enc [1; 2; 3]; toy_enc [4; 5; 6]; toy_enc [7]]) /\
  zlen st < two63 /\
  ReadHeaderSrc_readHeader (open_file st) = Err E_incr.
Proof.
  cbv zeta. split; [|split; vm_compute; reflexivity].
  unfold torn_states. apply in_or_app. right. apply in_map_iff. exists 1%nat.
  split; [vm_compute; reflexivity|]. cbn. tauto.
Qed.

(* the conformance hypothesis is satisfiable: ex_file is conformant for [1..7] *)
Example RHsrc_example_conformant :
  conformant toy_dec_all ex_file [1; 2; 3; 4; 5; 6; 7] /\ zlen ex_file <= maxAlloc.
Proof.
  split; [|vm_compute; congruence].
  exists 3, [toy_enc [1; 2; 3]; toy_enc [4; 5; 6]; toy_enc [7]], [[1; 2; 3]; [4; 5; 6]; [7]].
  split; [vm_compute; reflexivity|]. split; [lia|]. split.
  - split; [reflexivity|]. split; [discriminate|]. split.
    + intros [|[|i]] Hi; simpl in *; try reflexivity; lia.
    + simpl. lia.
  - repeat constructor.
Qed.
