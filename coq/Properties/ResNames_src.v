(* Properties/ResNames_src.v — the ByteStream resource-name parsers (C16) and the key functions (C15)
   as TRANSLATED from /repo/server/grpc_bytestream.go and /repo/cache/cache.go on this run
   (Gen/ResNamesSrc.v: statement by statement; every index and slice expression panics when out of
   range; the segment loop with its break) compute what the models the C16 / C15 theorems are about
   compute.  Only statements, each closed by an already proved lemma, with Print Assumptions beneath. *)
From BR Require Import Base.Prelude Model.Keys Model.ByteStream Model.GoStrings Gen.ResNamesSrc
  Proofs.ByteStream_names Proofs.ResNames_refine.
Open Scope string_scope.
Open Scope list_scope.
Open Scope Z_scope.

(* for every resource name (any byte string): same hash, size, compressor or the same error class,
   and a Panic of the translated code exactly where the model has one (nowhere) *)
Theorem RNsrc_read_refines :
  forall name logPrefix, ResNamesSrc_parseReadResource name logPrefix = parse_read_resource name.
Proof. exact ResNamesSrc_parseReadResource_refines. Qed.
Print Assumptions RNsrc_read_refines.

Theorem RNsrc_write_refines :
  forall name, ResNamesSrc_parseWriteResource name = parse_write_resource name.
Proof. exact ResNamesSrc_parseWriteResource_refines. Qed.
Print Assumptions RNsrc_write_refines.

(* fields[i], fields[i+1:], rem[0] .. rem[4]: no index is out of range for ANY string; the parsers
   answer with a triple or with InvalidArgument, nothing else *)
Theorem RNsrc_never_panic :
  forall name logPrefix,
    is_panic (ResNamesSrc_parseReadResource name logPrefix) = false /\
    is_panic (ResNamesSrc_parseWriteResource name) = false.
Proof. exact ResNamesSrc_never_panic. Qed.
Print Assumptions RNsrc_never_panic.

Theorem RNsrc_outcomes :
  forall name logPrefix,
    ((exists x, ResNamesSrc_parseReadResource name logPrefix = Ok x) \/
     ResNamesSrc_parseReadResource name logPrefix = Err EBadRequest) /\
    ((exists x, ResNamesSrc_parseWriteResource name = Ok x) \/
     ResNamesSrc_parseWriteResource name = Err EBadRequest).
Proof. exact ResNamesSrc_outcomes. Qed.
Print Assumptions RNsrc_outcomes.

(* the instance prefix: ANY text (slashes, empty segments included) none of whose "/"-separated
   segments is the reserved word — "uploads" for Write/QueryWriteStatus names, "blobs" or
   "compressed-blobs" for Read names — can be put in front of a name without changing the answer.
   A segment that merely contains, starts or ends with a reserved word is not reserved. *)
Theorem RNsrc_instance_prefix_irrelevant :
  forall inst rest logPrefix,
    (forallb (fun seg => negb (String.eqb "uploads" seg)) (split_slash inst) = true ->
     ResNamesSrc_parseWriteResource (inst ++ "/" ++ rest)%string = ResNamesSrc_parseWriteResource rest) /\
    (forallb (fun seg => negb (String.eqb seg "blobs" || String.eqb seg "compressed-blobs")) (split_slash inst) = true ->
     ResNamesSrc_parseReadResource (inst ++ "/" ++ rest)%string logPrefix = ResNamesSrc_parseReadResource rest logPrefix).
Proof. exact ResNamesSrc_instance_prefix_irrelevant. Qed.
Print Assumptions RNsrc_instance_prefix_irrelevant.

(* C16_names / C16_names_read, about the code as translated now *)
Theorem RNsrc_names :
  forall inst uuid h szs sz meta (z : bool),
    forallb (not_kw "uploads") inst = true ->
    forallb no_slash (inst ++ uuid :: h :: szs :: meta)%list = true ->
    parse_int64 szs = Some sz -> 0 <= sz -> validate_hash h sz = Ok tt ->
    ResNamesSrc_parseWriteResource
      (join_slash (inst ++ "uploads" :: uuid ::
                   (if z then ["compressed-blobs"; "zstd"] else ["blobs"]) ++ h :: szs :: meta)%list)
    = Ok (h, sz, if z then ResNamesSrc_casblob_Zstandard else ResNamesSrc_casblob_Identity).
Proof. exact ResNamesSrc_names_write. Qed.
Print Assumptions RNsrc_names.

Theorem RNsrc_names_read :
  forall inst h szs sz (z : bool) logPrefix,
    forallb not_read_kw inst = true ->
    forallb no_slash (inst ++ [h; szs])%list = true ->
    parse_int64 szs = Some sz -> 0 <= sz -> validate_hash h sz = Ok tt ->
    ResNamesSrc_parseReadResource
      (join_slash (inst ++ (if z then ["compressed-blobs"; "zstd"] else ["blobs"]) ++ [h; szs])%list) logPrefix
    = Ok (h, sz, if z then ResNamesSrc_casblob_Zstandard else ResNamesSrc_casblob_Identity).
Proof. exact ResNamesSrc_names_read. Qed.
Print Assumptions RNsrc_names_read.

(* C15: cache.LookupKey and cache.TransformActionCacheKey as translated; H = hex . SHA-256 *)
Theorem RNsrc_LookupKey_refines :
  forall k hash, ResNamesSrc_LookupKey (kind_to_Z k) hash = Ok (lookup_key k hash).
Proof. exact ResNamesSrc_LookupKey_refines. Qed.
Print Assumptions RNsrc_LookupKey_refines.

Theorem RNsrc_TransformActionCacheKey_refines :
  forall (H : string -> string) key instance logger,
    ResNamesSrc_TransformActionCacheKey H key instance logger = Ok (transform_ac_key H key instance).
Proof. exact ResNamesSrc_TransformActionCacheKey_refines. Qed.
Print Assumptions RNsrc_TransformActionCacheKey_refines.

(* instances, evaluated on the translated code: instance names whose segments merely end or start with
   a reserved word; a reserved word as a segment of the instance name captures the parse; short and
   over-long names; sizes ParseInt refuses *)
Definition h64 : string := "aaaaaaaaaaaaaaaaaaaaaaaaaaaaaaaaaaaaaaaaaaaaaaaaaaaaaaaaaaaaaaaa".

Example RNsrc_write_instances :
  ResNamesSrc_parseWriteResource ("ci-uploads/uploads/u/blobs/" ++ h64 ++ "/12") = Ok (h64, 12, 0) /\
  ResNamesSrc_parseWriteResource ("my_uploads/eu/uploads/u/blobs/" ++ h64 ++ "/12/meta/data") = Ok (h64, 12, 0) /\
  ResNamesSrc_parseWriteResource ("uploads2/nightly.uploads/uploads/u/compressed-blobs/zstd/" ++ h64 ++ "/7") = Ok (h64, 7, 1) /\
  ResNamesSrc_parseWriteResource ("/uploads/u/blobs/" ++ h64 ++ "/12") = Ok (h64, 12, 0) /\
  ResNamesSrc_parseWriteResource ("uploads/x/uploads/u/blobs/" ++ h64 ++ "/12") = Err EBadRequest /\
  ResNamesSrc_parseWriteResource ("uploads/u/blobs/" ++ h64) = Err EBadRequest /\
  ResNamesSrc_parseWriteResource ("uploads/u/compressed-blobs/zstd/" ++ h64) = Err EBadRequest /\
  ResNamesSrc_parseWriteResource ("uploads/u/blobs/" ++ h64 ++ "/-1") = Err EBadRequest /\
  ResNamesSrc_parseWriteResource ("uploads/u/blobs/" ++ h64 ++ "/1_0") = Err EBadRequest /\
  ResNamesSrc_parseWriteResource ("uploads/u/blobs/" ++ h64 ++ "/9223372036854775808") = Err EBadRequest /\
  ResNamesSrc_parseWriteResource "" = Err EBadRequest /\
  ResNamesSrc_parseWriteResource "uploads" = Err EBadRequest.
Proof. vm_compute. repeat split; reflexivity. Qed.

Example RNsrc_read_instances :
  ResNamesSrc_parseReadResource ("xblobs/blobs.d/blobs/" ++ h64 ++ "/12") "p" = Ok (h64, 12, 0) /\
  ResNamesSrc_parseReadResource ("compressed-blobs-old/compressed-blobs/zstd/" ++ h64 ++ "/12") "p" = Ok (h64, 12, 1) /\
  ResNamesSrc_parseReadResource ("ci-uploads/uploads/blobs/" ++ h64 ++ "/+12") "p" = Ok (h64, 12, 0) /\
  ResNamesSrc_parseReadResource ("blobs/" ++ h64 ++ "/12/extra") "p" = Err EBadRequest /\
  ResNamesSrc_parseReadResource ("blobs/x/blobs/" ++ h64 ++ "/12") "p" = Err EBadRequest /\
  ResNamesSrc_parseReadResource ("compressed-blobs/gzip/" ++ h64 ++ "/12") "p" = Err EBadRequest /\
  ResNamesSrc_parseReadResource "compressed-blobs" "p" = Err EBadRequest /\
  ResNamesSrc_parseReadResource "blobs" "p" = Err EBadRequest /\
  ResNamesSrc_parseReadResource "" "p" = Err EBadRequest.
Proof. vm_compute. repeat split; reflexivity. Qed.

(* the hypotheses of the prefix theorem hold for such instance names, and fail for a reserved segment *)
Example RNsrc_prefix_instances :
  forallb (fun seg => negb (String.eqb "uploads" seg)) (split_slash "ci-uploads/my_uploads/eu/nightly.uploads/uploads2") = true /\
  forallb (fun seg => negb (String.eqb "uploads" seg)) (split_slash "a/uploads/b") = false /\
  forallb (fun seg => negb (String.eqb seg "blobs" || String.eqb seg "compressed-blobs"))
          (split_slash "xblobs/compressed-blobs-old/blobs.d") = true.
Proof. vm_compute. repeat split; reflexivity. Qed.

Example RNsrc_key_instances :
  ResNamesSrc_LookupKey 1 h64 = Ok ("cas/" ++ h64)%string /\
  ResNamesSrc_TransformActionCacheKey (fun x => ("H(" ++ x ++ ")")%string) h64 "" tt = Ok h64 /\
  ResNamesSrc_TransformActionCacheKey (fun x => ("H(" ++ x ++ ")")%string) "k" "inst" tt = Ok "H(kinst)".
Proof. vm_compute. repeat split; reflexivity. Qed.
