(* Properties/C02.v — "CAS reads return exactly the stored bytes on every path, offset and encoding"
   (the chunked-zstd file level: WriteAndClose, readHeader, GetUncompressedReadCloser,
   GetZstdReadCloser, ExtractLogicalSize).  Only statements, each closed by an already proved lemma,
   with Print Assumptions beneath.  The zstd codec is universally quantified: any enc / dec_all /
   dec_stream satisfying the framing laws [codec_laws]; SHA-256 is the oracle [hashok]. *)
From BR Require Import Base.Prelude Gen.Consts Gen.Funcs Model.Casblob Model.FormatSpec
  Proofs.Casblob_le Proofs.Casblob_header Proofs.Casblob_nopanic Proofs.Casblob_read
  Proofs.Casblob_write Proofs.Casblob_toy Proofs.Casblob_main Bridge.Bridge_Casblob.
Open Scope list_scope.
Open Scope Z_scope.

(* For every content, every chunk size c (uint32, > 0), every codec satisfying the laws, and every
   offset 0 <= off <= n (first / middle / last chunk, remainder 0 or not, n a multiple of c or not,
   one chunk or many): reading the file an acknowledged WriteAndClose left, with the right expected
   size or with -1, delivers exactly data[off:] through the uncompressed reader, and through the
   zstd reader a byte stream that the streaming decoder decodes to exactly data[off:].
   Side conditions: sizes are int64; the file is smaller than 2^48 bytes; the chunk table fits the
   uint32 frame-size field (what the comment in casblob.go calls the ~511 TB limit). *)
Theorem C02_roundtrip :
  forall (enc enc_stream : list Z -> list Z) (dec_all dec_stream : list Z -> option (list Z))
         (hashok : list Z -> bool),
    codec_laws enc dec_all dec_stream ->
  forall (c : Z) (data : list Z) (ends : bool) (size ret : Z) (file : list Z) (e off : Z),
    0 < c < two32 -> in_i64 size ->
    write_and_close enc hashok c Zstandard data ends size = Ok (ret, file) ->
    zlen file <= maxAlloc -> 8 * (cdiv size c + 1) + 29 < two32 ->
    e = -1 \/ e = zlen data -> 0 <= off <= zlen data ->
    uncompressed_reader dec_all dec_stream file e off = Ok (zskipn off data) /\
    exists out, zstd_reader enc enc_stream dec_all file e off = Ok out /\
                dec_stream out = Some (zskipn off data).
Proof. exact roundtrip. Qed.
Print Assumptions C02_roundtrip.

(* the premise is not vacuous: a stream of exactly the declared length that ends cleanly and
   hashes to the declared digest is always acknowledged *)
Theorem C02_writer_accepts :
  forall (enc : list Z -> list Z) (hashok : list Z -> bool) (c : Z) (data : list Z),
    0 < c -> data <> [] -> hashok data = true ->
    exists ret file, write_and_close enc hashok c Zstandard data false (zlen data) = Ok (ret, file).
Proof. exact writer_accepts. Qed.
Print Assumptions C02_writer_accepts.

(* wherever a size is reported it is n: the declared size, the header field readHeader returns,
   what ExtractLogicalSize tells a proxy front end, and the size on disk is the file length *)
Theorem C02_size_reported :
  forall (enc : list Z -> list Z) (dec_all dec_stream : list Z -> option (list Z))
         (hashok : list Z -> bool),
    codec_laws enc dec_all dec_stream ->
  forall (c : Z) (data : list Z) (ends : bool) (size ret : Z) (file : list Z),
    0 < c < two32 -> in_i64 size ->
    write_and_close enc hashok c Zstandard data ends size = Ok (ret, file) ->
    zlen file <= maxAlloc -> 8 * (cdiv size c + 1) + 29 < two32 ->
    size = zlen data /\
    (exists h, parse_header file = Ok h /\ h_usize h = zlen data /\ h_chunk h = c) /\
    extract_logical_size file = Ok (zlen data) /\ ret = zlen file.
Proof. exact size_reported. Qed.
Print Assumptions C02_size_reported.

(* a read that states another size than the stored one is refused by both readers, on ANY file
   readHeader accepts *)
Theorem C02_expected_size_mismatch_rejected :
  forall (enc enc_stream : list Z -> list Z) (dec_all dec_stream : list Z -> option (list Z))
         (file : list Z) (h : header) (e off : Z),
    parse_header file = Ok h -> e <> -1 -> e <> h_usize h ->
    uncompressed_reader dec_all dec_stream file e off = Err E_expected /\
    zstd_reader enc enc_stream dec_all file e off = Err E_expected.
Proof. exact expected_size_mismatch_rejected. Qed.
Print Assumptions C02_expected_size_mismatch_rejected.

(* header encode / parse round trip under the well-formedness the writer guarantees *)
Theorem C02_header_roundtrip :
  forall (h : header) (body : list Z),
    0 < zlen body -> header_wf (zlen (encode_header h ++ body)) h ->
    parse_header (encode_header h ++ body) = Ok h.
Proof. exact parse_encode_roundtrip. Qed.
Print Assumptions C02_header_roundtrip.

(* little-endian field codecs *)
Theorem C02_le_roundtrip :
  (forall v r, 0 <= v < 256 -> u8_of (enc_u8 v ++ r) = v) /\
  (forall v r, 0 <= v < two32 -> u32_of (enc_u32 v ++ r) = v) /\
  (forall v r, in_i64 v -> i64_of (enc_i64 v ++ r) = v) /\
  (forall n v, le_dec (le_enc n v) = v mod 256 ^ Z.of_nat n).
Proof.
  split; [exact u8_roundtrip|]. split; [exact u32_roundtrip|]. split; [exact i64_roundtrip|exact le_dec_enc].
Qed.
Print Assumptions C02_le_roundtrip.

(* the readers cannot panic on a file whose header was accepted, for any offset within the blob
   (exported for C14 together with Casblob_header.parse_header_never_panics) *)
Theorem C02_readers_never_panic :
  forall (enc enc_stream : list Z -> list Z) (dec_all dec_stream : list Z -> option (list Z))
         (file : list Z) (h : header) (e off : Z),
    parse_header file = Ok h -> zlen file <= maxAlloc -> 0 <= off <= h_usize h ->
    is_panic (uncompressed_reader dec_all dec_stream file e off) = false /\
    is_panic (zstd_reader enc enc_stream dec_all file e off) = false.
Proof.
  intros enc enc_stream dec_all dec_stream file h e off Hp Ha Ho. split.
  - exact (uncompressed_reader_never_panics enc enc_stream dec_all dec_stream file h e off Hp Ha Ho).
  - exact (zstd_reader_never_panics enc enc_stream dec_all dec_stream file h e off Hp Ha Ho).
Qed.
Print Assumptions C02_readers_never_panic.

(* ------------------------------------------------------------------ *)
(* Non-vacuity: the codec laws are satisfiable (toy codec), and a concrete 5-byte blob with chunk
   size 2 (three chunks, the last one short) satisfies every premise of C02_roundtrip; offsets in
   the first, middle and last chunk, with and without remainder, evaluate to data[off:]. *)
Example C02_codec_laws_satisfiable : codec_laws toy_enc toy_dec_all toy_dec_stream.
Proof. exact toy_codec_laws. Qed.

Example C02_example :
  let data := [10; 20; 30; 40; 50] in
  exists ret file,
    write_and_close toy_enc (fun _ => true) 2 Zstandard data false 5 = Ok (ret, file) /\
    zlen file <= maxAlloc /\ 8 * (cdiv 5 2 + 1) + 29 < two32 /\ ret = 71 /\
    map (fun off => uncompressed_reader toy_dec_all toy_dec_stream file 5 off) [0; 1; 2; 3; 4; 5] =
      [Ok data; Ok [20; 30; 40; 50]; Ok [30; 40; 50]; Ok [40; 50]; Ok [50]; Ok []] /\
    map (fun off => match zstd_reader toy_enc toy_enc toy_dec_all file (-1) off with
                    | Ok out => toy_dec_stream out | _ => None end) [0; 1; 2; 3; 4; 5] =
      [Some data; Some [20; 30; 40; 50]; Some [30; 40; 50]; Some [40; 50]; Some [50]; Some []].
Proof. cbv zeta. eexists; eexists. split; [vm_compute; reflexivity|]. vm_compute. repeat split; congruence. Qed.

(* The bound on the offset in C02_readers_never_panic is needed: beyond the blob size the Go readers
   index the chunk table out of range.  (disk.get rejects offset >= size before calling them, and
   unknown-size reads use offset 0, so no request reaches this; recorded so that a change of that
   guard is noticed by whoever assembles C14.) *)
Example C02_offset_beyond_size_panics :
  exists ret file,
    write_and_close toy_enc (fun _ => true) 2 Zstandard [10; 20; 30; 40; 50] false 5 = Ok (ret, file) /\
    is_panic (uncompressed_reader toy_dec_all toy_dec_stream file (-1) 7) = true /\
    is_panic (zstd_reader toy_enc toy_enc toy_dec_all file (-1) 7) = true.
Proof. eexists; eexists. split; [vm_compute; reflexivity|]. split; vm_compute; reflexivity. Qed.
