(* Properties/C18_paths.v — C18 on the write paths (front-end adapters, Model/Front.v): "No item whose
   logical size exceeds max_blob_size is accepted through any write path — it is refused with a client
   error and nothing is stored — while items of exactly the limit are accepted; the same limit is what
   GetCapabilities advertises."
   Only statements, each closed by an already proved lemma, with Print Assumptions beneath.

   WHICH LAYER refuses, and with what (bad = HTTP 400 / gRPC InvalidArgument):
     HTTP PUT, ByteStream.Write ... the handler, before anything reaches the disk layer: bad
     SpliceBlob ................... the handler if maxCasBlobSizeBytes > 0 (always, via main.go): bad;
                                    otherwise only the disk layer, reported as Unknown (no OK either way)
     BatchUpdateBlobs ............. NO handler check; disk.Put refuses (400) -> per-blob InvalidArgument
     inlined ActionResult blobs ... NO handler check; disk.Put refuses -> the call fails InvalidArgument
                                    and the ActionResult is not stored
     FetchBlob .................... NO handler check; disk.Put refuses; FetchBlob reports NOT_FOUND
                                    (as for every failed fetch) — a client error class, but not 400
   "State untouched" (the [d] in the result) is how "nothing is stored" reads in the model. *)
From BR Require Import Base.Prelude Gen.Front Model.LRU Model.Disk Model.Front
  Proofs.Front_base Proofs.Front_ack Proofs.Front_limit Proofs.Front_examples Bridge.Bridge_Front.
Open Scope Z_scope.

(* ---- oversize is refused, on every write path ---- *)
Theorem C18_paths_oversize_refused :
  (* HTTP PUT plain / zstd: the declared logical size is X-Digest-SizeBytes or else Content-Length *)
  (forall c d u hash cl xd ce b rnd len,
     http_declared cl xd = Some len -> len > fc_http_max c ->
     http_put c d u hash cl xd ce b rnd = (d, bad)) /\
  (* BatchUpdateBlobs identity / zstd: the disk layer, on the DECODED length *)
  (forall c d e,
     b_clean (bu_body e) = true -> bu_size e > c_maxblob (fc_disk c) ->
     bu_one c d e = (d, bad)) /\
  (* ByteStream.Write blobs/ and compressed-blobs/zstd/: the size in the resource name *)
  (forall c d z hash size m0 rest ab b rnd,
     size > fc_grpc_max c -> bs_write c d (WN z hash size) (m0 :: rest) ab b rnd = (d, bad)) /\
  (* SpliceBlob with a caller digest *)
  (forall c d dfn cs h s computed concat_ok cid rnd,
     fc_grpc_max c > 0 -> s > fc_grpc_max c ->
     splice c d dfn cs (Some (h, s)) computed concat_ok cid rnd = (d, bad)) /\
  (* SpliceBlob computing the digest: the size is the sum of the chunk sizes; the chunks are hashed
     first, so a missing chunk may be reported instead (NotFound / Unknown) — never OK *)
  (forall c d dfn cs computed concat_ok cid rnd total d' st,
     fc_grpc_max c > 0 -> check_chunks cs 0 = Some total -> total > fc_grpc_max c ->
     splice c d dfn cs None computed concat_ok cid rnd = (d', st) ->
     st = bad \/ st = SErr ENotFound \/ st = SErr EInternal) /\
  (* blobs inlined in an ActionResult: the disk layer; the ActionResult is not stored *)
  (forall c d ahash asize valid files so se arlen rnd i,
     In i (files ++ [so; se]) -> inl_oversize c i ->
     exists d1 st, update_ar c d ahash asize valid files so se arlen rnd = (d1, st) /\ st <> SOk /\
       (d1 = d \/ exists e, put_inlined c d (files ++ [so; se]) = (d1, Some e))) /\
  (forall c d i t, inl_oversize c i -> put_inlined c d (i :: t) = (d, Some EBadRequest)) /\
  (* FetchBlob: the disk layer; reported as NOT_FOUND *)
  (forall c sri us d,
     Forall (fun u => up_size u sri > c_maxblob (fc_disk c)) us ->
     fetch_uris c d us sri = (d, SErr ENotFound, None)).
Proof.
  split; [exact http_put_limit|]. split; [exact bu_one_limit|]. split; [exact bs_write_limit|].
  split; [exact splice_limit|]. split; [exact splice_limit_computed|]. split; [exact update_ar_limit|].
  split; [exact put_inlined_limit_first|exact fetch_uris_limit].
Qed.
Print Assumptions C18_paths_oversize_refused.

(* whatever answers OK stayed within the DISK layer's limit (the backstop behind every handler), for
   the one path whose handler check can be switched off (maxCasBlobSizeBytes = 0) *)
Theorem C18_paths_splice_backstop :
  forall c d dfn cs blob computed concat_ok cid rnd d',
    splice c d dfn cs blob computed concat_ok cid rnd = (d', SOk) ->
    exists h s, splice_digest cs blob computed = Some (h, s) /\
      ((exists dx, snd (fst (disk_contains c dx CAS h s)) = true) \/ s <= c_maxblob (fc_disk c)).
Proof. exact splice_ok_within_disk_limit. Qed.
Print Assumptions C18_paths_splice_backstop.

(* the ActionResult that carries inlined data is an item too: larger than the limit, it is refused *)
Theorem C18_paths_action_result_itself :
  forall c d ahash asize files so se arlen rnd d1,
    validate_hash ahash asize = true -> arlen > c_maxblob (fc_disk c) -> arlen <> 0 ->
    put_inlined c d (files ++ [so; se]) = (d1, None) ->
    update_ar c d ahash asize true files so se arlen rnd = (d1, bad).
Proof. exact update_ar_carrier_limit. Qed.
Print Assumptions C18_paths_action_result_itself.

(* ---- exactly the limit is not refused for size ---- *)
(* the two handler-level checks let sizes up to and including the limit through: the answer is then
   the disk layer's (whose own guard is [size > maxBlobSize], Model/Disk.v PutStart); the other paths
   have no handler-level check at all *)
Theorem C18_paths_at_limit_not_refused_by_handlers :
  (forall c d hash cl xd ce b rnd len,
     http_declared cl xd = Some len -> 0 < len <= fc_http_max c -> ce <> CeOther ->
     http_put c d true hash cl xd ce b rnd =
     (let '(d', r) := disk_put c d CAS hash len (stream_of b) rnd in (d', match r with None => SOk | Some e => SErr e end))) /\
  (forall c d z hash size m0 rest ab b rnd,
     0 <= size <= fc_grpc_max c -> validate_hash hash size = true ->
     bs_shortcut (snd (fst (disk_contains c d CAS hash size))) hash size = false -> wm_off m0 = 0 ->
     bs_write c d (WN z hash size) (m0 :: rest) ab b rnd =
     (let d1 := fst (fst (disk_contains c d CAS hash size)) in
      let '(piped, e) := recv_loop z size 0 true (m0 :: rest) ab in
      let '(d2, r) := disk_put c d1 CAS hash size (bs_stream z b piped (match e with Some _ => true | None => false end)) rnd in
      match e with Some x => (d2, SErr x) | None => (d2, put_status EInternal r) end)).
Proof. split; [exact http_put_within_limit|exact bs_write_within_limit]. Qed.
Print Assumptions C18_paths_at_limit_not_refused_by_handlers.

(* ---- the advertised limit is the enforced one ---- *)
(* main.go passes ONE expression, c.MaxBlobSize, to disk.WithMaxBlobSize, server.NewHTTPCache and
   server.ListenAndServeGRPC (regenerated from the source on every run), the constructors store it in
   the fields the handlers compare against, and GetCapabilities reports the gRPC server's field *)
Theorem C18_advertised :
  Gen.Front.front_wiring =
    [("disk.WithMaxBlobSize", "c.MaxBlobSize"); ("disk.WithProxyMaxBlobSize", "c.MaxProxyBlobSize");
     ("server.NewHTTPCache#9", "c.MaxBlobSize"); ("server.ListenAndServeGRPC#6", "c.MaxBlobSize");
     ("GetCapabilities.MaxCasBlobSizeBytes", "s.maxCasBlobSizeBytes")]%string /\
  Gen.Front.front_wiring_inner =
    [("ListenAndServeGRPC->ServeGRPC#5", "maxCasBlobSizeBytes");
     ("ServeGRPC: grpcServer.maxCasBlobSizeBytes", "maxCasBlobSizeBytes");
     ("NewHTTPCache: httpCache.maxCasBlobSizeBytes", "maxCasBlobSizeBytes")]%string /\
  forall zstd max_blob_size,
    capabilities_max (wired zstd max_blob_size) = max_blob_size /\
    fc_http_max (wired zstd max_blob_size) = max_blob_size /\
    fc_grpc_max (wired zstd max_blob_size) = max_blob_size /\
    c_maxblob (fc_disk (wired zstd max_blob_size)) = max_blob_size.
Proof. split; [exact wiring_pinned|]. split; [exact wiring_inner_pinned|exact advertised_is_enforced]. Qed.
Print Assumptions C18_advertised.

(* ---- non-vacuity: all ten paths at exactly the limit (accepted, present) and one byte over it
   (client error, nothing present, no ActionResult), in both storage modes ---- *)
Example C18_paths_example_at_limit :
  run_ops cfgZ store0 at_limit = at_limit_expected /\ run_ops cfgU store0 at_limit = at_limit_expected.
Proof. exact at_limit_accepted. Qed.

Example C18_paths_example_over_limit :
  run_ops cfgZ store0 over_limit = over_limit_expected /\ run_ops cfgU store0 over_limit = over_limit_expected.
Proof. exact over_limit_refused. Qed.
