(* Properties/C17.v — "max_size_hard_limit refuses overload with a retryable error; reads continue".
   Only statements, each closed by an already proved lemma, with Print Assumptions beneath.
   [cur] = accounted size, [qbytes] = bytes of evicted-but-not-yet-deleted files, [res] = reserved
   bytes, [hard] = max_size_hard_limit (<= 0: option off), [EInsufficient] = 507 / RESOURCE_EXHAUSTED.
   An upload or a backend fetch of known size enters through [reserve n]. *)
From BR Require Import Base.Prelude Model.LRU Proofs.LRU_inv Proofs.LRU_limit.
Open Scope Z_scope.

(* a. A request that passes the max_size checks is admitted exactly when the option is off or
      accounted + queued-for-deletion + new stays within the limit; otherwise it gets 507. *)
Theorem C17_admission :
  forall n s, Inv s -> 0 < n -> n <= maxs s -> n + res s <= maxs s ->
    (snd (reserve n s) = Ok tt <-> (hard s <= 0 \/ cur s + qbytes s + n <= hard s)) /\
    (~ (hard s <= 0 \/ cur s + qbytes s + n <= hard s) -> snd (reserve n s) = Err EInsufficient).
Proof. exact limit_admission. Qed.
Print Assumptions C17_admission.

(* b. A refusal stores nothing, reserves nothing and evicts nothing (only the peak gauge moves). *)
Theorem C17_refusal_pure :
  forall n s e, Inv s -> snd (reserve n s) = Err e ->
    let s' := fst (reserve n s) in
    order s' = order s /\ evq s' = evq s /\ cur s' = cur s /\ res s' = res s /\ unc s' = unc s /\
    qbytes s' = qbytes s /\ maxs s' = maxs s /\ hard s' = hard s /\ next s' = next s.
Proof. exact limit_refusal_pure. Qed.
Print Assumptions C17_refusal_pure.

(* c. Once the deletions have caught up the request is admitted whenever cur + n <= hard ... *)
Theorem C17_retry_after_drain :
  forall n s, Inv s -> qbytes s = 0 -> 0 < n -> n <= maxs s -> n + res s <= maxs s ->
    cur s + n <= hard s -> snd (reserve n s) = Ok tt.
Proof. exact limit_retry. Qed.
Print Assumptions C17_retry_after_drain.

(* ... which always holds when the limit leaves room for one more item above max_size *)
Theorem C17_retry_after_drain_roomy :
  forall n s, Inv s -> qbytes s = 0 -> 0 < n -> n <= maxs s -> n + res s <= maxs s ->
    hard s >= maxs s + n -> snd (reserve n s) = Ok tt.
Proof. exact limit_retry_roomy. Qed.
Print Assumptions C17_retry_after_drain_roomy.

(* the remover's pass over the queue brings the backlog to zero ... *)
Theorem C17_drain_reaches_zero :
  forall s, Inv s ->
    qbytes (drain_n (List.length (evq s)) s) = 0 /\ evq (drain_n (List.length (evq s)) s) = [].
Proof. exact limit_drain_reaches_zero. Qed.
Print Assumptions C17_drain_reaches_zero.

(* ... so the same request, retried after that pass, succeeds *)
Theorem C17_retry_succeeds :
  forall n s, Inv s -> 0 < n -> n <= maxs s -> n + res s <= maxs s -> cur s + n <= hard s ->
    snd (reserve n (fst (drain s))) = Ok tt.
Proof. exact limit_retry_after_drain. Qed.
Print Assumptions C17_retry_succeeds.

(* d. Without the option no request is refused by this check *)
Theorem C17_off :
  forall n s, Inv s -> hard s <= 0 -> 0 < n -> n <= maxs s -> n + res s <= maxs s ->
    snd (reserve n s) = Ok tt.
Proof. exact limit_off. Qed.
Print Assumptions C17_off.

Theorem C17_off_507_only_from_reservations :
  forall n s, Inv s -> hard s <= 0 -> snd (reserve n s) = Err EInsufficient -> n + res s > maxs s.
Proof. exact limit_off_no_507. Qed.
Print Assumptions C17_off_507_only_from_reservations.

(* e. Reads and existence checks (get = GET/HEAD/Contains/FindMissing hit path, peek) never look
      at the limit, nor does any operation other than Reserve *)
Theorem C17_reads_ignore_limit :
  forall h k s,
    get k (set_hard h s) = (set_hard h (fst (get k s)), snd (get k s)) /\
    peek k (set_hard h s) = peek k s /\
    order (fst (get k (set_hard h s))) = order (fst (get k s)) /\
    snd (get k (set_hard h s)) = snd (get k s).
Proof. exact limit_reads_ignore. Qed.
Print Assumptions C17_reads_ignore_limit.

Theorem C17_only_reserve_reads_limit :
  forall h s,
    (forall k, remove_key k (set_hard h s) = set_hard h (remove_key k s)) /\
    (forall n, unreserve n (set_hard h s) = (set_hard h (fst (unreserve n s)), snd (unreserve n s))) /\
    evictor_step (set_hard h s) = (set_hard h (fst (evictor_step s)), snd (evictor_step s)) /\
    (forall k v, add k v (set_hard h s) = (set_hard h (fst (add k v s)), snd (add k v s))) /\
    (forall o, (forall n, o <> OReserve n) ->
               step (set_hard h s) o = (set_hard h (fst (step s o)), snd (step s o))).
Proof. exact limit_others_ignore. Qed.
Print Assumptions C17_only_reserve_reads_limit.

(* f. The only errors Reserve returns: 400 for a size that is negative or above max_size, 507 for
      too many concurrent reservations or for the hard limit *)
Theorem C17_error_classes :
  forall n s e, Inv s -> snd (reserve n s) = Err e ->
    (e = EBadRequest /\ (n < 0 \/ n > maxs s)) \/
    (e = EInsufficient /\ 0 < n <= maxs s /\
       (n + res s > maxs s \/ (0 < hard s /\ cur s + qbytes s + n > hard s))).
Proof. exact limit_error_classes. Qed.
Print Assumptions C17_error_classes.

Theorem C17_no_other_outcome :
  forall n s, Inv s ->
    match snd (reserve n s) with Ok _ | Err EBadRequest | Err EInsufficient => True | _ => False end.
Proof. exact limit_never_other. Qed.
Print Assumptions C17_no_other_outcome.

(* Non-vacuity: max_size 8192, hard limit 14000.  Three one-block uploads: the third evicts the
   first, whose file is still queued for deletion (backlog 4096).  A further one-block reservation
   is refused with 507 and changes nothing; after the remover's pass the same reservation is
   admitted (and evicts the next entry). *)
Definition C17_backlog : state :=
  run (init 8192 14000) [OAdd "cas/a" (mkItem 4096 4096 "1" false); OAdd "cas/b" (mkItem 4096 4096 "2" false);
                         OAdd "cas/c" (mkItem 4096 4096 "3" false)].

Example C17_example_inv : Inv C17_backlog.
Proof.
  apply run_inv; [apply init_inv; lia|].
  repeat (apply Forall_cons; [simpl; unfold item_ok; simpl; lia|]). apply Forall_nil.
Qed.

Example C17_example_refused_then_admitted :
  let s := C17_backlog in
  (cur s, qbytes s, res s, hard s, List.length (evq s)) = (8192, 4096, 0, 14000, 1%nat) /\
  snd (reserve 4096 s) = Err EInsufficient /\
  map key_of (order (fst (reserve 4096 s))) = ["cas/b"; "cas/c"]%string /\
  snd (reserve 4096 (fst (drain s))) = Ok tt /\
  map key_of (order (fst (reserve 4096 (fst (drain s))))) = ["cas/c"]%string /\
  (* reads are served while the backlog lasts *)
  snd (get "cas/b" s) = Some (mkItem 4096 4096 "2" false, 1%nat) /\
  (* with the option off the same request is admitted despite the backlog *)
  snd (reserve 4096 (set_hard 0 s)) = Ok tt.
Proof. vm_compute. repeat split; reflexivity. Qed.
