(* Properties/C05.v — "Eviction is least-recently-used first and only under space pressure".
   Only statements, each closed by an already proved lemma, with Print Assumptions beneath.
   [order s] is the recency list, LEAST recently used first; [evq s] the queue of entries whose
   files the background remover still has to delete; [cur] the accounted size, [res] the reserved
   bytes.  An upload (or a fetch of known size) first calls [reserve (logical size)] and later
   [unreserve] + [add (item with its on-disk size)]: over both phases the larger of the two sizes
   is what room is made for, and the replaced version leaves the index only in [add]. *)
From Coq Require Import Sorted.
From BR Require Import Base.Prelude Model.LRU Proofs.LRU_inv Proofs.LRU_order.
Open Scope Z_scope.

(* 1. Reserve evicts exactly a least-recently-used prefix [ev] of the recency list, queues exactly
      those entries for removal, and each of them was needed: just before evicting it the item
      still did not fit. *)
Theorem C05_reserve_evicts_lru_prefix :
  forall n s s', Inv s -> reserve n s = (s', Ok tt) ->
    exists ev,
      order s = ev ++ order s' /\
      evq s' = evq s ++ map ent ev /\
      cur s' = cur s - sumZ r4k_disk ev + n /\
      (forall ev1 e ev2, ev = ev1 ++ e :: ev2 -> n + (cur s - sumZ r4k_disk ev1) > maxs s).
Proof. exact reserve_evicts_lru_prefix. Qed.
Print Assumptions C05_reserve_evicts_lru_prefix.

(* only under space pressure *)
Theorem C05_reserve_no_pressure :
  forall n s s', Inv s -> reserve n s = (s', Ok tt) -> n + cur s <= maxs s ->
    order s' = order s /\ evq s' = evq s /\ cur s' = cur s + n.
Proof. exact reserve_no_pressure. Qed.
Print Assumptions C05_reserve_no_pressure.

(* no more than needed: keeping the last evicted entry [e] would have left cur + n > max_size *)
Theorem C05_reserve_minimal :
  forall n s s', Inv s -> reserve n s = (s', Ok tt) ->
    forall ev1 e, order s = ev1 ++ e :: order s' -> n + (cur s - sumZ r4k_disk ev1) > maxs s.
Proof. exact reserve_minimal. Qed.
Print Assumptions C05_reserve_minimal.

(* 2. The commit.  [touched k v s]: the recency list with the element of k taken out and the new
      version appended at the most-recently-used end; [add_delta k v s]: block-rounded on-disk size
      of the new version minus that of the version it replaces; [replaced k s]: that version. *)
Theorem C05_touched_def :
  forall k v s,
    touched k v s =
      match find_key k (order s) with
      | Some e => remove_id (eid e) (order s) ++ [mkElem (eid e) (mkEntry k v)]
      | None => order s ++ [mkElem (next s) (mkEntry k v)]
      end /\
    add_delta k v s =
      roundUp4k (sizeOnDisk v)
      - match find_key k (order s) with Some e => roundUp4k (sizeOnDisk (evalue (ent e))) | None => 0 end /\
    replaced k s =
      match find_key k (order s) with Some e => [mkEntry k (evalue (ent e))] | None => [] end.
Proof. intros; repeat split; reflexivity. Qed.
Print Assumptions C05_touched_def.

Theorem C05_add_evicts_lru_prefix :
  forall k v s s', Inv s -> item_ok v -> add k v s = (s', Ok true) ->
    exists ev,
      touched k v s = ev ++ order s' /\
      evq s' = evq s ++ replaced k s ++ map ent ev /\
      cur s' = cur s - sumZ r4k_disk ev + add_delta k v s /\
      (forall ev1 e ev2, ev = ev1 ++ e :: ev2 ->
         cur s - sumZ r4k_disk ev1 + add_delta k v s > maxs s) /\
      (forall e, find_key k (order s) = Some e ->
         In e (order s) /\ ent e = mkEntry k (evalue (ent e)) /\
         In (mkEntry k (evalue (ent e))) (evq s')).
Proof. exact add_evicts_lru_prefix. Qed.
Print Assumptions C05_add_evicts_lru_prefix.

Theorem C05_add_no_pressure :
  forall k v s s', add k v s = (s', Ok true) -> cur s + add_delta k v s <= maxs s ->
    order s' = touched k v s /\ evq s' = evq s ++ replaced k s.
Proof. exact add_no_pressure. Qed.
Print Assumptions C05_add_no_pressure.

Theorem C05_add_minimal :
  forall k v s s', add k v s = (s', Ok true) ->
    forall ev1 e, touched k v s = ev1 ++ e :: order s' ->
      cur s - sumZ r4k_disk ev1 + add_delta k v s > maxs s.
Proof. exact add_minimal. Qed.
Print Assumptions C05_add_minimal.

(* 3. An accepted upload that fits next to the reservations is present immediately afterwards,
      at the most-recently-used end *)
Theorem C05_present_after_add :
  forall k v s s', Inv s -> item_ok v -> add k v s = (s', Ok true) ->
    res s + roundUp4k (sizeOnDisk v) <= maxs s ->
    (exists l e, order s' = l ++ [e] /\ ent e = mkEntry k v) /\ peek k s' = Some v.
Proof. exact present_after_add. Qed.
Print Assumptions C05_present_after_add.

(* OBSERVATION: the premise is needed — an overwrite with res + new > max_size >= res + new - old
   returns true although the new entry was the last victim of its own eviction loop *)
Theorem C05_self_eviction_possible :
  exists s k v, Inv s /\ item_ok v /\ snd (add k v s) = Ok true /\ peek k (fst (add k v s)) = None
    /\ res s + roundUp4k (sizeOnDisk v) > maxs s /\ res s + add_delta k v s <= maxs s.
Proof. exact self_eviction_possible. Qed.
Print Assumptions C05_self_eviction_possible.

(* 4. An item larger than max_size is rejected without evicting (or changing) anything *)
Theorem C05_oversize_rejected :
  forall s, Inv s ->
    (forall n, n > maxs s -> reserve n s = (s, Err EBadRequest)) /\
    (forall k v, roundUp4k (sizeOnDisk v) > maxs s -> add k v s = (s, Ok false)).
Proof. exact oversize_rejected. Qed.
Print Assumptions C05_oversize_rejected.

(* 5. A lookup that hits (GET, HEAD, FindMissingBlobs, dependency check all go through [get])
      moves that element to the most-recently-used end and keeps everything else in order;
      a miss changes nothing *)
Theorem C05_touch :
  forall k s, Inv s ->
    match find_key k (order s) with
    | Some e =>
        get k s = (set_order (remove_id (eid e) (order s) ++ [e]) s, Some (evalue (ent e), eid e)) /\
        key_of e = k /\
        exists l1 l2, order s = l1 ++ e :: l2 /\ order (fst (get k s)) = l1 ++ l2 ++ [e]
    | None => get k s = (s, None)
    end.
Proof. exact get_touch. Qed.
Print Assumptions C05_touch.

(* 6. History level.  [history_state] runs a history from the empty index while a clock ticks once
      per operation and [lastuse] records, per key, the time of the last operation that USED it:
      an accepted write, or a lookup that hit ([used], defined on the operation's output). *)
Theorem C05_used_def :
  forall s o,
    used s o =
      match o, snd (step s o) with
      | OAdd k _, RBool true => Some k
      | OGet k, RHit _ => Some k
      | ORemoveElem k, RUnit => Some k
      | _, _ => None
      end /\
    (forall c, clock (tick (used s o) c) = S (clock c) /\
       lastuse (tick (used s o) c) =
         match used s o with
         | Some k => fun k' => if String.eqb k' k then clock c else lastuse c k'
         | None => lastuse c
         end) /\
    (forall st, istep st o = (fst (step (fst st) o), tick (used (fst st) o) (snd st))) /\
    (forall mx hd h, history_state mx hd h = fold_left istep h (init mx hd, mkClk 0 (fun _ => 0%nat))).
Proof. intros; repeat split; reflexivity. Qed.
Print Assumptions C05_used_def.

(* In every reachable state the recency list is STRICTLY sorted by time of last use *)
Theorem C05_order_is_last_use_order :
  forall (max_size hard_limit : Z) (history : list op),
    0 < max_size -> Forall op_ok history ->
    let st := history_state max_size hard_limit history in
    fst st = run (init max_size hard_limit) history /\
    StronglySorted (fun a b => (lastuse (snd st) (key_of a) < lastuse (snd st) (key_of b))%nat)
                   (order (fst st)).
Proof. exact order_is_last_use_order. Qed.
Print Assumptions C05_order_is_last_use_order.

(* so an entry is never evicted while a less recently used one survives: whatever Reserve evicts
   was last used strictly before everything it keeps ... *)
Theorem C05_reserve_evicts_least_recent :
  forall (max_size hard_limit : Z) (history : list op) n s',
    0 < max_size -> Forall op_ok history ->
    let st := history_state max_size hard_limit history in
    reserve n (fst st) = (s', Ok tt) ->
    exists ev, order (fst st) = ev ++ order s' /\
      forall a b, In a ev -> In b (order s') ->
        (lastuse (snd st) (key_of a) < lastuse (snd st) (key_of b))%nat.
Proof. exact reserve_evicts_least_recent. Qed.
Print Assumptions C05_reserve_evicts_least_recent.

(* ... and the same for the commit, whose own key counts as used at that moment *)
Theorem C05_add_evicts_least_recent :
  forall (max_size hard_limit : Z) (history : list op) k v s',
    0 < max_size -> Forall op_ok history -> item_ok v ->
    let st := history_state max_size hard_limit history in
    add k v (fst st) = (s', Ok true) ->
    let c' := tick (Some k) (snd st) in
    exists ev, touched k v (fst st) = ev ++ order s' /\
      forall a b, In a ev -> In b (order s') ->
        (lastuse c' (key_of a) < lastuse c' (key_of b))%nat.
Proof. exact add_evicts_least_recent. Qed.
Print Assumptions C05_add_evicts_least_recent.

(* ------------------------------------------------------------------ *)
(* Non-vacuity.  max_size = 3 blocks.  Three one-block uploads a, b, c; a lookup of a; then a
   two-block reservation: b and c (the two least recently used) go, a (older but used later)
   stays.  Then a commit that overwrites a with a two-block version under no pressure. *)
Definition C05_h : list op :=
  [OAdd "cas/a" (mkItem 4096 4096 "1" false); OAdd "cas/b" (mkItem 4096 4096 "2" false);
   OAdd "cas/c" (mkItem 4096 4096 "3" false); OGet "cas/a"].

Example C05_example_history :
  Forall op_ok C05_h /\
  let st := history_state 12288 0 C05_h in
  map (fun e => (key_of e, lastuse (snd st) (key_of e))) (order (fst st))
    = [("cas/b"%string, 1%nat); ("cas/c"%string, 2%nat); ("cas/a"%string, 3%nat)] /\
  snd (reserve 8192 (fst st)) = Ok tt /\
  map key_of (order (fst (reserve 8192 (fst st)))) = ["cas/a"%string] /\
  map ekey (evq (fst (reserve 8192 (fst st)))) = ["cas/b"%string; "cas/c"%string] /\
  (* one block would have needed only b *)
  map key_of (order (fst (reserve 4096 (fst st)))) = ["cas/c"%string; "cas/a"%string].
Proof.
  split; [|vm_compute; repeat split; reflexivity].
  repeat (apply Forall_cons; [simpl; try exact I; unfold item_ok; simpl; lia|]). apply Forall_nil.
Qed.

Example C05_example_commit :
  let s := run (init 12288 0) [OAdd "cas/a" (mkItem 4096 4096 "1" false); OAdd "cas/b" (mkItem 4096 4096 "2" false)] in
  let v := mkItem 8192 8000 "3" false in
  Inv s /\ item_ok v /\ snd (add "cas/a" v s) = Ok true /\
  res s + roundUp4k (sizeOnDisk v) <= maxs s /\
  map key_of (order (fst (add "cas/a" v s))) = ["cas/b"%string; "cas/a"%string] /\
  peek "cas/a" (fst (add "cas/a" v s)) = Some v /\
  evq (fst (add "cas/a" v s)) = [mkEntry "cas/a" (mkItem 4096 4096 "1" false)] /\
  (* under pressure (max_size two blocks) the same commit evicts b, the least recently used *)
  (let s2 := run (init 8192 0) [OAdd "cas/a" (mkItem 4096 4096 "1" false); OAdd "cas/b" (mkItem 4096 4096 "2" false)] in
   snd (add "cas/a" v s2) = Ok true /\
   map key_of (order (fst (add "cas/a" v s2))) = ["cas/a"%string] /\
   map ekey (evq (fst (add "cas/a" v s2))) = ["cas/a"%string; "cas/b"%string]).
Proof.
  cbv zeta. split.
  { apply run_inv; [apply init_inv; lia|].
    repeat (apply Forall_cons; [simpl; unfold item_ok; simpl; lia|]). apply Forall_nil. }
  split; [unfold item_ok; simpl; lia|].
  vm_compute. repeat split; try reflexivity; congruence.
Qed.

Example C05_example_touch_and_oversize :
  let s := run (init 12288 0) [OAdd "cas/a" (mkItem 4096 4096 "1" false); OAdd "cas/b" (mkItem 4096 4096 "2" false)] in
  map key_of (order (fst (get "cas/a" s))) = ["cas/b"%string; "cas/a"%string] /\
  get "cas/zz" s = (s, None) /\
  reserve 12289 s = (s, Err EBadRequest) /\
  add "cas/big" (mkItem 12289 12289 "9" false) s = (s, Ok false).
Proof. vm_compute. repeat split; reflexivity. Qed.
