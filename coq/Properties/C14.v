(* Properties/C14.v — "No request can crash the server, hang a handler or leave resources behind".
   Only statements, each closed by an already proved lemma, with Print Assumptions beneath.

   The property is assembled from the pieces that can make it false for a LOGIC reason:
     - a panic: every nil-able dereference, non-constant index/slice, integer division, make and
       unchecked type assertion of the request-handling packages is in the regenerated inventory,
       the inventory equals the reviewed ledger (C14_sites_reviewed), and the sites whose guard is
       not local are covered by theorems: on-disk headers and both readers (C14_no_panic_headers,
       C14_no_panic_readers), ActionResult validation and the dependency walk over validated
       messages and wire-decoded trees (C14_no_panic_validate, C14_no_panic_dependency_walk), the
       URL and resource-name parsers are total functions of the model (C15, C16);
     - a hang: the three goroutine protocols — ByteStream.Write (C14_write_protocol_total, the
       functional model of C16: every message sequence, every Put behaviour, either select branch
       gives Ok or Err, never Hang), SpliceBlob (C14_splice_no_hang) and GetLegacyZstdReadCloser
       (C14_legacy_zstd_no_hang) as small-step systems with a synchronous pipe and a 1-buffered
       channel, for every amount of data — and the disk layer, where every unanswered request has
       an enabled step in every reachable state of every interleaving (C14_progress);
     - something left behind: reserved bytes are exactly what requests in flight hold, and once
       every request has been answered — however it ended — nothing is reserved and every file in
       the directory belongs to an indexed entry (C14_clean_exit); the protocol theorems end with
       the goroutine gone, the pipe closed and the chunk file / blob file closed.

   OBSERVED by the harness (harness/cmd/abuse), not proved: memory use; goroutines and descriptors
   inside libraries (grpc-go, net/http, klauspost/zstd); real time-outs; that the Go code takes
   exactly the steps of the models (recover() around every call, a deadline per call, goroutine
   stacks / /proc/self/fd / Stats() / directory listing after every batch).  The model has no
   notion of how LONG a terminating handler runs: GetTree's recursion over stored Directories is
   outside the proved part and is where the harness found unbounded work (fixed in /repo,
   1e7ba8a: ancestor set + context check; kept as regression probes). *)
From BR Require Import Base.Prelude Gen.Consts Gen.Panics Model.PanicSites Bridge.Bridge_Panics
  Model.Casblob Proofs.Casblob_header Proofs.Casblob_nopanic
  Model.ActionResult Proofs.ActionResult_validate Proofs.ActionResult_store
  Model.ByteStream Proofs.ByteStream_write
  Model.LRU Model.Disk Proofs.Disk_inv1 Proofs.Disk_inv2 Proofs.Disk_inv Proofs.Disk_conc2
  Gen.DiskSrc Bridge.Bridge_Disk
  Model.Protocols Proofs.Protocols_base Proofs.Protocols_splice Proofs.Protocols_legacy Proofs.Protocols_pin.
Open Scope string_scope.
Open Scope list_scope.
Open Scope Z_scope.

(* ------------------------------------------------------------------ *)
(* no panic *)

(* the regenerated inventory of potential panic sites is the reviewed ledger, and no entry of the
   ledger lacks its reason *)
Theorem C14_sites_reviewed :
  Gen.Panics.panic_sites = Model.PanicSites.sites /\
  forallb (fun x => negb (String.eqb (snd x) "")) Model.PanicSites.ledger = true.
Proof. exact (conj panic_sites_reviewed every_site_has_a_reason). Qed.
Print Assumptions C14_sites_reviewed.

(* readHeader on ANY file content: wrap-around product, allocation size, division, table index *)
Theorem C14_no_panic_headers : forall bytes : list Z, is_panic (parse_header bytes) = false.
Proof. exact parse_header_never_panics. Qed.
Print Assumptions C14_no_panic_headers.

(* both readers on any file whose header was accepted, any codec, any offset within the blob *)
Theorem C14_no_panic_readers :
  forall (enc enc_stream : list Z -> list Z) (dec_all dec_stream : list Z -> option (list Z))
         (file : list Z) (h : header) (e off : Z),
    parse_header file = Ok h -> zlen file <= maxAlloc -> 0 <= off <= h_usize h ->
    is_panic (uncompressed_reader dec_all dec_stream file e off) = false /\
    is_panic (zstd_reader enc enc_stream dec_all file e off) = false.
Proof.
  intros enc enc_stream dec_all dec_stream file h e off Hp Ha Ho.
  exact (conj (uncompressed_reader_never_panics enc enc_stream dec_all dec_stream file h e off Hp Ha Ho)
              (zstd_reader_never_panics enc enc_stream dec_all dec_stream file h e off Hp Ha Ho)).
Qed.
Print Assumptions C14_no_panic_readers.

(* validate.ActionResult on every message: nil message, nil elements, nil digests *)
Theorem C14_no_panic_validate :
  forall o : option action_result,
    (validate o = Ok tt \/ validate o = Err EBadRequest) /\ is_panic (validate o) = false /\ is_hang (validate o) = false.
Proof. intros o. exact (conj (validate_cases o) (validate_never_panics o)). Qed.
Print Assumptions C14_no_panic_validate.

(* GetValidatedActionResult's walk over a validated message and wire-decoded trees meets no nil *)
Theorem C14_no_panic_dependency_walk :
  forall ar, validate (Some ar) = Ok tt ->
    pending_files_r (ar_files ar) = Ok (files_without_contents (ar_files ar)) /\
    (forall t, TreeDecoded t -> tree_digests_r t = Ok (tree_file_digests t)).
Proof. intros ar V. exact (conj (pending_files_valid ar V) tree_digests_r_ok). Qed.
Print Assumptions C14_no_panic_dependency_walk.

(* ------------------------------------------------------------------ *)
(* no hang *)

(* ByteStream.Write: every message sequence, every Put behaviour, either select branch *)
Theorem C14_write_protocol_total :
  forall sel beh perr maxsz present put_ok msgs,
    let o := write_handler sel beh perr maxsz present put_ok msgs in
    (exists cs, w_status o = Ok cs) \/ (exists e, w_status o = Err e).
Proof. exact handler_total. Qed.
Print Assumptions C14_write_protocol_total.

(* The premise of the SpliceBlob protocol, tied to the source: SpliceBlob never closes the read end
   of its pipe; the feeder goroutine terminates because diskCache.Put consumes the read end on
   every return path.  [put_drains] decides that on the text of Put that go2coq regenerates (opens
   with the deferred drain of r; r is given up only after writeAndCloseFile has read it to EOF);
   the same text is pinned verbatim by Bridge_Disk.src_diskCache_Put_pinned. *)
Theorem C14_put_consumes_its_reader :
  put_drains Gen.DiskSrc.src_diskCache_Put = true.
Proof. exact put_drains_pinned. Qed.
Print Assumptions C14_put_consumes_its_reader.

(* SpliceBlob, for every budget n of data (chunks and pieces of chunks), with the drain parameter
   of the model computed from the source of Put: from every reachable state in which the handler
   has returned, every run of what is left (the writer goroutine) is finite and ends with the
   goroutine exited, pw closed, no chunk file open.  The reachable control states were enumerated
   (84 abstract states, Protocols_splice.splice_states_count) and checked. *)
Theorem C14_splice_no_hang :
  forall n s, reach (splice_cstep (put_drains Gen.DiskSrc.src_diskCache_Put)) (splice_init, n) s -> s_h (fst s) = HRet ->
    all_runs_end_in (splice_cstep (put_drains Gen.DiskSrc.src_diskCache_Put))
      (fun s' => s_h (fst s') = HRet /\ s_w (fst s') = WExit /\ s_wclosed (fst s') = true /\ s_rcopen (fst s') = false) s.
Proof. exact splice_no_hang_code. Qed.
Print Assumptions C14_splice_no_hang.

(* ... and from the call of cache.Put on, every run of handler and goroutine together is finite
   and ends with both finished: the handler itself cannot block either *)
Theorem C14_splice_total :
  forall n s, reach (splice_cstep (put_drains Gen.DiskSrc.src_diskCache_Put)) (splice_init, n) s ->
    all_runs_end_in (splice_cstep (put_drains Gen.DiskSrc.src_diskCache_Put)) (fun s' => splice_final (fst s') = true) s.
Proof. exact splice_total_code. Qed.
Print Assumptions C14_splice_total.

(* when Put failed, the writer's result is in the channel by the time the handler polls it *)
Theorem C14_splice_result_ready :
  forall n s, reach (splice_cstep true) (splice_init, n) s -> s_h (fst s) = HPutErr ->
    s_ch (fst s) <> ChEmpty /\ s_wclosed (fst s) = true.
Proof. exact splice_result_ready. Qed.
Print Assumptions C14_splice_result_ready.

(* the deferred drain of disk.Put is what this rests on: without it the statement is false *)
Theorem C14_splice_without_drain_refuted :
  exists n s, reach (splice_cstep false) (splice_init, n) s /\
    s_h (fst s) = HRet /\ stuck (splice_cstep false) s /\ s_w (fst s) = WOffer /\ s_rcopen (fst s) = true.
Proof. exact splice_without_drain_refuted. Qed.
Print Assumptions C14_splice_without_drain_refuted.

(* GetLegacyZstdReadCloser, for every amount of data: from every reachable state in which the
   owner has closed the reader — before the first read, in the middle, after EOF or an error —
   every run of what is left (the goroutine) is finite and ends with the goroutine exited, the
   file closed, pw closed (58 abstract states) *)
Theorem C14_legacy_zstd_no_hang :
  forall n s, reach (legacy_cstep true) (legacy_init, n) s -> l_c (fst s) = CClosed ->
    all_runs_end_in (legacy_cstep true)
      (fun s' => l_g (fst s') = GExit /\ l_c (fst s') = CClosed /\ l_wclosed (fst s') = true /\ l_fopen (fst s') = false) s.
Proof. exact legacy_no_hang. Qed.
Print Assumptions C14_legacy_zstd_no_hang.

(* an owner that returns without Close leaves goroutine and file behind: every caller of
   cache.GetZstd has to close on every path (they do: deferred Close; observed by the harness) *)
Theorem C14_legacy_zstd_abandoned_refuted :
  exists n s, reach (legacy_cstep false) (legacy_init, n) s /\
    l_c (fst s) = CGone /\ stuck (legacy_cstep false) s /\ l_g (fst s) = GOffer /\ l_fopen (fst s) = true.
Proof. exact legacy_abandoned_refuted. Qed.
Print Assumptions C14_legacy_zstd_abandoned_refuted.

(* the disk layer: in every reachable state of every interleaving an unanswered request can step *)
Theorem C14_progress :
  forall (c : cfg) (max_size hard_limit : Z) (ls : list label) (t : thread),
    In t (thr (srun c (sinit max_size hard_limit) ls)) ->
    (forall r, t_pc t <> Done r) -> ~ name_taken c (sd (srun c (sinit max_size hard_limit) ls)) t ->
    tstep c (sd (srun c (sinit max_size hard_limit) ls)) t <> None.
Proof. exact progress. Qed.
Print Assumptions C14_progress.

(* ------------------------------------------------------------------ *)
(* nothing left behind *)

(* in every reachable state the reserved bytes are exactly what the requests in flight hold; once
   every request has been answered (success, rejection, aborted stream, invalid data, backend miss:
   every early return is a step of the model) nothing is reserved, and when the remover's queue
   has drained every file in the directory is the file of an indexed entry: no temp file *)
Theorem C14_clean_exit :
  forall (c : cfg) (max_size hard_limit : Z) (ls : list label),
    0 < max_size -> Forall label_ok ls ->
    let s := srun c (sinit max_size hard_limit) ls in
    res (lru (sd s)) = sumZ t_held (thr s) /\
    (all_done (thr s) -> res (lru (sd s)) = 0) /\
    (all_done (thr s) -> evq (lru (sd s)) = [] ->
     forall f, In f (files (sd s)) -> exists e, In e (order (lru (sd s))) /\ f_path f = entry_path (ent e)).
Proof.
  intros c mx hd ls Hm Hok s. split; [|split].
  - exact (proj1 (proj2 (proj2 (disk_accounting c mx hd ls Hm Hok)))).
  - exact (disk_quiescent_res c mx hd ls Hm Hok).
  - intros Hd Hq. exact (proj2 (proj2 (proj2 (disk_quiescent_dir c mx hd ls Hm Hok Hd Hq)))).
Qed.
Print Assumptions C14_clean_exit.

(* ------------------------------------------------------------------ *)
(* Examples: the hypotheses are satisfiable *)

(* a SpliceBlob run in which Put refuses the blob before reading while the writer is blocked in its
   first pipe write: the drain takes the data, the writer finishes, the handler returns *)
Example C14_splice_example :
  reach (splice_cstep true) (splice_init, 2%nat) (mkS HRet WExit ChEmpty true false, 0%nat) /\
  s_h (fst (mkS HRet WExit ChEmpty true false, 0%nat)) = HRet.
Proof.
  split; [|reflexivity].
  pose (path := [ (mkS HStart WCopy ChEmpty false true, 1%nat)
                ; (mkS HStart WOffer ChEmpty false true, 0%nat)
                ; (mkS HDrain WOffer ChEmpty false true, 0%nat)
                ; (mkS HDrain WCopy ChEmpty false true, 0%nat)
                ; (mkS HDrain WCheck ChEmpty false true, 0%nat)
                ; (mkS HDrain WLoop ChEmpty false false, 0%nat)
                ; (mkS HDrain WSendNil ChEmpty false false, 0%nat)
                ; (mkS HDrain WClose ChNil false false, 0%nat)
                ; (mkS HDrain WExit ChNil true false, 0%nat)
                ; (mkS HPutErr WExit ChNil true false, 0%nat)
                ; (mkS HRet WExit ChEmpty true false, 0%nat) ]).
  change (mkS HRet WExit ChEmpty true false, 0%nat) with (last path (splice_init, 2%nat)).
  apply (path_ok_sound (splice_cstep true) sctl_eqb sctl_eqb_sound). vm_compute. reflexivity.
Qed.

(* the owner closes the reader while the goroutine is blocked in its first pipe write *)
Example C14_legacy_example :
  reach (legacy_cstep true) (legacy_init, 3%nat) (mkL GExit CClosed true true false, 2%nat).
Proof. exact legacy_early_close_run. Qed.

(* a header that readHeader refuses without panicking: numOffsets = 2^61+2 (defect F10) *)
Example C14_header_example :
  is_panic (parse_header (repeat 0 64)) = false.
Proof. apply parse_header_never_panics. Qed.
