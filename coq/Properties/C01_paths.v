(* Properties/C01_paths.v — C01 on the ten CAS write paths (front-end adapters, Model/Front.v):
   "an upload is acknowledged as successful only if its logical (decompressed) bytes have exactly the
   declared length and SHA-256 ... every other upload is answered with an error (never OK)".
   Only statements, each closed by an already proved lemma, with Print Assumptions beneath.

   Reading guide.  [body_good b n]: the payload's logical bytes (after zstd decoding, an oracle) are
   exactly n, end cleanly (no cut stream, no undecodable or trailing bytes) and hash to the declared
   SHA-256.  Every soundness theorem says: status OK => the disk layer's Put was reached with the
   DECLARED digest and the decoded payload and accepted it (Proofs/Disk_ack.exec_put_ok_sound), hence
   [body_good]; the remaining ways to an OK are named in the statement: the blob was already reported
   present (ByteStream.Write, SpliceBlob, FetchBlob answer OK without reading the data; ByteStream.Write
   does NOT take that shortcut for the empty digest, [bs_shortcut]), or the empty digest was claimed and
   no data came ([empty_claim]). *)
From BR Require Import Base.Prelude Model.LRU Model.Disk Model.Front
  Proofs.Front_base Proofs.Front_ack Proofs.Front_reject Proofs.Front_limit Proofs.Front_examples.
Open Scope Z_scope.

(* ---- 1/2: HTTP PUT, plain and Content-Encoding: zstd ---- *)
Theorem C01_paths_http_put_ack_sound :
  forall c d url_ok hash content_length xdigest encoding payload rnd d',
    http_put c d url_ok hash content_length xdigest encoding payload rnd = (d', SOk) ->
    exists declared, http_declared content_length xdigest = Some declared /\
      0 <= declared <= fc_http_max c /\ encoding <> CeOther /\
      (body_good payload declared \/ empty_claim hash declared (b_len payload)).
Proof. exact http_put_sound. Qed.
Print Assumptions C01_paths_http_put_ack_sound.

(* ---- 3/4: BatchUpdateBlobs, IDENTITY and ZSTD ---- *)
Theorem C01_paths_batch_update_ack_sound :
  (forall c d e d', bu_one c d e = (d', SOk) -> bu_good e) /\
  (forall c es d d' statuses,
     batch_update c d es [] = (d', SOk, statuses) ->
     Forall2 (fun e s => s = SOk -> bu_good e) es statuses).
Proof.
  split; [exact bu_one_sound|].
  intros c es d d' l H. destruct (batch_update_sound c es d [] d' l H) as [l' [-> HF]]. exact HF.
Qed.
Print Assumptions C01_paths_batch_update_ack_sound.

(* ---- 5/6: ByteStream.Write to blobs/ and compressed-blobs/zstd/ ---- *)
Theorem C01_paths_bytestream_write_ack_sound :
  forall c d name msgs aborted payload rnd d',
    bs_write c d name msgs aborted payload rnd = (d', SOk) ->
    exists zstd hash size, name = WN zstd hash size /\ 0 <= size <= fc_grpc_max c /\ validate_hash hash size = true /\
      (bs_shortcut (snd (fst (disk_contains c d CAS hash size))) hash size = true
       \/ exists received, recv_loop zstd size 0 true msgs aborted = (received, None) /\
            if zstd then body_good payload size \/ empty_claim hash size (b_len payload)
            else (received = size /\ b_hash_ok payload = true) \/ empty_claim hash size received).
Proof. exact bs_write_sound. Qed.
Print Assumptions C01_paths_bytestream_write_ack_sound.

(* ---- 7/8: SpliceBlob with and without a caller digest ---- *)
Theorem C01_paths_splice_ack_sound :
  forall c d digest_function chunks blob computed concat_hash_ok cid rnd d',
    splice c d digest_function chunks blob computed concat_hash_ok cid rnd = (d', SOk) ->
    exists h s, splice_digest chunks blob computed = Some (h, s) /\ check_chunks chunks 0 = Some s /\ 0 < s /\
      (fc_grpc_max c > 0 -> s <= fc_grpc_max c) /\
      ((exists dx, snd (fst (disk_contains c dx CAS h s)) = true)
       \/ (concat_hash_ok = true /\ exists dx dy, feed_chunks c dx chunks 0 = (dy, s, None))).
Proof. exact splice_sound. Qed.
Print Assumptions C01_paths_splice_ack_sound.

(* ---- 9: blobs inlined in an uploaded ActionResult ---- *)
Theorem C01_paths_inlined_ack_sound :
  forall c d action_hash action_size valid files stdout stderr arlen rnd d',
    update_ar c d action_hash action_size valid files stdout stderr arlen rnd = (d', SOk) ->
    validate_hash action_hash action_size = true /\ valid = true /\
    Forall inl_good (files ++ [stdout; stderr]).
Proof. exact update_ar_sound. Qed.
Print Assumptions C01_paths_inlined_ack_sound.

(* a refused inlined blob fails the call BEFORE the ActionResult is stored *)
Theorem C01_paths_inlined_reject_leaves_no_action_result :
  forall c d action_hash action_size files stdout stderr arlen rnd d1 e,
    validate_hash action_hash action_size = true -> arlen <> 0 ->
    put_inlined c d (files ++ [stdout; stderr]) = (d1, Some e) ->
    update_ar c d action_hash action_size true files stdout stderr arlen rnd = (d1, SErr (grpc_code e EInternal)).
Proof. exact update_ar_refused_no_ac. Qed.
Print Assumptions C01_paths_inlined_reject_leaves_no_action_result.

(* ---- 10: Remote Asset FetchBlob ---- *)
Theorem C01_paths_fetch_blob_ack_sound :
  forall c d sri uris d' h s,
    fetch_blob c d sri uris = (d', SOk, Some (h, s)) ->
    (sri = Some h /\ snd (fst (disk_contains c d CAS h (-1))) = true /\ snd (disk_contains c d CAS h (-1)) = s)
    \/ exists u, In u uris /\ fetched_from u sri h s.
Proof. exact fetch_blob_sound. Qed.
Print Assumptions C01_paths_fetch_blob_ack_sound.

(* ---- malformed uploads are rejected ---- *)

(* (a) by the disk layer's verification: a payload that is too long, too short, not clean (garbage or
   truncated zstd, bytes or frames behind the payload, a stream cut part-way) or has the wrong hash is
   never answered OK, on any path *)
Theorem C01_paths_malformed_rejected :
  (forall c d u hash cl xd ce b rnd d' st len,
     http_put c d u hash cl xd ce b rnd = (d', st) -> http_declared cl xd = Some len ->
     corrupt b len -> ~ empty_claim hash len (b_len b) -> st <> SOk) /\
  (forall c d e d' st,
     bu_one c d e = (d', st) ->
     corrupt (bu_body e) (bu_size e) -> ~ empty_claim (bu_hash e) (bu_size e) (b_len (bu_body e)) -> st <> SOk) /\
  (forall c d hash size msgs ab b rnd d' st,
     bs_write c d (WN true hash size) msgs ab b rnd = (d', st) ->
     bs_shortcut (snd (fst (disk_contains c d CAS hash size))) hash size = false ->
     corrupt b size -> ~ empty_claim hash size (b_len b) -> st <> SOk) /\
  (forall c d hash size msgs ab b rnd d' st,
     bs_write c d (WN false hash size) msgs ab b rnd = (d', st) ->
     bs_shortcut (snd (fst (disk_contains c d CAS hash size))) hash size = false ->
     b_hash_ok b = false -> hash <> emptySha256 -> st <> SOk) /\
  (forall c d dfn cs blob computed cid rnd d' st,
     splice c d dfn cs blob computed false cid rnd = (d', st) ->
     (forall dx h s, splice_digest cs blob computed = Some (h, s) -> snd (fst (disk_contains c dx CAS h s)) = false) ->
     st <> SOk) /\
  (forall c d ahash asize valid files so se arlen rnd d' st i h s,
     update_ar c d ahash asize valid files so se arlen rnd = (d', st) ->
     In i (files ++ [so; se]) -> in_present i = true -> in_digest i = Some (h, s) ->
     corrupt (in_body i) s -> ~ empty_claim h s (b_len (in_body i)) -> st <> SOk) /\
  (forall c d u h d' r,
     fetch_item c d u (Some h) = (d', r) -> 0 <= up_cl u ->
     corrupt (up_body u) (up_cl u) -> ~ empty_claim h (up_cl u) (b_len (up_body u)) -> forall dg, r <> Ok dg).
Proof.
  repeat split.
  - exact http_put_corrupt_rejected.
  - exact bu_one_corrupt_rejected.
  - exact bs_write_corrupt_rejected.
  - exact bs_write_identity_wrong_hash_rejected.
  - exact splice_wrong_content_rejected.
  - exact update_ar_corrupt_rejected.
  - exact fetch_item_corrupt_rejected.
Qed.
Print Assumptions C01_paths_malformed_rejected.

(* (b) by the front end itself, with the exact status and the state untouched: unsupported
   Content-Encoding, unparseable X-Digest-SizeBytes, no length at all (400); undecodable zstd in a
   batch (Internal), unsupported compressor in a batch (InvalidArgument), decoded length different from the digest size (InvalidArgument), invalid digest
   (the whole call: InvalidArgument); unparsable resource name / unsupported compressor in it
   (InvalidArgument); unsupported digest function, bad chunk list incl. int64 overflow of the sum, sum
   different from the blob size (InvalidArgument) *)
Theorem C01_paths_front_end_refusals :
  (forall c d u hash cl xd b rnd, http_put c d u hash cl xd CeOther b rnd = (d, bad)) /\
  (forall c d u hash cl ce b rnd, http_put c d u hash cl XBad ce b rnd = (d, bad)) /\
  (forall c d u hash ce b rnd, http_put c d u hash (-1) XAbsent ce b rnd = (d, bad)) /\
  (forall c d e, bu_comp e = CZstd -> b_clean (bu_body e) = false -> bu_one c d e = (d, SErr EInternal)) /\
  (forall c d e n, bu_comp e = COther n -> bu_one c d e = (d, bad)) /\
  (forall c d e, b_clean (bu_body e) = true ->
                 b_len (bu_body e) <> bu_size e -> bu_one c d e = (d, bad)) /\
  (forall c d e t acc, bu_nil e = false -> validate_hash (bu_hash e) (bu_size e) = false ->
                       batch_update c d (e :: t) acc = (d, bad, [])) /\
  (forall c d m0 rest ab b rnd, bs_write c d WNBad (m0 :: rest) ab b rnd = (d, bad) /\
                                bs_write c d WNEmpty (m0 :: rest) ab b rnd = (d, bad)) /\
  (forall c d dfn cs blob computed ok cid rnd, dfn <> 0 -> dfn <> 1 ->
                 splice c d dfn cs blob computed ok cid rnd = (d, bad)) /\
  (forall c d dfn cs blob computed ok cid rnd, check_chunks cs 0 = None ->
                 splice c d dfn cs blob computed ok cid rnd = (d, bad)) /\
  (forall c d dfn cs h s computed ok cid rnd total, check_chunks cs 0 = Some total -> total <> s ->
                 splice c d dfn cs (Some (h, s)) computed ok cid rnd = (d, bad)).
Proof.
  split; [exact http_put_unsupported_encoding|]. split; [exact http_put_bad_xdigest|].
  split; [exact http_put_no_length|]. split; [exact bu_one_undecodable|].
  split; [exact bu_one_unsupported|]. split; [exact bu_one_wrong_length|].
  split; [exact batch_update_bad_digest|]. split; [exact bs_write_bad_name|].
  split; [exact splice_bad_digest_function|]. split; [exact splice_bad_chunks|exact splice_wrong_total].
Qed.
Print Assumptions C01_paths_front_end_refusals.

(* (c) the ByteStream.Write protocol violations, for a blob not yet present (0 <= size <= limit, valid
   hash): non-zero first offset -> Unknown; whatever the receive loop objects to is the answer:
   more bytes than declared -> OutOfRange, finish_write with fewer -> Unknown, resource name changed
   in a later message -> InvalidArgument; a stream the client aborts never completes *)
Theorem C01_paths_bytestream_protocol_errors :
  (forall c d z hash size b rnd, 0 <= size <= fc_grpc_max c -> validate_hash hash size = true ->
     bs_shortcut (snd (fst (disk_contains c d CAS hash size))) hash size = false ->
     (forall m0 rest ab, wm_off m0 <> 0 ->
        snd (bs_write c d (WN z hash size) (m0 :: rest) ab b rnd) = SErr EInternal) /\
     (forall m0 rest ab received x, wm_off m0 = 0 ->
        recv_loop z size 0 true (m0 :: rest) ab = (received, Some x) ->
        snd (bs_write c d (WN z hash size) (m0 :: rest) ab b rnd) = SErr x)) /\
  (forall size m0 rest ab, wm_len m0 > size ->
     recv_loop false size 0 true (m0 :: rest) ab = (wm_len m0, Some EOutOfRange)) /\
  (forall size m0 rest ab, wm_len m0 < size -> wm_fin m0 = true ->
     recv_loop false size 0 true (m0 :: rest) ab = (wm_len m0, Some EInternal)) /\
  (forall z size m0 m1 rest ab, wm_fin m0 = false -> (z = true \/ wm_len m0 <= size) -> wm_same m1 = false ->
     recv_loop z size 0 true (m0 :: m1 :: rest) ab = (wm_len m0, Some EBadRequest)) /\
  (forall z size msgs committed first, Forall (fun m => wm_fin m = false) msgs ->
     snd (recv_loop z size committed first msgs true) <> None).
Proof.
  split; [|split; [exact recv_too_many|split; [exact recv_too_few_finished|split; [exact recv_renamed|exact recv_aborted]]]].
  intros c d z hash size b rnd HS HV HA. split.
  - intros m0 rest ab. apply bs_write_nonzero_offset; assumption.
  - intros m0 rest ab received x. apply bs_write_recv_error; assumption.
Qed.
Print Assumptions C01_paths_bytestream_protocol_errors.

(* ---- well-formed uploads within the limits reach the disk layer unchanged ---- *)
(* the front end adds no refusal of its own: the answer is the disk layer's Put of (CAS, declared hash,
   declared size, decoded payload), whose acceptance condition is C01_ack_complete in Properties/C01.v *)
Theorem C01_paths_wellformed_reach_disk_layer :
  (forall c d hash cl xd ce b rnd len,
     http_declared cl xd = Some len -> 0 < len <= fc_http_max c -> ce <> CeOther ->
     http_put c d true hash cl xd ce b rnd =
     (let '(d', r) := disk_put c d CAS hash len (stream_of b) rnd in (d', match r with None => SOk | Some e => SErr e end))) /\
  (forall c d e,
     (forall n, bu_comp e <> COther n) -> b_clean (bu_body e) = true -> b_len (bu_body e) = bu_size e ->
     bu_one c d e =
     (let '(d', r) := disk_put c d CAS (bu_hash e) (bu_size e) (stream_of (bu_body e)) (bu_rnd e) in (d', put_status EInternal r))) /\
  (forall c d z hash size m0 rest ab b rnd,
     0 <= size <= fc_grpc_max c -> validate_hash hash size = true ->
     bs_shortcut (snd (fst (disk_contains c d CAS hash size))) hash size = false -> wm_off m0 = 0 ->
     bs_write c d (WN z hash size) (m0 :: rest) ab b rnd =
     (let d1 := fst (fst (disk_contains c d CAS hash size)) in
      let '(piped, e) := recv_loop z size 0 true (m0 :: rest) ab in
      let '(d2, r) := disk_put c d1 CAS hash size (bs_stream z b piped (match e with Some _ => true | None => false end)) rnd in
      match e with Some x => (d2, SErr x) | None => (d2, put_status EInternal r) end)).
Proof. split; [exact http_put_within_limit|]. split; [exact bu_one_wellformed|exact bs_write_within_limit]. Qed.
Print Assumptions C01_paths_wellformed_reach_disk_layer.

(* ---- non-vacuity ---- *)

(* well-formed uploads of exactly the limit are accepted through all ten paths, in both storage
   modes, and every digest is reported present afterwards *)
Example C01_paths_example_accepted :
  run_ops cfgZ store0 at_limit = at_limit_expected /\ run_ops cfgU store0 at_limit = at_limit_expected.
Proof. exact at_limit_accepted. Qed.

(* one corrupted upload per class, each answered with an error; no claimed digest becomes present *)
Example C01_paths_example_rejected :
  run_ops (wired true 100000) store0 corrupted = corrupted_expected /\
  run_ops (wired false 100000) store0 corrupted = corrupted_expected.
Proof. exact corrupted_rejected. Qed.

(* regression cases of two repaired defects (unsupported compressor in a batch; data under the empty
   digest through ByteStream.Write and HTTP PUT), and the genuinely empty uploads that stay accepted *)
Example C01_paths_example_repaired :
  run_ops cfgZ store0 repaired = repaired_expected /\ run_ops cfgU store0 repaired = repaired_expected.
Proof. exact repaired_defects_stay_repaired. Qed.

Example C01_paths_example_overflow :
  check_chunks [mkChunk false emptySha256 1] 0 = None /\
  let h := "aaaaaaaaaaaaaaaaaaaaaaaaaaaaaaaaaaaaaaaaaaaaaaaaaaaaaaaaaaaaaaaa"%string in
  check_chunks [mkChunk false h 4611686018427387909; mkChunk false h 4611686018427387904] 0 = None /\
  check_chunks [mkChunk false h 5; mkChunk false h 7] 0 = Some 12.
Proof. exact splice_overflow_refused. Qed.
