(* Properties/C08.v — "Kill at any point and restart: acknowledged data kept, no torn entry served".
   A crash keeps the files as written so far and forgets everything else; [recover] rebuilds the
   index as loadExistingFiles does (Model/DiskCrash.v).  The theorems quantify over ARBITRARY crash
   images (any set of files, complete or torn, in any access-time order), which covers every crash
   point of every run. *)
From BR Require Import Base.Prelude Model.LRU Model.Disk Model.DiskCrash
  Proofs.LRU_inv Proofs.Disk_ack Proofs.Disk_crash.
Open Scope string_scope.
Open Scope Z_scope.

(* The server starts (recover is total) and afterwards the accounting invariant of C03 holds,
   nothing is reserved, the removal queue is empty. *)
Theorem C08_restart_restores_accounting :
  forall (max_size hard_limit : Z) (image : list file),
    0 < max_size -> Forall file_sane image ->
    let d := recover max_size hard_limit image in
    Inv (lru d) /\ res (lru d) = 0 /\ evq (lru d) = [] /\ maxs (lru d) = max_size /\ cur (lru d) <= max_size.
Proof. exact recover_inv. Qed.
Print Assumptions C08_restart_restores_accounting.

(* Restart never creates or rewrites a file: whatever is on disk afterwards is one of the image's
   files, byte for byte (so an entry that survives is served with identical content). *)
Theorem C08_restart_keeps_contents :
  forall (max_size hard_limit : Z) (image : list file),
    incl (files (recover max_size hard_limit image)) image.
Proof. exact recover_files. Qed.
Print Assumptions C08_restart_keeps_contents.

(* No torn COMPRESSED CAS entry is ever served: whenever a reader (in any state, under any
   interleaving) turns an opened compressed CAS file into a hit, that file is complete - its chunk
   table is final and its header states the requested size.  (Byte level: a file whose writer was
   interrupted fails header validation, Properties/C02 / Proofs/Casblob_*.) *)
Theorem C08_no_torn_compressed_cas_served :
  forall c d k hash sz off zstd b rnd v id f held tmp d' t' s cid flen,
    tstep c d (mkThread (RGet k hash sz off zstd b rnd) (GetValidate v id f) held tmp) = Some (d', t') ->
    t_pc t' = Done (GetHit s cid flen) ->
    cid = f_cid f /\ flen = f_len f /\
    (k = CAS -> legacy v = false -> f_complete f = true /\ (sz = -1 \/ f_logical f = sz)).
Proof. exact validate_hit_complete. Qed.
Print Assumptions C08_no_torn_compressed_cas_served.

(* The full statement "no read ever returns a value that is not a completed upload" is FALSE for
   entries stored without a header (uncompressed CAS .v1 files, AC and RAW files): the loader takes
   their size from the file length, so a file torn by the crash is indexed with its torn length and
   served to a reader that does not know the size.  Witness (known finding F16): *)
Definition C08_no_torn_value_served_after_restart : Prop :=
  forall c mx hd image r d' s cid flen,
    exec c (recover mx hd image) r = (d', Some (GetHit s cid flen)) ->
    s <> 0 -> exists f, In f image /\ f_cid f = cid /\ f_complete f = true.

Theorem C08_no_torn_value_served_after_restart_refuted : ~ C08_no_torn_value_served_after_restart.
Proof.
  intros H.
  set (h := "aaaaaaaaaaaaaaaaaaaaaaaaaaaaaaaaaaaaaaaaaaaaaaaaaaaaaaaaaaaaaaaa").
  set (torn := mkFile (mkPath ("ac/" ++ h) 0 "123456789" false) 7 100 false 4096).
  destruct (H (mkCfg true 1000000 1000000 false) 40960 0 [torn]
              (RGet AC h (-1) 0 false BMiss "") _ 100 7 100 eq_refl) as (f & Hin & Hc & Hcomp).
  - lia.
  - destruct Hin as [<-|[]]. discriminate Hcomp.
Qed.
Print Assumptions C08_no_torn_value_served_after_restart_refuted.

(* Non-vacuity: a crash image with a complete compressed CAS file, a torn one of another key, and a
   file too large for the new max_size; after the restart the accounting is exact, the oversize
   file is gone, the complete blob is served and the torn one is a miss. *)
Example C08_example :
  let h1 := "1111111111111111111111111111111111111111111111111111111111111111" in
  let h2 := "2222222222222222222222222222222222222222222222222222222222222222" in
  let h3 := "3333333333333333333333333333333333333333333333333333333333333333" in
  let image := [ mkFile (mkPath ("cas/" ++ h1) 5000 "11" false) 1 2100 true 5000;
                 mkFile (mkPath ("cas/" ++ h2) 9000 "22" false) 2 45 false 9000;
                 mkFile (mkPath ("cas/" ++ h3) 60000 "33" false) 3 60045 true 60000 ] in
  let c := mkCfg true 1000000 1000000 false in
  let d := recover 20480 0 image in
  Forall file_sane image /\
  stats (lru d) = (8192, 0, 2, 20480) /\
  List.length (files d) = 2%nat /\
  snd (exec c d (RGet CAS h1 5000 0 false BMiss "")) = Some (GetHit 5000 1 2100) /\
  snd (exec c d (RGet CAS h2 9000 0 false BMiss "")) = Some GetMiss.
Proof.
  cbv zeta. split; [repeat constructor; simpl; lia|]. vm_compute. repeat split; reflexivity.
Qed.

(* ---------------------------------------------------------------------- *)
(* The directory after a restart (C04 across a restart).  For an image whose file names are distinct
   and well formed (compressed CAS names carry a positive logical size, other names none): after
   [recover] the set of file names is exactly the set of names of the indexed entries, and every
   indexed entry's file is one of the image's files with the recorded length. *)
From BR Require Proofs.Disk_inv1.

Theorem C08_recover_dir :
  forall (max_size hard_limit : Z) (image : list file),
    0 < max_size -> NoDup (map f_path image) -> Forall file_sane image -> Forall path_wf image ->
    let d := recover max_size hard_limit image in
    Permutation.Permutation (map f_path (files d)) (map Disk_inv1.entry_path (map ent (order (lru d)))) /\
    NoDup (map f_path (files d)) /\
    (forall e, In e (order (lru d)) ->
       exists f, In f image /\ find_file (Disk_inv1.entry_path (ent e)) (files d) = Some f
                 /\ f_len f = sizeOnDisk (evalue (ent e))).
Proof. exact recover_dir. Qed.
Print Assumptions C08_recover_dir.

(* Acknowledged data is kept when it fits: if the keys of the image's files are pairwise distinct and
   the block-rounded file sizes sum to at most max_size, the restart evicts nothing: every file
   survives and is indexed under its key with the item the loader derives from it. *)
Theorem C08_acked_kept_when_fits :
  forall (max_size hard_limit : Z) (image : list file),
    0 < max_size -> NoDup (map fkey image) -> Forall file_sane image ->
    sumZ fblocks image <= max_size ->
    let d := recover max_size hard_limit image in
    files d = image /\ map ent (order (lru d)) = map file_entry image /\
    (forall f, In f image -> peek (fkey f) (lru d) = Some (item_of_file f)).
Proof. exact recover_keeps_when_fits. Qed.
Print Assumptions C08_acked_kept_when_fits.

Example C08_example_fits :
  let h1 := "1111111111111111111111111111111111111111111111111111111111111111" in
  let h2 := "2222222222222222222222222222222222222222222222222222222222222222" in
  let image := [ mkFile (mkPath ("cas/" ++ h1) 5000 "11" false) 1 2100 true 5000;
                 mkFile (mkPath ("ac/" ++ h2) 0 "22" false) 2 300 true 300 ] in
  NoDup (map f_path image) /\ NoDup (map fkey image) /\ Forall file_sane image /\ Forall path_wf image /\
  sumZ fblocks image <= 20480 /\
  map f_path (files (recover 20480 0 image)) = map f_path image.
Proof.
  cbv zeta. split; [|split; [|split; [|split; [|split]]]].
  - repeat constructor; simpl; intuition discriminate.
  - repeat constructor; simpl; intuition discriminate.
  - repeat constructor; simpl; lia.
  - repeat constructor.
  - vm_compute. discriminate.
  - vm_compute. reflexivity.
Qed.

(* Known finding F32: with DUPLICATE files for one key the premise [NoDup (map fkey image)] of
   C08_acked_kept_when_fits is necessary.  A kill during the re-upload of an already stored compressed
   CAS blob leaves a torn second file; if it is the more recently accessed one it wins the index, the
   complete file is deleted, and the acknowledged blob is a miss after the restart. *)
Example C08_acked_lost_by_interrupted_reupload :
  let h1 := "1111111111111111111111111111111111111111111111111111111111111111" in
  let image := [ mkFile (mkPath ("cas/" ++ h1) 5000 "11" false) 1 2100 true 5000;    (* acknowledged, complete *)
                 mkFile (mkPath ("cas/" ++ h1) 5000 "22" false) 1 45 false 5000 ] in  (* torn re-upload, newer *)
  let c := mkCfg true 1000000 1000000 false in
  let d := recover 40960 0 image in
  Forall file_sane image /\ List.length (files d) = 1%nat /\
  snd (exec c d (RGet CAS h1 5000 0 false BMiss "")) = Some GetMiss /\
  snd (exec c d (RGet CAS h1 (-1) 0 false BMiss "")) = Some GetMiss.
Proof.
  cbv zeta. split; [repeat constructor; simpl; lia|]. vm_compute. repeat split; reflexivity.
Qed.
