(* Properties/C04.v — "At quiescence the cache directory holds exactly the indexed entries", together
   with the disk-level part of C03 (reserved bytes are exactly what in-flight requests hold) and the
   invariant half of C07 (index accounting and directory invariant in every reachable state of the
   concurrent system).  Only statements, each closed by an already proved lemma, with Print
   Assumptions beneath.

   The transition system is Model/Disk.v: a state is the index, the directory and a list of request
   threads; a label spawns a request (with arbitrary oracle columns: stream length, hash verdict,
   on-disk size, backend behaviour), lets thread i make its next atomic step (one index critical
   section, or one file-system call), or lets the background remover handle one queued entry.  The
   theorems quantify over ALL label lists: any number of requests, any interleaving, every failure
   branch of Put / get / commit, the remover at any moment. *)
From Coq Require Import Permutation.
From BR Require Import Base.Prelude Model.LRU Proofs.LRU_inv Proofs.LRU_spec Model.Disk
  Proofs.Disk_inv1 Proofs.Disk_inv2 Proofs.Disk_inv.
Open Scope Z_scope.

(* The invariant is inductive: every label preserves it ... *)
Theorem C04_invariant_step :
  forall (c : cfg) (s : sys) (l : label), label_ok l -> SysInv c s -> SysInv c (sstep c s l).
Proof. exact sstep_inv. Qed.
Print Assumptions C04_invariant_step.

(* ... so it holds in every reachable state: accounting exact and bounded (si_inv), reserved bytes
   = sum of what live requests hold (si_res), the directory = files of indexed entries + files of
   entries queued for removal + temp files owned by live requests, without duplicates (si_dir,
   si_nodup), and every indexed or queued entry has a complete file of the recorded size (si_files). *)
Theorem C04_invariant_reachable :
  forall (c : cfg) (max_size hard_limit : Z) (ls : list label),
    0 < max_size -> Forall label_ok ls -> SysInv c (srun c (sinit max_size hard_limit) ls).
Proof. exact srun_inv. Qed.
Print Assumptions C04_invariant_reachable.

(* One step of one thread has one of five effects (index-only, commit, create a fresh temp file,
   rewrite the own temp file, unlink the own temp file) and establishes what the next program
   counter relies on. *)
Theorem C04_step_effect :
  forall (c : cfg) (d : dstate) (t : thread) (d' : dstate) (t' : thread),
    tstep c d t = Some (d', t') ->
    Inv (lru d) -> 0 <= t_held t <= res (lru d) -> thread_ok c (files d) t ->
    Effect d t d' t' /\ thread_ok c (files d') t'.
Proof. exact tstep_effect. Qed.
Print Assumptions C04_step_effect.

(* Quiescence: all requests answered and the remover's queue empty.  Then the set of file names is
   the set of names of the indexed entries (no duplicates), every indexed entry has a complete file
   of the recorded size, and no other file exists. *)
Theorem C04_quiescent :
  forall (c : cfg) (max_size hard_limit : Z) (ls : list label),
    0 < max_size -> Forall label_ok ls ->
    let s := srun c (sinit max_size hard_limit) ls in
    all_done (thr s) -> evq (lru (sd s)) = [] ->
    Permutation (map f_path (files (sd s))) (map entry_path (map ent (order (lru (sd s))))) /\
    NoDup (map f_path (files (sd s))) /\
    (forall e, In e (order (lru (sd s))) ->
       exists f, find_file (entry_path (ent e)) (files (sd s)) = Some f /\ f_complete f = true
                 /\ f_len f = sizeOnDisk (evalue (ent e))) /\
    (forall f, In f (files (sd s)) ->
       exists e, In e (order (lru (sd s))) /\ f_path f = entry_path (ent e)).
Proof. exact disk_quiescent_dir. Qed.
Print Assumptions C04_quiescent.

(* C03 for the whole disk layer: in every reachable state the accounted size is the reserved bytes
   plus the block-rounded sizes of the indexed entries, never exceeds max_size, and the reserved
   bytes are exactly the sum of what the in-flight requests hold. *)
Theorem C03_disk_accounting :
  forall (c : cfg) (max_size hard_limit : Z) (ls : list label),
    0 < max_size -> Forall label_ok ls ->
    let s := srun c (sinit max_size hard_limit) ls in
    let l := lru (sd s) in
    cur l = res l + entries_size l /\ cur l <= max_size /\ res l = sumZ t_held (thr s) /\ 0 <= res l /\
    Forall (fun t => 0 <= t_held t) (thr s).
Proof. exact disk_accounting. Qed.
Print Assumptions C03_disk_accounting.

(* ... and nothing stays reserved once every request has been answered. *)
Theorem C03_disk_quiescent :
  forall (c : cfg) (max_size hard_limit : Z) (ls : list label),
    0 < max_size -> Forall label_ok ls ->
    let s := srun c (sinit max_size hard_limit) ls in
    all_done (thr s) -> res (lru (sd s)) = 0.
Proof. exact disk_quiescent_res. Qed.
Print Assumptions C03_disk_quiescent.

(* The Unreserve calls of commit (Put and proxied get) and of the deferred clean-up are made with
   [t_held t] on the current index; in a reachable state they cannot fail, so the
   "INTERNAL ERROR: failed to unreserve" branches are dead. *)
Theorem C04_no_thread_error_from_accounting :
  forall (c : cfg) (max_size hard_limit : Z) (ls : list label),
    0 < max_size -> Forall label_ok ls ->
    let s := srun c (sinit max_size hard_limit) ls in
    forall t, In t (thr s) -> snd (LRU.unreserve (t_held t) (lru (sd s))) = Ok tt.
Proof. exact no_thread_error_from_accounting. Qed.
Print Assumptions C04_no_thread_error_from_accounting.

Theorem C04_cleanup_keeps_response :
  forall (c : cfg) (max_size hard_limit : Z) (ls : list label),
    0 < max_size -> Forall label_ok ls ->
    let s := srun c (sinit max_size hard_limit) ls in
    forall t r, In t (thr s) -> t_pc t = Cleanup r -> t_tmp t = None ->
    exists d', tstep c (sd s) t = Some (d', mkThread (t_req t) (Done r) 0 None).
Proof. exact cleanup_keeps_response. Qed.
Print Assumptions C04_cleanup_keeps_response.

(* Non-vacuity.  Two uploads of the same CAS key, a reader of that key and a third upload whose
   stream is short, interleaved; the remover runs between them.  The premises hold; the run ends
   quiescent with the file of the second upload as the only file; the reader served the first
   upload (the file it had opened); the short upload failed and left neither file nor reservation. *)
Definition ex_hash : string := "aaaaaaaaaaaaaaaaaaaaaaaaaaaaaaaaaaaaaaaaaaaaaaaaaaaaaaaaaaaaaaaa".
Definition ex_cfg : cfg := mkCfg false 1000000 1000000 false.
Definition ex_labels : list label :=
  [LSpawn (RPut CAS ex_hash 5000 (mkStream 1 5000 false true 5000) "r1");
   LSpawn (RPut CAS ex_hash 5000 (mkStream 2 5000 false true 5000) "r2");
   LSpawn (RGet CAS ex_hash 5000 0 false BMiss "r3");
   LSpawn (RPut AC ex_hash 300 (mkStream 3 200 true true 200) "r4");
   LStep 0; LStep 1; LStep 3; LStep 0; LStep 1; LStep 3;   (* three reservations, three temp files *)
   LStep 0; LStep 0; LStep 0;                               (* write, verify, commit of upload 1 *)
   LStep 2; LStep 2;                                        (* the reader finds upload 1 and opens its file *)
   LStep 3; LStep 3;                                        (* upload 3 is short: verification fails *)
   LStep 1; LStep 1; LStep 1;                               (* upload 2 replaces upload 1 *)
   LStep 3;                                                 (* clean-up of upload 3: its temp file *)
   LEvict;                                                  (* the remover unlinks upload 1's file *)
   LStep 2;                                                 (* the reader still serves the file it opened *)
   LStep 3; LStep 0; LStep 1].                              (* remaining clean-ups *)

Example C04_example :
  Forall label_ok ex_labels /\
  let s := srun ex_cfg (sinit 16384 0) ex_labels in
  map t_pc (thr s) = [Done PutOk; Done PutOk; Done (GetHit 5000 1 5000); Done (PutErr EInternal)] /\
  evq (lru (sd s)) = [] /\
  map f_path (files (sd s)) = map entry_path (map ent (order (lru (sd s)))) /\
  map f_path (files (sd s)) = [mkPath ("cas/" ++ ex_hash) 0 "r2" true] /\
  LRU.stats (lru (sd s)) = (8192, 0, 1, 8192).
Proof.
  split.
  - unfold ex_labels. repeat (apply Forall_cons; [simpl; try exact I; lia|]). apply Forall_nil.
  - vm_compute. repeat split; reflexivity.
Qed.

(* the same run stopped before the remover and the clean-ups: a reachable NON-quiescent state with a
   queued entry, a temp file and reserved bytes, where the directory is entries + queue + temp files *)
Example C04_example_midway :
  let s := srun ex_cfg (sinit 16384 0) (firstn 20 ex_labels) in
  List.length (files (sd s)) = 3%nat /\ List.length (order (lru (sd s))) = 1%nat /\
  List.length (evq (lru (sd s))) = 1%nat /\ tmp_paths (thr s) = [mkPath ("ac/" ++ ex_hash) 0 "r4" false] /\
  res (lru (sd s)) = 300 /\ sumZ t_held (thr s) = 300.
Proof. vm_compute. repeat split; reflexivity. Qed.
