(* Properties/C18.v — "Blob size limits are enforced on every ingress" at the level of the disk cache
   (Model/Disk.v mirrors cache/disk/disk.go and findmissing.go): max_blob_size on uploads,
   max_proxy_blob_size on everything taken from the backend (Get, Contains, FindMissing).
   Only statements, each closed by an already proved lemma. *)
From BR Require Import Base.Prelude Model.LRU Proofs.LRU_inv Model.Disk Proofs.Disk_ack
  Proofs.Disk_fun_fm Proofs.Disk_fun_put Proofs.Disk_fun_get.
Open Scope Z_scope.

(* An upload above max_blob_size is refused as a bad request and NOTHING changes: index, counters,
   directory, backend queue — for every state, kind, hash, stream. *)
Theorem C18_put_oversize_rejected : forall c d k hash sz st rnd,
  sz > c_maxblob c -> exec c d (RPut k hash sz st rnd) = (d, Some (PutErr EBadRequest)).
Proof. exact put_oversize_rejected. Qed.
Print Assumptions C18_put_oversize_rejected.

(* At or below the limit the size guard passes: the first step of an upload refuses as a bad request
   exactly for a negative size, a size above max_blob_size, a malformed hash, data sent under the
   empty-blob digest, or a size above the whole cache (max_size). *)
Theorem C18_put_at_limit_not_refused_for_size : forall c d k hash sz st rnd d1 t1,
  Inv (lru d) ->
  tstep c d (spawn (RPut k hash sz st rnd)) = Some (d1, t1) ->
  (t_pc t1 = Done (PutErr EBadRequest) <->
   (sz < 0 \/ sz > c_maxblob c \/ Z.of_nat (String.length hash) <> hashLen \/
    (empty_shortcut k hash sz /\ 0 < st_len st) \/
    (~ empty_shortcut k hash sz /\ sz > maxs (lru d)))).
Proof. exact put_start_badrequest_iff. Qed.
Print Assumptions C18_put_at_limit_not_refused_for_size.

(* … and no later stage answers "bad request": the same characterisation for the whole request *)
Theorem C18_put_badrequest_iff : forall c d k hash sz st rnd d',
  Inv (lru d) -> 0 <= st_ondisk st ->
  (exec c d (RPut k hash sz st rnd) = (d', Some (PutErr EBadRequest)) <->
   d' = (if (0 <=? sz) && (sz <=? c_maxblob c) && (Z.of_nat (String.length hash) =? hashLen)
            && negb (kind_eqb k CAS && (sz =? 0) && String.eqb hash emptySha256)
         then mkD (reserved_index d sz) (files d) (handed d) else d) /\
   (sz < 0 \/ sz > c_maxblob c \/ Z.of_nat (String.length hash) <> hashLen \/
    (empty_shortcut k hash sz /\ 0 < st_len st) \/
    (~ empty_shortcut k hash sz /\ sz > maxs (lru d)))).
Proof. exact put_badrequest_iff. Qed.
Print Assumptions C18_put_badrequest_iff.

(* Under every interleaving: a fetch from the backend is committed only for a request whose own size
   is within max_proxy_blob_size and an object whose announced size is within it (and validated). *)
Theorem C18_proxy_get : forall c mx hd ls t k hash sz off zstd b rnd cl od f,
  In t (thr (srun c (sinit mx hd) ls)) -> t_req t = RGet k hash sz off zstd b rnd ->
  t_pc t = GetCommit cl od f ->
  c_proxy c = true /\ sz <= c_maxproxy c /\ 0 <= cl <= c_maxproxy c /\ fetch_good c k sz cl b.
Proof. exact proxy_commit_within_limits. Qed.
Print Assumptions C18_proxy_get.

(* Sequentially: a hit for a key that is not in the local index is such an object; so an oversize
   backend object, or any object for an oversize request, is never served. *)
Theorem C18_proxy_get_served : forall c d k hash sz off zstd b rnd d' s cid flen,
  peek (lookup_key k hash) (lru d) = None ->
  exec c d (RGet k hash sz off zstd b rnd) = (d', Some (GetHit s cid flen)) ->
  (get_shortcut k hash sz /\ s = 0 /\ cid = 0 /\ flen = 0) \/
  (exists claimed full delivered cid' logical,
     b = BFound claimed full delivered false cid' logical /\ fetch_good c k sz claimed b /\
     s = claimed /\ cid = cid' /\ flen = delivered /\ c_proxy c = true /\ sz <= c_maxproxy c).
Proof. exact get_faults_safe. Qed.
Print Assumptions C18_proxy_get_served.

(* Contains: the answer is a function of the index and the backend's word … *)
Theorem C18_proxy_contains_fun : forall c d k hash sz b, Inv (lru d) ->
  exists d', exec c d (RContains k hash sz b) = (d', Some (contains_fun c (lru d) k hash sz b)) /\ fm_frame d d'.
Proof. exact exec_contains. Qed.
Print Assumptions C18_proxy_contains_fun.

(* … "present" exactly for the empty blob, a local entry of compatible size, or — only if nothing
   local answers, only for a request within the limit — a backend object within the limit of
   compatible size *)
Theorem C18_proxy_contains : forall c l k hash sz b x,
  contains_fun c l k hash sz b = Has true x <->
  Z.of_nat (String.length hash) = hashLen /\
  ((k = CAS /\ sz <= 0 /\ hash = emptySha256 /\ x = 0) \/
   (~ (k = CAS /\ sz <= 0 /\ hash = emptySha256) /\
    (local_entry l k hash sz x \/
     ((forall y, ~ local_entry l k hash sz y) /\
      c_proxy c = true /\ sz <= c_maxproxy c /\ b = BHasYes x /\ x <= c_maxproxy c /\ mismatch sz x = false)))).
Proof. exact contains_true_iff. Qed.
Print Assumptions C18_proxy_contains.

Theorem C18_proxy_contains_oversize : forall c l k hash sz b x,
  contains_fun c l k hash sz b = Has true x -> (x > c_maxproxy c \/ sz > c_maxproxy c) ->
  (k = CAS /\ sz <= 0 /\ hash = emptySha256 /\ x = 0) \/ local_entry l k hash sz x.
Proof. exact contains_oversize_never_from_backend. Qed.
Print Assumptions C18_proxy_contains_oversize.

(* FindMissing: a digest above the limit that is not in the local cache is reported missing whatever
   the backend says (see C10 for the exact answer) *)
Theorem C18_proxy_findmissing : forall c l ds bs h sz bh,
  sz > c_maxproxy c -> present_local l (h, sz) = false ->
  In ((h, sz), bh) (fm_todo ds bs) -> In (h, sz) (fm_answer c l ds bs).
Proof. exact fm_oversize_never_present_from_backend. Qed.
Print Assumptions C18_proxy_findmissing.

(* Non-vacuity: limits at the boundary, on every path. *)
Example C18_example :
  let ha := string_of_list_ascii (repeat "a"%char 64) in
  let c := mkCfg false 5000 100 true in
  let d := dinit 65536 0 in
  let st n := mkStream 1 n false true n in
  (* upload at the limit accepted, one byte above refused with nothing changed *)
  snd (exec c d (RPut CAS ha 5000 (st 5000) "r")) = Some PutOk /\
  exec c d (RPut CAS ha 5001 (st 5001) "r") = (d, Some (PutErr EBadRequest)) /\
  (* backend objects: at the proxy limit served, above it (announced or requested) not *)
  snd (exec c d (RGet CAS ha 100 0 false (BFound 100 100 100 false 9 100) "g")) = Some (GetHit 100 9 100) /\
  snd (exec c d (RGet CAS ha (-1) 0 false (BFound 101 101 101 false 9 101) "g")) = Some GetMiss /\
  snd (exec c d (RGet CAS ha 101 0 false (BFound 101 101 101 false 9 101) "g")) = Some GetMiss /\
  snd (exec c d (RContains CAS ha 100 (BHasYes 100))) = Some (Has true 100) /\
  snd (exec c d (RContains CAS ha (-1) (BHasYes 101))) = Some (Has false (-1)) /\
  snd (exec c d (RContains CAS ha 101 (BHasYes 101))) = Some (Has false (-1)) /\
  snd (exec c d (RFindMissing [(ha, 100); (ha, 101)] [BHasYes 100; BHasYes 101] false)) = Some (Missing [(ha, 101)]).
Proof. cbv zeta. vm_compute. repeat split; reflexivity. Qed.
