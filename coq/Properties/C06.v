(* Properties/C06.v — "An action-cache hit implies every referenced CAS blob is present", at the
   level of diskCache.GetValidatedActionResult (Model/ACDeps.v over Model/Disk.v), for the
   configuration WITHOUT a backend ([c_proxy c = false]; the backend columns [b_of]/[has_of] are
   arbitrary and irrelevant).  Protobuf decoding is an oracle: [dec_ar]/[dec_tree] map the content
   of a stored blob to the message it decodes to; the theorems hold for every such pair.
   "Present" is [present_local] of Proofs/Disk_fun_fm.v (C10): in the local index with the stated
   size, the empty blob always.  "At that moment" is the sequential semantics (see C07 for what the
   concurrent one guarantees).  Only statements, each closed by an already proved lemma. *)
From Coq Require Import Permutation.
From BR Require Import Base.Prelude Model.LRU Proofs.LRU_inv.
From BR Require Import Model.Disk Proofs.Disk_ack Proofs.Disk_fun_fm Proofs.Disk_fun_put Proofs.Disk_fun_get.
From BR Require Import Proofs.ACDeps_base.
From BR Require Import Model.ActionResult Model.ACDeps Proofs.ACDeps_spec Proofs.ACDeps_props Proofs.ACDeps_backend.
Open Scope Z_scope.

(* A hit returns the decoding [ar] of the stored AC entry, [ar] is valid, and — with [ts] the decoded
   Tree of every output directory, each read from the CAS entry under that directory's tree digest —
   EVERY digest of [referenced ar ts] (output files without inline contents, each tree digest, every
   file of each tree's root and children, stdout, stderr) is present with the stated size. *)
Theorem C06_hit_sound : forall c dec_ar dec_tree b_of has_of d key d' ar,
  c_proxy c = false -> Inv (lru d) ->
  get_validated c dec_ar dec_tree b_of has_of d key = (d', ACHit ar) ->
  ac_entry dec_ar d key ar /\ valid ar = true /\
  exists ts, trees_read dec_tree d (somes (ar_dirs ar)) ts /\
             forall g, In g (referenced ar ts) -> present_local (lru d) (hash g, size_bytes g) = true.
Proof. exact hit_sound. Qed.
Print Assumptions C06_hit_sound.

(* If the stored entry decodes to a valid [ar], every tree blob that is present decodes
   ([trees_decode]: a present tree blob that is not a Tree is an error by design), and some
   referenced blob is absent or held with another size — the Tree blob of an output directory, or any
   other digest of [referenced ar ts] — the outcome is a MISS: not an error, not a (partial) hit. *)
Theorem C06_absent_is_miss : forall c dec_ar dec_tree b_of has_of d key ar d' o,
  c_proxy c = false -> Inv (lru d) ->
  get_validated c dec_ar dec_tree b_of has_of d key = (d', o) ->
  ac_entry dec_ar d key ar -> valid ar = true -> trees_decode dec_tree d (somes (ar_dirs ar)) ->
  ((exists od g, In od (somes (ar_dirs ar)) /\ od_tree od = Some g /\ cas_blob d g = None) \/
   (exists ts g, trees_read dec_tree d (somes (ar_dirs ar)) ts /\ In g (referenced ar ts) /\
                 present_local (lru d) (hash g, size_bytes g) = false)) ->
  o = ACMiss.
Proof. exact absent_is_miss. Qed.
Print Assumptions C06_absent_is_miss.

(* Conversely: entry present and valid, trees readable, every referenced digest present → hit. *)
Theorem C06_complete : forall c dec_ar dec_tree b_of has_of d key ar ts,
  c_proxy c = false -> Inv (lru d) ->
  ac_entry dec_ar d key ar -> valid ar = true -> trees_read dec_tree d (somes (ar_dirs ar)) ts ->
  (forall g, In g (referenced ar ts) -> present_local (lru d) (hash g, size_bytes g) = true) ->
  exists d', get_validated c dec_ar dec_tree b_of has_of d key = (d', ACHit ar).
Proof. exact hit_complete. Qed.
Print Assumptions C06_complete.

(* The outcome is the pure function [ac_spec] of the index and the directory at the start of the
   call (every case: malformed key → error; no entry / empty → miss; undecodable or invalid → error;
   tree absent → miss; tree undecodable → error; any pending digest absent → miss; else hit). *)
Theorem C06_outcome : forall c dec_ar dec_tree b_of has_of d key d' o,
  c_proxy c = false -> Inv (lru d) ->
  get_validated c dec_ar dec_tree b_of has_of d key = (d', o) -> o = ac_spec dec_ar dec_tree d key.
Proof. exact outcome_spec. Qed.
Print Assumptions C06_outcome.

(* A hit is a use of each dependency held locally: the AC entry, then every (non-empty) tree blob,
   then every (non-empty) pending digest is moved to the most-recently-used end, in this order; so
   the untouched entries come first in their old relative order, followed by the touched ones; the
   index contents, all counters, the directory and the backend queue are unchanged. *)
Theorem C06_hit_touches : forall c dec_ar dec_tree b_of has_of d key d' ar,
  c_proxy c = false -> Inv (lru d) ->
  get_validated c dec_ar dec_tree b_of has_of d key = (d', ACHit ar) ->
  exists ts, trees_read dec_tree d (somes (ar_dirs ar)) ts /\
    let ks := hit_keys key ar ts in
    lru d' = touch_all ks (lru d) /\
    order (lru d') = fold_left (fun o k => touch k o) ks (order (lru d)) /\
    (exists T, order (lru d') = filter (fun e => negb (touched ks e)) (order (lru d)) ++ T /\
               Permutation T (filter (touched ks) (order (lru d)))) /\
    LruSame (lru d) (lru d') /\ Disk.files d' = Disk.files d /\ handed d' = handed d /\ Inv (lru d').
Proof. exact hit_touches. Qed.
Print Assumptions C06_hit_touches.

(* Whatever the outcome: directory and backend queue unchanged, invariant kept; and if the entries the
   call may read have their files in place and valid ([deps_sound], implied by the structural
   [index_sound]) nothing but the recency order changes.  (Otherwise a stale entry — file gone or
   failing validation — is dropped by the read, as in any Get.) *)
Theorem C06_no_state_change : forall c dec_ar dec_tree b_of has_of d key d' o,
  c_proxy c = false -> Inv (lru d) ->
  get_validated c dec_ar dec_tree b_of has_of d key = (d', o) ->
  Disk.files d' = Disk.files d /\ handed d' = handed d /\ Inv (lru d') /\
  (deps_sound d key ->
     (forall k, peek k (lru d') = peek k (lru d)) /\
     cur (lru d') = cur (lru d) /\ res (lru d') = res (lru d) /\ unc (lru d') = unc (lru d) /\
     evq (lru d') = evq (lru d) /\ qbytes (lru d') = qbytes (lru d) /\
     Permutation (order (lru d')) (order (lru d))).
Proof. exact no_state_change. Qed.
Print Assumptions C06_no_state_change.

Theorem C06_index_sound_suffices : forall d key, Inv (lru d) -> index_sound d -> deps_sound d key.
Proof. exact index_sound_deps. Qed.
Print Assumptions C06_index_sound_suffices.

(* Non-vacuity.  An ActionResult with one inline file, one file by digest, one output directory whose
   tree has a root and a child with one file each, and a stdout digest.  All blobs present → hit, and
   the recency list ends with AC entry, tree, file, root file, child file, stdout (the inline file's
   blob, also stored, is not touched); the child's file absent → miss; the child's file present with
   another size → miss. *)
Example C06_example :
  let h x := string_of_list_ascii (repeat x 64) in
  let F := mkDigest (h "f"%char) 10 in let T := mkDigest (h "a"%char) 50 in
  let R := mkDigest (h "b"%char) 20 in let C := mkDigest (h "c"%char) 30 in
  let S := mkDigest (h "d"%char) 5 in let I := mkDigest (h "e"%char) 7 in
  let ar := mkAR [Some (mkOF "in.txt" (Some I) false (mkBytes 7 (h "e"%char))); Some (mkOF "o.txt" (Some F) false no_bytes)]
                 [] [] [Some (mkOD "dir" (Some T))] [] 0 no_bytes (Some S) no_bytes None None in
  let tr := mkTree (Some (mkDir [Some (mkFN "r" (Some R) false)] [Some (mkDN "sub" None)] []))
                   [Some (mkDir [Some (mkFN "c" (Some C) true)] [] [])] in
  let c := mkCfg false 1000000 0 false in
  let dec_ar := fun cid => if cid =? 1 then Some ar else None in
  let dec_tree := fun cid => if cid =? 3 then Some tr else None in
  let put k g cid := RPut k (hash g) (size_bytes g) (mkStream cid (size_bytes g) false true (size_bytes g)) "x" in
  let common := [put CAS I 9; put CAS F 2; put CAS T 3; put CAS R 4; put CAS S 6; put AC (mkDigest (h "1"%char) 100) 1] in
  let run setup := get_validated c dec_ar dec_tree (fun _ => BMiss) (fun _ => BHasNo)
                     (fold_left (fun d r => fst (exec c d r)) setup (dinit 1000000 0)) (h "1"%char) in
  valid ar = true /\
  referenced ar [tr] = [F; T; R; C; S] /\
  snd (run (put CAS C 5 :: common)) = ACHit ar /\
  map (fun e => ekey (ent e)) (order (lru (fst (run (put CAS C 5 :: common)))))
    = map (fun x => lookup_key (fst x) (h (snd x)))
          [(CAS, "e"%char); (AC, "1"%char); (CAS, "a"%char); (CAS, "f"%char); (CAS, "b"%char); (CAS, "c"%char); (CAS, "d"%char)] /\
  snd (run common) = ACMiss /\
  snd (run (put CAS (mkDigest (h "c"%char) 31) 5 :: common)) = ACMiss.
Proof. cbv zeta. vm_compute. repeat split; reflexivity. Qed.

(* ------------------------------------------------------------------ *)
(* WITH a backend.  The theorems below hold for EVERY configuration [c] (backend configured or not,
   any max_proxy_blob_size) and every Contains behaviour [has_of] of the backend, under the one
   assumption that the backend MISSES on Get ([forall h, b_of h = BMiss]): the AC entry and the Tree
   blobs are then read from the local cache, and the fail-fast find-missing asks the backend exactly
   for the locally absent digests that are within max_proxy_blob_size. *)

(* A hit implies that every referenced digest is present locally with the stated size (the empty
   blob always is), or the backend was asked — the digest is within max_proxy_blob_size — and said
   yes.  Never "absent locally and larger than max_proxy_blob_size", never "absent locally and the
   backend said no". *)
Theorem C06_hit_sound_backend : forall c dec_ar dec_tree b_of has_of,
  (forall h, b_of h = BMiss) ->
  forall d key d' ar, Inv (lru d) ->
  get_validated c dec_ar dec_tree b_of has_of d key = (d', ACHit ar) ->
  ac_entry dec_ar d key ar /\ valid ar = true /\
  exists ts, trees_read dec_tree d (somes (ar_dirs ar)) ts /\
    forall g, In g (referenced ar ts) ->
      present_local (lru d) (hash g, size_bytes g) = true \/
      (c_proxy c = true /\ size_bytes g <= c_maxproxy c /\ exists x, has_of (hash g) = BHasYes x).
Proof. exact hit_sound_backend. Qed.
Print Assumptions C06_hit_sound_backend.

(* Entry valid, trees readable, and some referenced digest is absent locally (or held with another
   size) while it may not be asked from the backend (none configured, or larger than
   max_proxy_blob_size) or the backend says no: the outcome is a MISS. *)
Theorem C06_absent_is_miss_backend : forall c dec_ar dec_tree b_of has_of,
  (forall h, b_of h = BMiss) ->
  forall d key ar ts d' o g, Inv (lru d) ->
  get_validated c dec_ar dec_tree b_of has_of d key = (d', o) ->
  ac_entry dec_ar d key ar -> valid ar = true -> trees_read dec_tree d (somes (ar_dirs ar)) ts ->
  In g (referenced ar ts) -> present_local (lru d) (hash g, size_bytes g) = false ->
  (c_proxy c = false \/ size_bytes g > c_maxproxy c \/ has_of (hash g) = BHasNo) ->
  o = ACMiss.
Proof. exact absent_is_miss_backend. Qed.
Print Assumptions C06_absent_is_miss_backend.

(* Conversely: every referenced digest local, or within the limit and vouched for by the backend → hit. *)
Theorem C06_complete_backend : forall c dec_ar dec_tree b_of has_of,
  (forall h, b_of h = BMiss) ->
  forall d key ar ts, Inv (lru d) ->
  ac_entry dec_ar d key ar -> valid ar = true -> trees_read dec_tree d (somes (ar_dirs ar)) ts ->
  (forall g, In g (referenced ar ts) ->
     present_local (lru d) (hash g, size_bytes g) = true \/
     (c_proxy c = true /\ size_bytes g <= c_maxproxy c /\ exists x, has_of (hash g) = BHasYes x)) ->
  exists d', get_validated c dec_ar dec_tree b_of has_of d key = (d', ACHit ar).
Proof. exact hit_complete_backend. Qed.
Print Assumptions C06_complete_backend.

(* A hit touches the AC entry, the tree blobs and every pending digest held locally (a touch of an
   absent key does nothing), in this order; index contents, counters, directory and backend queue are
   unchanged: the dependency check fetches and writes nothing. *)
Theorem C06_hit_touches_backend : forall c dec_ar dec_tree b_of has_of,
  (forall h, b_of h = BMiss) ->
  forall d key d' ar, Inv (lru d) ->
  get_validated c dec_ar dec_tree b_of has_of d key = (d', ACHit ar) ->
  exists ts, trees_read dec_tree d (somes (ar_dirs ar)) ts /\
    let ks := hit_keys key ar ts in
    lru d' = touch_all ks (lru d) /\
    order (lru d') = fold_left (fun o k => touch k o) ks (order (lru d)) /\
    (exists T, order (lru d') = filter (fun e => negb (touched ks e)) (order (lru d)) ++ T /\
               Permutation T (filter (touched ks) (order (lru d)))) /\
    LruSame (lru d) (lru d') /\ Disk.files d' = Disk.files d /\ handed d' = handed d /\ Inv (lru d').
Proof. exact hit_touches_backend. Qed.
Print Assumptions C06_hit_touches_backend.

(* Once entry and trees are read locally the outcome is a hit or a miss — never an error — and
   nothing but the recency order changes, whatever the backend answers. *)
Theorem C06_deps_check_frame_backend : forall c dec_ar dec_tree b_of has_of,
  (forall h, b_of h = BMiss) ->
  forall d key ar ts d' o, Inv (lru d) ->
  ac_entry dec_ar d key ar -> valid ar = true -> trees_read dec_tree d (somes (ar_dirs ar)) ts ->
  get_validated c dec_ar dec_tree b_of has_of d key = (d', o) ->
  Disk.files d' = Disk.files d /\ handed d' = handed d /\ Inv (lru d') /\ LruSame (lru d) (lru d') /\
  (o = ACHit ar \/ o = ACMiss).
Proof. exact deps_check_frame. Qed.
Print Assumptions C06_deps_check_frame_backend.

(* Non-vacuity.  The ActionResult of [C06_example]; the child's file (30 bytes) is held by the backend
   only.  max_proxy_blob_size 30: asked, backend says yes → hit; max_proxy_blob_size 29: may not be
   asked → miss; within the limit but the backend says no → miss; and a 3000-byte stdout that is
   inlined AND referenced, held by the backend only, with the limit at 2999 → miss, at 3000 → hit. *)
Example C06_example_backend :
  let h x := string_of_list_ascii (repeat x 64) in
  let F := mkDigest (h "f"%char) 10 in let T := mkDigest (h "a"%char) 50 in
  let R := mkDigest (h "b"%char) 20 in let C := mkDigest (h "c"%char) 30 in
  let S := mkDigest (h "d"%char) 3000 in
  let ar := mkAR [Some (mkOF "o.txt" (Some F) false no_bytes)]
                 [] [] [Some (mkOD "dir" (Some T))] [] 0 (mkBytes 3000 (h "d"%char)) (Some S) no_bytes None None in
  let tr := mkTree (Some (mkDir [Some (mkFN "r" (Some R) false)] [] []))
                   [Some (mkDir [Some (mkFN "c" (Some C) true)] [] [])] in
  let cfg_of mp := mkCfg false 1000000 mp true in
  let dec_ar := fun cid => if cid =? 1 then Some ar else None in
  let dec_tree := fun cid => if cid =? 3 then Some tr else None in
  let put k g cid := RPut k (hash g) (size_bytes g) (mkStream cid (size_bytes g) false true (size_bytes g)) "x" in
  let setup := [put CAS F 2; put CAS T 3; put CAS R 4; put AC (mkDigest (h "1"%char) 100) 1] in
  let run mp has extra := snd (get_validated (cfg_of mp) dec_ar dec_tree (fun _ => BMiss) (fun x => has_lookup x has)
                     (fold_left (fun d r => fst (exec (cfg_of mp) d r)) (extra ++ setup) (dinit 1000000 0)) (h "1"%char)) in
  valid ar = true /\ referenced ar [tr] = [F; T; R; C; S] /\
  run 30 [(h "c"%char, BHasYes 30)] [put CAS S 6] = ACHit ar /\
  run 29 [(h "c"%char, BHasYes 30)] [put CAS S 6] = ACMiss /\
  run 30 [(h "c"%char, BHasNo)] [put CAS S 6] = ACMiss /\
  run 30 [] [put CAS S 6] = ACMiss /\
  run 2999 [(h "d"%char, BHasYes 3000)] [put CAS C 5] = ACMiss /\
  run 3000 [(h "d"%char, BHasYes 3000)] [put CAS C 5] = ACHit ar.
Proof. cbv zeta. vm_compute. repeat split; reflexivity. Qed.
