(* Properties/C15_frame.v — "The CAS, the validated action cache and the raw (validation-disabled)
   action cache are independent namespaces: storing, overwriting, evicting or failing to store key k
   in one never changes what any request returns for k in another, and a compressed read is only ever
   served from the CAS."  The frame property over the disk transition system (Model/Disk.v): every
   schedule, any number of concurrent requests, every failure branch, the remover at any moment.
   (The key-level facts over the front ends' key functions are in Properties/C15.v.)
   Only statements, each closed by an already proved lemma, with Print Assumptions beneath. *)
From BR Require Import Base.Prelude Model.LRU Proofs.LRU_inv Model.Disk
  Proofs.Disk_inv1 Proofs.Disk_inv Proofs.Disk_conc Proofs.Disk_conc2 Proofs.Disk_conc3 Proofs.Disk_frame.
Open Scope Z_scope.

(* 1. The lookup keys of the disk layer: equal keys have equal kind and equal hash, for ALL strings
   (no assumption on the hash); so keys of different kinds are never equal. *)
Theorem C15_lookup_key_kind_injective :
  forall k h k' h', lookup_key k h = lookup_key k' h' -> k = k' /\ h = h'.
Proof. exact lookup_key_kind_injective. Qed.
Print Assumptions C15_lookup_key_kind_injective.

(* 2. One step.  [works_on r K]: request r is a Put / Get / Contains on key K (find-missing works on
   no key: it only touches).  In every reachable state of a run with fresh names, a step of a thread
   whose request does not work on K' either leaves the index entry of K' exactly as it is, or K' was
   indexed and is evicted by this step's Reserve / Add running under space pressure
   ([evicted_under_pressure]: the first two causes of C07_only_pressure_or_corruption_removes).  It
   never ADDS an entry for K' and never REPLACES one.  And no thread step changes the file of any
   indexed entry (files are only rewritten by their owner before commit). *)
Theorem C15_frame_step :
  forall (c : cfg) (max_size hard_limit : Z) (ls : list label) i t d' t' (K' : string),
    0 < max_size -> Forall label_ok ls -> fresh_names c (sinit max_size hard_limit) ls ->
    let s := srun c (sinit max_size hard_limit) ls in
    nth_error (thr s) i = Some t -> tstep c (sd s) t = Some (d', t') ->
    ~ works_on (t_req t) K' ->
    (peek K' (lru d') = peek K' (lru (sd s)) \/ evicted_under_pressure (sd s) t d' K') /\
    (forall e, In e (order (lru (sd s))) ->
       find_file (entry_path (ent e)) (files d') = find_file (entry_path (ent e)) (files (sd s))).
Proof. exact frame_step. Qed.
Print Assumptions C15_frame_step.

(* in key-space terms: a request of one kind, any key of another kind *)
Theorem C15_frame_step_other_kind :
  forall (c : cfg) (max_size hard_limit : Z) (ls : list label) i t d' t' (k' : kind) (h' : string),
    0 < max_size -> Forall label_ok ls -> fresh_names c (sinit max_size hard_limit) ls ->
    let s := srun c (sinit max_size hard_limit) ls in
    nth_error (thr s) i = Some t -> tstep c (sd s) t = Some (d', t') ->
    req_kind (t_req t) <> Some k' ->
    peek (lookup_key k' h') (lru d') = peek (lookup_key k' h') (lru (sd s))
    \/ evicted_under_pressure (sd s) t d' (lookup_key k' h').
Proof. exact frame_step_other_kind. Qed.
Print Assumptions C15_frame_step_other_kind.

(* 3. A run segment.  [seg_ok c s K' ls2]: along ls2 from s, every thread step is by a request that
   does not work on K' (e.g. all traffic is in other key spaces) and no label loses K' (no eviction
   of K').  Then the index entry of K' and its file are the same before and after, and so is what a
   request for K' run alone returns:
   - Contains: for every configuration and backend word;
   - Get: when no backend is configured (with a backend a miss goes on to Reserve, whose verdict
     depends on the space left, which other key spaces legitimately use up). *)
Theorem C15_frame_no_pressure_entry :
  forall (c : cfg) (max_size hard_limit : Z) (ls1 ls2 : list label) (K' : string),
    0 < max_size -> Forall label_ok (ls1 ++ ls2) -> fresh_names c (sinit max_size hard_limit) (ls1 ++ ls2) ->
    seg_ok c (srun c (sinit max_size hard_limit) ls1) K' ls2 ->
    same_entry K' (sd (srun c (sinit max_size hard_limit) ls1)) (sd (srun c (sinit max_size hard_limit) (ls1 ++ ls2)))
    /\ Inv (lru (sd (srun c (sinit max_size hard_limit) ls1)))
    /\ Inv (lru (sd (srun c (sinit max_size hard_limit) (ls1 ++ ls2)))).
Proof. exact segment_same_entry. Qed.
Print Assumptions C15_frame_no_pressure_entry.

Theorem C15_frame_no_pressure_contains :
  forall (c : cfg) (max_size hard_limit : Z) (ls1 ls2 : list label) k' h' sz b,
    0 < max_size -> Forall label_ok (ls1 ++ ls2) -> fresh_names c (sinit max_size hard_limit) (ls1 ++ ls2) ->
    seg_ok c (srun c (sinit max_size hard_limit) ls1) (lookup_key k' h') ls2 ->
    snd (exec c (sd (srun c (sinit max_size hard_limit) (ls1 ++ ls2))) (RContains k' h' sz b))
    = snd (exec c (sd (srun c (sinit max_size hard_limit) ls1)) (RContains k' h' sz b)).
Proof. exact frame_contains. Qed.
Print Assumptions C15_frame_no_pressure_contains.

Theorem C15_frame_no_pressure_get :
  forall (c : cfg) (max_size hard_limit : Z) (ls1 ls2 : list label) k' h' sz off zstd b rnd,
    0 < max_size -> Forall label_ok (ls1 ++ ls2) -> fresh_names c (sinit max_size hard_limit) (ls1 ++ ls2) ->
    c_proxy c = false ->
    seg_ok c (srun c (sinit max_size hard_limit) ls1) (lookup_key k' h') ls2 ->
    snd (exec c (sd (srun c (sinit max_size hard_limit) (ls1 ++ ls2))) (RGet k' h' sz off zstd b rnd))
    = snd (exec c (sd (srun c (sinit max_size hard_limit) ls1)) (RGet k' h' sz off zstd b rnd)).
Proof. exact frame_get. Qed.
Print Assumptions C15_frame_no_pressure_get.

(* 4. A compressed read of a key that is not in the CAS is refused at its first step, in every state,
   and changes nothing. *)
Theorem C15_zstd_only_cas_disk :
  forall (c : cfg) (d : dstate) k h sz off b rnd,
    k <> CAS ->
    tstep c d (spawn (RGet k h sz off true b rnd))
    = Some (d, mkThread (RGet k h sz off true b rnd) (Done (GetErr EBadRequest)) 0 None).
Proof. exact zstd_only_cas. Qed.
Print Assumptions C15_zstd_only_cas_disk.

(* Non-vacuity: an AC upload, a RAW upload and a CAS upload of the SAME hash string, interleaved, then
   a read of each: three independent values (content identities 1, 2, 3; sizes 300, 400, 5000), three
   different lookup keys in the commit log; the premises (label_ok, fresh_names) hold. *)
Definition ex_hash : string := "aaaaaaaaaaaaaaaaaaaaaaaaaaaaaaaaaaaaaaaaaaaaaaaaaaaaaaaaaaaaaaaa".
Definition ex_cfg : cfg := mkCfg false 1000000 1000000 false.
Definition ex_three : list label :=
  [LSpawn (RPut AC ex_hash 300 (mkStream 1 300 false true 300) "a");
   LSpawn (RPut RAW ex_hash 400 (mkStream 2 400 false true 400) "r");
   LSpawn (RPut CAS ex_hash 5000 (mkStream 3 5000 false true 5000) "c");
   LStep 0; LStep 1; LStep 2; LStep 2; LStep 1; LStep 0; LStep 0; LStep 1; LStep 2;
   LStep 1; LStep 2; LStep 0; LStep 2; LStep 0; LStep 1; LStep 0; LStep 1; LStep 2;
   LSpawn (RGet AC ex_hash (-1) 0 false BMiss "");
   LSpawn (RGet RAW ex_hash (-1) 0 false BMiss "");
   LSpawn (RGet CAS ex_hash 5000 0 false BMiss "");
   LStep 3; LStep 4; LStep 5; LStep 5; LStep 4; LStep 3; LStep 3; LStep 4; LStep 5].

Example C15_three_namespaces :
  Forall label_ok ex_three /\ fresh_names ex_cfg (sinit 1000000 0) ex_three /\
  map t_pc (thr (srun ex_cfg (sinit 1000000 0) ex_three))
    = [Done PutOk; Done PutOk; Done PutOk;
       Done (GetHit 300 1 300); Done (GetHit 400 2 400); Done (GetHit 5000 3 5000)] /\
  commits ex_cfg (sinit 1000000 0) ex_three
    = [("cas/" ++ ex_hash, 3, 5000, 5000); ("ac/" ++ ex_hash, 1, 300, 300); ("raw/" ++ ex_hash, 2, 400, 400)]%string.
Proof.
  split; [|split].
  - unfold ex_three. repeat (apply Forall_cons; [simpl; try exact I; lia|]). apply Forall_nil.
  - apply fresh_fromb_ok. vm_compute. reflexivity.
  - vm_compute. split; reflexivity.
Qed.

(* the segment premise is satisfiable: after the AC upload is committed, the whole RAW and CAS traffic
   of the run above is a segment that neither works on nor loses the AC key *)
Example C15_segment_example :
  let K' := lookup_key AC ex_hash in
  let ls1 := [LSpawn (RPut AC ex_hash 300 (mkStream 1 300 false true 300) "a");
              LStep 0; LStep 0; LStep 0; LStep 0; LStep 0; LStep 0] in
  let ls2 := [LSpawn (RPut RAW ex_hash 400 (mkStream 2 400 false true 400) "r");
              LSpawn (RPut CAS ex_hash 5000 (mkStream 3 5000 false true 5000) "c");
              LStep 1; LStep 2; LStep 2; LStep 1; LStep 1; LStep 2; LStep 1; LStep 2; LStep 2; LStep 1; LStep 1; LStep 2] in
  seg_ok ex_cfg (srun ex_cfg (sinit 1000000 0) ls1) K' ls2 /\
  peek K' (lru (sd (srun ex_cfg (sinit 1000000 0) ls1))) = Some (mkItem 300 300 "a" false) /\
  peek K' (lru (sd (srun ex_cfg (sinit 1000000 0) (ls1 ++ ls2)))) = Some (mkItem 300 300 "a" false) /\
  map t_pc (thr (srun ex_cfg (sinit 1000000 0) (ls1 ++ ls2))) = [Done PutOk; Done PutOk; Done PutOk].
Proof. cbv zeta. split; [apply seg_okb_ok; vm_compute; reflexivity|]. vm_compute. repeat split; reflexivity. Qed.
