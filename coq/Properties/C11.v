(* Properties/C11.v — "The action cache stores and serves only valid ActionResults, unchanged".
   Only statements, each closed by an already proved lemma, with Print Assumptions beneath, and
   Examples showing that the hypotheses are satisfiable.

   Reading guide.  [validate] is utils/validate.ActionResult transcribed check by check;
   [WellFormed] is the independent specification (Proofs/ActionResult_validate.v).
   [update_action_result] / [http_put_ac] are the two upload paths over an ARBITRARY store
   ([sput], any behaviour); [ms_put] is the reference store (no eviction, CAS puts verified).
   [expected_transform] is the documented read-side change written as a specification. *)
From BR Require Import Base.Prelude Gen.Consts Gen.ActionResult Model.ActionResult
  Proofs.ActionResult_validate Proofs.ActionResult_store Proofs.ActionResult_history
  Proofs.ActionResult_roundtrip Bridge.Bridge_ActionResult.
Open Scope string_scope.
Open Scope list_scope.
Open Scope Z_scope.

(* ------------------------------------------------------------------ *)
(* the validator *)

(* accepted by the validator => well formed: every repeated element present; file and symlink
   paths non-empty and relative; directory paths relative; file digests and tree digests present;
   every digest that is present has a 64-digit lower-case hex hash and a non-negative size;
   symlink targets non-empty *)
Theorem C11_validate_sound : forall ar, validate (Some ar) = Ok tt -> WellFormed ar.
Proof. exact validate_sound. Qed.
Print Assumptions C11_validate_sound.

Theorem C11_validate_complete : forall ar, WellFormed ar -> validate (Some ar) = Ok tt.
Proof. exact validate_complete. Qed.
Print Assumptions C11_validate_complete.

(* for EVERY message — nil message, nil elements, nil digests — the validator returns nil or an
   error: no nil dereference ([Panic]) is reachable *)
Theorem C11_validate_never_panics :
  forall o : option action_result,
    (validate o = Ok tt \/ validate o = Err EBadRequest) /\ is_panic (validate o) = false /\ validate None = Err EBadRequest.
Proof. intros o. split; [apply validate_cases|split; [apply validate_never_panics|reflexivity]]. Qed.
Print Assumptions C11_validate_never_panics.

(* the worker-metadata step is the documented one and does not affect validity *)
Theorem C11_worker_metadata :
  forall w ar, add_worker w ar = spec_with_worker w ar /\ validate (Some (add_worker w ar)) = validate (Some ar).
Proof. intros w ar. split; [apply add_worker_spec|apply validate_add_worker]. Qed.
Print Assumptions C11_worker_metadata.

(* ------------------------------------------------------------------ *)
(* accepted <=> valid *)

(* gRPC, whatever the store does: an acknowledged UpdateActionResult carried a usable key and a
   well-formed message, and the message put under the key is the uploaded one with the worker
   filled in; the returned message is that same message *)
Theorem C11_accept_only_if_valid_grpc :
  forall (St : Type) (sput : St -> store_op -> St * option errc) w marshal_ok s req s' ops m,
    update_action_result sput w marshal_ok s req = (s', ops, Ok m) ->
    exists key ar0, req = Some (mkUpd (Some key) (Some ar0)) /\
      validate_key (hash key) (size_bytes key) = true /\ WellFormed ar0 /\ marshal_ok = true /\
      In (OpPutAC (hash key) (spec_with_worker w ar0)) ops /\ m = spec_with_worker w ar0.
Proof.
  intros St sput w mok s req s' ops m H.
  destruct (update_accept_only_if_valid sput _ _ _ _ _ _ _ H) as (key & ar0 & E1 & E2 & E3 & E4 & E5).
  destruct (update_accept_returns sput _ _ _ _ _ _ _ H) as (key' & ar0' & E6 & E7).
  exists key, ar0. rewrite E1 in E6. inversion E6; subst key' ar0'.
  exact (conj E1 (conj E2 (conj E3 (conj E4 (conj E5 E7))))).
Qed.
Print Assumptions C11_accept_only_if_valid_grpc.

(* given a store that accepts what it is handed: accepted exactly when request, key and message
   are well formed (and the message can be marshalled) *)
Theorem C11_accept_iff_valid_grpc :
  forall (St : Type) (sput : St -> store_op -> St * option errc) w marshal_ok s req,
    (forall s o, snd (sput s o) = None) ->
    (is_ok (snd (update_action_result sput w marshal_ok s req)) = true <->
     exists key ar0, req = Some (mkUpd (Some key) (Some ar0)) /\
       validate_key (hash key) (size_bytes key) = true /\ WellFormed ar0 /\ marshal_ok = true).
Proof. intros St sput. exact (update_accept_iff_valid sput). Qed.
Print Assumptions C11_accept_iff_valid_grpc.

(* on the reference store an acknowledged gRPC upload is moreover CONSISTENT: every inlined byte
   string (output-file contents, stdout, stderr) that has a digest beside it has exactly that
   length and SHA-256 — the store refuses non-empty data under any other digest, the empty
   blob's included *)
Theorem C11_accept_implies_consistent_grpc :
  forall w marshal_ok s key ar0 s' ops m,
    update_action_result ms_put w marshal_ok s (Some (mkUpd (Some key) (Some ar0))) = (s', ops, Ok m) ->
    (forall f g, In (Some f) (ar_files ar0) -> blen (of_contents f) >? 0 = true -> of_digest f = Some g ->
       blen (of_contents f) = size_bytes g /\ bsha (of_contents f) = hash g) /\
    (forall g, blen (ar_stdout_raw ar0) >? 0 = true -> ar_stdout_digest ar0 = Some g ->
       blen (ar_stdout_raw ar0) = size_bytes g /\ bsha (ar_stdout_raw ar0) = hash g) /\
    (forall g, blen (ar_stderr_raw ar0) >? 0 = true -> ar_stderr_digest ar0 = Some g ->
       blen (ar_stderr_raw ar0) = size_bytes g /\ bsha (ar_stderr_raw ar0) = hash g).
Proof. exact update_accept_consistent. Qed.
Print Assumptions C11_accept_implies_consistent_grpc.

(* HTTP PUT (protobuf or JSON, plain or zstd): the same, with the framing conditions *)
Theorem C11_accept_only_if_valid_http :
  forall (St : Type) (sput : St -> store_op -> St * option errc) max_cas s r s' ops,
    http_put_ac sput true max_cas s r = (s', ops, Ok tt) ->
    HttpFramingOk max_cas r /\ exists ar0, hp_decoded r = Some ar0 /\ WellFormed ar0 /\
      ops = [OpPutAC (hp_key r) (spec_with_worker (http_worker (hp_remote r)) ar0)].
Proof. intros St sput. exact (http_accept_only_if_valid sput). Qed.
Print Assumptions C11_accept_only_if_valid_http.

Theorem C11_accept_iff_valid_http :
  forall (St : Type) (sput : St -> store_op -> St * option errc) max_cas s r,
    (forall s o, snd (sput s o) = None) ->
    (is_ok (snd (http_put_ac sput true max_cas s r)) = true <->
     HttpFramingOk max_cas r /\ exists ar0, hp_decoded r = Some ar0 /\ WellFormed ar0).
Proof. intros St sput. exact (http_accept_iff_valid sput). Qed.
Print Assumptions C11_accept_iff_valid_http.

(* ------------------------------------------------------------------ *)
(* a rejected upload stores nothing *)

(* whatever the store does: a failed UpdateActionResult either issued no action-cache Put at all,
   or issued exactly one, as its LAST operation, and it is the store that refused it.  (All other
   operations are CAS Puts.)  A failed HTTP PUT issued nothing, or one AC Put the store refused. *)
Theorem C11_reject_stores_nothing :
  (forall (St : Type) (sput : St -> store_op -> St * option errc) w marshal_ok s req s' ops r,
     update_action_result sput w marshal_ok s req = (s', ops, r) -> is_ok r = false ->
     existsb is_ac_put ops = false \/
     exists casops k a s3 c, ops = casops ++ [OpPutAC k a] /\ existsb is_ac_put casops = false /\
                             sput s3 (OpPutAC k a) = (s', Some c))
  /\
  (forall (St : Type) (sput : St -> store_op -> St * option errc) max_cas s r s' ops res,
     http_put_ac sput true max_cas s r = (s', ops, res) -> is_ok res = false ->
     (ops = [] /\ s' = s) \/ exists k a c, ops = [OpPutAC k a] /\ sput s (OpPutAC k a) = (s', Some c)).
Proof.
  split.
  - intros St sput. exact (update_reject_no_ac_put sput).
  - intros St sput. exact (http_reject_no_ac_put sput).
Qed.
Print Assumptions C11_reject_stores_nothing.

(* on the reference store: after a rejected UpdateActionResult the action cache and the raw key
   space are exactly as before; the CAS may have gained blobs (the inlined blobs put before the
   failure) — only blobs whose bytes matched the digest they are stored under.  After a rejected
   HTTP PUT the whole store is unchanged. *)
Theorem C11_reject_stores_nothing_reference_store :
  (forall w marshal_ok s req s' ops r,
     update_action_result ms_put w marshal_ok s req = (s', ops, r) -> is_ok r = false ->
     st_ac s' = st_ac s /\ st_raw s' = st_raw s /\
     exists added, st_cas s' = added ++ st_cas s /\
       Forall (fun hb => bsha (snd hb) = fst hb /\ 0 <= blen (snd hb)) added)
  /\
  (forall max_cas s r s' ops res,
     http_put_ac ms_put true max_cas s r = (s', ops, res) -> is_ok res = false -> s' = s).
Proof. split; [exact update_reject_stores_nothing|exact http_reject_stores_nothing]. Qed.
Print Assumptions C11_reject_stores_nothing_reference_store.

(* ------------------------------------------------------------------ *)
(* round trip *)

(* an accepted upload (gRPC or HTTP) of [a0] — [a] is a0 with the worker filled in —, then any
   history that does not overwrite the key, then a GetActionResult hit: the message returned is
   [expected_transform] of [a] for that request, evaluated on the CAS as it was when the request
   arrived; the store only gained verified blobs; every de-inlined byte string is in the CAS
   under its true digest.  ([L], [GoodCas], [MsgOK]: see Proofs/ActionResult_roundtrip.v — one
   SHA-256 names one byte string; the stored inline contents agree with their digests; sizes
   below 2^62.) *)
Theorem C11_roundtrip :
  forall (L : string -> Z) tdec s0 upload k a later s rq key s' m,
    accepted_upload s0 upload = Some (k, a) ->
    no_later_upload tdec k (fst (ev_step tdec s0 upload)) later ->
    s = ev_run tdec (fst (ev_step tdec s0 upload)) later ->
    GoodCas L s -> MsgOK L a -> g_digest rq = Some key -> hash key = k ->
    get_action_result true tdec s (Some rq) = (s', Ok m) ->
    exists deinlined,
      expected_transform (cas_of s) a rq = (m, deinlined) /\ gext L s s' /\
      Forall (fun gb => fst gb = true_digest (snd gb) /\ Good L (snd gb) /\ cas_has_sha s' (bsha (snd gb))) deinlined.
Proof. exact roundtrip_after_upload. Qed.
Print Assumptions C11_roundtrip.

(* what [accepted_upload] yields is the documented stored value *)
Theorem C11_stored_is_uploaded_with_worker :
  forall s e k a, accepted_upload s e = Some (k, a) ->
    match e with
    | EvUpdate w _ (Some (mkUpd (Some key) (Some ar0))) =>
        k = hash key /\ a = spec_with_worker w ar0 /\ WellFormed ar0
    | EvHttpPut true _ r =>
        k = hp_key r /\ exists ar0, hp_decoded r = Some ar0 /\
          a = spec_with_worker (http_worker (hp_remote r)) ar0 /\ WellFormed ar0
    | _ => False
    end.
Proof. exact accepted_upload_documented. Qed.
Print Assumptions C11_stored_is_uploaded_with_worker.

(* the same for any stored value, however it got there *)
Theorem C11_hit_is_expected_transform :
  forall (L : string -> Z) tdec s rq key stored s' m,
    GoodCas L s -> g_digest rq = Some key -> alookup (hash key) (st_ac s) = Some stored -> MsgOK L stored ->
    get_action_result true tdec s (Some rq) = (s', Ok m) ->
    exists deinlined, expected_transform (cas_of s) stored rq = (m, deinlined) /\ gext L s s' /\
                      deinlined_ok L s' deinlined.
Proof. exact get_hit_is_expected. Qed.
Print Assumptions C11_hit_is_expected_transform.

(* ------------------------------------------------------------------ *)
(* invariants over all histories *)

(* from the empty store, after ANY history of gRPC updates, HTTP PUTs (validation on or off),
   reads with any inline requests, and CAS uploads — valid or malformed, accepted or refused —
   every value under an action key is well formed, and every CAS entry sits under its true digest *)
Theorem C11_stored_always_valid :
  forall tdec (history : list event) k a,
    alookup k (st_ac (ev_run tdec empty_store history)) = Some a ->
    WellFormed a /\ validate (Some a) = Ok tt /\
    Forall (fun hb => bsha (snd hb) = fst hb /\ 0 <= blen (snd hb)) (st_cas (ev_run tdec empty_store history)).
Proof.
  intros tdec h k a H. pose proof (stored_always_valid tdec h k a H) as W.
  split; [exact W|split; [apply validate_complete; exact W|apply cas_always_true]].
Qed.
Print Assumptions C11_stored_always_valid.

(* the JSON and protobuf views agree: what HTTP GET serves (both bodies encode this one message)
   is the stored value, it validates, and GetActionResult without dependency check returns it too *)
Theorem C11_json_proto_agree :
  forall tdec s k m, http_get_ac tdec s k = Ok m ->
    alookup k (st_ac s) = Some m /\ validate (Some m) = Ok tt /\
    forall sz, validate_key k sz = true ->
      get_action_result false tdec s (Some (mkGet (Some (mkDigest k sz)) false false [])) = (s, Ok m).
Proof. exact http_serves_stored. Qed.
Print Assumptions C11_json_proto_agree.

(* the latest accepted upload for a key wins *)
Theorem C11_last_wins :
  forall tdec s before upload after k a,
    accepted_upload (ev_run tdec s before) upload = Some (k, a) ->
    no_later_upload tdec k (fst (ev_step tdec (ev_run tdec s before) upload)) after ->
    alookup k (st_ac (ev_run tdec s (before ++ upload :: after))) = Some a.
Proof. exact last_wins. Qed.
Print Assumptions C11_last_wins.

(* ------------------------------------------------------------------ *)
(* C06 support: the dependency walk of GetValidatedActionResult on validated messages and
   wire-decoded trees meets no nil pointer, and collects [pending]; [referenced] is [pending]
   plus the tree blob of every output directory *)
Theorem C11_dependency_walk :
  forall ar trees,
    validate (Some ar) = Ok tt ->
    pending_files_r (ar_files ar) = Ok (files_without_contents (ar_files ar)) /\
    (forall t, TreeDecoded t -> tree_digests_r t = Ok (tree_file_digests t)) /\
    (forall d, In d (pending ar trees) -> In d (referenced ar trees)) /\
    (forall n d t g, nth_error (somes (ar_dirs ar)) n = Some d -> nth_error trees n = Some t ->
                     od_tree d = Some g -> In g (referenced ar trees)).
Proof.
  intros ar trees V. split; [apply pending_files_valid; exact V|].
  split; [exact tree_digests_r_ok|]. split; [apply pending_incl_referenced|apply tree_digest_referenced].
Qed.
Print Assumptions C11_dependency_walk.

(* ------------------------------------------------------------------ *)
(* Examples: the hypotheses are satisfiable, the statements are not vacuous *)

Definition ex_hA : string := "aaaaaaaaaaaaaaaaaaaaaaaaaaaaaaaaaaaaaaaaaaaaaaaaaaaaaaaaaaaaaaaa".
Definition ex_hB : string := "bbbbbbbbbbbbbbbbbbbbbbbbbbbbbbbbbbbbbbbbbbbbbbbbbbbbbbbbbbbbbbbb".
Definition ex_key : string := "cccccccccccccccccccccccccccccccccccccccccccccccccccccccccccccccc".
Definition ex_bA : bytes := mkBytes 5 ex_hA.
Definition ex_bB : bytes := mkBytes 7 ex_hB.
(* one SHA-256, one byte string *)
Definition ex_L (h : string) : Z := if String.eqb h ex_hA then 5 else if String.eqb h ex_hB then 7 else 0.
(* an output file uploaded inline, stdout inline without digest, one symlink, no metadata *)
Definition ex_ar : action_result :=
  mkAR [Some (mkOF "out/f" (Some (mkDigest ex_hA 5)) true ex_bA)] [] [Some (mkSL "l" "t")] [] [] 0
       ex_bB None no_bytes None None.
Definition ex_upload : event :=
  EvUpdate "worker-7" true (Some (mkUpd (Some (mkDigest ex_key 42)) (Some ex_ar))).

Example C11_wellformed_example : WellFormed ex_ar /\ validate (Some ex_ar) = Ok tt.
Proof. split; [apply validate_sound|]; vm_compute; reflexivity. Qed.

(* upload, then a request that wants stdout inline and the file by digest: stdout stays inline
   (7 bytes of the 3 MiB budget), the file contents are replaced by the digest and are in the CAS *)
Example C11_roundtrip_example :
  let s1 := fst (ev_step [] empty_store ex_upload) in
  let a := spec_with_worker "worker-7" ex_ar in
  let rq := mkGet (Some (mkDigest ex_key 42)) true false [] in
  accepted_upload empty_store ex_upload = Some (ex_key, a) /\
  GoodCas ex_L s1 /\ MsgOK ex_L a /\
  ar_meta a = Some (mkEM "worker-7" 0) /\
  exists s' m, get_action_result true [] s1 (Some rq) = (s', Ok m) /\
    ar_stdout_raw m = ex_bB /\
    ar_files m = [Some (mkOF "out/f" (Some (mkDigest ex_hA 5)) true no_bytes)] /\
    ms_contains s' (mkDigest ex_hA 5) = true /\
    expected_transform (cas_of s1) a rq = (m, [(mkDigest ex_hA 5, ex_bA)]).
Proof.
  cbv zeta. split; [vm_compute; reflexivity|]. split.
  { unfold GoodCas.
    let c := eval vm_compute in (st_cas (fst (ev_step [] empty_store ex_upload))) in
      change (Forall (good_entry ex_L) c).
    repeat constructor; vm_compute; first [reflexivity|discriminate]. }
  split.
  { unfold MsgOK, FieldOK, Good. simpl.
    split; [|split].
    - split; [split; vm_compute; [reflexivity|discriminate]|]. split; [vm_compute; reflexivity|].
      split; [intros g E; discriminate|]. intros _. split; [vm_compute; reflexivity|intros g E; discriminate].
    - split; [split; vm_compute; [reflexivity|discriminate]|]. split; [vm_compute; reflexivity|].
      split; [intros g E; discriminate|]. intros H; vm_compute in H; discriminate.
    - constructor; [|constructor]. intros fv E. inversion E; subst fv. simpl.
      split; [split; vm_compute; [reflexivity|discriminate]|]. split; [vm_compute; reflexivity|].
      split; [intros g E1; inversion E1; subst g; vm_compute; split; [reflexivity|split; [discriminate|reflexivity]]|].
      intros _. split; [vm_compute; reflexivity|]. intros g E1; inversion E1; subst g. split; reflexivity. }
  split; [vm_compute; reflexivity|].
  eexists. eexists. split; [vm_compute; reflexivity|]. repeat split; vm_compute; reflexivity.
Qed.

(* a message whose inline stdout contradicts its digest: the gRPC upload is refused (the CAS Put
   of the bytes fails before the AC Put is reached) and the action cache stays empty; the valid
   file blob put before the failure is in the CAS under its true digest *)
Example C11_reject_example :
  let bad := mkAR (ar_files ex_ar) [] [] [] [] 0 ex_bB (Some (mkDigest ex_hA 5)) no_bytes None None in
  let '(s', ops, r) := update_action_result ms_put "w" true empty_store
                         (Some (mkUpd (Some (mkDigest ex_key 42)) (Some bad))) in
  validate (Some bad) = Ok tt /\ r = Err EInternal /\ st_ac s' = [] /\
  st_cas s' = [(ex_hA, ex_bA)] /\ map is_ac_put ops = [false; false].
Proof. vm_compute. repeat split; reflexivity. Qed.

(* each class of malformed message is refused on both paths and leaves the store as it was *)
Example C11_malformed_examples :
  let key := Some (mkDigest ex_key 42) in
  let bads := [ mkAR [None] [] [] [] [] 0 no_bytes None no_bytes None None;
                mkAR [Some (mkOF "" (Some (mkDigest ex_hA 5)) false no_bytes)] [] [] [] [] 0 no_bytes None no_bytes None None;
                mkAR [Some (mkOF "/abs" (Some (mkDigest ex_hA 5)) false no_bytes)] [] [] [] [] 0 no_bytes None no_bytes None None;
                mkAR [Some (mkOF "f" None false no_bytes)] [] [] [] [] 0 no_bytes None no_bytes None None;
                mkAR [Some (mkOF "f" (Some (mkDigest ex_hA (-1))) false no_bytes)] [] [] [] [] 0 no_bytes None no_bytes None None;
                mkAR [] [] [] [Some (mkOD "d" None)] [] 0 no_bytes None no_bytes None None;
                mkAR [] [] [Some (mkSL "l" "")] [] [] 0 no_bytes None no_bytes None None;
                mkAR [] [] [] [] [] 0 no_bytes (Some (mkDigest "ABC" 3)) no_bytes None None ] in
  forallb (fun bad =>
    let '(s1, ops1, r1) := update_action_result ms_put "w" true empty_store (Some (mkUpd key (Some bad))) in
    let '(s2, ops2, r2) := http_put_ac ms_put true 1000 empty_store
                             (mkHP ex_key 10 None "" false "10.0.0.1:9" (mkBytes 10 ex_hB) None (Some bad)) in
    negb (is_ok r1) && negb (is_ok r2) && match ops1, ops2, st_ac s1, st_ac s2 with [], [], [], [] => true | _, _, _, _ => false end)
    bads = true.
Proof. vm_compute. reflexivity. Qed.

(* last upload wins, across the two front ends *)
Example C11_last_wins_example :
  let second := mkAR [] [] [] [] [] 3 no_bytes None no_bytes None (Some (mkEM "named" 9)) in
  let put := EvHttpPut true 1000 (mkHP ex_key 10 None "" true "10.0.0.1:9" (mkBytes 10 ex_hB) None (Some second)) in
  let s := ev_run [] empty_store [ex_upload; put; EvGet true (Some (mkGet (Some (mkDigest ex_key 42)) false false []))] in
  alookup ex_key (st_ac s) = Some second /\ http_get_ac [] s ex_key = Ok second.
Proof. vm_compute. split; reflexivity. Qed.

(* Observations recorded as examples (see the report):
   1. the validator accepts a digest of size 0 whose hash is not the empty blob's (no blob can
      ever match it; the key check validateHash refuses the same shape);
   2. inline bytes whose declared digest is the EMPTY blob's: disk.Put now reads one byte and
      refuses data declared to be the empty blob, so the gRPC upload is rejected (bad request) and
      stores nothing — like every other contents/digest mismatch.  HTTP PUT never looks at inlined
      blobs, so it still accepts such a message (as it accepts any inconsistent one); for THIS
      digest a later gRPC read that does not inline still drops the bytes, because maybeInline's
      Contains check short-cuts the empty digest. *)
Example C11_zero_size_digest_accepted :
  validate (Some (mkAR [Some (mkOF "f" (Some (mkDigest ex_hA 0)) false no_bytes)] [] [] [] [] 0 no_bytes None no_bytes None None)) = Ok tt
  /\ validate_key ex_hA 0 = false.
Proof. vm_compute. split; reflexivity. Qed.

Example C11_empty_digest_inline_rejected_grpc :
  let odd := mkAR [] [] [] [] [] 0 ex_bB (Some (mkDigest emptySha 0)) no_bytes None None in
  let '(s1, ops, r) := update_action_result ms_put "w" true empty_store (Some (mkUpd (Some (mkDigest ex_key 42)) (Some odd))) in
  validate (Some odd) = Ok tt /\ r = Err EBadRequest /\ s1 = empty_store /\ map is_ac_put ops = [false].
Proof. vm_compute. repeat split; reflexivity. Qed.

Example C11_empty_digest_inline_http_residual :
  let odd := mkAR [] [] [] [] [] 0 ex_bB (Some (mkDigest emptySha 0)) no_bytes None None in
  let '(s1, ops, r) := http_put_ac ms_put true 1000 empty_store
                         (mkHP ex_key 10 None "" false "10.0.0.1:9" (mkBytes 10 ex_hA) None (Some odd)) in
  let '(s2, g) := get_action_result true [] s1 (Some (mkGet (Some (mkDigest ex_key 42)) false false [])) in
  r = Ok tt /\ st_cas s2 = [] /\
  match g with Ok m => ar_stdout_raw m = no_bytes /\ ar_stdout_digest m = Some (mkDigest emptySha 0) | _ => False end.
Proof. vm_compute. repeat split; reflexivity. Qed.
