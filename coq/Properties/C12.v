(* Properties/C12.v — "Proxy backend: faithful read-through, faults degrade to miss or error" at the
   level of the disk cache (Model/Disk.v; the backend is an arbitrary environment: for each request
   the column [b : bget] says what it does — error, miss, or an object with an announced size, a true
   length, the number of bytes actually delivered, whether the stream then errs, and the logical size
   its header states).  Only statements, each closed by an already proved lemma. *)
From BR Require Import Base.Prelude Model.LRU Proofs.LRU_inv Model.Disk Proofs.Disk_ack
  Proofs.Disk_fun_fm Proofs.Disk_fun_put Proofs.Disk_fun_get.
Open Scope Z_scope.

(* For EVERY backend behaviour: a hit for a key that was not in the local index (other than the
   empty blob) means the backend delivered an object that passed every check — clean end of stream,
   announced size within the limit and compatible with the request, bytes on disk exactly the
   announced ones (raw) or a complete blob whose header states the announced size (compressed CAS) —
   and it is reported with that size and served from those bytes.  So every fault (error, miss, short
   or erroring stream, wrong or unknown size, oversize) can only give a miss or an error. *)
Theorem C12_faults_safe : forall c d k hash sz off zstd b rnd d' s cid flen,
  peek (lookup_key k hash) (lru d) = None ->
  exec c d (RGet k hash sz off zstd b rnd) = (d', Some (GetHit s cid flen)) ->
  (get_shortcut k hash sz /\ s = 0 /\ cid = 0 /\ flen = 0) \/
  (exists claimed full delivered cid' logical,
     b = BFound claimed full delivered false cid' logical /\ fetch_good c k sz claimed b /\
     s = claimed /\ cid = cid' /\ flen = delivered /\ c_proxy c = true /\ sz <= c_maxproxy c).
Proof. exact get_faults_safe. Qed.
Print Assumptions C12_faults_safe.

(* … and under every interleaving a backend object is committed to the cache only after validation *)
Theorem C12_commit_validated : forall c mx hd ls t k hash sz off zstd b rnd cl od f,
  In t (thr (srun c (sinit mx hd) ls)) -> t_req t = RGet k hash sz off zstd b rnd ->
  t_pc t = GetCommit cl od f -> fetch_good c k sz cl b.
Proof. exact fetch_commit_sound. Qed.
Print Assumptions C12_commit_validated.

(* Read-through: an object the backend holds, announces truthfully and delivers completely, within
   the limits and with room in the cache ([read_through_ok] lists the conditions), is served with its
   announced size and content, and indexed with its file in place … *)
Theorem C12_read_through : forall c d k hash sz off zstd claimed full cid logical rnd,
  Inv (lru d) -> read_through_ok c d k hash sz off zstd claimed full cid logical rnd ->
  exists d',
    exec c d (RGet k hash sz off zstd (BFound claimed full full false cid logical) rnd)
      = (d', Some (GetHit claimed cid full)) /\
    Inv (lru d') /\
    peek (lookup_key k hash) (lru d') = Some (mkItem claimed full rnd (get_legacy c k)) /\
    files d' = mkFile (get_path c k hash claimed rnd) cid full true logical :: files d /\
    handed d' = handed d /\ res (lru d') = res (lru d).
Proof. exact get_read_through. Qed.
Print Assumptions C12_read_through.

(* … so that a second read is a local hit with the same content, whatever the backend does then *)
Theorem C12_read_through_cached : forall c d k hash sz off zstd claimed full cid logical rnd d' b2 rnd2,
  Inv (lru d) -> read_through_ok c d k hash sz off zstd claimed full cid logical rnd ->
  exec c d (RGet k hash sz off zstd (BFound claimed full full false cid logical) rnd)
    = (d', Some (GetHit claimed cid full)) ->
  exists d2, exec c d' (RGet k hash sz off zstd b2 rnd2) = (d2, Some (GetHit claimed cid full)) /\
             files d2 = files d' /\ forall k', peek k' (lru d2) = peek k' (lru d').
Proof. exact get_read_through_cached. Qed.
Print Assumptions C12_read_through_cached.

(* No poison: a fetch that ends in a miss or an error leaves no trace — no key becomes present, the
   reservation is returned, directory and backend queue are as before. *)
Theorem C12_no_poison : forall c d k hash sz off zstd b rnd d' r,
  Inv (lru d) -> bget_ok b ->
  peek (lookup_key k hash) (lru d) = None ->
  exec c d (RGet k hash sz off zstd b rnd) = (d', Some r) ->
  (r = GetMiss \/ exists e, r = GetErr e) ->
  Inv (lru d') /\ res (lru d') = res (lru d) /\ files d' = files d /\ handed d' = handed d /\
  (forall k', peek k' (lru d) = None -> peek k' (lru d') = None).
Proof. exact get_no_poison. Qed.
Print Assumptions C12_no_poison.

(* Every outcome of a fetch for a locally absent key, with the resulting state. *)
Theorem C12_fetch_outcomes : forall c d k hash sz off zstd b rnd d' r,
  Inv (lru d) -> bget_ok b -> get_guard k hash sz off zstd = None ->
  peek (lookup_key k hash) (lru d) = None ->
  exec c d (RGet k hash sz off zstd b rnd) = (d', r) ->
  (c_proxy c && (sz <=? c_maxproxy c) = false /\ d' = d /\ r = Some GetMiss) \/
  (c_proxy c = true /\ sz <= c_maxproxy c /\
   ((0 < sz /\ exists e, snd (LRU.reserve sz (lru d)) = Err e /\
               d' = mkD (reserved_index d sz) (files d) (handed d) /\ r = Some (GetErr e)) \/
    ((0 < sz -> snd (LRU.reserve sz (lru d)) = Ok tt) /\ fetch_outcome c d k hash sz b rnd d' r))).
Proof. exact get_absent_spec. Qed.
Print Assumptions C12_fetch_outcomes.

(* Hand-off of uploads: exactly one record (key, logical size, size on disk) is appended to the
   backend queue, and exactly when a backend is configured and the upload's file is complete and
   verified — before the commit, hence also when the commit is then refused; never otherwise. *)
Theorem C12_handoff_once : forall c d k hash sz st rnd d' r,
  Inv (lru d) -> 0 <= st_ondisk st ->
  exec c d (RPut k hash sz st rnd) = (d', r) ->
  (put_reaches_handoff c d k hash sz st rnd /\ c_proxy c = true /\
   handed d' = handed d ++ [(lookup_key k hash, sz, put_od c k sz st)]) \/
  (~ (put_reaches_handoff c d k hash sz st rnd /\ c_proxy c = true) /\ handed d' = handed d).
Proof. exact put_handoff. Qed.
Print Assumptions C12_handoff_once.

Theorem C12_ack_handed_off : forall c d k hash sz st rnd d',
  Inv (lru d) -> 0 <= st_ondisk st ->
  exec c d (RPut k hash sz st rnd) = (d', Some PutOk) -> ~ empty_shortcut k hash sz ->
  handed d' = handed d ++ (if c_proxy c then [(lookup_key k hash, sz, put_od c k sz st)] else []).
Proof. exact put_ack_handoff. Qed.
Print Assumptions C12_ack_handed_off.

(* reads never hand anything off *)
Theorem C12_reads_hand_off_nothing : forall c d k hash sz off zstd b rnd d' r,
  Inv (lru d) -> (b = BMiss \/ c_proxy c = false) ->
  exec c d (RGet k hash sz off zstd b rnd) = (d', r) -> handed d' = handed d.
Proof. exact get_local_handed. Qed.
Print Assumptions C12_reads_hand_off_nothing.

(* Non-vacuity.  Compressed mode, a backend object of logical size 3000 stored in 1200 bytes:
   delivered completely it is served and cached (second read local, backend erring); every fault
   gives miss/error and leaves index, reservation and directory untouched; an upload is handed off
   once even though its commit is refused (item larger than the cache). *)
Example C12_example :
  let ha := string_of_list_ascii (repeat "a"%char 64) in
  let c := mkCfg true 1000000 100000 true in
  let d := dinit 65536 0 in
  let good := BFound 3000 1200 1200 false 9 3000 in
  (Inv (lru d) /\ read_through_ok c d CAS ha 3000 0 false 3000 1200 9 3000 "g") /\
  snd (exec c d (RGet CAS ha 3000 0 false good "g")) = Some (GetHit 3000 9 1200) /\
  snd (exec c (fst (exec c d (RGet CAS ha 3000 0 false good "g"))) (RGet CAS ha 3000 0 false BErr "g2")) = Some (GetHit 3000 9 1200) /\
  (forall bad, In bad [BErr; BMiss; BFound 3000 1200 700 false 9 3000; BFound 3000 1200 1200 true 9 3000;
                       BFound 3000 1200 1200 false 9 2999; BFound 2999 1200 1200 false 9 2999; BFound (-1) 1200 1200 false 9 3000;
                       BFound 100001 1200 1200 false 9 100001] ->
     (snd (exec c d (RGet CAS ha 3000 0 false bad "g")) = Some GetMiss \/
      snd (exec c d (RGet CAS ha 3000 0 false bad "g")) = Some (GetErr EInternal)) /\
     files (fst (exec c d (RGet CAS ha 3000 0 false bad "g"))) = [] /\
     LRU.stats (lru (fst (exec c d (RGet CAS ha 3000 0 false bad "g")))) = (0, 0, 0, 0)) /\
  (let r := exec (mkCfg false 1000000 100000 true) d (RPut CAS ha 60000 (mkStream 3 60000 false true 60000) "p") in
   snd r = Some PutOk /\ handed (fst r) = [(lookup_key CAS ha, 60000, 60000)]) /\
  (let r := exec (mkCfg true 1000000 100000 true) d (RPut CAS ha 60000 (mkStream 3 60000 false true 70000) "p") in
   snd r = Some (PutErr EInternal) /\ handed (fst r) = [(lookup_key CAS ha, 60000, 70000)] /\ files (fst r) = []).
Proof.
  cbv zeta. split.
  - split; [apply init_inv; lia|]. constructor.
    + vm_compute; reflexivity.
    + reflexivity.
    + reflexivity.
    + cbn; lia.
    + cbn; lia.
    + vm_compute; reflexivity.
    + lia.
    + vm_compute; reflexivity.
    + reflexivity.
    + intros _. cbn. lia.
    + vm_compute. discriminate.
  - split; [vm_compute; reflexivity|]. split; [vm_compute; reflexivity|]. split.
    + intros bad [<-|[<-|[<-|[<-|[<-|[<-|[<-|[<-|[]]]]]]]]]; vm_compute; (split; [|split; reflexivity]);
        first [left; reflexivity|right; reflexivity].
    + vm_compute. repeat split; reflexivity.
Qed.
