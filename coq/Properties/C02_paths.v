(* Properties/C02_paths.v — C02, the front-end part: which Get / GetZstd call each read path makes and
   how the outcome becomes status, reported size and delivered bytes (Model/Front.v): ByteStream.Read's
   offset and limit rules and its send loop, the sizes the replies report, and the empty blob on every
   read path from any cache state.  That the bytes behind a hit are the stored ones at the right
   offset is the byte-level part of C02 (Model/Casblob.v) and the disk-level part (Model/Disk.v).
   Only statements, each closed by an already proved lemma, with Print Assumptions beneath. *)
From BR Require Import Base.Prelude Gen.Front Model.LRU Model.Disk Model.Front
  Proofs.Front_base Proofs.Front_read Proofs.Front_mode Proofs.Front_examples Bridge.Bridge_Front.
Open Scope Z_scope.

(* C02_limit: with a non-zero read_limit L at most L bytes are delivered, whatever sizes the reader
   hands back, on blobs/ (on compressed-blobs/ a non-zero limit is refused before anything is sent) *)
Theorem C02_limit :
  forall c d name off limit reads d' r,
    bs_read c d name off limit reads = (d', r) -> 0 < limit -> nonneg reads -> rd_len r <= limit.
Proof. exact bs_read_limit. Qed.
Print Assumptions C02_limit.

(* the send loop itself: what is sent is a prefix of what the reader produced; never more than the
   limit; a limit covering everything changes nothing; a shorter one ends in OutOfRange, not a short OK *)
Theorem C02_send_loop :
  (forall limited reads remaining sent, exists k,
     fst (send_loop limited remaining reads sent) = sent + total (firstn k reads)) /\
  (forall reads remaining sent, nonneg reads -> 0 <= remaining ->
     fst (send_loop true remaining reads sent) - sent <= remaining) /\
  (forall reads remaining sent, send_loop false remaining reads sent = (sent + total reads, SOk)) /\
  (forall reads remaining sent, nonneg reads -> total reads <= remaining ->
     send_loop true remaining reads sent = (sent + total reads, SOk)) /\
  (forall reads remaining sent, nonneg reads -> 0 <= remaining -> total reads > remaining ->
     snd (send_loop true remaining reads sent) = SErr EOutOfRange).
Proof.
  split; [exact send_loop_prefix|]. split; [exact send_loop_limit|]. split; [exact send_loop_unlimited|].
  split; [exact send_loop_enough|exact send_loop_short].
Qed.
Print Assumptions C02_send_loop.

(* C02_offset_range: a successful ByteStream.Read of a non-empty blob was asked for an offset inside
   the blob, delivers everything from there on (compressed-blobs: n - offset logical bytes; blobs:
   all the reader produced), and the limit rules held *)
Theorem C02_offset_range :
  forall c d zstd hash n off limit reads d' r,
    bs_read c d (RN zstd hash n) off limit reads = (d', r) -> rd_st r = SOk -> n <> 0 ->
    0 <= off < n /\ 0 <= limit /\ (zstd = true -> limit = 0) /\
    (if zstd then rd_len r = n - off else rd_len r = total reads).
Proof.
  intros c d z hash n off lim reads d' r H HS HN.
  destruct (bs_read_ok_offset _ _ _ _ _ _ _ _ _ _ H HS HN) as (A & B & C).
  split; [exact A|]. split; [exact B|]. split; [exact C|]. exact (bs_read_ok_length _ _ _ _ _ _ _ _ _ _ H HS HN).
Qed.
Print Assumptions C02_offset_range.

(* the edges, with their exact statuses: offset beyond the blob -> OutOfRange; negative -> InvalidArgument;
   offset = n of a non-empty blob is REFUSED (by disk.get), not answered with an empty OK *)
Theorem C02_offset_edges :
  (forall c d z hash n off limit reads,
     0 < n -> validate_hash hash n = true -> 0 <= limit -> (z = true -> limit = 0) -> off > n ->
     bs_read c d (RN z hash n) off limit reads = (d, rd_err EOutOfRange)) /\
  (forall c d z hash n off limit reads,
     0 < n -> validate_hash hash n = true -> off < 0 ->
     bs_read c d (RN z hash n) off limit reads = (d, rd_err EBadRequest)) /\
  (forall c d z hash n limit reads,
     0 < n -> validate_hash hash n = true -> 0 <= limit -> (z = true -> limit = 0) ->
     exists e, bs_read c d (RN z hash n) n limit reads = (d, rd_err e)).
Proof. split; [exact bs_read_offset_beyond|]. split; [exact bs_read_negative|exact bs_read_offset_at_end]. Qed.
Print Assumptions C02_offset_edges.

(* C02_size_reported: wherever a reply states a size it is the size of what it delivers *)
Theorem C02_size_reported :
  (forall c d hash d' r, http_get c d hash false = (d', r) -> rd_st r = SOk -> rd_reported r = Some (rd_len r)) /\
  (forall c d hash n zstd d' r, batch_read_one c d hash n zstd = (d', r) -> rd_st r = SOk ->
     rd_reported r = Some n /\ rd_len r = n).
Proof. split; [exact http_get_reports|exact batch_read_one_reports]. Qed.
Print Assumptions C02_size_reported.

(* C02_empty: the empty blob is readable on every path from ANY state d — in particular the empty
   cache — and reading it changes nothing *)
Theorem C02_empty :
  forall c d,
    (forall zstd, http_get c d emptySha256 zstd = (d, mkRd SOk (if zstd then None else Some 0) 0 0)) /\
    http_head c d emptySha256 = (d, SOk, 0) /\
    (forall zstd, batch_read c d [(emptySha256, 0)] zstd [] = (d, SOk, [mkRd SOk (Some 0) 0 0])) /\
    (forall zstd off limit reads, bs_read c d (RN zstd emptySha256 0) off limit reads = (d, mkRd SOk None 0 0)) /\
    (forall table, get_tree c d (emptySha256, 0) table = (d, SOk, [0])) /\
    inline_read c d (Some (emptySha256, 0)) = (d, Ok None).
Proof.
  intros c d. split; [intros z; apply empty_http_get|]. split; [apply empty_http_head|].
  split; [intros z; apply empty_batch_read|]. split; [intros; apply empty_bs_read|].
  split; [intros; apply empty_get_tree|apply empty_inline_read].
Qed.
Print Assumptions C02_empty.

(* C02 across storage modes (writer mode x reader mode): the answer of every read path is the same
   whatever storage mode the cache is RUNNING in.  The on-disk format of an entry is a property of
   the entry (the [legacy] flag of its index item / the .v1 file name), fixed when it was written;
   Get, GetZstd and Contains follow that flag (Model/Disk.v GetValidate; the source text of
   availableOrTryProxy with `if item.legacy {` is pinned by Bridge_Disk), never the current mode.  So
   a directory written under one --storage_mode is served with the same status, reported size, content
   and length after a restart under the other ([set_mode]: same limits, other mode; [d]: ANY state). *)
Theorem C02_cross_mode_reads :
  forall c running_zstd d, c_proxy (fc_disk c) = false ->
    (forall hash zstd, http_get (set_mode running_zstd c) d hash zstd = http_get c d hash zstd) /\
    (forall hash, http_head (set_mode running_zstd c) d hash = http_head c d hash) /\
    (forall ds zstd, batch_read (set_mode running_zstd c) d ds zstd [] = batch_read c d ds zstd []) /\
    (forall name off limit reads, bs_read (set_mode running_zstd c) d name off limit reads = bs_read c d name off limit reads) /\
    (forall root table, get_tree (set_mode running_zstd c) d root table = get_tree c d root table) /\
    (forall digest, inline_read (set_mode running_zstd c) d digest = inline_read c d digest).
Proof.
  intros c z d H.
  split; [intros; apply http_get_mode; exact H|]. split; [intros; apply http_head_mode; exact H|].
  split; [intros; apply batch_read_mode; exact H|]. split; [intros; apply bs_read_mode; exact H|].
  split; [intros; apply get_tree_mode; exact H|intros; apply inline_read_mode; exact H].
Qed.
Print Assumptions C02_cross_mode_reads.

(* the chunk size of the send loop and the constants the model uses are the source's *)
Theorem C02_constants_pinned :
  Gen.Front.front_maxChunkSize = Model.Front.maxChunkSize /\ Model.Front.maxChunkSize = 2097152.
Proof. split; [exact maxChunkSize_pinned|reflexivity]. Qed.
Print Assumptions C02_constants_pinned.

(* non-vacuity: a 5000-byte blob read through every path at several offsets and limits, in both
   storage modes, including the refused offset = n, a limit one byte short, and GetTree *)
Example C02_paths_example :
  run_ops (wired true 100000) store0 reads_ops = reads_expected /\
  run_ops (wired false 100000) store0 reads_ops = reads_expected.
Proof. exact reads_served. Qed.

(* non-vacuity of the cross-mode statement: two blobs written under one mode (through HTTP PUT and a
   zstd batch entry), read through every path; restart under the other mode: same answers; a third
   blob written there; restart back: same answers again and all three present — in both directions *)
Example C02_paths_example_cross_mode :
  run_ops (wired true 100000) store0 (cross_mode true false) = cross_mode_expected /\
  run_ops (wired false 100000) store0 (cross_mode false true) = cross_mode_expected.
Proof. exact cross_mode_served. Qed.
