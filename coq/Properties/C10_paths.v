(* Properties/C10_paths.v — C10 on the gRPC front end (Model/Front.v [find_missing_b] = the handler
   grpcServer.FindMissingBlobs): "FindMissingBlobs reports exactly the absent digests".
   Only statements, each closed by an already proved lemma, with Print Assumptions beneath.

   The handler checks every digest (non-nil, validateHash) and then hands the request's OWN digest
   list to the disk layer and returns its answer as it is — pinned as source text below, so that a
   de-duplication, a filter or a reordering between the two breaks an obligation.  Composed with the
   disk-level theorem (Properties/C10.v, C10_exact) the reply is exactly the sub-list of the request
   of the digests that are not present: order and multiplicity are the request's. *)
From Coq Require Import Permutation.
From BR Require Import Base.Prelude Gen.Front Model.LRU Proofs.LRU_inv Model.Disk Proofs.Disk_fun_fm Model.Front
  Proofs.Front_fm Bridge.Bridge_Front.
Open Scope list_scope.
Open Scope Z_scope.

(* for every request list (any length, duplicates, same hash under several sizes, the empty digest),
   every cache state, with or without a backend and for every answer column of the backend: the reply
   is [fm_answer] = the request's digests that are neither local with that size nor vouched for by
   the backend within max_proxy_blob_size (C10_present_meaning), in request order, duplicates kept;
   the lookups leave contents, accounting and backlog alone (only the recency order is touched) *)
Theorem C10_paths_exact :
  forall c d ds bs, Inv (lru d) -> all_valid ds = true ->
    exists d',
      find_missing_b c d ds bs = (d', SOk, fm_answer (fc_disk c) (lru d) ds bs) /\
      Inv (lru d') /\ (forall k, peek k (lru d') = peek k (lru d)) /\ files d' = files d /\
      cur (lru d') = cur (lru d) /\ res (lru d') = res (lru d) /\ evq (lru d') = evq (lru d) /\
      Permutation (order (lru d')) (order (lru d)).
Proof. exact find_missing_b_exact. Qed.
Print Assumptions C10_paths_exact.

(* the reply is a sub-list of the request: a mask over the request's positions — nothing invented,
   nothing moved, each occurrence decided on its own *)
Theorem C10_paths_sublist_of_request :
  forall c l ds bs, exists keep : list bool, List.length keep = List.length ds /\
    fm_answer c l ds bs = map fst (filter snd (combine ds keep)).
Proof. exact fm_answer_sublist. Qed.
Print Assumptions C10_paths_sublist_of_request.

(* one malformed digest (hash not 64 lower-case hex digits, or size 0 under a non-empty hash) fails
   the whole call with InvalidArgument before anything is looked up *)
Theorem C10_paths_malformed_refused :
  forall c d ds bs, all_valid ds = false -> find_missing_b c d ds bs = (d, bad, []).
Proof. exact find_missing_b_invalid. Qed.
Print Assumptions C10_paths_malformed_refused.

(* the handler, as source text *)
Theorem C10_paths_handler_pinned :
  Gen.Front.front_FindMissingBlobs_src = expected_FindMissingBlobs_src /\
  Gen.Front.front_FindMissingBlobs_calls = ["FindMissingCasBlobs(req.BlobDigests)"]%string.
Proof. split; [exact FindMissingBlobs_src_pinned|exact FindMissingBlobs_calls_pinned]. Qed.
Print Assumptions C10_paths_handler_pinned.

(* non-vacuity: one local blob (ha/5), a backend holding hb/7 and the oversize hc/200 (limit 100);
   45 digests over three batches with duplicates across the boundary, the same hash under two sizes,
   and the empty digest: the reply keeps every absent occurrence, in order *)
Example C10_paths_example :
  let ha := string_of_list_ascii (repeat "a"%char 64) in
  let hb := string_of_list_ascii (repeat "b"%char 64) in
  let hc := string_of_list_ascii (repeat "c"%char 64) in
  let hd := string_of_list_ascii (repeat "d"%char 64) in
  let c := wired_proxy true 1000000 100 in
  let ds := repeat (hd, 9) 19 ++ [(ha, 5); (ha, 5); (ha, 6); (hb, 7); (emptySha256, 0); (hc, 200); (hb, 8)] ++ repeat (hd, 9) 19 in
  let bs := repeat BHasNo 19 ++ [BHasNo; BHasNo; BHasNo; BHasYes 7; BHasNo; BHasYes 200; BHasNo] ++ repeat BHasNo 19 in
  run_ops c store0 [FBatchUpdate [mkBU false ha 5 CIdentity (mkBody 1 5 true true) "r1"]; FFindMissingB ds bs;
                    FFindMissingB [(ha, 5); ("XYZ"%string, 3)] []; FFindMissingB [] []]
  = [OSts SOk [SOk]; OMiss (repeat (hd, 9) 19 ++ [(ha, 6); (hc, 200); (hb, 8)] ++ repeat (hd, 9) 19); OSt bad; OMiss []].
Proof. vm_compute. reflexivity. Qed.
