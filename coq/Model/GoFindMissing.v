(* Model/GoFindMissing.v — the run-time the TRANSLATED findmissing.go (Gen/FindMissingSrc.v) executes on.

   Gen/FindMissingSrc.v is regenerated from /repo/cache/disk/findmissing.go on every run by
   tools/go2coq (gen_findmissing.go), statement by statement.  This file is hand-written and small:
   the meaning of the Go constructs the translated code uses —

     []*pb.Digest        list (option digest); a nil pointer is None, a digest is (Hash, SizeBytes)
     blobs[i]            slice_get  (Panic when i is out of range)
     blobs[i] = p        slice_set  (in place: the new slice value is threaded on and RETURNED by the
                         translated function, because the caller sees the writes)
     p.Hash, p.SizeBytes digest_Hash / digest_SizeBytes  (Panic on a nil pointer: NOT totalised)
     blobs[:n]           slice_to   (Panic when n is negative or larger than len; the capacity is not
                         modelled, so a re-slice beyond len, legal in Go up to cap, counts as a panic)
     for i := range s    range_loop (len s) 0 ..   — the length is read once, as Go does
     for i := 0; i < len(s); i++   the same combinator; the translator checks that the body neither
                         assigns i nor re-binds s (a slice cannot change length through s[j] = x)
     continue / return   Next / Return of Model/GoLRU.ctl
     c.lru.Get           Gen/LRUSrc.LRUSrc_Get over Model/GoLRU.gst ([c] stands for c.lru)
     c.mu.Lock/Unlock, c.accessLogger.Printf     dropped

   Proofs/FindMissing_refine.v proves the translated functions compute what Model/Disk.v's
   [fm_local] (the model C10/C05 are about) computes. *)
From BR Require Import Base.Prelude Model.LRU Model.GoLRU.
Open Scope Z_scope.

Definition digest := (string * Z)%type.           (* Hash, SizeBytes *)
Definition digest_ptr := option digest.

Definition rbind {A B} (r : result A) (k : A -> result B) : result B :=
  match r with Ok a => k a | Err e => Err e | Panic m => Panic m | Hang m => Hang m end.

Definition slice_get {A} (l : list A) (i : Z) : result A :=
  if i <? 0 then Panic "index out of range"
  else match nth_error l (Z.to_nat i) with Some x => Ok x | None => Panic "index out of range" end.

Fixpoint list_set {A} (l : list A) (n : nat) (x : A) : option (list A) :=
  match l, n with
  | [], _ => None
  | _ :: t, O => Some (x :: t)
  | y :: t, S m => match list_set t m x with Some t' => Some (y :: t') | None => None end
  end.

Definition slice_set {A} (l : list A) (i : Z) (x : A) : result (list A) :=
  if i <? 0 then Panic "index out of range"
  else match list_set l (Z.to_nat i) x with Some l' => Ok l' | None => Panic "index out of range" end.

Definition slice_to {A} (l : list A) (n : Z) : result (list A) :=
  if (n <? 0) || (n >? Z.of_nat (List.length l)) then Panic "slice bounds out of range"
  else Ok (firstn (Z.to_nat n) l).

Definition deref (p : digest_ptr) : result digest :=
  match p with Some d => Ok d | None => Panic "nil pointer dereference" end.
Definition digest_Hash (p : digest_ptr) : result string := rbind (deref p) (fun d => Ok (fst d)).
Definition digest_SizeBytes (p : digest_ptr) : result Z := rbind (deref p) (fun d => Ok (snd d)).

Definition is_nil {A} (p : option A) : bool := match p with None => true | Some _ => false end.

(* a loop over the indices 0 .. n-1 *)
Fixpoint range_loop {S R : Type} (n : nat) (i : Z) (body : Z -> S -> result (ctl S R)) (s : S)
  : result (ctl S R) :=
  match n with
  | O => Ok (Next s)
  | Datatypes.S m =>
      match body i s with
      | Ok (Next s') => range_loop m (i + 1) body s'
      | r => r
      end
  end.

(* what follows a loop: a `return` inside it ends the function *)
Definition loop_then {S R} (r : result (ctl S R)) (k : S -> result R) : result R :=
  match r with
  | Ok (Next s) => k s
  | Ok (Return x) => Ok x
  | Err e => Err e
  | Panic m => Panic m
  | Hang m => Hang m
  end.
