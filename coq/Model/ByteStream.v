(* Model/ByteStream.v — ByteStream resource names, the Write upload protocol and QueryWriteStatus
   (C16).  Executable definitions only.

   Anchors in /repo: server/grpc_bytestream.go (parseReadResource, parseWriteResource, Write,
   QueryWriteStatus), server/grpc.go (validateHash), cache/disk/disk.go (Contains: the empty blob). *)
From BR Require Import Base.Prelude Model.Keys.
Open Scope string_scope.
Open Scope Z_scope.

Definition cmp_identity : Z := 0.      (* casblob.Identity *)
Definition cmp_zstd : Z := 1.          (* casblob.Zstandard *)

(* ------------------------------------------------------------------ *)
(* strconv.ParseInt(s, 10, 64): optional sign, at least one decimal digit, nothing else,
   value within int64 (out of range is an error as well) *)

Definition digit_val (c : ascii) : option Z :=
  let n := Z.of_N (N_of_ascii c) in
  if (48 <=? n) && (n <=? 57) then Some (n - 48) else None.

Fixpoint digits_val (s : string) (acc : Z) : option Z :=
  match s with
  | "" => Some acc
  | String c t => match digit_val c with Some d => digits_val t (acc * 10 + d) | None => None end
  end.

Definition parse_int64 (s : string) : option Z :=
  match s with
  | "" => None
  | String c t =>
      let neg := Ascii.eqb c "-" in
      let body := if Ascii.eqb c "+" || neg then t else s in
      match body with
      | "" => None
      | _ => match digits_val body 0 with
             | None => None
             | Some v => let v' := if neg then - v else v in
                         if (- two63 <=? v') && (v' <? two63) then Some v' else None
             end
      end
  end.

(* ------------------------------------------------------------------ *)
(* resource names *)

(* the fields after the first field satisfying kw (with the keyword found), or None *)
Fixpoint after_first (kw : string -> bool) (fields : list string) : option (string * list string) :=
  match fields with
  | [] => None
  | f :: r => if kw f then Some (f, r) else after_first kw r
  end.

Definition lift_validate {A} (hash : string) (size : Z) (a : A) : result A :=
  match validate_hash hash size with
  | Ok _ => Ok a | Err e => Err e | Panic s => Panic s | Hang s => Hang s
  end.

Definition parse_size_hash (hash sizestr : string) (cmp : Z) : result (string * Z * Z) :=
  match parse_int64 sizestr with
  | None => Err EBadRequest
  | Some size => if size <? 0 then Err EBadRequest else lift_validate hash size (hash, size, cmp)
  end.

(* parseWriteResource: [{instance}/]uploads/{uuid}/blobs/{hash}/{size}[/{metadata}]
                    or [{instance}/]uploads/{uuid}/compressed-blobs/zstd/{hash}/{size}[/{metadata}] *)
Definition parse_write_fields (fields : list string) : result (string * Z * Z) :=
  match after_first (String.eqb "uploads") fields with
  | Some (_, _uuid :: r1 :: r2 :: r3 :: rest) =>
      if String.eqb r1 "blobs" then parse_size_hash r2 r3 cmp_identity
      else match rest with
           | r4 :: _ => if String.eqb r1 "compressed-blobs" && String.eqb r2 "zstd"
                        then parse_size_hash r3 r4 cmp_zstd else Err EBadRequest
           | [] => Err EBadRequest
           end
  | _ => Err EBadRequest
  end.
Definition parse_write_resource (name : string) : result (string * Z * Z) :=
  parse_write_fields (split_slash name).

(* parseReadResource: [{instance}]/blobs/{hash}/{size}  or
                      [{instance}]/compressed-blobs/zstd/{hash}/{size}  (nothing may follow) *)
Definition parse_read_fields (fields : list string) : result (string * Z * Z) :=
  match after_first (fun f => String.eqb f "blobs" || String.eqb f "compressed-blobs") fields with
  | Some (kw, rem) =>
      if String.eqb kw "blobs" then
        match rem with [hash; sz] => parse_size_hash hash sz cmp_identity | _ => Err EBadRequest end
      else
        match rem with
        | [c; hash; sz] => if String.eqb c "zstd" then parse_size_hash hash sz cmp_zstd else Err EBadRequest
        | _ => Err EBadRequest
        end
  | None => Err EBadRequest
  end.
Definition parse_read_resource (name : string) : result (string * Z * Z) :=
  parse_read_fields (split_slash name).

(* ------------------------------------------------------------------ *)
(* presence, as Contains(CAS, hash, size) answers it for a validated (hash, size):
   [present] = a blob with this hash and this size is in the cache (or its proxy);
   the empty blob is always there *)
Definition contains (present : bool) (hash : string) (size : Z) : bool :=
  ((size <=? 0) && String.eqb hash emptySha256) || present.

(* Write returns early for a blob that is already there — except for the empty digest, which always
   "exists": such an upload goes through the normal protocol so that Put can refuse data sent for it *)
Definition is_empty_digest (hash : string) (size : Z) : bool := (size =? 0) && String.eqb hash emptySha256.
Definition early_return (present : bool) (hash : string) (size : Z) : bool :=
  contains present hash size && negb (is_empty_digest hash size).

(* ------------------------------------------------------------------ *)
(* ByteStream.Write.  A request message, reduced to what the handler looks at. *)

Record wmsg := mkMsg { m_name : string; m_off : Z; m_len : Z; m_fin : bool }.

(* how the receiving goroutine ends (assuming its writes into the pipe succeed) *)
Inductive recv_end :=
| REarly (e : errc)             (* recvResult <- error before any Put was started *)
| RExists (cs : Z)              (* putResult <- io.EOF: the blob is already there *)
| RDone (j : nat) (cs : Z)      (* recvResult <- io.EOF after piping the data of j messages *)
| RFail (j : nat) (e : errc).   (* recvResult <- error after piping the data of j messages *)

Fixpoint recv_loop (name : string) (size cmp : Z) (first : bool) (j : nat) (cs : Z) (msgs : list wmsg) : recv_end :=
  match msgs with
  | [] =>                                              (* srv.Recv() = io.EOF *)
      if (cmp =? cmp_identity) && negb (cs =? size) then RFail j EInternal (* Unknown *) else RDone j cs
  | m :: rest =>
      if negb first && negb (String.eqb (m_name m) "") && negb (String.eqb (m_name m) name)
      then RFail j EBadRequest else
      let cs' := cs + m_len m in                       (* pw.Write(req.Data) *)
      let j' := S j in
      if (cmp =? cmp_identity) && (cs' >? size) then RFail j' EOutOfRange else
      if m_fin m then
        (if (cmp =? cmp_identity) && negb (cs' =? size) then RFail j' EInternal (* Unknown *) else RDone j' cs')
      else recv_loop name size cmp false j' cs' rest
  end.

Definition recv_run (maxsz : Z) (present : bool) (msgs : list wmsg) : recv_end :=
  match msgs with
  | [] => REarly EBadRequest                           (* closed without any WriteRequest *)
  | m :: _ =>
      if String.eqb (m_name m) "" then REarly EBadRequest else
      match parse_write_resource (m_name m) with
      | Ok (hash, size, cmp) =>
          if size >? maxsz then REarly EBadRequest else
          if early_return present hash size then RExists (if cmp =? cmp_identity then size else -1) else
          if negb (m_off m =? 0) then REarly EInternal (* errWriteOffset, a plain error: Unknown *) else
          recv_loop (m_name m) size cmp true 0 0 msgs
      | Err e => REarly e
      | Panic s => REarly (EOther (-1))                 (* unreachable: the parser has no panic site *)
      | Hang s => REarly (EOther (-2))
      end
  end.

(* How the Put goroutine behaves.  Put reads its input to the end before it commits
   (io.Copy / the "no data left" ReadFull), so it can only succeed after the handler has closed
   the pipe cleanly; it may however FAIL before the end of the stream when its reader fails
   (undecodable zstd data): [PutFailsEarly k e] = the error e is on putResult once the data of
   k messages has been piped.  [PutNilEarly k]: a Put that RETURNS NIL before the end of the stream.
   disk.Put never does (it reads to EOF before returning nil; for the empty digest too since /repo
   0b4ddfa — before that its one-byte probe ignored a reader error); the handler has a branch for it
   ("Unexpected early return"): a nil on putResult that arrives before its own io.EOF is an internal
   error, so for such a Put the outcome would depend on which channel the select takes. *)
Inductive put_beh := PutToEnd | PutFailsEarly (k : nat) (e : errc) | PutNilEarly (k : nat).
Definition nil_early_free (b : put_beh) : bool := match b with PutNilEarly _ => false | _ => true end.

Record wout := mkOut {
  w_status : result Z;          (* Ok committed_size | Err class *)
  w_put_started : bool;
  w_put_clean : option nat;     (* Some j: Put was handed exactly the data of the first j messages, then a clean EOF *)
  w_stored : bool               (* this call stored the blob *)
}.

(* [sel]: which of two simultaneously ready channels the handler's select takes (true = putResult);
   [put_ok j]: Put accepts the concatenated data of the first j messages followed by a clean EOF
   (digest and size match, there is room) — an oracle column; [put_err]: its error class otherwise. *)
Definition write_handler (sel : bool) (beh : put_beh) (put_err : errc) (maxsz : Z) (present : bool)
           (put_ok : nat -> bool) (msgs : list wmsg) : wout :=
  match recv_run maxsz present msgs with
  | REarly e => mkOut (Err e) false None false
  | RExists cs => mkOut (Ok cs) false None false
  | RDone j cs =>
      match beh with
      | PutFailsEarly k e =>
          if (k <? j)%nat then mkOut (Err e) true None false     (* either order of the select ends with Put's error *)
          else if put_ok j then mkOut (Ok cs) true (Some j) true else mkOut (Err put_err) true (Some j) false
      | PutNilEarly k =>
          if (k <? j)%nat then
            (if sel then mkOut (Err EInternal) true None false   (* "Unexpected early return" *)
             else mkOut (Ok cs) true None false)                 (* recvResult first, then the nil *)
          else if put_ok j then mkOut (Ok cs) true (Some j) true else mkOut (Err put_err) true (Some j) false
      | PutToEnd =>
          if put_ok j then mkOut (Ok cs) true (Some j) true else mkOut (Err put_err) true (Some j) false
      end
  | RFail j e =>
      match beh with
      | PutFailsEarly k e' =>
          if (k <? j)%nat then mkOut (Err (if sel then e' else e)) true None false
          else mkOut (Err e) true None false
      | PutNilEarly k =>
          if (k <? j)%nat then mkOut (Err (if sel then EInternal else e)) true None false
          else mkOut (Err e) true None false
      | PutToEnd => mkOut (Err e) true None false              (* pw.CloseWithError: Put cannot commit *)
      end
  end.

Definition present_after (present : bool) (o : wout) : bool := present || w_stored o.

(* QueryWriteStatus *)
Definition query_write_status (present : bool) (name : string) : result (Z * bool) :=
  match parse_write_resource name with
  | Ok (hash, size, _) => if contains present hash size then Ok (size, true) else Ok (0, false)
  | Err e => Err e | Panic s => Panic s | Hang s => Hang s
  end.

(* the messages the receive loop looks at: up to and including the first finish_write *)
Fixpoint consumed (msgs : list wmsg) : list wmsg :=
  match msgs with [] => [] | m :: r => if m_fin m then [m] else m :: consumed r end.

(* ------------------------------------------------------------------ *)
(* correspondence cases (written by harness/cmd/bytestream) *)

Definition parsed_eqb (a b : string * Z * Z) : bool :=
  let '(h, s, c) := a in let '(h', s', c') := b in String.eqb h h' && (s =? s') && (c =? c').
Definition parse_obs (r : result (string * Z * Z)) : option (string * Z * Z) :=
  match r with Ok x => Some x | _ => None end.

Definition status_eqb (a b : result Z) : bool :=
  match a, b with
  | Ok x, Ok y => x =? y
  | Err e, Err f => errc_eqb e f
  | Hang _, Hang _ => true
  | Panic _, Panic _ => true
  | _, _ => false
  end.

Definition qws_eqb (a b : result (Z * bool)) : bool :=
  match a, b with
  | Ok (x, c), Ok (y, d) => (x =? y) && Bool.eqb c d
  | Err e, Err f => errc_eqb e f
  | _, _ => false
  end.

Inductive bcase :=
| BParseW (name : string) (obs : option (string * Z * Z))
| BParseR (name : string) (obs : option (string * Z * Z))
| BWrite (maxsz : Z) (present : bool) (msgs : list wmsg) (put_ok : list bool) (put_err : errc) (nil_early : bool)
         (obs_status : result Z) (obs_present_after : bool)
    (* put_ok: for j = 0..n, whether Put accepts the data of the first j messages (driver's oracle: the
       declared blob; for the empty digest: no decodable byte); put_err: Put's error class otherwise;
       nil_early: undecodable zstd data for the empty digest — Put may return nil before the end *)
| BQws (present : bool) (name : string) (obs : result (Z * bool)).

Definition case_ok (c : bcase) : bool :=
  match c with
  | BParseW name obs => opt_eqb parsed_eqb (parse_obs (parse_write_resource name)) obs
  | BParseR name obs => opt_eqb parsed_eqb (parse_obs (parse_read_resource name)) obs
  | BWrite maxsz present msgs pok perr nil_early st pa =>
      let run sel beh := write_handler sel beh perr maxsz present (fun j => nth j pok false) msgs in
      let good o := status_eqb (w_status o) st && Bool.eqb (present_after present o) pa in
      good (run false PutToEnd) || (nil_early && (good (run true (PutNilEarly 0)) || good (run false (PutNilEarly 0))))
  | BQws present name obs => qws_eqb (query_write_status present name) obs
  end.
