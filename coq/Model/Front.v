(* Model/Front.v — the front-end adapters of server/{http,grpc_cas,grpc_bytestream,grpc_ac,grpc_asset,grpc}.go:
   how each HTTP/gRPC endpoint turns a request into calls of the disk cache (Model/Disk.v: Put, Get,
   GetZstd, Contains, FindMissing) and the outcome into a status.  Definitions only.

   Abstractions.
   * Payloads are descriptors ([body]): which content, how many LOGICAL bytes the reader handed to the
     disk layer delivers (after zstd decoding), whether it ends cleanly, whether SHA-256 of those bytes
     is the declared hash.  SHA-256 and the zstd decoding of incoming data are oracle columns.
   * Status classes: [SErr EBadRequest] = HTTP 400 / InvalidArgument, [ENotFound] = 404 / NotFound,
     [EInternal] = 500 / Internal / Unknown / DataLoss, [EInsufficient] = 507 / ResourceExhausted,
     [EOutOfRange] = OutOfRange.
   * Resource names and URLs arrive parsed (the parsers are Model/ByteStream.v and Model/Keys.v). *)
From BR Require Import Base.Prelude Model.LRU Model.Disk.
Open Scope Z_scope.

Inductive status := SOk | SErr (e : errc) | SNoReply.   (* SNoReply: the client gave up, no status seen *)

Definition status_eqb (a b : status) : bool :=
  match a, b with
  | SOk, SOk | SNoReply, SNoReply => true
  | SErr x, SErr y => errc_eqb x y
  | _, _ => false
  end.
(* what the model predicts vs what a client observed *)
Definition status_match (model observed : status) : bool :=
  match observed with
  | SNoReply => negb (status_eqb model SOk)
  | _ => status_eqb model observed
  end.

Definition bad : status := SErr EBadRequest.

(* ---------------- configuration ---------------- *)

Record fcfg := mkFcfg {
  fc_disk : cfg;        (* storage mode, disk.WithMaxBlobSize, disk.WithProxyMaxBlobSize, backend *)
  fc_http_max : Z;      (* maxCasBlobSizeBytes handed to server.NewHTTPCache *)
  fc_grpc_max : Z }.    (* maxCasBlobSizeBytes handed to server.ListenAndServeGRPC *)

(* main.go hands ONE value, c.MaxBlobSize, to all three (pinned by Gen/Front.v, Bridge_Front.v) *)
Definition wired (zstd : bool) (max : Z) : fcfg := mkFcfg (mkCfg zstd max maxInt64 false) max max.
(* the same with a proxy backend and max_proxy_blob_size *)
Definition wired_proxy (zstd : bool) (max maxproxy : Z) : fcfg := mkFcfg (mkCfg zstd max maxproxy true) max max.

(* the literal texts main.go is expected to pass (compared with Gen by Bridge_Front) *)
Definition wiring_expected : list (string * string) :=
  [("disk.WithMaxBlobSize", "c.MaxBlobSize"); ("disk.WithProxyMaxBlobSize", "c.MaxProxyBlobSize");
   ("server.NewHTTPCache#9", "c.MaxBlobSize"); ("server.ListenAndServeGRPC#6", "c.MaxBlobSize");
   ("GetCapabilities.MaxCasBlobSizeBytes", "s.maxCasBlobSizeBytes")]%string.

Definition maxChunkSize : Z := 2 * 1024 * 1024.

(* ---------------- payloads ---------------- *)

Record body := mkBody {
  b_cid : Z;          (* identity of the logical content *)
  b_len : Z;          (* logical bytes the reader delivers before it ends *)
  b_clean : bool;     (* it ends with a clean EOF: transport not cut, zstd frames complete, nothing undecodable behind them *)
  b_hash_ok : bool }. (* SHA-256 of those bytes is the declared hash *)

Definition stream_of (b : body) : stream :=
  mkStream (b_cid b) (b_len b) (negb (b_clean b)) (b_hash_ok b) (b_len b).

(* THE predicate of C01: the logical bytes have exactly the declared length and hash *)
Definition body_good (b : body) (declared_size : Z) : Prop :=
  b_len b = declared_size /\ b_clean b = true /\ b_hash_ok b = true.

(* ---------------- hashes ---------------- *)

Definition lower_hex (c : ascii) : bool :=
  let n := nat_of_ascii c in ((48 <=? n) && (n <=? 57) || (97 <=? n) && (n <=? 102))%nat.
Fixpoint all_hex (s : string) : bool :=
  match s with EmptyString => true | String c t => lower_hex c && all_hex t end.
(* validate.HashKeyRegex = ^[a-f0-9]{64}$ *)
Definition hash_re (h : string) : bool := (Z.of_nat (String.length h) =? 64) && all_hex h.
(* grpcServer.validateHash *)
Definition validate_hash (h : string) (size : Z) : bool :=
  if size =? 0 then String.eqb h emptySha256 else hash_re h.

(* gRPCErrCode(err, dflt) on a *cache.Error *)
Definition grpc_code (e dflt : errc) : errc :=
  match e with EBadRequest | EInsufficient | ENotFound => e | _ => dflt end.

(* ---------------- calls of the disk layer ---------------- *)

Definition disk_put (c : fcfg) (d : dstate) (k : kind) (hash : string) (sz : Z) (st : stream) (rnd : string)
  : dstate * option errc :=
  match exec (fc_disk c) d (RPut k hash sz st rnd) with
  | (d', Some PutOk) => (d', None)
  | (d', Some (PutErr e)) => (d', Some e)
  | (d', _) => (d', Some EInternal)
  end.

Definition put_status (dflt : errc) (r : option errc) : status :=
  match r with None => SOk | Some e => SErr (grpc_code e dflt) end.

Definition disk_contains (c : fcfg) (d : dstate) (k : kind) (hash : string) (sz : Z) : dstate * bool * Z :=
  match exec (fc_disk c) d (RContains k hash sz BHasNo) with
  | (d', Some (Has b s)) => (d', b, s)
  | (d', _) => (d', false, -1)
  end.

Inductive got := GHit (sz cid : Z) | GMiss | GErr (e : errc).
Definition disk_get (c : fcfg) (d : dstate) (k : kind) (hash : string) (sz off : Z) (zstd : bool) : dstate * got :=
  match exec (fc_disk c) d (RGet k hash sz off zstd BMiss "") with
  | (d', Some (GetHit s cid _)) => (d', GHit s (if s =? 0 then 0 else cid))
  | (d', Some GetMiss) => (d', GMiss)
  | (d', Some (GetErr e)) => (d', GErr e)
  | (d', _) => (d', GErr EInternal)
  end.

(* ================= write path 1/2: HTTP PUT /cas/<hash> ================= *)

Inductive cenc := CeNone | CeIdentity | CeZstd | CeOther.     (* Content-Encoding: "", identity, zstd, anything else *)
Inductive xdigest := XAbsent | XBad | XVal (n : Z).           (* X-Digest-SizeBytes: absent, unparseable, value *)

(* the size the request declares *)
Definition http_declared (cl : Z) (xd : xdigest) : option Z :=
  match xd with XAbsent => Some cl | XBad => None | XVal v => Some v end.

Definition http_put (c : fcfg) (d : dstate) (url_ok : bool) (hash : string) (cl : Z) (xd : xdigest)
           (ce : cenc) (b : body) (rnd : string) : dstate * status :=
  if negb url_ok then (d, bad) else
  match http_declared cl xd with
  | None => (d, bad)
  | Some len =>
      if len =? -1 then (d, bad) else
      if (len =? 0) && negb (String.eqb hash emptySha256) then (d, bad) else
      if len >? fc_http_max c then (d, bad) else
      match ce with
      | CeOther => (d, bad)
      | _ => let '(d', r) := disk_put c d CAS hash len (stream_of b) rnd in
             (d', match r with None => SOk | Some e => SErr e end)
      end
  end.

(* HTTP PUT /ac/<hash> with AC validation on: the body is read, decoded, validated and re-marshalled
   (oracle: [valid], the length [arlen] of what is stored), then Put under the AC key space *)
Definition http_put_ac (c : fcfg) (d : dstate) (hash : string) (cl : Z) (valid : bool) (arlen : Z) (rnd : string)
  : dstate * status :=
  if cl =? -1 then (d, bad) else
  if cl >? fc_http_max c then (d, bad) else
  if negb valid then (d, bad) else
  let '(d', r) := disk_put c d AC hash arlen (mkStream 0 arlen false true arlen) rnd in
  (d', match r with None => SOk | Some e => SErr e end).

(* ================= write path 3/4: BatchUpdateBlobs ================= *)

Inductive comp := CIdentity | CZstd | COther (n : Z).
Record bu_entry := mkBU {
  bu_nil : bool;      (* nil request or nil digest *)
  bu_hash : string; bu_size : Z; bu_comp : comp; bu_body : body; bu_rnd : string }.

(* one entry that passed the nil checks and validateHash: its per-blob status *)
Definition bu_one (c : fcfg) (d : dstate) (e : bu_entry) : dstate * status :=
  match bu_comp e with
  | COther _ => (d, bad)      (* unsupported compressor: per-blob InvalidArgument, nothing stored *)
  | cm =>
      if (match cm with CZstd => negb (b_clean (bu_body e)) | _ => false end) then (d, SErr EInternal) else
      if negb (b_len (bu_body e) =? bu_size e) then (d, bad) else
      let '(d', r) := disk_put c d CAS (bu_hash e) (b_len (bu_body e)) (stream_of (bu_body e)) (bu_rnd e) in
      (d', put_status EInternal r)
  end.

(* call status, per-blob statuses (none when the call fails as a whole) *)
Fixpoint batch_update (c : fcfg) (d : dstate) (es : list bu_entry) (acc : list status) : dstate * status * list status :=
  match es with
  | [] => (d, SOk, acc)
  | e :: t =>
      if bu_nil e then (d, bad, []) else
      if negb (validate_hash (bu_hash e) (bu_size e)) then (d, bad, []) else
      let '(d', s) := bu_one c d e in batch_update c d' t (acc ++ [s])
  end.

(* ================= write path 5/6: ByteStream.Write ================= *)

Inductive wname := WNEmpty | WNBad | WN (zstd : bool) (hash : string) (size : Z).
   (* the first message's resource name: empty, rejected by the syntactic part of parseWriteResource,
      or uploads/{uuid}/blobs/{hash}/{size} resp. .../compressed-blobs/zstd/{hash}/{size} *)
Record wmsg := mkWMsg {
  wm_same : bool;     (* resource name empty or equal to the first one *)
  wm_off : Z; wm_len : Z; wm_fin : bool }.

(* the receive loop: bytes written to the pipe, and how it ended ([None] = io.EOF, upload complete) *)
Fixpoint recv_loop (zstd : bool) (size committed : Z) (first : bool) (msgs : list wmsg) (aborted : bool)
  : Z * option errc :=
  match msgs with
  | [] => if aborted then (committed, Some EInternal) else
          if negb zstd && negb (committed =? size) then (committed, Some EInternal) else (committed, None)
  | m :: t =>
      if negb first && negb (wm_same m) then (committed, Some EBadRequest) else
      let c' := committed + wm_len m in
      if negb zstd && (c' >? size) then (c', Some EOutOfRange) else
      if wm_fin m then (if negb zstd && negb (c' =? size) then (c', Some EInternal) else (c', None))
      else recv_loop zstd size c' false t aborted
  end.

(* the stream the disk layer reads from the pipe *)
Definition bs_stream (zstd : bool) (b : body) (piped : Z) (recv_err : bool) : stream :=
  if zstd then (if recv_err then mkStream (b_cid b) (b_len b) true false (b_len b) else stream_of b)
  else mkStream (b_cid b) piped recv_err (b_hash_ok b) piped.

(* the already-exists shortcut: not taken for the empty digest (which always "exists"), so that Put
   gets to refuse data sent for it *)
Definition bs_shortcut (exists_ : bool) (hash : string) (size : Z) : bool :=
  exists_ && negb ((size =? 0) && String.eqb hash emptySha256).

Definition bs_write (c : fcfg) (d : dstate) (nm : wname) (msgs : list wmsg) (aborted : bool) (b : body) (rnd : string)
  : dstate * status :=
  match msgs with
  | [] => (d, if aborted then SErr EInternal else bad)     (* closed without any WriteRequest *)
  | m0 :: _ =>
      match nm with
      | WNEmpty | WNBad => (d, bad)
      | WN z hash size =>
          if size <? 0 then (d, bad) else
          if negb (validate_hash hash size) then (d, bad) else
          if size >? fc_grpc_max c then (d, bad) else
          let '(d1, exists_, _) := disk_contains c d CAS hash size in
          if bs_shortcut exists_ hash size then (d1, SOk) else
          if negb (wm_off m0 =? 0) then (d1, SErr EInternal) else
          let '(piped, e) := recv_loop z size 0 true msgs aborted in
          let '(d2, r) := disk_put c d1 CAS hash size
                            (bs_stream z b piped (match e with Some _ => true | None => false end)) rnd in
          match e with
          | Some x => (d2, SErr x)
          | None => (d2, put_status EInternal r)
          end
      end
  end.

(* ================= write path 7/8: SpliceBlob ================= *)

Record chunk := mkChunk { ck_nil : bool; ck_hash : string; ck_size : Z }.

(* the checks on ChunkDigests; the int64 running sum wraps *)
Fixpoint check_chunks (cs : list chunk) (total : Z) : option Z :=
  match cs with
  | [] => Some total
  | k :: t =>
      if ck_nil k then None else
      if ck_size k <? 0 then None else
      if (ck_size k =? 0) || String.eqb (ck_hash k) emptySha256 then None else
      if negb (hash_re (ck_hash k)) then None else
      let total' := wrap64 (total + ck_size k) in
      if total' <=? 0 then None else check_chunks t total'
  end.

(* read the chunks in order: bytes copied before the first failure, and that failure *)
Fixpoint feed_chunks (c : fcfg) (d : dstate) (cs : list chunk) (piped : Z) : dstate * Z * option errc :=
  match cs with
  | [] => (d, piped, None)
  | k :: t =>
      match disk_get c d CAS (ck_hash k) (ck_size k) 0 false with
      | (d', GHit s _) => feed_chunks c d' t (piped + s)
      | (d', GMiss) => (d', piped, Some ENotFound)
      | (d', GErr _) => (d', piped, Some EInternal)
      end
  end.

Definition splice (c : fcfg) (d : dstate) (dfn : Z) (cs : list chunk) (blob : option (string * Z))
           (computed : string) (concat_ok : bool) (cid : Z) (rnd : string) : dstate * status :=
  if negb ((dfn =? 0) || (dfn =? 1)) then (d, bad) else
  match cs with [] => (d, bad) | _ =>
  match check_chunks cs 0 with
  | None => (d, bad)
  | Some total =>
      (* without a caller digest the chunks are read once to hash them *)
      let '(d1, pre) := match blob with
                        | Some (h, s) => (d, inl (h, s, true))
                        | None => let '(d', _, e) := feed_chunks c d cs 0 in
                                  (d', match e with Some x => inr x | None => inl (computed, total, false) end)
                        end in
      match pre with
      | inr x => (d1, SErr x)
      | inl (h, s, check_re) =>
          if (fc_grpc_max c >? 0) && (s >? fc_grpc_max c) then (d1, bad) else
          if (s =? 0) || String.eqb h emptySha256 then (d1, bad) else
          if s <? 0 then (d1, bad) else
          if check_re && negb (hash_re h) then (d1, bad) else
          if negb (total =? s) then (d1, bad) else
          let '(d2, exists_, _) := disk_contains c d1 CAS h s in
          if exists_ then (d2, SOk) else
          let '(d3, piped, werr) := feed_chunks c d2 cs 0 in
          let ok := match werr with None => concat_ok | Some _ => false end in
          let '(d4, r) := disk_put c d3 CAS h s (mkStream cid piped false ok piped) rnd in
          match r with
          | None => (d4, SOk)
          | Some e => (d4, SErr (match werr with Some x => x | None => grpc_code e EInternal end))   (* gRPCErrCode(err, Unknown) *)
          end
      end
  end end.

(* the digest a successful SpliceBlob returns *)
Definition splice_digest (cs : list chunk) (blob : option (string * Z)) (computed : string) : option (string * Z) :=
  match blob with
  | Some x => Some x
  | None => match check_chunks cs 0 with Some total => Some (computed, total) | None => None end
  end.

(* ================= write path 9: blobs inlined in UpdateActionResult ================= *)

Record inl_blob := mkInl {
  in_present : bool;                 (* the field is non-empty *)
  in_digest : option (string * Z);   (* the digest the message gives for it *)
  in_computed : string;              (* SHA-256 of the field (oracle), used when no digest is given *)
  in_body : body; in_rnd : string }.

Definition inl_digest (i : inl_blob) : string * Z :=
  match in_digest i with Some x => x | None => (in_computed i, b_len (in_body i)) end.

Definition inl_stream (i : inl_blob) : stream :=
  match in_digest i with
  | Some _ => stream_of (in_body i)
  | None => mkStream (b_cid (in_body i)) (b_len (in_body i)) false true (b_len (in_body i))
  end.

Fixpoint put_inlined (c : fcfg) (d : dstate) (l : list inl_blob) : dstate * option errc :=
  match l with
  | [] => (d, None)
  | i :: t =>
      if negb (in_present i) then put_inlined c d t else
      let '(h, s) := inl_digest i in
      match disk_put c d CAS h s (inl_stream i) (in_rnd i) with
      | (d', None) => put_inlined c d' t
      | (d', Some e) => (d', Some e)
      end
  end.

Definition update_ar (c : fcfg) (d : dstate) (ahash : string) (asize : Z) (valid : bool)
           (files : list inl_blob) (stdout stderr : inl_blob) (arlen : Z) (rnd : string) : dstate * status :=
  if negb (validate_hash ahash asize) then (d, bad) else
  if negb valid then (d, SErr EInternal) else          (* validate.ActionResult: a plain error, code Unknown *)
  if arlen =? 0 then (d, SErr EInternal) else
  match put_inlined c d (files ++ [stdout; stderr]) with
  | (d1, Some e) => (d1, SErr (grpc_code e EInternal))  (* the ActionResult itself is NOT stored *)
  | (d1, None) =>
      let '(d2, r) := disk_put c d1 AC ahash arlen (mkStream 0 arlen false true arlen) rnd in
      (d2, put_status EInternal r)
  end.

(* ================= write path 10: Remote Asset FetchBlob ================= *)

Record upstream := mkUp {
  up_ok : bool;        (* the URI parses, is http(s), and answers 2xx *)
  up_cl : Z;           (* Content-Length of the reply, -1 if unknown *)
  up_body : body;      (* what the reply body delivers; hash_ok is relative to the checksum.sri hash *)
  up_actual : string;  (* SHA-256 of the delivered bytes (oracle) *)
  up_rnd : string }.

(* one URI: the digest stored, or why not ([Err ENotFound]: the URI is unusable / the reply does not
   match; [Err e]: the disk layer refused the store with class e) *)
Definition fetch_item (c : fcfg) (d : dstate) (u : upstream) (sri : option string)
  : dstate * result (string * Z) :=
  if negb (up_ok u) then (d, Err ENotFound) else
  let b := up_body u in
  match sri, up_cl u <? 0 with
  | Some h, false =>
      match disk_put c d CAS h (up_cl u) (stream_of b) (up_rnd u) with
      | (d', None) => (d', Ok (h, up_cl u))
      | (d', Some e) => (d', Err e)
      end
  | _, _ =>
      (* hash or length unknown: read everything, hash it, then store under the computed digest *)
      if negb (b_clean b) then (d, Err ENotFound) else
      if (match sri with Some h => negb (String.eqb h (up_actual u)) | None => false end) then (d, Err ENotFound) else
      match disk_put c d CAS (up_actual u) (b_len b) (mkStream (b_cid b) (b_len b) false true (b_len b)) (up_rnd u) with
      | (d', None) => (d', Ok (up_actual u, b_len b))
      | (d', Some e) => (d', Err e)
      end
  end.

(* the URIs in order; a store refused for lack of space (507) ends the call with RESOURCE_EXHAUSTED,
   any other failure moves on to the next URI *)
Fixpoint fetch_uris (c : fcfg) (d : dstate) (us : list upstream) (sri : option string)
  : dstate * status * option (string * Z) :=
  match us with
  | [] => (d, SErr ENotFound, None)
  | u :: t => match fetch_item c d u sri with
              | (d', Ok dg) => (d', SOk, Some dg)
              | (d', Err EInsufficient) => (d', SErr EInsufficient, None)
              | (d', _) => fetch_uris c d' t sri
              end
  end.

Definition fetch_blob (c : fcfg) (d : dstate) (sri : option string) (us : list upstream)
  : dstate * status * option (string * Z) :=
  match sri with
  | Some h =>
      let '(d1, found, sz) := disk_contains c d CAS h (-1) in
      if found && (0 <=? sz) then (d1, SOk, Some (h, sz)) else fetch_uris c d1 us sri
  | None => fetch_uris c d us sri
  end.

(* ================= read paths ================= *)

Record rd := mkRd {
  rd_st : status;
  rd_reported : option Z;   (* the size the reply states, where it states one *)
  rd_cid : Z;               (* whose bytes were delivered (0: nothing / the empty blob) *)
  rd_len : Z }.             (* how many logical bytes, starting at the requested offset *)

Definition rd_err (e : errc) : rd := mkRd (SErr e) None 0 0.

(* GET /cas/<hash> with or without Accept-Encoding: zstd *)
Definition http_get (c : fcfg) (d : dstate) (hash : string) (zstd : bool) : dstate * rd :=
  match disk_get c d CAS hash (-1) 0 zstd with
  | (d', GHit s cid) => (d', mkRd SOk (if zstd then None else Some s) cid s)
  | (d', GMiss) => (d', rd_err ENotFound)
  | (d', GErr e) => (d', rd_err e)
  end.

(* HEAD /cas/<hash> *)
Definition http_head (c : fcfg) (d : dstate) (hash : string) : dstate * status * Z :=
  let '(d', found, sz) := disk_contains c d CAS hash (-1) in
  if found then (d', SOk, sz) else (d', SErr ENotFound, -1).

(* getBlobData *)
Definition get_blob_data (c : fcfg) (d : dstate) (hash : string) (size : Z) : dstate * result Z :=
  if size <? 0 then (d, Err EInternal) else
  if size =? 0 then (d, Ok 0) else
  match disk_get c d CAS hash size 0 false with
  | (d', GHit s cid) => if s =? size then (d', Ok cid) else (d', Err EInternal)
  | (d', GMiss) => (d', Err ENotFound)
  | (d', GErr e) => (d', Err (grpc_code e EInternal))
  end.

(* getBlobResponse *)
Definition batch_read_one (c : fcfg) (d : dstate) (hash : string) (size : Z) (zstd : bool) : dstate * rd :=
  if zstd then
    match disk_get c d CAS hash size 0 true with
    | (d', GHit s cid) => if s =? size then (d', mkRd SOk (Some size) cid s) else (d', rd_err ENotFound)
    | (d', GMiss) => (d', rd_err ENotFound)
    | (d', GErr e) => (d', rd_err (grpc_code e ENotFound))
    end
  else
    match get_blob_data c d hash size with
    | (d', Ok cid) => (d', mkRd SOk (Some size) cid size)
    | (d', Err e) => (d', rd_err e)
    | (d', _) => (d', rd_err EInternal)
    end.

Fixpoint batch_read (c : fcfg) (d : dstate) (ds : list (string * Z)) (zstd : bool) (acc : list rd)
  : dstate * status * list rd :=
  match ds with
  | [] => (d, SOk, acc)
  | (h, s) :: t =>
      if negb (validate_hash h s) then (d, bad, []) else
      let '(d', r) := batch_read_one c d h s zstd in batch_read c d' t zstd (acc ++ [r])
  end.

(* ByteStream.Read *)
Inductive rname := RNBad | RN (zstd : bool) (hash : string) (size : Z).

(* the send loop: [reads] are the sizes rc.Read returns; with a limit, a read that does not fit
   ends the call with OutOfRange before it is sent *)
Fixpoint send_loop (limited : bool) (remaining : Z) (reads : list Z) (sent : Z) : Z * status :=
  match reads with
  | [] => (sent, SOk)
  | n :: t => if limited && (remaining - n <? 0) then (sent, SErr EOutOfRange)
              else send_loop limited (remaining - n) t (sent + n)
  end.

Definition bs_read (c : fcfg) (d : dstate) (nm : rname) (off lim : Z) (reads : list Z) : dstate * rd :=
  match nm with
  | RNBad => (d, rd_err EBadRequest)
  | RN z hash size =>
      if size <? 0 then (d, rd_err EBadRequest) else
      if negb (validate_hash hash size) then (d, rd_err EBadRequest) else
      if size =? 0 then (d, mkRd SOk None 0 0) else
      if off <? 0 then (d, rd_err EBadRequest) else
      if z && negb (lim =? 0) then (d, rd_err EBadRequest) else
      if lim <? 0 then (d, rd_err EOutOfRange) else
      if off >? size then (d, rd_err EOutOfRange) else
      match disk_get c d CAS hash size off z with
      | (d', GErr e) => (d', rd_err (grpc_code e EInternal))
      | (d', GMiss) => (d', rd_err ENotFound)
      | (d', GHit s cid) =>
          if negb (s =? size) then (d', rd_err EInternal) else
          if z then (d', mkRd SOk None cid (size - off)) else
          let '(sent, st) := send_loop (negb (lim =? 0)) lim reads 0 in
          (d', mkRd st None (if sent =? 0 then 0 else cid) sent)
      end
  end.

(* GetTree: [table] maps the content of a stored Directory blob to the child digests it decodes to
   (the protobuf decoder is an oracle); the empty blob decodes to the empty Directory *)
Fixpoint lookup_dir (cid : Z) (table : list (Z * list (string * Z))) : option (list (string * Z)) :=
  match table with
  | [] => None
  | (k, v) :: t => if k =? cid then Some v else lookup_dir cid t
  end.
Definition decode_dir (cid : Z) (table : list (Z * list (string * Z))) : option (list (string * Z)) :=
  if cid =? 0 then Some [] else lookup_dir cid table.

(* depth-first, children in order; each pending digest carries the hashes of the directories on the
   path from the root to it: a stored blob that refers back to one of them is skipped *)
Fixpoint tree_walk (fuel : nat) (c : fcfg) (d : dstate) (table : list (Z * list (string * Z)))
         (stack : list ((string * Z) * list string)) (acc : list Z) : dstate * status * list Z :=
  match fuel with
  | O => (d, SErr (EOther 0), [])
  | S f =>
      match stack with
      | [] => (d, SOk, acc)
      | ((h, s), anc) :: rest =>
          if negb (validate_hash h s) then (d, bad, []) else
          if existsb (String.eqb h) anc then tree_walk f c d table rest acc else
          match get_blob_data c d h s with
          | (d', Ok cid) =>
              match decode_dir cid table with
              | Some kids => tree_walk f c d' table (map (fun k => (k, h :: anc)) kids ++ rest) (acc ++ [cid])
              | None => tree_walk f c d' table rest acc
              end
          | (d', _) => tree_walk f c d' table rest acc
          end
      end
  end.

Definition get_tree (c : fcfg) (d : dstate) (root : string * Z) (table : list (Z * list (string * Z)))
  : dstate * status * list Z :=
  let '(h, s) := root in
  if negb (validate_hash h s) then (d, bad, []) else
  match get_blob_data c d h s with
  | (d', Ok cid) =>
      match decode_dir cid table with
      | Some kids => let n := (List.length table + 2)%nat in
                     tree_walk (n * n) c d' table (map (fun k => (k, [h])) kids) [cid]
      | None => (d', SErr EInternal, [])       (* DataLoss *)
      end
  | (d', Err ENotFound) => (d', SErr ENotFound, [])
  | (d', _) => (d', SErr EInternal, [])        (* Unknown *)
  end.

(* maybeInline's reading half: a field that is to be inlined and is not yet *)
Definition inline_read (c : fcfg) (d : dstate) (digest : option (string * Z)) : dstate * result (option Z) :=
  match digest with
  | None => (d, Ok None)
  | Some (h, s) =>
      if s <=? 0 then (d, Ok None) else
      match get_blob_data c d h s with
      | (d', Ok cid) => (d', Ok (Some cid))
      | (d', Err e) => (d', Err e)
      | (d', _) => (d', Err EInternal)
      end
  end.

(* FindMissingBlobs *)
(* the request's digests go to the disk layer AS THEY ARE: same order, duplicates and all; [bs] is the
   backend's answer column (what cache.Proxy.Contains says for each digest, used where it is asked) *)
Definition find_missing_b (c : fcfg) (d : dstate) (ds : list (string * Z)) (bs : list bhas)
  : dstate * status * list (string * Z) :=
  if negb (forallb (fun x => validate_hash (fst x) (snd x)) ds) then (d, bad, []) else
  match exec (fc_disk c) d (RFindMissing ds bs false) with
  | (d', Some (Missing l)) => (d', SOk, l)
  | (d', _) => (d', SErr EInternal, [])
  end.

Definition find_missing (c : fcfg) (d : dstate) (ds : list (string * Z)) : dstate * status * list (string * Z) :=
  if negb (forallb (fun x => validate_hash (fst x) (snd x)) ds) then (d, bad, []) else
  match exec (fc_disk c) d (RFindMissing ds [] false) with
  | (d', Some (Missing l)) => (d', SOk, l)
  | (d', _) => (d', SErr EInternal, [])
  end.

(* GetCapabilities.CacheCapabilities.MaxCasBlobSizeBytes *)
Definition capabilities_max (c : fcfg) : Z := fc_grpc_max c.

(* ================= front-end operations, for the correspondence check ================= *)

Inductive fop :=
| FHttpPut (url_ok : bool) (hash : string) (cl : Z) (xd : xdigest) (ce : cenc) (b : body) (rnd : string)
| FBatchUpdate (es : list bu_entry)
| FBsWrite (nm : wname) (msgs : list wmsg) (aborted : bool) (b : body) (rnd : string)
| FSplice (dfn : Z) (cs : list chunk) (blob : option (string * Z)) (computed : string) (concat_ok : bool) (cid : Z) (rnd : string)
| FUpdateAR (ahash : string) (asize : Z) (valid : bool) (files : list inl_blob) (stdout stderr : inl_blob) (arlen : Z) (rnd : string)
| FFetch (sri : option string) (us : list upstream)
| FHttpGet (hash : string) (zstd : bool)
| FHttpHead (hash : string)
| FBatchRead (ds : list (string * Z)) (zstd : bool)
| FBsRead (nm : rname) (off lim : Z) (reads : list Z)
| FGetTree (root : string * Z) (table : list (Z * list (string * Z)))
| FFindMissing (ds : list (string * Z))
| FCaps
| FRestart (zstd : bool)
| FHttpPutAC (hash : string) (cl : Z) (valid : bool) (arlen : Z) (rnd : string)
| FInit (max_size hard_limit : Z)   (* the case runs on a cache of this size / max_size_hard_limit (from empty) *)
| FDrain                            (* the background remover deletes everything queued for deletion *)
| FStats                            (* Stats() and the deletion backlog *)
| FGetAR (hash : string)
| FFindMissingB (ds : list (string * Z)) (bs : list bhas).   (* FindMissingBlobs with the backend's answers *)           (* GetActionResult of an entry that references no blobs: one Get under ac/ *)   (* the server is stopped and started again on the SAME directory with this --storage_mode *)

Inductive fobs :=
| OSt (s : status)
| OSts (s : status) (l : list status)
| OFetched (s : status) (dg : option (string * Z))
| ORd (r : rd)
| ORds (s : status) (l : list rd)
| OHead (s : status) (sz : Z)
| OTree (s : status) (cids : list Z)
| OMiss (l : list (string * Z))
| OCap (n : Z)
| OStats (cur res items queued : Z).

Definition run_op (c : fcfg) (d : dstate) (o : fop) : dstate * fobs :=
  match o with
  | FHttpPut u h cl xd ce b rnd => let '(d', s) := http_put c d u h cl xd ce b rnd in (d', OSt s)
  | FBatchUpdate es => let '(d', s, l) := batch_update c d es [] in (d', OSts s l)
  | FBsWrite nm msgs ab b rnd => let '(d', s) := bs_write c d nm msgs ab b rnd in (d', OSt s)
  | FSplice dfn cs blob computed ok cid rnd => let '(d', s) := splice c d dfn cs blob computed ok cid rnd in (d', OSt s)
  | FUpdateAR h s v fs so se n rnd => let '(d', st) := update_ar c d h s v fs so se n rnd in (d', OSt st)
  | FFetch sri us => let '(d', s, dg) := fetch_blob c d sri us in (d', OFetched s dg)
  | FHttpGet h z => let '(d', r) := http_get c d h z in (d', ORd r)
  | FHttpHead h => let '(d', s, sz) := http_head c d h in (d', OHead s sz)
  | FBatchRead ds z => let '(d', s, l) := batch_read c d ds z [] in (d', ORds s l)
  | FBsRead nm off lim reads => let '(d', r) := bs_read c d nm off lim reads in (d', ORd r)
  | FGetTree root table => let '(d', s, l) := get_tree c d root table in (d', OTree s l)
  | FFindMissing ds => let '(d', s, l) := find_missing c d ds in
                       (d', match s with SOk => OMiss l | _ => OSt s end)
  | FCaps => (d, OCap (capabilities_max c))
  | FRestart _ => (d, OSt SOk)
  | FHttpPutAC h cl v n rnd => let '(d', s) := http_put_ac c d h cl v n rnd in (d', OSt s)
  | FInit mx hd => (dinit mx hd, OSt SOk)
  | FDrain => (drain_all (List.length (evq (lru d))) d, OSt SOk)
  | FGetAR h => match disk_get c d AC h (-1) 0 false with
                | (d', GHit _ _) => (d', OSt SOk)
                | (d', GMiss) => (d', OSt (SErr ENotFound))
                | (d', GErr e) => (d', OSt (SErr (grpc_code e EInternal)))
                end
  | FFindMissingB ds bs => let '(d', s, l) := find_missing_b c d ds bs in
                           (d', match s with SOk => OMiss l | _ => OSt s end)
  | FStats => (d, OStats (cur (lru d)) (res (lru d)) (Z.of_nat (List.length (order (lru d)))) (qbytes (lru d)))
  end.

(* the same configuration under another storage mode *)
Definition set_mode (zstd : bool) (c : fcfg) : fcfg :=
  mkFcfg (mkCfg zstd (c_maxblob (fc_disk c)) (c_maxproxy (fc_disk c)) (c_proxy (fc_disk c))) (fc_http_max c) (fc_grpc_max c).

(* a restart keeps what is on disk and indexed (no reservations are pending between requests, no
   eviction pressure in these histories); only the mode NEW entries are written in changes: the
   format of an existing entry is a property of the entry (its [legacy] flag / .v1 name) *)
Definition next_cfg (c : fcfg) (o : fop) : fcfg :=
  match o with FRestart z => set_mode z c | _ => c end.

Fixpoint run_ops (c : fcfg) (d : dstate) (ops : list fop) : list fobs :=
  match ops with
  | [] => []
  | o :: t => let '(d', ob) := run_op c d o in ob :: run_ops (next_cfg c o) d' t
  end.

(* ---- boolean comparison of predicted and observed behaviour ---- *)

Definition optZ_eqb (a b : option Z) : bool :=
  match a, b with Some x, Some y => x =? y | None, None => true | _, _ => false end.
Definition optdg_eqb (a b : option (string * Z)) : bool :=
  match a, b with Some x, Some y => pair_eqb x y | None, None => true | _, _ => false end.
Definition rd_match (m o : rd) : bool :=
  status_match (rd_st m) (rd_st o) && optZ_eqb (rd_reported m) (rd_reported o)
  && (rd_cid m =? rd_cid o) && (rd_len m =? rd_len o).

Definition obs_match (m o : fobs) : bool :=
  match m, o with
  | OSt a, OSt b => status_match a b
  | OSts a la, OSts b lb => status_match a b && list_eqb status_match la lb
  | OFetched a da, OFetched b db => status_match a b && optdg_eqb da db
  | ORd a, ORd b => rd_match a b
  | ORds a la, ORds b lb => status_match a b && list_eqb rd_match la lb
  | OHead a x, OHead b y => status_match a b && (x =? y)
  | OTree a la, OTree b lb => status_match a b && list_eqb Z.eqb la lb
  | OMiss a, OMiss b => list_eqb pair_eqb a b
  | OCap a, OCap b => a =? b
  | OStats a1 a2 a3 a4, OStats b1 b2 b3 b4 => (a1 =? b1) && (a2 =? b2) && (a3 =? b3) && (a4 =? b4)
  | _, _ => false
  end.

(* the store every case starts from: empty, 1 GiB, no hard limit (no eviction pressure) *)
Definition store0 : dstate := dinit 1073741824 0.

Definition fcase : Type := fcfg * list fop * list fobs.

Definition case_ok (x : fcase) : bool :=
  let '(c, ops, observed) := x in list_eqb obs_match (run_ops c store0 ops) observed.
