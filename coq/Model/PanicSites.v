(* Model/PanicSites.v — the reviewed ledger of potential panic sites (C14).
   Each entry: the site as go2coq prints it (file:function:kind:expression), the reason it cannot
   fire, as a category plus a note.  Bridge/Bridge_Panics.v proves that the regenerated inventory
   equals the first components of this ledger, so a new unguarded dereference, index, division,
   allocation or type assertion in the request-handling packages breaks an obligation. *)
From BR Require Import Base.Prelude.
Open Scope string_scope.

Inductive why := Guarded | WireDecoded | Bounded | HeaderChecked | OwnValue | Startup.

Definition ledger : list (string * why * string) := [
  ("cache/disk/casblob/casblob.go:ExtractLogicalSize:make:make([]byte, interesting)", Bounded, "constant 16");
  ("cache/disk/casblob/casblob.go:GetUncompressedReadCloser:div:offset % int64(h.chunkSize)", HeaderChecked, "readHeader validated chunkSize>0, table length = ceil(size/chunk)+1, increasing offsets within the file; callers pass 0<=offset<size (disk.get guard); remainder checked against the decoded chunk length; proved: Casblob_nopanic (readers never panic for off<=size)");
  ("cache/disk/casblob/casblob.go:GetUncompressedReadCloser:div:offset / int64(h.chunkSize)", HeaderChecked, "readHeader validated chunkSize>0, table length = ceil(size/chunk)+1, increasing offsets within the file; callers pass 0<=offset<size (disk.get guard); remainder checked against the decoded chunk length; proved: Casblob_nopanic (readers never panic for off<=size)");
  ("cache/disk/casblob/casblob.go:GetUncompressedReadCloser:index:h.chunkOffsets[chunkNum+1]", HeaderChecked, "readHeader validated chunkSize>0, table length = ceil(size/chunk)+1, increasing offsets within the file; callers pass 0<=offset<size (disk.get guard); remainder checked against the decoded chunk length; proved: Casblob_nopanic (readers never panic for off<=size)");
  ("cache/disk/casblob/casblob.go:GetUncompressedReadCloser:index:h.chunkOffsets[chunkNum]", HeaderChecked, "readHeader validated chunkSize>0, table length = ceil(size/chunk)+1, increasing offsets within the file; callers pass 0<=offset<size (disk.get guard); remainder checked against the decoded chunk length; proved: Casblob_nopanic (readers never panic for off<=size)");
  ("cache/disk/casblob/casblob.go:GetUncompressedReadCloser:index:uncompressedFirstChunk[remainder:]", HeaderChecked, "readHeader validated chunkSize>0, table length = ceil(size/chunk)+1, increasing offsets within the file; callers pass 0<=offset<size (disk.get guard); remainder checked against the decoded chunk length; proved: Casblob_nopanic (readers never panic for off<=size)");
  ("cache/disk/casblob/casblob.go:GetUncompressedReadCloser:make:make([]byte, h.chunkOffsets[chunkNum+1]-h.chunkOffsets[chunkNum])", HeaderChecked, "readHeader validated chunkSize>0, table length = ceil(size/chunk)+1, increasing offsets within the file; callers pass 0<=offset<size (disk.get guard); remainder checked against the decoded chunk length; proved: Casblob_nopanic (readers never panic for off<=size)");
  ("cache/disk/casblob/casblob.go:GetZstdReadCloser:div:offset % int64(h.chunkSize)", HeaderChecked, "readHeader validated chunkSize>0, table length = ceil(size/chunk)+1, increasing offsets within the file; callers pass 0<=offset<size (disk.get guard); remainder checked against the decoded chunk length; proved: Casblob_nopanic (readers never panic for off<=size)");
  ("cache/disk/casblob/casblob.go:GetZstdReadCloser:div:offset / int64(h.chunkSize)", HeaderChecked, "readHeader validated chunkSize>0, table length = ceil(size/chunk)+1, increasing offsets within the file; callers pass 0<=offset<size (disk.get guard); remainder checked against the decoded chunk length; proved: Casblob_nopanic (readers never panic for off<=size)");
  ("cache/disk/casblob/casblob.go:GetZstdReadCloser:index:h.chunkOffsets[chunkNum+1]", HeaderChecked, "readHeader validated chunkSize>0, table length = ceil(size/chunk)+1, increasing offsets within the file; callers pass 0<=offset<size (disk.get guard); remainder checked against the decoded chunk length; proved: Casblob_nopanic (readers never panic for off<=size)");
  ("cache/disk/casblob/casblob.go:GetZstdReadCloser:index:h.chunkOffsets[chunkNum]", HeaderChecked, "readHeader validated chunkSize>0, table length = ceil(size/chunk)+1, increasing offsets within the file; callers pass 0<=offset<size (disk.get guard); remainder checked against the decoded chunk length; proved: Casblob_nopanic (readers never panic for off<=size)");
  ("cache/disk/casblob/casblob.go:GetZstdReadCloser:index:uncompressedFirstChunk[remainder:]", HeaderChecked, "readHeader validated chunkSize>0, table length = ceil(size/chunk)+1, increasing offsets within the file; callers pass 0<=offset<size (disk.get guard); remainder checked against the decoded chunk length; proved: Casblob_nopanic (readers never panic for off<=size)");
  ("cache/disk/casblob/casblob.go:GetZstdReadCloser:make:make([]byte, h.chunkOffsets[chunkNum+1]-h.chunkOffsets[chunkNum])", HeaderChecked, "readHeader validated chunkSize>0, table length = ceil(size/chunk)+1, increasing offsets within the file; callers pass 0<=offset<size (disk.get guard); remainder checked against the decoded chunk length; proved: Casblob_nopanic (readers never panic for off<=size)");
  ("cache/disk/casblob/casblob.go:WriteAndClose:assert:chunkBufferPool.Get().(*[]byte)", OwnValue, "the pool only ever holds *[]byte (chunkBufferPool.New)");
  ("cache/disk/casblob/casblob.go:WriteAndClose:div:size % int64(chunkSize)", Bounded, "size>0 checked first; chunkSize is the non-zero constant defaultChunkSize; chunkEnd<=chunkSize=len(buffer); nextChunk<len(chunkOffsets) by the loop condition; numOffsets = size/chunk+2 small");
  ("cache/disk/casblob/casblob.go:WriteAndClose:div:size / int64(chunkSize)", Bounded, "size>0 checked first; chunkSize is the non-zero constant defaultChunkSize; chunkEnd<=chunkSize=len(buffer); nextChunk<len(chunkOffsets) by the loop condition; numOffsets = size/chunk+2 small");
  ("cache/disk/casblob/casblob.go:WriteAndClose:index:h.chunkOffsets[nextChunk]", Bounded, "size>0 checked first; chunkSize is the non-zero constant defaultChunkSize; chunkEnd<=chunkSize=len(buffer); nextChunk<len(chunkOffsets) by the loop condition; numOffsets = size/chunk+2 small");
  ("cache/disk/casblob/casblob.go:WriteAndClose:index:uncompressedChunk[0:chunkEnd]", Bounded, "size>0 checked first; chunkSize is the non-zero constant defaultChunkSize; chunkEnd<=chunkSize=len(buffer); nextChunk<len(chunkOffsets) by the loop condition; numOffsets = size/chunk+2 small");
  ("cache/disk/casblob/casblob.go:WriteAndClose:make:make([]byte, 0, int(chunkSize+chunkSize>>8))", Bounded, "size>0 checked first; chunkSize is the non-zero constant defaultChunkSize; chunkEnd<=chunkSize=len(buffer); nextChunk<len(chunkOffsets) by the loop condition; numOffsets = size/chunk+2 small");
  ("cache/disk/casblob/casblob.go:WriteAndClose:make:make([]int64, numOffsets)", Bounded, "size>0 checked first; chunkSize is the non-zero constant defaultChunkSize; chunkEnd<=chunkSize=len(buffer); nextChunk<len(chunkOffsets) by the loop condition; numOffsets = size/chunk+2 small");
  ("cache/disk/casblob/casblob.go:readHeader:div:h.uncompressedSize % int64(h.chunkSize)", HeaderChecked, "numOffsets bounded by the file size before make; chunkSize>0 checked before the division; loop index < numOffsets = len; proved: parse_header_never_panics");
  ("cache/disk/casblob/casblob.go:readHeader:div:h.uncompressedSize / int64(h.chunkSize)", HeaderChecked, "numOffsets bounded by the file size before make; chunkSize>0 checked before the division; loop index < numOffsets = len; proved: parse_header_never_panics");
  ("cache/disk/casblob/casblob.go:readHeader:index:h.chunkOffsets[i]", HeaderChecked, "numOffsets bounded by the file size before make; chunkSize>0 checked before the division; loop index < numOffsets = len; proved: parse_header_never_panics");
  ("cache/disk/casblob/casblob.go:readHeader:make:make([]int64, numOffsets)", HeaderChecked, "numOffsets bounded by the file size before make; chunkSize>0 checked before the division; loop index < numOffsets = len; proved: parse_header_never_panics");
  ("cache/disk/disk.go:GetValidatedActionResult:deref:d.TreeDigest", Guarded, "validate.ActionResult ran just before (non-nil elements, TreeDigest, Digest); tree file digests are only compared with nil");
  ("cache/disk/disk.go:GetValidatedActionResult:deref:d.TreeDigest.Hash", Guarded, "validate.ActionResult ran just before (non-nil elements, TreeDigest, Digest); tree file digests are only compared with nil");
  ("cache/disk/disk.go:GetValidatedActionResult:deref:d.TreeDigest.SizeBytes", Guarded, "validate.ActionResult ran just before (non-nil elements, TreeDigest, Digest); tree file digests are only compared with nil");
  ("cache/disk/disk.go:GetValidatedActionResult:deref:f.Contents", Guarded, "validate.ActionResult ran just before (non-nil elements, TreeDigest, Digest); tree file digests are only compared with nil");
  ("cache/disk/disk.go:GetValidatedActionResult:deref:f.Digest", Guarded, "validate.ActionResult ran just before (non-nil elements, TreeDigest, Digest); tree file digests are only compared with nil");
  ("cache/disk/disk.go:availableOrTryProxy:assert:cur.Value.(*entry)", OwnValue, "list elements are only created by this package with *entry values");
  ("cache/disk/disk.go:getElementPath:index:ks[len(ks)-sha256.Size*2:]", Bounded, "every key in the index is kind/<64 hex chars>: Put/get/Contains check len(hash)=64, the loader takes the hash from the 64-char regex group");
  ("cache/disk/findmissing.go:containsWorker:deref:(*req.digest).Hash", Guarded, "callers pass only non-nil digests: FindMissingBlobs rejects nil elements first; GetValidatedActionResult appends only non-nil digests; containsWorker gets &chunk[i] of such a slice");
  ("cache/disk/findmissing.go:containsWorker:deref:(*req.digest).SizeBytes", Guarded, "callers pass only non-nil digests: FindMissingBlobs rejects nil elements first; GetValidatedActionResult appends only non-nil digests; containsWorker gets &chunk[i] of such a slice");
  ("cache/disk/findmissing.go:containsWorker:deref:*(req.digest)", Guarded, "callers pass only non-nil digests: FindMissingBlobs rejects nil elements first; GetValidatedActionResult appends only non-nil digests; containsWorker gets &chunk[i] of such a slice");
  ("cache/disk/findmissing.go:containsWorker:deref:*req.digest", Guarded, "callers pass only non-nil digests: FindMissingBlobs rejects nil elements first; GetValidatedActionResult appends only non-nil digests; containsWorker gets &chunk[i] of such a slice");
  ("cache/disk/findmissing.go:filterNonNil:index:blobs[:count]", Bounded, "loop index < len(slice); count<=i");
  ("cache/disk/findmissing.go:filterNonNil:index:blobs[count]", Bounded, "loop index < len(slice); count<=i");
  ("cache/disk/findmissing.go:filterNonNil:index:blobs[i]", Bounded, "loop index < len(slice); count<=i");
  ("cache/disk/findmissing.go:findMissingCasBlobsInternal:deref:chunk[i].SizeBytes", Guarded, "callers pass only non-nil digests: FindMissingBlobs rejects nil elements first; GetValidatedActionResult appends only non-nil digests; containsWorker gets &chunk[i] of such a slice");
  ("cache/disk/findmissing.go:findMissingCasBlobsInternal:index:chunk[i]", Bounded, "loop index < len(slice); count<=i");
  ("cache/disk/findmissing.go:findMissingLocalCAS:deref:blobs[i].Hash", Guarded, "callers pass only non-nil digests: FindMissingBlobs rejects nil elements first; GetValidatedActionResult appends only non-nil digests; containsWorker gets &chunk[i] of such a slice");
  ("cache/disk/findmissing.go:findMissingLocalCAS:deref:blobs[i].SizeBytes", Guarded, "callers pass only non-nil digests: FindMissingBlobs rejects nil elements first; GetValidatedActionResult appends only non-nil digests; containsWorker gets &chunk[i] of such a slice");
  ("cache/disk/findmissing.go:findMissingLocalCAS:index:blobs[i]", Bounded, "loop index < len(slice); count<=i");
  ("cache/disk/load.go:Less:index:r.metadata[i]", Startup, "start-up only (not request-triggered): indices bounded by the lengths just allocated / by sort.Sort");
  ("cache/disk/load.go:Less:index:r.metadata[j]", Startup, "start-up only (not request-triggered): indices bounded by the lengths just allocated / by sort.Sort");
  ("cache/disk/load.go:Swap:index:r.item[i]", Startup, "start-up only (not request-triggered): indices bounded by the lengths just allocated / by sort.Sort");
  ("cache/disk/load.go:Swap:index:r.item[j]", Startup, "start-up only (not request-triggered): indices bounded by the lengths just allocated / by sort.Sort");
  ("cache/disk/load.go:Swap:index:r.metadata[i]", Startup, "start-up only (not request-triggered): indices bounded by the lengths just allocated / by sort.Sort");
  ("cache/disk/load.go:Swap:index:r.metadata[j]", Startup, "start-up only (not request-triggered): indices bounded by the lengths just allocated / by sort.Sort");
  ("cache/disk/load.go:loadExistingFiles:index:result.item[i]", Startup, "start-up only (not request-triggered): indices bounded by the lengths just allocated / by sort.Sort");
  ("cache/disk/load.go:loadExistingFiles:index:result.metadata[i]", Startup, "start-up only (not request-triggered): indices bounded by the lengths just allocated / by sort.Sort");
  ("cache/disk/load.go:scanDir:index:fields[len(fields)-1]", Startup, "start-up only (not request-triggered): indices bounded by the lengths just allocated / by sort.Sort");
  ("cache/disk/load.go:scanDir:index:item[:n]", Startup, "start-up only (not request-triggered): indices bounded by the lengths just allocated / by sort.Sort");
  ("cache/disk/load.go:scanDir:index:item[n]", Startup, "start-up only (not request-triggered): indices bounded by the lengths just allocated / by sort.Sort");
  ("cache/disk/load.go:scanDir:index:item_values[n]", Startup, "start-up only (not request-triggered): indices bounded by the lengths just allocated / by sort.Sort");
  ("cache/disk/load.go:scanDir:index:metadata[:n]", Startup, "start-up only (not request-triggered): indices bounded by the lengths just allocated / by sort.Sort");
  ("cache/disk/load.go:scanDir:index:metadata[n]", Startup, "start-up only (not request-triggered): indices bounded by the lengths just allocated / by sort.Sort");
  ("cache/disk/load.go:scanDir:index:metadata_values[n]", Startup, "start-up only (not request-triggered): indices bounded by the lengths just allocated / by sort.Sort");
  ("cache/disk/load.go:scanDir:make:make([]*keyAndAtime, len(des))", Startup, "start-up only (not request-triggered): indices bounded by the lengths just allocated / by sort.Sort");
  ("cache/disk/load.go:scanDir:make:make([]*lruItem, len(des))", Startup, "start-up only (not request-triggered): indices bounded by the lengths just allocated / by sort.Sort");
  ("cache/disk/load.go:scanDir:make:make([]keyAndAtime, len(des))", Startup, "start-up only (not request-triggered): indices bounded by the lengths just allocated / by sort.Sort");
  ("cache/disk/load.go:scanDir:make:make([]lruItem, len(des))", Startup, "start-up only (not request-triggered): indices bounded by the lengths just allocated / by sort.Sort");
  ("cache/disk/load.go:scanDir:make:make(chan scanResult, numWorkers)", Startup, "start-up only (not request-triggered): indices bounded by the lengths just allocated / by sort.Sort");
  ("cache/disk/load.go:scanDir:make:make(chan string, numWorkers)", Startup, "start-up only (not request-triggered): indices bounded by the lengths just allocated / by sort.Sort");
  ("cache/disk/lru.go:Add:assert:ee.Value.(*entry)", OwnValue, "list elements are only created by this package with *entry values");
  ("cache/disk/lru.go:Get:assert:ele.Value.(*entry)", OwnValue, "list elements are only created by this package with *entry values");
  ("cache/disk/lru.go:NewSizedLRU:make:make(map[interface{}]*list.Element, initialCapacity)", Bounded, "capacity hint from the number of scanned files");
  ("cache/disk/lru.go:getTailItem:assert:ele.Value.(*entry)", OwnValue, "list elements are only created by this package with *entry values");
  ("cache/disk/lru.go:removeElement:assert:e.Value.(*entry)", OwnValue, "list elements are only created by this package with *entry values");
  ("cache/grpcproxy/grpcproxy.go:CheckCapabilities:deref:resp.CacheCapabilities.ActionCacheUpdateCapabilities", Startup, "client side at start-up against the configured backend, not request-triggered");
  ("cache/grpcproxy/grpcproxy.go:CheckCapabilities:deref:resp.CacheCapabilities.ActionCacheUpdateCapabilities.UpdateEnabled", Startup, "client side at start-up against the configured backend, not request-triggered");
  ("cache/grpcproxy/grpcproxy.go:CheckCapabilities:deref:resp.CacheCapabilities.DigestFunctions", Startup, "client side at start-up against the configured backend, not request-triggered");
  ("cache/grpcproxy/grpcproxy.go:CheckCapabilities:deref:resp.CacheCapabilities.SupportedCompressors", Startup, "client side at start-up against the configured backend, not request-triggered");
  ("cache/grpcproxy/grpcproxy.go:UploadFile:index:buf[:n]", Bounded, "n, read returned by Read/copy are within the buffer; sizes are sizes of local files");
  ("cache/grpcproxy/grpcproxy.go:UploadFile:index:data[read:]", Bounded, "n, read returned by Read/copy are within the buffer; sizes are sizes of local files");
  ("cache/grpcproxy/grpcproxy.go:UploadFile:make:make([]byte, bufSize)", Bounded, "n, read returned by Read/copy are within the buffer; sizes are sizes of local files");
  ("cache/grpcproxy/grpcproxy.go:UploadFile:make:make([]byte, item.SizeOnDisk)", Bounded, "n, read returned by Read/copy are within the buffer; sizes are sizes of local files");
  ("cache/grpcproxy/readcloser.go:Read:index:p[n:]", Bounded, "n, read returned by Read/copy are within the buffer; sizes are sizes of local files");
  ("cache/grpcproxy/readcloser.go:readFromBuf:index:s.buf[:n]", Bounded, "n, read returned by Read/copy are within the buffer; sizes are sizes of local files");
  ("cache/grpcproxy/readcloser.go:readFromBuf:index:s.buf[n:]", Bounded, "n, read returned by Read/copy are within the buffer; sizes are sizes of local files");
  ("server/grpc_ac.go:GetActionResult:deref:of.Contents", Guarded, "nil checks on the request, its digest and each repeated element at the top of the handler (or validate.ActionResult for stored/validated messages)");
  ("server/grpc_ac.go:GetActionResult:deref:of.Digest", Guarded, "nil checks on the request, its digest and each repeated element at the top of the handler (or validate.ActionResult for stored/validated messages)");
  ("server/grpc_ac.go:GetActionResult:deref:of.Path", Guarded, "nil checks on the request, its digest and each repeated element at the top of the handler (or validate.ActionResult for stored/validated messages)");
  ("server/grpc_ac.go:GetActionResult:deref:req.ActionDigest.Hash", Guarded, "nil checks on the request, its digest and each repeated element at the top of the handler (or validate.ActionResult for stored/validated messages)");
  ("server/grpc_ac.go:GetActionResult:deref:req.ActionDigest.SizeBytes", Guarded, "nil checks on the request, its digest and each repeated element at the top of the handler (or validate.ActionResult for stored/validated messages)");
  ("server/grpc_ac.go:GetActionResult:make:make(map[string]struct{}, len(req.InlineOutputFiles))", Bounded, "sized by the length of a request field already in memory, or min(size, 2 MiB) with size>0");
  ("server/grpc_ac.go:UpdateActionResult:deref:f.Contents", Guarded, "nil checks on the request, its digest and each repeated element at the top of the handler (or validate.ActionResult for stored/validated messages)");
  ("server/grpc_ac.go:UpdateActionResult:deref:f.Digest", Guarded, "nil checks on the request, its digest and each repeated element at the top of the handler (or validate.ActionResult for stored/validated messages)");
  ("server/grpc_ac.go:UpdateActionResult:deref:f.Digest.Hash", Guarded, "nil checks on the request, its digest and each repeated element at the top of the handler (or validate.ActionResult for stored/validated messages)");
  ("server/grpc_ac.go:UpdateActionResult:deref:f.Digest.SizeBytes", Guarded, "nil checks on the request, its digest and each repeated element at the top of the handler (or validate.ActionResult for stored/validated messages)");
  ("server/grpc_ac.go:UpdateActionResult:deref:req.ActionDigest.Hash", Guarded, "nil checks on the request, its digest and each repeated element at the top of the handler (or validate.ActionResult for stored/validated messages)");
  ("server/grpc_ac.go:UpdateActionResult:deref:req.ActionDigest.SizeBytes", Guarded, "nil checks on the request, its digest and each repeated element at the top of the handler (or validate.ActionResult for stored/validated messages)");
  ("server/grpc_ac.go:UpdateActionResult:deref:req.ActionResult.OutputFiles", Guarded, "nil checks on the request, its digest and each repeated element at the top of the handler (or validate.ActionResult for stored/validated messages)");
  ("server/grpc_ac.go:UpdateActionResult:deref:req.ActionResult.StderrDigest", Guarded, "nil checks on the request, its digest and each repeated element at the top of the handler (or validate.ActionResult for stored/validated messages)");
  ("server/grpc_ac.go:UpdateActionResult:deref:req.ActionResult.StderrDigest.Hash", Guarded, "nil checks on the request, its digest and each repeated element at the top of the handler (or validate.ActionResult for stored/validated messages)");
  ("server/grpc_ac.go:UpdateActionResult:deref:req.ActionResult.StderrDigest.SizeBytes", Guarded, "nil checks on the request, its digest and each repeated element at the top of the handler (or validate.ActionResult for stored/validated messages)");
  ("server/grpc_ac.go:UpdateActionResult:deref:req.ActionResult.StderrRaw", Guarded, "nil checks on the request, its digest and each repeated element at the top of the handler (or validate.ActionResult for stored/validated messages)");
  ("server/grpc_ac.go:UpdateActionResult:deref:req.ActionResult.StdoutDigest", Guarded, "nil checks on the request, its digest and each repeated element at the top of the handler (or validate.ActionResult for stored/validated messages)");
  ("server/grpc_ac.go:UpdateActionResult:deref:req.ActionResult.StdoutDigest.Hash", Guarded, "nil checks on the request, its digest and each repeated element at the top of the handler (or validate.ActionResult for stored/validated messages)");
  ("server/grpc_ac.go:UpdateActionResult:deref:req.ActionResult.StdoutDigest.SizeBytes", Guarded, "nil checks on the request, its digest and each repeated element at the top of the handler (or validate.ActionResult for stored/validated messages)");
  ("server/grpc_ac.go:UpdateActionResult:deref:req.ActionResult.StdoutRaw", Guarded, "nil checks on the request, its digest and each repeated element at the top of the handler (or validate.ActionResult for stored/validated messages)");
  ("server/grpc_ac.go:addWorkerMetadataGRPC:deref:ar.ExecutionMetadata.Worker", Guarded, "ExecutionMetadata is allocated in the preceding branch when nil");
  ("server/grpc_ac.go:maybeInline:deref:(*digest).Hash", Guarded, "*digest == nil is handled before each dereference (computed digest / early return)");
  ("server/grpc_ac.go:maybeInline:deref:(*digest).SizeBytes", Guarded, "*digest == nil is handled before each dereference (computed digest / early return)");
  ("server/grpc_ac.go:maybeInline:deref:*digest", Guarded, "*digest == nil is handled before each dereference (computed digest / early return)");
  ("server/grpc_asset.go:FetchBlob:deref:q.Name", WireDecoded, "element of a repeated message field decoded from the wire: never nil");
  ("server/grpc_asset.go:FetchBlob:deref:q.Value", WireDecoded, "element of a repeated message field decoded from the wire: never nil");
  ("server/grpc_bytestream.go:Read:index:buf[:n]", Bounded, "index bounded by the loop range / by n returned from Read");
  ("server/grpc_bytestream.go:Read:make:make([]byte, bufSize)", Bounded, "sized by the length of a request field already in memory, or min(size, 2 MiB) with size>0");
  ("server/grpc_bytestream.go:parseReadResource:index:fields[i+1:]", Bounded, "index bounded by the loop range / by n returned from Read");
  ("server/grpc_bytestream.go:parseReadResource:index:fields[i]", Bounded, "index bounded by the loop range / by n returned from Read");
  ("server/grpc_bytestream.go:parseWriteResource:index:fields[i+1:]", Bounded, "index bounded by the loop range / by n returned from Read");
  ("server/grpc_bytestream.go:parseWriteResource:index:fields[i]", Bounded, "index bounded by the loop range / by n returned from Read");
  ("server/grpc_cas.go:BatchReadBlobs:deref:digest.Hash", Guarded, "nil checks on the request, its digest and each repeated element at the top of the handler (or validate.ActionResult for stored/validated messages)");
  ("server/grpc_cas.go:BatchReadBlobs:deref:digest.SizeBytes", Guarded, "nil checks on the request, its digest and each repeated element at the top of the handler (or validate.ActionResult for stored/validated messages)");
  ("server/grpc_cas.go:BatchReadBlobs:make:make([]*pb.BatchReadBlobsResponse_Response, 0, len(in.Digests))", Bounded, "sized by the length of a request field already in memory, or min(size, 2 MiB) with size>0");
  ("server/grpc_cas.go:BatchUpdateBlobs:deref:req.Compressor", Guarded, "nil checks on the request, its digest and each repeated element at the top of the handler (or validate.ActionResult for stored/validated messages)");
  ("server/grpc_cas.go:BatchUpdateBlobs:deref:req.Data", Guarded, "nil checks on the request, its digest and each repeated element at the top of the handler (or validate.ActionResult for stored/validated messages)");
  ("server/grpc_cas.go:BatchUpdateBlobs:deref:req.Digest", Guarded, "nil checks on the request, its digest and each repeated element at the top of the handler (or validate.ActionResult for stored/validated messages)");
  ("server/grpc_cas.go:BatchUpdateBlobs:deref:req.Digest.Hash", Guarded, "nil checks on the request, its digest and each repeated element at the top of the handler (or validate.ActionResult for stored/validated messages)");
  ("server/grpc_cas.go:BatchUpdateBlobs:deref:req.Digest.SizeBytes", Guarded, "nil checks on the request, its digest and each repeated element at the top of the handler (or validate.ActionResult for stored/validated messages)");
  ("server/grpc_cas.go:BatchUpdateBlobs:make:make([]*pb.BatchUpdateBlobsResponse_Response, 0, len(in.Requests))", Bounded, "sized by the length of a request field already in memory, or min(size, 2 MiB) with size>0");
  ("server/grpc_cas.go:FindMissingBlobs:deref:digest.Hash", Guarded, "nil checks on the request, its digest and each repeated element at the top of the handler (or validate.ActionResult for stored/validated messages)");
  ("server/grpc_cas.go:FindMissingBlobs:deref:digest.SizeBytes", Guarded, "nil checks on the request, its digest and each repeated element at the top of the handler (or validate.ActionResult for stored/validated messages)");
  ("server/grpc_cas.go:GetTree:deref:in.RootDigest.Hash", Guarded, "nil checks on the request, its digest and each repeated element at the top of the handler (or validate.ActionResult for stored/validated messages)");
  ("server/grpc_cas.go:GetTree:deref:in.RootDigest.SizeBytes", Guarded, "nil checks on the request, its digest and each repeated element at the top of the handler (or validate.ActionResult for stored/validated messages)");
  ("server/grpc_cas.go:SpliceBlob:deref:chunkDigest.Hash", Guarded, "nil checks on the request, its digest and each repeated element at the top of the handler (or validate.ActionResult for stored/validated messages)");
  ("server/grpc_cas.go:SpliceBlob:deref:chunkDigest.SizeBytes", Guarded, "nil checks on the request, its digest and each repeated element at the top of the handler (or validate.ActionResult for stored/validated messages)");
  ("server/grpc_cas.go:SpliceBlob:deref:req.BlobDigest.Hash", Guarded, "nil checks on the request, its digest and each repeated element at the top of the handler (or validate.ActionResult for stored/validated messages)");
  ("server/grpc_cas.go:SpliceBlob:deref:req.BlobDigest.SizeBytes", Guarded, "nil checks on the request, its digest and each repeated element at the top of the handler (or validate.ActionResult for stored/validated messages)");
  ("server/grpc_cas.go:fillDirectories:deref:dirNode.Digest", Guarded, "nil DirectoryNode / Digest skipped (fix eb44334)");
  ("server/grpc_cas.go:fillDirectories:deref:dirNode.Digest.Hash", Guarded, "nil DirectoryNode / Digest skipped (fix eb44334)");
  ("server/grpc_cas.go:fillDirectories:deref:dirNode.Digest.SizeBytes", Guarded, "nil DirectoryNode / Digest skipped (fix eb44334)");
  ("server/http.go:addWorkerMetadataHTTP:deref:ar.ExecutionMetadata.Worker", Guarded, "ExecutionMetadata is allocated in the preceding branch when nil");
  ("utils/validate/action_result.go:ActionResult:deref:d.Path", Guarded, "each loop variable and optional field is compared with nil before it is dereferenced; proved: C11_validate_never_panics");
  ("utils/validate/action_result.go:ActionResult:deref:d.TreeDigest", Guarded, "each loop variable and optional field is compared with nil before it is dereferenced; proved: C11_validate_never_panics");
  ("utils/validate/action_result.go:ActionResult:deref:f.Digest", Guarded, "each loop variable and optional field is compared with nil before it is dereferenced; proved: C11_validate_never_panics");
  ("utils/validate/action_result.go:ActionResult:deref:f.Path", Guarded, "each loop variable and optional field is compared with nil before it is dereferenced; proved: C11_validate_never_panics");
  ("utils/validate/action_result.go:ActionResult:deref:s.Path", Guarded, "each loop variable and optional field is compared with nil before it is dereferenced; proved: C11_validate_never_panics");
  ("utils/validate/action_result.go:ActionResult:deref:s.Target", Guarded, "each loop variable and optional field is compared with nil before it is dereferenced; proved: C11_validate_never_panics")
].

Definition sites : list string := map (fun x => fst (fst x)) ledger.
