(* Model/Keys.v — cache key spaces, file names, the HTTP request-URL recogniser and the
   action-cache key mangling of both front ends (C15).  Executable definitions only.

   Anchors in /repo: cache/cache.go (EntryKind.String/DirName, LookupKey, TransformActionCacheKey),
   cache/disk/disk.go (FileLocation, FileLocationBase, getElementPath, the zstd guard in get),
   server/http.go (blobNameSHA256, parseRequestURL, CacheHandler), server/grpc_ac.go
   (GetActionResult/UpdateActionResult: validateHash, then mangle), server/grpc.go (validateHash). *)
From BR Require Import Base.Prelude.
Open Scope string_scope.
Open Scope Z_scope.

(* ------------------------------------------------------------------ *)
(* strings: Go strings are byte strings = Coq [string] (one [ascii] per byte) *)

Definition sb (l : list Z) : string :=       (* a string given by its bytes (used by case files) *)
  fold_right (fun z s => String (ascii_of_N (Z.to_N z)) s) "" l.

Fixpoint all_chars (p : ascii -> bool) (s : string) : bool :=
  match s with "" => true | String c t => p c && all_chars p t end.

Fixpoint take (n : nat) (s : string) : string :=
  match n, s with S n', String c t => String c (take n' t) | _, _ => "" end.
Fixpoint drop (n : nat) (s : string) : string :=
  match n, s with S n', String _ t => drop n' t | _, _ => s end.

Fixpoint starts_with (p s : string) : bool :=       (* strings.HasPrefix(s, p) *)
  match p, s with
  | "", _ => true
  | String a p', String b s' => Ascii.eqb a b && starts_with p' s'
  | _, _ => false
  end.

Definition nl : ascii := "010"%char.
Definition is_slash (c : ascii) : bool := Ascii.eqb c "/".
Definition no_newline (s : string) : bool := all_chars (fun c => negb (Ascii.eqb c nl)) s.
Definition no_slash (s : string) : bool := all_chars (fun c => negb (is_slash c)) s.

(* strings.Split(s, "/"): never empty; "" gives [""] *)
Fixpoint split_slash (s : string) : list string :=
  match s with
  | "" => [""]
  | String c t =>
      match split_slash t with
      | [] => [String c ""]                         (* unreachable *)
      | x :: r => if is_slash c then "" :: x :: r else String c x :: r
      end
  end.

Fixpoint join_slash (l : list string) : string :=   (* strings.Join(l, "/") *)
  match l with [] => "" | [x] => x | x :: r => x ++ "/" ++ join_slash r end.

(* strconv.FormatInt(z, 10) / Sprintf("%d", z) for an int64 *)
Definition digit_char (d : Z) : ascii := ascii_of_N (Z.to_N (48 + d)).
Fixpoint pos_digits (fuel : nat) (n : Z) (acc : string) : string :=
  match fuel with
  | O => acc
  | S f => let acc' := String (digit_char (n mod 10)) acc in
           if n / 10 =? 0 then acc' else pos_digits f (n / 10) acc'
  end.
Definition Z_to_dec (z : Z) : string :=
  if z <? 0 then "-" ++ pos_digits 20 (- z) "" else pos_digits 20 z "".

(* ------------------------------------------------------------------ *)
(* hashes: the model of ^[a-f0-9]{64}$ (validate.HashKeyRegex, and group 3 of blobNameSHA256) *)

Definition is_lower_hex (c : ascii) : bool :=
  existsb (Ascii.eqb c) (list_ascii_of_string "0123456789abcdef").
Definition is_hash (s : string) : bool := (String.length s =? 64)%nat && all_chars is_lower_hex s.

Definition emptySha256 : string := "e3b0c44298fc1c149afbf4c8996fb92427ae41e4649b934ca495991b7852b855".

(* ------------------------------------------------------------------ *)
(* key spaces *)

Inductive kind := AC | CAS | RAW.
Definition kind_eqb (a b : kind) : bool :=
  match a, b with AC, AC | CAS, CAS | RAW, RAW => true | _, _ => false end.
Definition kind_to_Z (k : kind) : Z := match k with AC => 0 | CAS => 1 | RAW => 2 end.
Definition kind_of_Z (z : Z) : kind := if z =? 0 then AC else if z =? 1 then CAS else RAW.

Definition kind_string (k : kind) : string := match k with AC => "ac" | CAS => "cas" | RAW => "raw" end.
Definition dir_name (k : kind) : string := match k with AC => "ac.v2" | CAS => "cas.v2" | RAW => "raw.v2" end.

(* cache.LookupKey *)
Definition lookup_key (k : kind) (hash : string) : string := kind_string k ++ "/" ++ hash.

(* ------------------------------------------------------------------ *)
(* path.Clean / path.Join (used by FileLocation for the AC and RAW names) *)

Definition is_dot (s : string) := String.eqb s ".".
Definition is_dotdot (s : string) := String.eqb s "..".

Fixpoint clean_segs (rooted : bool) (segs : list string) (stack : list string) : list string :=
  match segs with
  | [] => rev stack
  | s :: r =>
      if String.eqb s "" || is_dot s then clean_segs rooted r stack
      else if is_dotdot s then
        match stack with
        | top :: st' => if is_dotdot top then clean_segs rooted r (".." :: stack)
                        else clean_segs rooted r st'
        | [] => if rooted then clean_segs rooted r [] else clean_segs rooted r [".."]
        end
      else clean_segs rooted r (s :: stack)
  end.

Definition path_clean (p : string) : string :=
  if String.eqb p "" then "." else
  let rooted := starts_with "/" p in
  let out := (if rooted then "/" else "") ++ join_slash (clean_segs rooted (split_slash p) []) in
  if String.eqb out "" then "." else out.

Definition path_join (elems : list string) : string :=
  match filter (fun e => negb (String.eqb e "")) elems with
  | [] => ""
  | ne => path_clean (join_slash ne)
  end.

(* ------------------------------------------------------------------ *)
(* file names below the cache directory *)

Definition file_location (k : kind) (legacy : bool) (hash : string) (size : Z) (random : string) : result string :=
  if (String.length hash <? 2)%nat then Panic "FileLocation: hash[:2]" else
  let h2 := take 2 hash in
  match k with
  | RAW => Ok (path_join ["raw.v2"; h2; hash ++ "-" ++ random])
  | AC => Ok (path_join ["ac.v2"; h2; hash ++ "-" ++ random])
  | CAS => if legacy then Ok ("cas.v2/" ++ h2 ++ "/" ++ hash ++ "-" ++ random ++ ".v1")
           else Ok ("cas.v2/" ++ h2 ++ "/" ++ hash ++ "-" ++ Z_to_dec size ++ "-" ++ random)
  end.

Definition file_location_base (k : kind) (legacy : bool) (hash : string) (size : Z) : result string :=
  if (String.length hash <? 2)%nat then Panic "FileLocationBase: hash[:2]" else
  let h2 := take 2 hash in
  match k with
  | RAW => Ok (path_join ["raw.v2"; h2; hash])
  | AC => Ok (path_join ["ac.v2"; h2; hash])
  | CAS => if legacy then Ok (path_join ["cas.v2"; h2; hash])
           else Ok ("cas.v2/" ++ h2 ++ "/" ++ hash ++ "-" ++ Z_to_dec size)
  end.

(* getElementPath: the key space is recovered from the lookup key by a prefix test, the hash is
   the last 64 bytes.  (The result is relative to the cache directory.) *)
Definition element_kind (key : string) : kind :=
  if starts_with "cas" key then CAS
  else if starts_with "ac" key then AC
  else if starts_with "raw" key then RAW
  else AC.
Definition element_hash (key : string) : string := drop (String.length key - 64) key.
Definition element_path (dir key : string) (legacy : bool) (size : Z) (random : string) : result string :=
  if (String.length key <? 64)%nat then Panic "getElementPath: ks[len(ks)-64:]" else
  match file_location (element_kind key) legacy (element_hash key) size random with
  | Ok loc => Ok (path_join [dir; loc])                (* filepath.Join(c.dir, ...) *)
  | r => r
  end.

(* the guard in diskCache.get: "Only CAS blobs are available in compressed form" *)
Definition get_guard (k : kind) (zstd : bool) : result unit :=
  if negb (kind_eqb k CAS) && zstd then Err EBadRequest else Ok tt.
Definition zstd_allowed (k : kind) : bool := is_ok (get_guard k true).
(* CacheHandler GET: GetZstd is only called for the CAS *)
Definition http_serves_zstd (k : kind) (accepts_zstd : bool) : bool := kind_eqb k CAS && accepts_zstd.

(* ------------------------------------------------------------------ *)
(* server/http.go: blobNameSHA256 = ^/?(.*/)?(ac/|cas/)([a-f0-9]{64})$
   A recogniser that follows the pattern piece by piece with Go's leftmost-first preferences:
   /? and ( )? prefer to match, .* prefers the longest match, `.` does not match newline, the
   alternation tries ac/ before cas/, ^ and $ anchor at the ends of the text. *)

(* (ac/|cas/)([a-f0-9]{64})$ at the start of s; true = cas *)
Definition tail_match (s : string) : option (bool * string) :=
  if starts_with "ac/" s && is_hash (drop 3 s) then Some (false, drop 3 s)
  else if starts_with "cas/" s && is_hash (drop 4 s) then Some (true, drop 4 s)
  else None.

(* (.*/) followed by the tail, at the start of s: returns what .* matched (the longest possible) *)
Fixpoint g1 (s : string) : option (string * (bool * string)) :=
  match s with
  | "" => None
  | String c s' =>
      if Ascii.eqb c nl then None                       (* `.` cannot match it, and it is not '/' *)
      else match g1 s' with
           | Some (x, t) => Some (String c x, t)        (* greedy: a longer .* is preferred *)
           | None => if is_slash c then
                       match tail_match s' with Some t => Some ("", t) | None => None end
                     else None
           end
  end.

(* (.*/)?(ac/|cas/)(hash)$ : first component is m[1] ("" when the group did not participate) *)
Definition after_opt_slash (s : string) : option (string * (bool * string)) :=
  match g1 s with
  | Some (x, t) => Some (x ++ "/", t)
  | None => match tail_match s with Some t => Some ("", t) | None => None end
  end.

Definition re_blobName (url : string) : option (string * (bool * string)) :=
  match url with
  | String c rest =>
      if is_slash c then
        match after_opt_slash rest with Some r => Some r | None => after_opt_slash url end
      else after_opt_slash url
  | "" => after_opt_slash url
  end.

Fixpoint trim_suffix_slash (s : string) : string :=     (* strings.TrimSuffix(s, "/") *)
  match s with
  | "" => ""
  | String c "" => if is_slash c then "" else s
  | String c t => String c (trim_suffix_slash t)
  end.

(* parseRequestURL *)
Definition parse_request_url (url : string) (validateAC : bool) : option (kind * string * string) :=
  match re_blobName url with
  | None => None
  | Some (m1, (is_cas, hash)) =>
      Some ((if is_cas then CAS else if validateAC then AC else RAW), hash, trim_suffix_slash m1)
  end.

(* ------------------------------------------------------------------ *)
(* action-cache key mangling; H = hex(sha256(.)) is a parameter *)

Definition transform_ac_key (H : string -> string) (key instance : string) : string :=
  if String.eqb instance "" then key else H (key ++ instance).

(* CacheHandler: the key the disk cache is asked for *)
Definition http_request_key (H : string -> string) (mangle validateAC : bool) (url : string) : option (kind * string) :=
  match parse_request_url url validateAC with
  | None => None
  | Some (k, hash, instance) =>
      Some (k, if mangle && (kind_eqb k AC || kind_eqb k RAW) then transform_ac_key H hash instance else hash)
  end.

(* grpcServer.validateHash *)
Definition validate_hash (hash : string) (size : Z) : result unit :=
  if size =? 0 then (if String.eqb hash emptySha256 then Ok tt else Err EBadRequest)
  else if negb (String.length hash =? 64)%nat then Err EBadRequest
  else if is_hash hash then Ok tt else Err EBadRequest.

(* GetActionResult / UpdateActionResult: the hash sent by the client is validated FIRST, then mangled
   (as over HTTP, where the pattern validates it before CacheHandler mangles) *)
Definition grpc_ac_key (H : string -> string) (mangle : bool) (hash instance : string) (size : Z) : result string :=
  match validate_hash hash size with
  | Ok _ => Ok (if mangle then transform_ac_key H hash instance else hash)
  | Err e => Err e
  | Panic s => Panic s
  | Hang s => Hang s
  end.

(* the URL a client uses for an action result under an instance name, and the (key space, key)
   each front end ends up asking the disk cache for; gRPC always uses the AC key space *)
Definition http_ac_url (instance hash : string) : string :=
  if String.eqb instance "" then "/ac/" ++ hash else "/" ++ instance ++ "/ac/" ++ hash.
Definition front_key (H : string -> string) (mangle validateAC : bool) (http : bool) (hash instance : string)
  : option (kind * string) :=
  if http then http_request_key H mangle validateAC (http_ac_url instance hash)
  else match grpc_ac_key H mangle hash instance 1 with Ok k => Some (AC, k) | _ => None end.
Definition same_entry (a b : option (kind * string)) : bool :=
  match a, b with
  | Some (k, x), Some (k', x') => kind_eqb k k' && String.eqb x x'
  | _, _ => false
  end.

(* ------------------------------------------------------------------ *)
(* correspondence cases (written by harness/cmd/keys) *)

Definition opt_eqb {A} (eqb : A -> A -> bool) (a b : option A) : bool :=
  match a, b with Some x, Some y => eqb x y | None, None => true | _, _ => false end.

(* the observable of a Go call that may panic: Some text, or None when it panicked *)
Definition res_obs (r : result string) : option string := match r with Ok s => Some s | _ => None end.

Inductive kcase :=
| KUrl (url : string) (validateAC : bool) (obs : option (Z * string * string))
    (* parseRequestURL: (kind, hash, instance) or an error *)
| KLoc (dir : string) (k : Z) (legacy : bool) (hash : string) (size : Z) (random : string)
       (obs_loc obs_base : option string) (obs_key : string) (obs_elem : option string)
    (* FileLocation, FileLocationBase, LookupKey, getElementPath(LookupKey(k,hash)) of a cache in dir *)
| KValidate (hash : string) (size : Z) (obs_ok : bool)
    (* validateHash *)
| KMangle (mangle validateAC : bool) (hash instance : string) (htbl : list (string * string))
          (http_url : string) (obs_http_key : option (Z * string)) (size : Z) (obs_grpc_key : option string)
| KE2E (mangle validateAC : bool) (htbl : list (string * string)) (hash : string)
       (store_http : bool) (store_instance : string) (lookups : list (bool * string * bool)).
    (* an ActionResult stored through one real front end under store_instance, then looked up through
       (http?, instance) pairs: observed hit/miss *)
    (* htbl: pairs (x, sha256hex x) computed by the driver for every x a front end hashed (oracle column);
       obs_http_key: what parseRequestURL + TransformActionCacheKey computed for the URL;
       obs_grpc_key: validateHash + TransformActionCacheKey as in GetActionResult *)

Fixpoint hfun (tbl : list (string * string)) (x : string) : string :=
  match tbl with [] => "" | (a, b) :: r => if String.eqb a x then b else hfun r x end.

Definition obs3_eqb (a b : Z * string * string) : bool :=
  let '(k, h, i) := a in let '(k', h', i') := b in (k =? k') && String.eqb h h' && String.eqb i i'.
Definition obs2_eqb (a b : Z * string) : bool :=
  let '(k, h) := a in let '(k', h') := b in (k =? k') && String.eqb h h'.

Definition case_ok (c : kcase) : bool :=
  match c with
  | KUrl url v obs =>
      opt_eqb obs3_eqb
        (match parse_request_url url v with Some (k, h, i) => Some (kind_to_Z k, h, i) | None => None end) obs
  | KLoc dir k legacy hash size random oloc obase okey oelem =>
      let kd := kind_of_Z k in
      opt_eqb String.eqb (res_obs (file_location kd legacy hash size random)) oloc
      && opt_eqb String.eqb (res_obs (file_location_base kd legacy hash size)) obase
      && String.eqb (lookup_key kd hash) okey
      && opt_eqb String.eqb (res_obs (element_path dir (lookup_key kd hash) legacy size random)) oelem
  | KValidate hash size ok => Bool.eqb (is_ok (validate_hash hash size)) ok
  | KMangle mangle v hash instance htbl url ohttp size ogrpc =>
      let H := hfun htbl in
      opt_eqb obs2_eqb
        (match http_request_key H mangle v url with Some (k, x) => Some (kind_to_Z k, x) | None => None end) ohttp
      && opt_eqb String.eqb (res_obs (grpc_ac_key H mangle hash instance size)) ogrpc
  | KE2E mangle v htbl hash sh si lookups =>
      let H := hfun htbl in
      let stored := front_key H mangle v sh hash si in
      forallb (fun l => let '(lh, li, found) := l in
                        Bool.eqb (same_entry stored (front_key H mangle v lh hash li)) found) lookups
  end.
