(* Model/ACDeps.v — diskCache.GetValidatedActionResult on top of Model/Disk.v and
   Model/ActionResult.v: read the AC entry, decode and validate it, read and decode the Tree of
   every output directory, then one fail-fast find-missing over all collected digests.
   Decoding (protobuf) is an oracle: [dec_ar]/[dec_tree] map the content identity of a stored blob
   to the message it decodes to.  Definitions only. *)
From BR Require Import Base.Prelude Model.LRU Model.Disk Model.ActionResult.
Open Scope Z_scope.

Inductive ac_outcome :=
| ACHit (ar : action_result)
| ACMiss
| ACErr.

Section Deps.
  Variable c : cfg.
  Variable dec_ar : Z -> option action_result.
  Variable dec_tree : Z -> option tree.
  (* backend behaviour for the lookups made on the way (all BMiss / BHasNo without a backend) *)
  Variable b_of : string -> bget.
  Variable has_of : string -> bhas.

  (* read the Tree blobs of the output directories, in order *)
  Fixpoint read_trees (d : dstate) (ds : list output_dir) : dstate * option (option (list tree)) :=
    (* Some (Some ts): all read; Some None: a tree is missing (-> miss); None: error *)
    match ds with
    | [] => (d, Some (Some []))
    | od :: rest =>
        match od_tree od with
        | None => (d, None)          (* excluded by validate *)
        | Some g =>
            let '(d1, r) := exec c d (RGet CAS (hash g) (size_bytes g) 0 false (b_of (hash g)) "fetched") in
            match r with
            | Some (GetHit s cid _) =>
                if negb (s =? size_bytes g) then (d1, None) else
                match dec_tree cid with
                | None => (d1, None)
                | Some t =>
                    let '(d2, r2) := read_trees d1 rest in
                    (d2, match r2 with Some (Some ts) => Some (Some (t :: ts)) | x => x end)
                end
            | Some GetMiss => (d1, Some None)
            | _ => (d1, None)
            end
        end
    end.

  Definition get_validated (d : dstate) (key : string) : dstate * ac_outcome :=
    let '(d1, r) := exec c d (RGet AC key (-1) 0 false (b_of key) "fetched") in
    match r with
    | Some (GetHit s cid _) =>
        if s <=? 0 then (d1, ACMiss) else
        match dec_ar cid with
        | None => (d1, ACErr)
        | Some ar =>
            if negb (valid ar) then (d1, ACErr) else
            let '(d2, rt) := read_trees d1 (somes (ar_dirs ar)) in
            match rt with
            | None => (d2, ACErr)
            | Some None => (d2, ACMiss)
            | Some (Some ts) =>
                let ds := map (fun g => (hash g, size_bytes g)) (pending ar ts) in
                let '(d3, r3) := exec c d2 (RFindMissing ds (map (fun x => has_of (fst x)) ds) true) in
                match r3 with
                | Some (Missing []) => (d3, ACHit ar)
                | Some MissingFailFast => (d3, ACMiss)
                | Some (Missing _) => (d3, ACMiss)
                | _ => (d3, ACErr)
                end
            end
        end
    | Some GetMiss => (d1, ACMiss)
    | _ => (d1, ACErr)
    end.
End Deps.

(* ---------------- correspondence case ---------------- *)

Definition outcome_eqb (a b : ac_outcome) : bool :=
  match a, b with
  | ACHit _, ACHit _ => true      (* the message itself is compared by the C11 driver *)
  | ACMiss, ACMiss | ACErr, ACErr => true
  | _, _ => false
  end.

Fixpoint assoc_opt {A} (k : Z) (l : list (Z * A)) : option A :=
  match l with [] => None | (k', v) :: t => if k =? k' then Some v else assoc_opt k t end.

(* configuration, max, setup uploads, decoding tables, key, observed outcome, observed recency
   order (keys, least recently used first) after the call, and what the backend answers to a
   Contains for each hash (absent from the table: no) *)
Fixpoint has_lookup (h : string) (l : list (string * bhas)) : bhas :=
  match l with [] => BHasNo | (k, b) :: t => if String.eqb k h then b else has_lookup h t end.

Definition acase : Type :=
  cfg * Z * list request * list (Z * action_result) * list (Z * tree) * string * ac_outcome * list string
  * list (string * bhas).

Definition acase_ok (x : acase) : bool :=
  let '(c, mx, setup, ars, trees, key, observed, order_after, has) := x in
  let d0 := fold_left (fun d r => fst (exec c d r)) setup (dinit mx 0) in
  let '(d1, o) := get_validated c (fun cid => assoc_opt cid ars) (fun cid => assoc_opt cid trees)
                                (fun _ => BMiss) (fun h => has_lookup h has) d0 key in
  outcome_eqb o observed
  && list_eqb String.eqb (map (fun e => ekey (ent e)) (order (lru d1))) order_after.
