(* Model/GoLRURun.v — operation histories executed by the TRANSLATED lru.go (Gen/LRUSrc.v), and the
   abstraction to the state of Model/LRU.v.  Definitions only.

   [gstep] runs one operation of Model.LRU.op with the generated functions; the fuel of the two
   eviction loops is the length of the list plus two (Add links one element before its loop).
   [None] = the loop did not end within the fuel: the Go loop of Add spins on an empty list.
   performQueuedEvictions (channel receive + callback) is not translated: [g_evictor_step] is written
   here and mirrors LRU.evictor_step. *)
From BR Require Import Base.Prelude Gen.Funcs Model.LRU Model.GoLRU Gen.LRUSrc.
Open Scope Z_scope.

Definition abs_elem (c : gst) (id : nat) : elem := mkElem id (elem_value c id).

(* the model state a Go state stands for: recency list reversed (LRU first), fields one to one *)
Definition abs (c : gst) : state :=
  mkState (rev (map (abs_elem c) (g_ll c))) (g_next c) (g_currentSize c) (g_uncompressedSize c)
          (g_reservedSize c) (g_maxSize c) (g_maxSizeHardLimit c) (g_queue c) (g_queuedEvictionsSize c)
          (g_totalDiskSizePeak c).

Definition fuel_of (c : gst) : nat := S (S (List.length (g_ll c))).

Definition g_evictor_step (c : gst) : gst * option entry :=
  match g_queue c with
  | [] => (c, None)
  | en :: t =>
      (mkG (g_ll c) (g_heap c) (g_cache c) (g_next c) (g_currentSize c) (g_uncompressedSize c)
           (g_reservedSize c) (g_maxSize c) (g_totalDiskSizePeak c) (g_maxSizeHardLimit c) t
           (g_queuedEvictionsSize c - sizeOnDisk (evalue en)), Some en)
  end.
Fixpoint g_drain_n (n : nat) (c : gst) : gst :=
  match n with O => c | S m => g_drain_n m (fst (g_evictor_step c)) end.

Definition err_out (e : option errc) : out := match e with None => RUnit | Some x => RErr x end.

Definition gstep (c : gst) (o : op) : option (gst * out) :=
  match o with
  | OAdd k v =>
      match LRUSrc_Add (fuel_of c) c k v with
      | Some (c', b) => Some (c', RBool b)
      | None => None
      end
  | OGet k =>
      let '(c', (v, e)) := LRUSrc_Get c k in
      Some (c', match e with Some _ => RHit v | None => RMiss end)
  | ORemoveKey k => Some (LRUSrc_RemoveKey c k, RUnit)
  | ORemoveElem k =>
      let '(c1, (_, e)) := LRUSrc_Get c k in
      match e with
      | Some id => Some (LRUSrc_RemoveElement c1 id, RUnit)
      | None => Some (c1, RMiss)
      end
  | OReserve n =>
      match LRUSrc_Reserve (fuel_of c) c n with
      | Some (c', e) => Some (c', err_out e)
      | None => None
      end
  | OUnreserve n => let '(c', e) := LRUSrc_Unreserve c n in Some (c', err_out e)
  | OEvictorStep =>
      let '(c', r) := g_evictor_step c in
      Some (c', match r with Some en => REvicted (ekey en) (evalue en) | None => RIdle end)
  | ODrain => Some (g_drain_n (List.length (g_queue c)) c, RDrained (g_queue c))
  end.

Fixpoint grun (c : gst) (ops : list op) : option gst :=
  match ops with
  | [] => Some c
  | o :: t => match gstep c o with Some (c', _) => grun c' t | None => None end
  end.

(* what the correspondence check compares: after a step that does not end, the trace stops with
   RHang (the model's outcome for a spinning loop) *)
Fixpoint gtrace (c : gst) (ops : list op) : list (out * snap) :=
  match ops with
  | [] => []
  | o :: t =>
      match gstep c o with
      | Some (c', r) => (r, snapshot (abs c')) :: gtrace c' t
      | None => [(RHang, snapshot (abs c))]
      end
  end.

(* one correspondence case for the translated code: configuration, operations, what the
   implementation showed *)
Definition gcase_ok (cs : Z * Z * list op * list (out * snap)) : bool :=
  let '(mx, hd, ops, observed) := cs in
  list_eqb obs_eqb (gtrace (ginit mx hd) ops) observed.
