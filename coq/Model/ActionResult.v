(* Model/ActionResult.v — executable model of the action-cache message handling:
     utils/validate/action_result.go   (ActionResult, maybeNilDigest)
     server/grpc_ac.go                 (UpdateActionResult, GetActionResult, maybeInline, addWorkerMetadataGRPC)
     server/http.go                    (AC branches of PUT / GET, addWorkerMetadataHTTP)
     cache/disk/disk.go                (GetValidatedActionResult: the dependency list; the guards of Put/Contains/Get)
   Definitions only (plus the boolean equalities used by the correspondence check).

   Abstractions.
   * Messages are abstract syntax of build.bazel.remote.execution.v2: optional sub-messages are
     [option]; repeated message fields are lists whose ELEMENTS may be absent (a Go
     []*pb.OutputFile can hold nil when the struct is built in process).  protobuf / protojson are
     oracles: an HTTP request carries the decoded message (or [None] when the body does not parse).
   * Byte strings (stdout, stderr, inline file contents, blobs) are [bytes]: their length and their
     TRUE SHA-256 (an oracle column computed by the harness).  Two byte strings are identified when
     both agree.
   * The store.  The upload decision functions take the store as an ARGUMENT (a state type and a
     [put] function with arbitrary behaviour); they return the store operations they performed, in
     order.  The read side and the histories use the reference store [mstore]: no eviction, no
     space limit, CAS puts verified against digest and size as disk.Put does. *)
From BR Require Import Base.Prelude Gen.Consts.
Open Scope string_scope.
Open Scope list_scope.
Open Scope Z_scope.

(* ------------------------------------------------------------------ *)
(* abstract syntax *)

Record digest := mkDigest { hash : string; size_bytes : Z }.
Record bytes := mkBytes { blen : Z; bsha : string }.

Definition emptySha : string := server_emptySha256.
Definition maxInline : Z := maxInlineSize.
Definition no_bytes : bytes := mkBytes 0 emptySha.
Definition true_digest (b : bytes) : digest := mkDigest (bsha b) (blen b).

Record output_file := mkOF {
  of_path : string; of_digest : option digest; of_exec : bool; of_contents : bytes }.
Record output_dir := mkOD { od_path : string; od_tree : option digest }.
Record output_symlink := mkSL { sl_path : string; sl_target : string }.
Record exec_meta := mkEM { em_worker : string; em_other : Z }.   (* em_other: the remaining fields, opaque *)

Record action_result := mkAR {
  ar_files : list (option output_file);
  ar_file_symlinks : list (option output_symlink);   (* deprecated output_file_symlinks *)
  ar_symlinks : list (option output_symlink);
  ar_dirs : list (option output_dir);
  ar_dir_symlinks : list (option output_symlink);    (* deprecated output_directory_symlinks *)
  ar_exit : Z;
  ar_stdout_raw : bytes; ar_stdout_digest : option digest;
  ar_stderr_raw : bytes; ar_stderr_digest : option digest;
  ar_meta : option exec_meta }.

Record file_node := mkFN { fn_name : string; fn_digest : option digest; fn_exec : bool }.
Record dir_node := mkDN { dn_name : string; dn_digest : option digest }.
Record directory := mkDir {
  dir_files : list (option file_node);
  dir_dirs : list (option dir_node);
  dir_symlinks : list (option output_symlink) }.
Record tree := mkTree { t_root : option directory; t_children : list (option directory) }.

(* ------------------------------------------------------------------ *)
(* strings: ^[a-f0-9]{64}$ and strings.HasPrefix(s, "/") *)

Definition lower_hex (c : ascii) : bool :=
  let n := N_of_ascii c in
  (((48 <=? n) && (n <=? 57)) || ((97 <=? n) && (n <=? 102)))%N.
Fixpoint all_hex (s : string) : bool :=
  match s with EmptyString => true | String c t => lower_hex c && all_hex t end.
Definition slen (s : string) : Z := Z.of_nat (String.length s).
Definition is_hash (s : string) : bool := (slen s =? 64) && all_hex s.
Definition starts_slash (s : string) : bool :=
  match s with String c _ => Ascii.eqb c "/"%char | EmptyString => false end.
Definition str_empty (s : string) : bool := String.eqb s "".

(* ------------------------------------------------------------------ *)
(* validate.ActionResult, check by check.  [deref] marks every field selection through a pointer:
   the model yields [Panic] if such a selection is reached with nil. *)

Inductive verr :=
| VNilAR
| VNilFile | VEmptyFilePath | VAbsFile | VNilFileDigest | VBadFileDigest
| VNilDir | VAbsDir | VNilTreeDigest | VBadTreeDigest
| VNilFSym | VEmptyFSymPath | VEmptyFSymTarget | VAbsFSym
| VNilSym | VEmptySymPath | VEmptySymTarget | VAbsSym
| VNilDSym | VEmptyDSymPath | VEmptyDSymTarget | VAbsDSym
| VBadStdout | VBadStderr.
Inductive derr := DNegative | DBadHash.

Definition all_verr : list verr :=
  [VNilAR; VNilFile; VEmptyFilePath; VAbsFile; VNilFileDigest; VBadFileDigest;
   VNilDir; VAbsDir; VNilTreeDigest; VBadTreeDigest;
   VNilFSym; VEmptyFSymPath; VEmptyFSymTarget; VAbsFSym;
   VNilSym; VEmptySymPath; VEmptySymTarget; VAbsSym;
   VNilDSym; VEmptyDSymPath; VEmptyDSymTarget; VAbsDSym;
   VBadStdout; VBadStderr].

(* the error text each check returns (error variable's text, or the format string) — pinned
   against the regenerated source in Bridge_ActionResult.v *)
Definition verr_msg (e : verr) : string :=
  match e with
  | VNilAR => "nil *ActionResult"
  | VNilFile => "nil output file"
  | VEmptyFilePath => "empty path"
  | VAbsFile => "absolute path in output file: %q"
  | VNilFileDigest => "nil Digest for path %q"
  | VBadFileDigest => "invalid Digest for path %q: %w"
  | VNilDir => "nil output directory"
  | VAbsDir => "absolute path in output directory: %q"
  | VNilTreeDigest => "nil tree digest pointer for output directory: %q"
  | VBadTreeDigest => "invalid TreeDigest for path %q: %w"
  | VNilFSym => "nil *OutputSymlink in OutputFileSymlinks"
  | VEmptyFSymPath => "empty path in OutputFileSymlinks"
  | VEmptyFSymTarget => "empty target in OutputFileSymlinks"
  | VAbsFSym => "absolute path in output file symlink: %q"
  | VNilSym => "nil *OutputSymlink in OuputSymlinks"
  | VEmptySymPath => "empty path in OutputSymlinks"
  | VEmptySymTarget => "empty target in OutputSymlinks"
  | VAbsSym => "absolute path in output symlink: %q"
  | VNilDSym => "nil *OutputSymlink in OutputDirectorySymlinks"
  | VEmptyDSymPath => "empty path in OutputDirectorySymlinks"
  | VEmptyDSymTarget => "empty target in OutputDirectorySymlinks"
  | VAbsDSym => "absolute path in output directory symlink: %q"
  | VBadStdout => "invalid StdoutDigest: %w"
  | VBadStderr => "invalid StderrDigest: %w"
  end.
Definition derr_msg (e : derr) : string :=
  match e with DNegative => "digest has negative SizeBytes" | DBadHash => "invalid hash: %q" end.

(* the source text of the condition guarding each check (same order as [all_verr]) *)
Definition verr_cond (e : verr) : string :=
  match e with
  | VNilAR => "ar == nil"
  | VNilFile => "f == nil"
  | VEmptyFilePath => "f.Path == """""
  | VAbsFile => "strings.HasPrefix(f.Path, ""/"")"
  | VNilFileDigest => "f.Digest == nil"
  | VBadFileDigest => "maybeNilDigest(f.Digest) != nil"
  | VNilDir => "d == nil"
  | VAbsDir => "strings.HasPrefix(d.Path, ""/"")"
  | VNilTreeDigest => "d.TreeDigest == nil"
  | VBadTreeDigest => "maybeNilDigest(d.TreeDigest) != nil"
  | VNilFSym | VNilSym | VNilDSym => "s == nil"
  | VEmptyFSymPath | VEmptySymPath | VEmptyDSymPath => "s.Path == """""
  | VEmptyFSymTarget | VEmptySymTarget | VEmptyDSymTarget => "s.Target == """""
  | VAbsFSym | VAbsSym | VAbsDSym => "strings.HasPrefix(s.Path, ""/"")"
  | VBadStdout => "maybeNilDigest(ar.StdoutDigest) != nil"
  | VBadStderr => "maybeNilDigest(ar.StderrDigest) != nil"
  end.
(* the repeated field whose range loop contains the check ("" = outside any loop) *)
Definition verr_scope (e : verr) : string :=
  match e with
  | VNilAR | VBadStdout | VBadStderr => ""
  | VNilFile | VEmptyFilePath | VAbsFile | VNilFileDigest | VBadFileDigest => "OutputFiles"
  | VNilDir | VAbsDir | VNilTreeDigest | VBadTreeDigest => "OutputDirectories"
  | VNilFSym | VEmptyFSymPath | VEmptyFSymTarget | VAbsFSym => "OutputFileSymlinks"
  | VNilSym | VEmptySymPath | VEmptySymTarget | VAbsSym => "OutputSymlinks"
  | VNilDSym | VEmptyDSymPath | VEmptyDSymTarget | VAbsDSym => "OutputDirectorySymlinks"
  end.
Definition check_table : list (string * string * string) :=
  map (fun e => (verr_scope e, verr_cond e, verr_msg e)) all_verr.
Definition digest_check_table : list (string * string) :=
  [("d == nil", ""); ("d.SizeBytes < 0", derr_msg DNegative);
   ("!HashKeyRegex.MatchString(d.Hash)", derr_msg DBadHash)].

Definition deref {A} (o : option A) (site : string) : result A :=
  match o with Some a => Ok a | None => Panic site end.
Definition bind {A B} (r : result A) (f : A -> result B) : result B :=
  match r with Ok a => f a | Err e => Err e | Panic s => Panic s | Hang s => Hang s end.
Notation "x <- r ;; k" := (bind r (fun x => k)) (at level 61, r at next level, right associativity).

Definition is_nil {A} (o : option A) : bool := match o with None => true | Some _ => false end.

(* maybeNilDigest *)
Definition maybe_nil_digest (d : option digest) : result (option derr) :=
  if is_nil d then Ok None else
  dv <- deref d "maybeNilDigest: d.SizeBytes";;
  if size_bytes dv <? 0 then Ok (Some DNegative) else
  if negb (is_hash (hash dv)) then Ok (Some DBadHash) else Ok None.

Definition check_file (f : option output_file) : result (option verr) :=
  if is_nil f then Ok (Some VNilFile) else
  fv <- deref f "validate.ActionResult: f.Path";;
  if str_empty (of_path fv) then Ok (Some VEmptyFilePath) else
  if starts_slash (of_path fv) then Ok (Some VAbsFile) else
  if is_nil (of_digest fv) then Ok (Some VNilFileDigest) else
  e <- maybe_nil_digest (of_digest fv);;
  match e with Some _ => Ok (Some VBadFileDigest) | None => Ok None end.

Definition check_dir (d : option output_dir) : result (option verr) :=
  if is_nil d then Ok (Some VNilDir) else
  dv <- deref d "validate.ActionResult: d.Path";;
  if starts_slash (od_path dv) then Ok (Some VAbsDir) else
  if is_nil (od_tree dv) then Ok (Some VNilTreeDigest) else
  e <- maybe_nil_digest (od_tree dv);;
  match e with Some _ => Ok (Some VBadTreeDigest) | None => Ok None end.

Definition check_symlink (enil epath etarget eabs : verr) (s : option output_symlink) : result (option verr) :=
  if is_nil s then Ok (Some enil) else
  sv <- deref s "validate.ActionResult: s.Path";;
  if str_empty (sl_path sv) then Ok (Some epath) else
  if str_empty (sl_target sv) then Ok (Some etarget) else
  if starts_slash (sl_path sv) then Ok (Some eabs) else Ok None.

(* a range loop that returns at the first failing element *)
Fixpoint first_err {A} (chk : A -> result (option verr)) (l : list A) : result (option verr) :=
  match l with
  | [] => Ok None
  | x :: t => e <- chk x;; match e with Some v => Ok (Some v) | None => first_err chk t end
  end.

Definition andthen (r : result (option verr)) (k : result (option verr)) : result (option verr) :=
  e <- r;; match e with Some v => Ok (Some v) | None => k end.

Definition validate_r (ar : option action_result) : result (option verr) :=
  if is_nil ar then Ok (Some VNilAR) else
  a <- deref ar "validate.ActionResult: ar.OutputFiles";;
  andthen (first_err check_file (ar_files a))
  (andthen (first_err check_dir (ar_dirs a))
  (andthen (first_err (check_symlink VNilFSym VEmptyFSymPath VEmptyFSymTarget VAbsFSym) (ar_file_symlinks a))
  (andthen (first_err (check_symlink VNilSym VEmptySymPath VEmptySymTarget VAbsSym) (ar_symlinks a))
  (andthen (first_err (check_symlink VNilDSym VEmptyDSymPath VEmptyDSymTarget VAbsDSym) (ar_dir_symlinks a))
  (andthen (e <- maybe_nil_digest (ar_stdout_digest a);;
            match e with Some _ => Ok (Some VBadStdout) | None => Ok None end)
           (e <- maybe_nil_digest (ar_stderr_digest a);;
            match e with Some _ => Ok (Some VBadStderr) | None => Ok None end)))))).

(* validate.ActionResult as an outcome: nil error / non-nil error / panic *)
Definition validate (ar : option action_result) : result unit :=
  e <- validate_r ar;; match e with None => Ok tt | Some _ => Err EBadRequest end.
Definition valid (ar : action_result) : bool := is_ok (validate (Some ar)).

(* ------------------------------------------------------------------ *)
(* the blobs an ActionResult depends on — GetValidatedActionResult.
   [trees] holds the decoded Tree of each output directory, in order.
   [pending] is exactly the slice handed to findMissingCasBlobsInternal; [referenced] adds, in
   the position where the code fetches it, the tree blob of every output directory. *)

Fixpoint somes {A} (l : list (option A)) : list A :=
  match l with [] => [] | Some x :: t => x :: somes t | None :: t => somes t end.

Definition files_without_contents (fs : list (option output_file)) : list digest :=
  somes (map (fun f => if blen (of_contents f) =? 0 then of_digest f else None) (somes fs)).

Definition dir_file_digests (d : option directory) : list digest :=
  match d with None => [] | Some dv => somes (map fn_digest (somes (dir_files dv))) end.
Definition tree_file_digests (t : tree) : list digest :=
  dir_file_digests (t_root t) ++ List.concat (map dir_file_digests (t_children t)).

Fixpoint zip_dirs (with_tree_digest : bool) (ds : list output_dir) (ts : list tree) : list digest :=
  match ds, ts with
  | d :: ds', t :: ts' =>
      (if with_tree_digest then match od_tree d with Some g => [g] | None => [] end else [])
      ++ tree_file_digests t ++ zip_dirs with_tree_digest ds' ts'
  | _, _ => []
  end.

Definition odigest_list (d : option digest) : list digest := match d with Some g => [g] | None => [] end.

Definition deps (with_tree_digest : bool) (ar : action_result) (trees : list tree) : list digest :=
  files_without_contents (ar_files ar)
  ++ zip_dirs with_tree_digest (somes (ar_dirs ar)) trees
  ++ odigest_list (ar_stdout_digest ar) ++ odigest_list (ar_stderr_digest ar).

Definition pending (ar : action_result) (trees : list tree) : list digest := deps false ar trees.
Definition referenced (ar : action_result) (trees : list tree) : list digest := deps true ar trees.

(* the same walk with the nil dereferences the Go loops contain: `f.Contents` on a nil output
   file, `d.TreeDigest.Hash` on a nil directory or tree digest, `f.Digest` on a nil FileNode.
   (validate excludes the first two; wire decoding never produces the third.) *)
Fixpoint pending_files_r (fs : list (option output_file)) : result (list digest) :=
  match fs with
  | [] => Ok []
  | f :: t =>
      fv <- deref f "GetValidatedActionResult: f.Contents";;
      r <- pending_files_r t;;
      if blen (of_contents fv) =? 0 then
        g <- deref (of_digest fv) "findMissingLocalCAS: blobs[i].SizeBytes";; Ok (g :: r)
      else Ok r
  end.
Fixpoint node_digests_r (ns : list (option file_node)) : result (list digest) :=
  match ns with
  | [] => Ok []
  | n :: t =>
      nv <- deref n "GetValidatedActionResult: f.Digest (FileNode)";;
      r <- node_digests_r t;;
      Ok (odigest_list (fn_digest nv) ++ r)
  end.
Definition dir_digests_r (d : option directory) : result (list digest) :=
  match d with None => Ok [] | Some dv => node_digests_r (dir_files dv) end.
Fixpoint children_digests_r (cs : list (option directory)) : result (list digest) :=
  match cs with
  | [] => Ok []
  | c :: t => a <- dir_digests_r c;; r <- children_digests_r t;; Ok (a ++ r)
  end.
Definition tree_digests_r (t : tree) : result (list digest) :=
  a <- dir_digests_r (t_root t);; r <- children_digests_r (t_children t);; Ok (a ++ r).

(* ------------------------------------------------------------------ *)
(* worker metadata *)

Definition set_meta (m : option exec_meta) (ar : action_result) : action_result :=
  mkAR (ar_files ar) (ar_file_symlinks ar) (ar_symlinks ar) (ar_dirs ar) (ar_dir_symlinks ar)
       (ar_exit ar) (ar_stdout_raw ar) (ar_stdout_digest ar) (ar_stderr_raw ar) (ar_stderr_digest ar) m.
Definition set_files (fs : list (option output_file)) (ar : action_result) : action_result :=
  mkAR fs (ar_file_symlinks ar) (ar_symlinks ar) (ar_dirs ar) (ar_dir_symlinks ar)
       (ar_exit ar) (ar_stdout_raw ar) (ar_stdout_digest ar) (ar_stderr_raw ar) (ar_stderr_digest ar) (ar_meta ar).
Definition set_stdout (c : bytes) (d : option digest) (ar : action_result) : action_result :=
  mkAR (ar_files ar) (ar_file_symlinks ar) (ar_symlinks ar) (ar_dirs ar) (ar_dir_symlinks ar)
       (ar_exit ar) c d (ar_stderr_raw ar) (ar_stderr_digest ar) (ar_meta ar).
Definition set_stderr (c : bytes) (d : option digest) (ar : action_result) : action_result :=
  mkAR (ar_files ar) (ar_file_symlinks ar) (ar_symlinks ar) (ar_dirs ar) (ar_dir_symlinks ar)
       (ar_exit ar) (ar_stdout_raw ar) (ar_stdout_digest ar) c d (ar_meta ar).

(* addWorkerMetadataGRPC / the second half of addWorkerMetadataHTTP; [w] is the name derived
   from the peer address *)
Definition add_worker (w : string) (ar : action_result) : action_result :=
  match ar_meta ar with
  | None => set_meta (Some (mkEM w 0)) ar
  | Some m => if negb (str_empty (em_worker m)) then ar else set_meta (Some (mkEM w (em_other m))) ar
  end.
(* http: worker := r.RemoteAddr; only when that is empty SplitHostPort("") fails -> "unknown" *)
Definition http_worker (remote_addr : string) : string :=
  if str_empty remote_addr then "unknown" else remote_addr.
(* grpc: no peer in the context / empty address -> "unknown"; an address without ':' is used as
   it is; otherwise the host part ([split] stands for net.SplitHostPort), or the address when
   that fails *)
Definition grpc_worker (peer : option string) (has_colon : bool) (split : option string) : string :=
  match peer with
  | None => "unknown"
  | Some addr => if str_empty addr then "unknown" else
                 if negb has_colon then addr else
                 match split with Some host => host | None => addr end
  end.

(* len(proto.Marshal(ar)) == 0: every field at its default *)
Definition encodes_empty (ar : action_result) : bool :=
  match ar_files ar, ar_file_symlinks ar, ar_symlinks ar, ar_dirs ar, ar_dir_symlinks ar,
        ar_stdout_digest ar, ar_stderr_digest ar, ar_meta ar with
  | [], [], [], [], [], None, None, None =>
      (ar_exit ar =? 0) && (blen (ar_stdout_raw ar) =? 0) && (blen (ar_stderr_raw ar) =? 0)
  | _, _, _, _, _, _, _, _ => false
  end.

(* ------------------------------------------------------------------ *)
(* store operations and the upload decisions over an arbitrary store *)

Inductive store_op :=
| OpPutCAS (d : digest) (b : bytes)            (* cache.Put(CAS, d.Hash, d.SizeBytes, bytes) *)
| OpPutAC (key : string) (ar : action_result)   (* cache.Put(AC, key, len(marshal ar), marshal ar) *)
| OpPutRAW (key : string) (size : Z) (b : bytes).
Definition is_ac_put (o : store_op) : bool := match o with OpPutAC _ _ => true | _ => false end.

(* grpcServer.validateHash *)
Definition validate_key (h : string) (size : Z) : bool :=
  if size =? 0 then String.eqb h emptySha
  else if negb (slen h =? hashKeyLength) then false else is_hash h.

Record update_req := mkUpd { u_digest : option digest; u_result : option action_result }.

(* HTTP PUT /ac/<key> *)
Record http_put := mkHP {
  hp_key : string;                     (* the 64 hex digits captured by blobNameSHA256 *)
  hp_content_length : Z;               (* r.ContentLength; -1 = unknown *)
  hp_xsize : option (option Z);        (* X-Digest-SizeBytes: absent / unparseable / value *)
  hp_encoding : string;                (* Content-Encoding *)
  hp_json : bool;                      (* Content-Type == "application/json" *)
  hp_remote : string;                  (* r.RemoteAddr *)
  hp_body : bytes;                     (* the body as received *)
  hp_unzstd : option bytes;            (* oracle: decoder.DecodeAll(body); None = error *)
  hp_decoded : option action_result }. (* oracle: proto / protojson Unmarshal of the (decoded) body *)

(* the size the handler works with: X-Digest-SizeBytes if present, else Content-Length *)
Definition http_declared (r : http_put) : option Z :=
  match hp_xsize r with None => Some (hp_content_length r) | Some None => None | Some (Some v) => Some v end.
(* Content-Encoding must be "zstd", "identity" or absent *)
Definition enc_supported (enc : string) : bool :=
  String.eqb enc "zstd" || str_empty enc || String.eqb enc "identity".
(* the bytes the message is decoded from *)
Definition http_payload (r : http_put) : option bytes :=
  if String.eqb (hp_encoding r) "zstd" then hp_unzstd r else Some (hp_body r).

Section GenericStore.
  Context {St : Type}.
  Variable sput : St -> store_op -> St * option errc.

  (* gRPCErrCode(err, codes.Internal) on a *cache.Error keeps the class *)
  Definition grpc_put_err (e : errc) : errc :=
    match e with EInsufficient => EInsufficient | EBadRequest => EBadRequest | ENotFound => ENotFound
               | _ => EInternal end.

  (* the loop over OutputFiles: Put every inlined file, stop at the first refusal.
     Returns the (possibly digest-completed) files, the operations issued, the first error. *)
  Fixpoint put_files (s : St) (fs : list (option output_file))
      : St * list (option output_file) * list store_op * option errc :=
    match fs with
    | [] => (s, [], [], None)
    | None :: t =>
        let '(s', t', ops, e) := put_files s t in (s', None :: t', ops, e)
    | Some f :: t =>
        if blen (of_contents f) >? 0 then
          let d := match of_digest f with Some d => d | None => true_digest (of_contents f) end in
          let f' := mkOF (of_path f) (Some d) (of_exec f) (of_contents f) in
          let op := OpPutCAS d (of_contents f) in
          match sput s op with
          | (s1, Some e) => (s1, Some f' :: t, [op], Some e)
          | (s1, None) =>
              let '(s', t', ops, e) := put_files s1 t in (s', Some f' :: t', op :: ops, e)
          end
        else
          let '(s', t', ops, e) := put_files s t in (s', Some f :: t', ops, e)
    end.

  Definition put_raw (s : St) (c : bytes) (d : option digest)   : St * list store_op * option errc :=
    if blen c >? 0 then
      let g := match d with Some g => g | None => true_digest c end in
      let op := OpPutCAS g c in
      let '(s1, e) := sput s op in (s1, [op], e)
    else (s, [], None).

  (* UpdateActionResult.  [w]: worker name derived from the peer; [marshal_ok]: proto.Marshal
     succeeds (it fails on strings that are not UTF-8).  Result: final store, operations issued in
     order, and the status with the returned message. *)
  Definition update_action_result (w : string) (marshal_ok : bool) (s : St) (req : option update_req)
      : St * list store_op * result action_result :=
    match req with
    | None => (s, [], Err EBadRequest)                     (* errNilUpdateActionResultRequest *)
    | Some rq =>
    match u_digest rq with
    | None => (s, [], Err EBadRequest)                     (* errNilActionDigest *)
    | Some key =>
    if negb (validate_key (hash key) (size_bytes key)) then (s, [], Err EBadRequest) else
    match validate (u_result rq) with
    | Err _ => (s, [], Err (EOther 2))                     (* a plain error: codes.Unknown *)
    | Panic x => (s, [], Panic x)
    | Hang x => (s, [], Hang x)
    | Ok _ =>
    match u_result rq with
    | None => (s, [], Panic "addWorkerMetadataGRPC: ar.ExecutionMetadata")
    | Some ar0 =>
    let ar := add_worker w ar0 in
    if negb marshal_ok then (s, [], Err EInternal) else
    if encodes_empty ar then (s, [], Err EInternal) else   (* errEmptyActionResult *)
    let '(s1, fs', ops1, e1) := put_files s (ar_files ar) in
    let ar1 := set_files fs' ar in
    match e1 with
    | Some e => (s1, ops1, Err (grpc_put_err e))
    | None =>
    let '(s2, ops2, e2) := put_raw s1 (ar_stdout_raw ar1) (ar_stdout_digest ar1) in
    match e2 with
    | Some e => (s2, ops1 ++ ops2, Err (grpc_put_err e))
    | None =>
    let '(s3, ops3, e3) := put_raw s2 (ar_stderr_raw ar1) (ar_stderr_digest ar1) in
    match e3 with
    | Some e => (s3, ops1 ++ ops2 ++ ops3, Err (grpc_put_err e))
    | None =>
    (* the AC entry holds the bytes marshalled BEFORE the loops: [ar], not [ar1] *)
    let op := OpPutAC (hash key) ar in
    let '(s4, e4) := sput s3 op in
    match e4 with
    | Some e => (s4, ops1 ++ ops2 ++ ops3 ++ [op], Err (grpc_put_err e))
    | None => (s4, ops1 ++ ops2 ++ ops3 ++ [op], Ok ar1)
    end end end end end end end end.

  (* what http.Error is given for a *cache.Error / another error of Put *)
  Definition http_put_err (e : errc) : errc := e.

  Definition http_put_ac (validate_ac : bool) (max_cas : Z) (s : St) (r : http_put)
    : St * list store_op * result unit :=
    match http_declared r with
    | None => (s, [], Err EBadRequest)                      (* unparseable X-Digest-SizeBytes *)
    | Some cl =>
    if cl =? -1 then (s, [], Err EBadRequest) else          (* no Content-Length *)
    if cl >? max_cas then (s, [], Err EBadRequest) else
    if negb (enc_supported (hp_encoding r)) then (s, [], Err EBadRequest) else
    if validate_ac then
      match http_payload r with
      | None => (s, [], Err EBadRequest)                    (* zstd decode failed *)
      | Some data =>
      if negb (blen data =? cl) then (s, [], Err EBadRequest) else
      match hp_decoded r with
      | None => (s, [], Err EBadRequest)                    (* does not parse *)
      | Some ar0 =>
      let ar := add_worker (http_worker (hp_remote r)) ar0 in
      match validate (Some ar) with
      | Err _ => (s, [], Err EBadRequest)
      | Panic x => (s, [], Panic x)
      | Hang x => (s, [], Hang x)
      | Ok _ =>
      let op := OpPutAC (hp_key r) ar in
      let '(s1, e) := sput s op in
      match e with Some c => (s1, [op], Err (http_put_err c)) | None => (s1, [op], Ok tt) end
      end end end
    else
      (* no validation: the key space is RAW and the bytes are stored as they are *)
      match http_payload r with
      | None => (s, [], Err EInternal)
      | Some data =>
      let op := OpPutRAW (hp_key r) cl data in
      let '(s1, e) := sput s op in
      match e with Some c => (s1, [op], Err (http_put_err c)) | None => (s1, [op], Ok tt) end
      end
    end.
End GenericStore.

(* ------------------------------------------------------------------ *)
(* the reference store *)

Record mstore := mkStore {
  st_ac : list (string * action_result);
  st_cas : list (string * bytes);        (* by hash *)
  st_raw : list (string * bytes) }.
Definition empty_store : mstore := mkStore [] [] [].

Fixpoint alookup {A} (k : string) (l : list (string * A)) : option A :=
  match l with [] => None | (k', v) :: t => if String.eqb k' k then Some v else alookup k t end.

(* isSizeMismatch *)
Definition size_mismatch (req found : Z) : bool := (req >? -1) && (found >? -1) && negb (req =? found).

(* does disk.Put(CAS, d, b) succeed (given space): guards, empty-blob case (one byte is read:
   any data is a bad request), verification *)
Definition cas_put_ok (d : digest) (b : bytes) : option errc :=
  if size_bytes d <? 0 then Some EBadRequest else
  if negb (slen (hash d) =? sha256HashStrSize) then Some EBadRequest else
  if (size_bytes d =? 0) && String.eqb (hash d) emptySha then
    (* the empty blob: nothing to store, but data declared to be the empty blob is refused *)
    (if blen b >? 0 then Some EBadRequest else None) else
  if (blen b =? size_bytes d) && String.eqb (bsha b) (hash d) then None else Some EInternal.

Definition ms_put (s : mstore) (o : store_op) : mstore * option errc :=
  match o with
  | OpPutCAS d b =>
      match cas_put_ok d b with
      | Some e => (s, Some e)
      | None => if (size_bytes d =? 0) && String.eqb (hash d) emptySha then (s, None)
                else (mkStore (st_ac s) ((hash d, b) :: st_cas s) (st_raw s), None)
      end
  | OpPutAC k ar =>
      if negb (slen k =? sha256HashStrSize) then (s, Some EBadRequest)
      else (mkStore ((k, ar) :: st_ac s) (st_cas s) (st_raw s), None)
  | OpPutRAW k size b =>
      if size <? 0 then (s, Some EBadRequest) else
      if negb (slen k =? sha256HashStrSize) then (s, Some EBadRequest) else
      if negb (blen b =? size) then (s, Some EInternal)
      else (mkStore (st_ac s) (st_cas s) ((k, b) :: st_raw s), None)
  end.

(* Contains(CAS, hash, size) *)
Definition ms_contains (s : mstore) (d : digest) : bool :=
  if negb (slen (hash d) =? sha256HashStrSize) then false else
  if (size_bytes d <=? 0) && String.eqb (hash d) emptySha then true else
  match alookup (hash d) (st_cas s) with
  | Some b => negb (size_mismatch (size_bytes d) (blen b))
  | None => false
  end.

(* Get(CAS, hash, size, 0): error / miss / the blob *)
Definition ms_cas_get (s : mstore) (d : digest) : result (option bytes) :=
  if negb (slen (hash d) =? sha256HashStrSize) then Err EBadRequest else
  if (size_bytes d <=? 0) && String.eqb (hash d) emptySha then Ok (Some no_bytes) else
  match alookup (hash d) (st_cas s) with
  | Some b => if size_mismatch (size_bytes d) (blen b) then Ok None else Ok (Some b)
  | None => Ok None
  end.

(* findMissingLocalCAS on one digest *)
Definition ms_present (s : mstore) (d : digest) : bool :=
  if (size_bytes d =? 0) && String.eqb (hash d) emptySha then true else
  match alookup (hash d) (st_cas s) with
  | Some b => negb (size_mismatch (size_bytes d) (blen b))
  | None => false
  end.

(* getBlobData for size > 0 *)
Definition get_blob_data (s : mstore) (d : digest) : result bytes :=
  if size_bytes d <? 0 then Err EInternal else
  if size_bytes d =? 0 then Ok no_bytes else
  match ms_cas_get s d with
  | Ok (Some b) => if negb (blen b =? size_bytes d) then Err EInternal else Ok b
  | Ok None => Err ENotFound
  | Err e => Err e | Panic x => Panic x | Hang x => Hang x
  end.

(* ------------------------------------------------------------------ *)
(* GetValidatedActionResult on the reference store.  [tdec]: protobuf oracle, the Tree a blob
   (identified by its SHA-256) decodes to; absent = proto.Unmarshal fails. *)

Inductive lookup_res := LHit (ar : action_result) | LMiss | LErr (e : errc) | LPanic (site : string).

Fixpoint fetch_trees (s : mstore) (tdec : list (string * tree)) (ds : list (option output_dir))
  : result (option (list tree)) :=       (* Ok None = "not found" *)
  match ds with
  | [] => Ok (Some [])
  | d :: t =>
      dv <- deref d "GetValidatedActionResult: d.TreeDigest";;
      g <- deref (od_tree dv) "GetValidatedActionResult: d.TreeDigest.Hash";;
      r <- ms_cas_get s g;;
      match r with
      | None => Ok None
      | Some b =>
          if negb (blen b =? size_bytes g) then Err EInternal else
          match alookup (bsha b) tdec with
          | None => Err EInternal                       (* proto.Unmarshal(oddata, &tree) fails *)
          | Some tr =>
              _ <- tree_digests_r tr;;
              rest <- fetch_trees s tdec t;;
              match rest with None => Ok None | Some ts => Ok (Some (tr :: ts)) end
          end
      end
  end.

Definition get_validated (s : mstore) (tdec : list (string * tree)) (key : string) : lookup_res :=
  if negb (slen key =? sha256HashStrSize) then LErr EBadRequest else
  match alookup key (st_ac s) with
  | None => LMiss
  | Some ar =>
      match validate (Some ar) with
      | Err e => LErr EInternal
      | Panic x => LPanic x | Hang x => LPanic x
      | Ok _ =>
          match pending_files_r (ar_files ar) with
          | Panic x => LPanic x | Hang x => LPanic x | Err e => LErr e
          | Ok _ =>
          match fetch_trees s tdec (ar_dirs ar) with
          | Err e => LErr e | Panic x => LPanic x | Hang x => LPanic x
          | Ok None => LMiss
          | Ok (Some trees) =>
              if forallb (ms_present s) (pending ar trees) then LHit ar else LMiss
          end end
      end
  end.

(* ------------------------------------------------------------------ *)
(* maybeInline and GetActionResult *)

Definition maybe_inline (s : mstore) (inline : bool) (c : bytes) (d : option digest) (sofar : Z)
  : result (mstore * bytes * option digest * Z) :=
  let inline1 :=
    if wrap64 (sofar + blen c) >? maxInline then false
    else match d with
         | Some g => if wrap64 (sofar + size_bytes g) >? maxInline then false else inline
         | None => inline
         end in
  if negb inline1 then
    if blen c =? 0 then Ok (s, c, d, sofar) else
    let g := match d with Some g => g | None => true_digest c end in
    if ms_contains s g then Ok (s, no_bytes, Some g, sofar) else
    match ms_put s (OpPutCAS g c) with
    | (s', None) => Ok (s', no_bytes, Some g, sofar)
    | (s', Some _) => Ok (s', c, Some g, wrap64 (sofar + blen c))   (* de-inlining failed: keep *)
    end
  else
    if blen c >? 0 then Ok (s, c, d, wrap64 (sofar + blen c)) else
    match d with
    | None => Ok (s, c, d, sofar)
    | Some g =>
        if size_bytes g =? 0 then Ok (s, c, d, sofar) else
        if size_bytes g >? 0 then
          b <- get_blob_data s g;; Ok (s, b, d, wrap64 (sofar + size_bytes g))
        else Ok (s, c, d, sofar)
    end.

Record get_req := mkGet {
  g_digest : option digest; g_stdout : bool; g_stderr : bool; g_files : list string }.

Fixpoint mem_str (x : string) (l : list string) : bool :=
  match l with [] => false | y :: t => String.eqb y x || mem_str x t end.

Fixpoint inline_files (s : mstore) (want : list string) (fs : list (option output_file)) (sofar : Z)
  : result (mstore * list (option output_file) * Z) :=
  match fs with
  | [] => Ok (s, [], sofar)
  | f :: t =>
      fv <- deref f "GetActionResult: of.Path";;
      r <- maybe_inline s (mem_str (of_path fv) want) (of_contents fv) (of_digest fv) sofar;;
      let '(s1, c, d, sofar1) := r in
      r2 <- inline_files s1 want t sofar1;;
      let '(s2, t', sofar2) := r2 in
      Ok (s2, Some (mkOF (of_path fv) d (of_exec fv) c) :: t', sofar2)
  end.

(* any error of maybeInline is reported as codes.Unknown *)
Definition as_unknown {A} (r : result A) : result A :=
  match r with Err _ => Err (EOther 2) | x => x end.

Definition get_action_result (deps_check : bool) (tdec : list (string * tree)) (s : mstore)
                             (req : option get_req) : mstore * result action_result :=
  match req with
  | None => (s, Err EBadRequest)
  | Some rq =>
  match g_digest rq with
  | None => (s, Err EBadRequest)
  | Some key =>
  if negb (validate_key (hash key) (size_bytes key)) then (s, Err EBadRequest) else
  if negb deps_check then
    match alookup (hash key) (st_ac s) with
    | None => (s, Err ENotFound)
    | Some ar =>
        match validate (Some ar) with
        | Ok _ => (s, Ok ar)
        | Err _ => (s, Err EInternal)
        | Panic x => (s, Panic x) | Hang x => (s, Hang x)
        end
    end
  else
    match get_validated s tdec (hash key) with
    | LMiss => (s, Err ENotFound)
    | LErr e => (s, Err (match e with EBadRequest => EBadRequest | ENotFound => ENotFound
                                    | EInsufficient => EInsufficient | _ => EOther 2 end))
    | LPanic x => (s, Panic x)
    | LHit ar =>
        match as_unknown (maybe_inline s (g_stdout rq) (ar_stdout_raw ar) (ar_stdout_digest ar) 0) with
        | Err e => (s, Err e) | Panic x => (s, Panic x) | Hang x => (s, Hang x)
        | Ok (s1, c1, d1, n1) =>
        match as_unknown (maybe_inline s1 (g_stderr rq) (ar_stderr_raw ar) (ar_stderr_digest ar) n1) with
        | Err e => (s1, Err e) | Panic x => (s1, Panic x) | Hang x => (s1, Hang x)
        | Ok (s2, c2, d2, n2) =>
        match as_unknown (inline_files s2 (g_files rq) (ar_files ar) n2) with
        | Err e => (s2, Err e) | Panic x => (s2, Panic x) | Hang x => (s2, Hang x)
        | Ok (s3, fs, _) => (s3, Ok (set_files fs (set_stderr c2 d2 (set_stdout c1 d1 ar))))
        end end end
    end
  end end.

(* HTTP GET /ac/<key> with validation: proto and JSON bodies both encode the stored message *)
Definition http_get_ac (tdec : list (string * tree)) (s : mstore) (key : string) : result action_result :=
  match get_validated s tdec key with
  | LHit ar => Ok ar
  | LPanic x => Panic x
  | _ => Err ENotFound
  end.
Definition http_get_raw (s : mstore) (key : string) : option bytes := alookup key (st_raw s).

(* ------------------------------------------------------------------ *)
(* the DOCUMENTED transformation, written as a specification (Proofs/ActionResult_roundtrip.v
   shows the read path computes it).  [cas]: the blobs available for inlining. *)

(* upload side: "worker name filled in when absent" *)
Definition spec_with_worker (w : string) (ar : action_result) : action_result :=
  let other := match ar_meta ar with Some m => em_other m | None => 0 end in
  let named := match ar_meta ar with Some m => negb (str_empty (em_worker m)) | None => false end in
  if named then ar else set_meta (Some (mkEM w other)) ar.

(* one inlinable field: contents [c], digest [d], inline wanted?, bytes already inlined.
   Result: contents and digest served, bytes inlined afterwards, blob de-inlined into the CAS. *)
Definition dsize (d : option digest) : Z := match d with Some g => size_bytes g | None => 0 end.
Definition spec_field (cas : digest -> option bytes) (want : bool) (used : Z) (c : bytes) (d : option digest)
  : bytes * option digest * Z * option (digest * bytes) :=
  let fits := (used + blen c <=? maxInline) && (used + dsize d <=? maxInline) in
  let has_contents := 0 <? blen c in
  match want && fits, has_contents with
  | true, true => (c, d, used + blen c, None)                       (* stays inline *)
  | true, false =>                                                  (* inlined from the CAS *)
      match d with
      | Some g => if 0 <? size_bytes g
                  then match cas g with Some b => (b, d, used + size_bytes g, None) | None => (c, d, used, None) end
                  else (c, d, used, None)
      | None => (c, d, used, None)
      end
  | false, true =>                                                  (* replaced by its digest *)
      let g := match d with Some g => g | None => true_digest c end in
      (no_bytes, Some g, used, Some (g, c))
  | false, false => (c, d, used, None)
  end.

Fixpoint spec_files (cas : digest -> option bytes) (want : list string) (used : Z) (fs : list (option output_file))
  : list (option output_file) * Z * list (digest * bytes) :=
  match fs with
  | [] => ([], used, [])
  | None :: t => let '(t', u, dl) := spec_files cas want used t in (None :: t', u, dl)
  | Some f :: t =>
      let '(c, d, u1, di) := spec_field cas (mem_str (of_path f) want) used (of_contents f) (of_digest f) in
      let '(t', u2, dl) := spec_files cas want u1 t in
      (Some (mkOF (of_path f) d (of_exec f) c) :: t', u2, match di with Some x => x :: dl | None => dl end)
  end.

(* the message a hit returns for [stored], and the blobs that must then be in the CAS *)
Definition expected_transform (cas : digest -> option bytes) (stored : action_result) (rq : get_req)
  : action_result * list (digest * bytes) :=
  let '(c1, d1, u1, di1) := spec_field cas (g_stdout rq) 0 (ar_stdout_raw stored) (ar_stdout_digest stored) in
  let '(c2, d2, u2, di2) := spec_field cas (g_stderr rq) u1 (ar_stderr_raw stored) (ar_stderr_digest stored) in
  let '(fs, _, dl) := spec_files cas (g_files rq) u2 (ar_files stored) in
  (set_files fs (set_stderr c2 d2 (set_stdout c1 d1 stored)),
   (match di1 with Some x => [x] | None => [] end) ++ (match di2 with Some x => [x] | None => [] end) ++ dl).

(* ------------------------------------------------------------------ *)
(* histories over the reference store *)

Inductive event :=
| EvUpdate (w : string) (marshal_ok : bool) (req : option update_req)
| EvHttpPut (validate_ac : bool) (max_cas : Z) (r : http_put)
| EvGet (deps_check : bool) (req : option get_req)
| EvCasPut (d : digest) (b : bytes).      (* a client uploads a blob (accepted iff it verifies) *)

Inductive outcome :=
| OUpd (r : result action_result) (ops : list store_op)
| OPut (r : result unit) (ops : list store_op)
| OGot (r : result action_result)
| OCas (e : option errc).

Definition ev_step (tdec : list (string * tree)) (s : mstore) (e : event) : mstore * outcome :=
  match e with
  | EvUpdate w mok req =>
      let '(s', ops, r) := update_action_result ms_put w mok s req in (s', OUpd r ops)
  | EvHttpPut v mx r =>
      let '(s', ops, res) := http_put_ac ms_put v mx s r in (s', OPut res ops)
  | EvGet dc req => let '(s', r) := get_action_result dc tdec s req in (s', OGot r)
  | EvCasPut d b => let '(s', e) := ms_put s (OpPutCAS d b) in (s', OCas e)
  end.

Definition ev_run (tdec : list (string * tree)) (s : mstore) (h : list event) : mstore :=
  fold_left (fun s e => fst (ev_step tdec s e)) h s.

(* ------------------------------------------------------------------ *)
(* boolean equalities and the correspondence case *)

Definition opt_eqb {A} (eqb : A -> A -> bool) (a b : option A) : bool :=
  match a, b with Some x, Some y => eqb x y | None, None => true | _, _ => false end.
Definition digest_eqb (a b : digest) : bool := String.eqb (hash a) (hash b) && (size_bytes a =? size_bytes b).
Definition bytes_eqb (a b : bytes) : bool := (blen a =? blen b) && String.eqb (bsha a) (bsha b).
Definition of_eqb (a b : output_file) : bool :=
  String.eqb (of_path a) (of_path b) && opt_eqb digest_eqb (of_digest a) (of_digest b)
  && Bool.eqb (of_exec a) (of_exec b) && bytes_eqb (of_contents a) (of_contents b).
Definition od_eqb (a b : output_dir) : bool :=
  String.eqb (od_path a) (od_path b) && opt_eqb digest_eqb (od_tree a) (od_tree b).
Definition sl_eqb (a b : output_symlink) : bool :=
  String.eqb (sl_path a) (sl_path b) && String.eqb (sl_target a) (sl_target b).
Definition em_eqb (a b : exec_meta) : bool :=
  String.eqb (em_worker a) (em_worker b) && (em_other a =? em_other b).
Definition ar_eqb (a b : action_result) : bool :=
  list_eqb (opt_eqb of_eqb) (ar_files a) (ar_files b)
  && list_eqb (opt_eqb sl_eqb) (ar_file_symlinks a) (ar_file_symlinks b)
  && list_eqb (opt_eqb sl_eqb) (ar_symlinks a) (ar_symlinks b)
  && list_eqb (opt_eqb od_eqb) (ar_dirs a) (ar_dirs b)
  && list_eqb (opt_eqb sl_eqb) (ar_dir_symlinks a) (ar_dir_symlinks b)
  && (ar_exit a =? ar_exit b)
  && bytes_eqb (ar_stdout_raw a) (ar_stdout_raw b) && opt_eqb digest_eqb (ar_stdout_digest a) (ar_stdout_digest b)
  && bytes_eqb (ar_stderr_raw a) (ar_stderr_raw b) && opt_eqb digest_eqb (ar_stderr_digest a) (ar_stderr_digest b)
  && opt_eqb em_eqb (ar_meta a) (ar_meta b).

Definition res_eqb {A} (eqb : A -> A -> bool) (a b : result A) : bool :=
  match a, b with
  | Ok x, Ok y => eqb x y
  | Err x, Err y => errc_eqb x y
  | _, _ => false          (* a Panic / Hang predicted by the model never equals an observation *)
  end.

(* one observation step of a correspondence case *)
Inductive cevent :=
| CUpdate (w : string) (mok : bool) (req : option update_req) (observed : result action_result)
| CHttpPut (r : http_put) (observed : result unit)
| CGet (req : option get_req) (observed : result action_result)
| CHttpGet (key : string) (observed : result action_result)
| CHttpGetRaw (key : string) (observed : option bytes)
| CHas (d : digest) (observed : bool)           (* Contains(CAS, d) *)
| CValidate (ar : option action_result) (observed_msg : string)   (* validate.ActionResult directly: "" = nil error *)
| CRefs (ar : action_result) (trees : list tree) (observed : list digest).  (* C06: independent walk *)

Record ccase := mkCase {
  cc_validate : bool;                  (* --disable_http_ac_validation off / depsCheck *)
  cc_maxcas : Z;
  cc_cas : list (string * bytes);      (* blobs uploaded beforehand *)
  cc_tdec : list (string * tree);      (* Tree decodings (oracle) *)
  cc_events : list cevent }.

Definition msg_prefix (fmt : string) : string :=
  (* the format string up to its first verb *)
  (fix go (s : string) : string :=
     match s with
     | EmptyString => EmptyString
     | String c t => if Ascii.eqb c "%"%char then EmptyString else String c (go t)
     end) fmt.

Definition validate_msg_ok (ar : option action_result) (observed : string) : bool :=
  match validate_r ar with
  | Ok None => str_empty observed
  | Ok (Some e) => negb (str_empty observed) && String.prefix (msg_prefix (verr_msg e)) observed
  | _ => false
  end.

Definition unit_eqb (a b : unit) : bool := true.

Definition cstep (c : ccase) (s : mstore) (e : cevent) : mstore * bool :=
  match e with
  | CUpdate w mok req obs =>
      let '(s', _, r) := update_action_result ms_put w mok s req in (s', res_eqb ar_eqb r obs)
  | CHttpPut r obs =>
      let '(s', _, res) := http_put_ac ms_put (cc_validate c) (cc_maxcas c) s r in (s', res_eqb unit_eqb res obs)
  | CGet req obs =>
      let '(s', r) := get_action_result (cc_validate c) (cc_tdec c) s req in (s', res_eqb ar_eqb r obs)
  | CHttpGet key obs => (s, res_eqb ar_eqb (http_get_ac (cc_tdec c) s key) obs)
  | CHttpGetRaw key obs => (s, opt_eqb bytes_eqb (http_get_raw s key) obs)
  | CHas d obs => (s, Bool.eqb (ms_contains s d) obs)
  | CValidate ar obs => (s, validate_msg_ok ar obs)
  | CRefs ar trees obs => (s, list_eqb digest_eqb (referenced ar trees) obs)
  end.

Fixpoint crun (c : ccase) (s : mstore) (es : list cevent) : bool :=
  match es with
  | [] => true
  | e :: t => let '(s', ok) := cstep c s e in ok && crun c s' t
  end.

Definition case_ok (c : ccase) : bool :=
  crun c (mkStore [] (cc_cas c) []) (cc_events c).
