(* Model/GoValidate.v — the run-time the TRANSLATED utils/validate/action_result.go
   (Gen/ValidateSrc.v) executes on.

   Gen/ValidateSrc.v is regenerated from /repo/utils/validate/action_result.go on every run by
   tools/go2coq (gen_validate.go): statement by statement, every field selection through a
   pointer as an explicit [deref] (a missing nil check therefore shows up as [Panic]), `for _, x
   := range` loops as [range_loop], an early `return` inside a loop as [ret_loop], an error
   value as the constructor of [verr] / [derr] whose text ([verr_msg] / [derr_msg]) is the text
   of the error variable or the format string of the fmt.Errorf call.  This file is hand-written
   and small: the protobuf field names, the two library calls, the error lookup, the loop.
   Definitions only; Proofs/Validate_refine.v proves that the translated functions ARE
   [validate_r] and [maybe_nil_digest] of Model/ActionResult.v. *)
From BR Require Import Base.Prelude Model.ActionResult.
Open Scope string_scope.
Open Scope list_scope.
Open Scope Z_scope.

(* ---- build.bazel.remote.execution.v2: message M is [pb_M], its Go field F is [pb_M_F].
   The translator takes the KIND of every field (string, int64, *Message, []*Message) from the
   struct declarations in genproto/; the types below have to agree or Gen/ValidateSrc.v does not
   type-check. *)
Definition pb_Digest : Type := digest.
Definition pb_OutputFile : Type := output_file.
Definition pb_OutputDirectory : Type := output_dir.
Definition pb_OutputSymlink : Type := output_symlink.
Definition pb_ActionResult : Type := action_result.

Definition pb_Digest_Hash : pb_Digest -> string := hash.
Definition pb_Digest_SizeBytes : pb_Digest -> Z := size_bytes.

Definition pb_OutputFile_Path : pb_OutputFile -> string := of_path.
Definition pb_OutputFile_Digest : pb_OutputFile -> option pb_Digest := of_digest.
Definition pb_OutputFile_IsExecutable : pb_OutputFile -> bool := of_exec.

Definition pb_OutputDirectory_Path : pb_OutputDirectory -> string := od_path.
Definition pb_OutputDirectory_TreeDigest : pb_OutputDirectory -> option pb_Digest := od_tree.

Definition pb_OutputSymlink_Path : pb_OutputSymlink -> string := sl_path.
Definition pb_OutputSymlink_Target : pb_OutputSymlink -> string := sl_target.

Definition pb_ActionResult_OutputFiles : pb_ActionResult -> list (option pb_OutputFile) := ar_files.
Definition pb_ActionResult_OutputFileSymlinks : pb_ActionResult -> list (option pb_OutputSymlink) := ar_file_symlinks.
Definition pb_ActionResult_OutputSymlinks : pb_ActionResult -> list (option pb_OutputSymlink) := ar_symlinks.
Definition pb_ActionResult_OutputDirectories : pb_ActionResult -> list (option pb_OutputDirectory) := ar_dirs.
Definition pb_ActionResult_OutputDirectorySymlinks : pb_ActionResult -> list (option pb_OutputSymlink) := ar_dir_symlinks.
Definition pb_ActionResult_ExitCode : pb_ActionResult -> Z := ar_exit.
Definition pb_ActionResult_StdoutDigest : pb_ActionResult -> option pb_Digest := ar_stdout_digest.
Definition pb_ActionResult_StderrDigest : pb_ActionResult -> option pb_Digest := ar_stderr_digest.

(* ---- library calls *)
(* strings.HasPrefix(s, prefix) *)
Definition strings_HasPrefix (s p : string) : bool := String.prefix p s.

(* re.MatchString(s) for a package-level re = regexp.MustCompile(pattern): the pattern text is taken from the source on every run; only the
   hash pattern has a model ([is_hash]), any other pattern stops the evaluation *)
Definition regexp_MatchString (re s : string) : result bool :=
  if String.eqb re "^[a-f0-9]{64}$" then Ok (is_hash s)
  else Panic ("regexp.MatchString: no model of the pattern " ++ re).

(* ---- error values: the constructor whose text is the given one.  A text no constructor has
   (a reworded or new error) does not become a known error: the evaluation stops, which no
   outcome of the model equals. *)
Definition all_derr : list derr := [DNegative; DBadHash].

Fixpoint find_msg {E : Type} (msg_of : E -> string) (l : list E) (m : string) : option E :=
  match l with
  | [] => None
  | e :: t => if String.eqb (msg_of e) m then Some e else find_msg msg_of t m
  end.

Definition verr_of_msg (m : string) : option verr := find_msg verr_msg all_verr m.
Definition derr_of_msg (m : string) : option derr := find_msg derr_msg all_derr m.

(* `return <error with text m>` *)
Definition raise {E : Type} (lookup : string -> option E) (m : string) : result (option E) :=
  match lookup m with
  | Some e => Ok (Some e)
  | None => Panic ("no error of the model has the text: " ++ m)
  end.

(* ---- `for _, x := range l { body }`.  [S]: the locals of the enclosing function the body
   assigns; [R]: what the function returns.  The body either falls through ([Continue], with the
   new values of those locals) or returns from the function ([Returned]). *)
Inductive flow (S R : Type) := Continue (s : S) | Returned (r : R).
Arguments Continue {S R} s. Arguments Returned {S R} r.

Fixpoint range_loop {A S R : Type} (l : list A) (body : A -> S -> result (flow S R)) (s : S)
  : result (flow S R) :=
  match l with
  | [] => Ok (Continue s)
  | x :: t =>
      r <- body x s;;
      match r with
      | Continue s' => range_loop t body s'
      | Returned v => Ok (Returned v)
      end
  end.

(* `return e` inside a loop body *)
Definition ret_loop {S R : Type} (r : result R) : result (flow S R) := v <- r;; Ok (Returned v).
