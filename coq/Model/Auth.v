(* Model/Auth.v — C13: who gets past authentication.
   Executable model of
     - server/grpc_basic_auth.go   (getLogin, allowed, the unary and the stream interceptor),
     - server/grpc.go              (the two mTLS interceptors, checkGRPCClientCert),
     - server/http.go              (CacheHandler's client-certificate guards, hasValidClientCert,
                                    VerifyClientCertHandler),
     - main.go                     (basicAuthWrapper, unauthenticatedReadWrapper and which wrapper /
                                    interceptor startHttpServer / startGrpcServer install for which
                                    configuration),
     - config/tls.go               (ClientAuth: VerifyClientCertIfGiven — a certificate that does not
                                    verify aborts the handshake, no certificate does not).
   The tables the decisions depend on are NOT copied here: the registered methods with their kinds
   (Gen.Auth.grpc_services), readOnlyMethods (Gen.Consts) and the exempted health method
   (Gen.Auth.grpcHealthServiceName) are the regenerated ones.  Definitions only; proofs are in
   Proofs/Auth_props.v, the tie of the handler selection to main.go in Bridge/Bridge_Auth.v. *)
From BR Require Import Base.Prelude Gen.Consts Gen.Auth.
Open Scope string_scope.
Open Scope Z_scope.

(* ------------------------------------------------------------------ *)
(* strings *)

(* strings.SplitN(s, sep, 2) for a one-character sep: None = fewer than two fields *)
Fixpoint cut (c : ascii) (s : string) : option (string * string) :=
  match s with
  | EmptyString => None
  | String a r =>
      if Ascii.eqb a c then Some (EmptyString, r)
      else match cut c r with Some (x, y) => Some (String a x, y) | None => None end
  end.

Definition colon : ascii := ":"%char.
Definition at_sign : ascii := "@"%char.

Definition lower_ascii (a : ascii) : ascii :=
  let n := nat_of_ascii a in
  if ((65 <=? n) && (n <=? 90))%nat then ascii_of_nat (n + 32)%nat else a.
Fixpoint lower (s : string) : string :=
  match s with EmptyString => EmptyString | String a r => String (lower_ascii a) (lower r) end.

Definition mem (x : string) (l : list string) : bool := existsb (String.eqb x) l.

(* ------------------------------------------------------------------ *)
(* configuration: the three settings the property quantifies over *)

Inductive mode := MNone | MHtpasswd | MMTLS.
Record cfg := mkCfg { c_mode : mode; c_allow : bool; c_metrics : bool }.
(* how the Go conditions read on a cfg (LDAP unset, no idle timer, TLS only together with a CA file):
   c.HtpasswdFile != ""  /  htpasswdSecrets != nil   <->  is_htpasswd
   c.TLSCaFile != ""     /  c.TLSConfig != nil       <->  is_mtls                                     *)
Definition is_htpasswd (c : cfg) : bool := match c_mode c with MHtpasswd => true | _ => false end.
Definition is_mtls (c : cfg) : bool := match c_mode c with MMTLS => true | _ => false end.
Definition auth_on (c : cfg) : bool := match c_mode c with MNone => false | _ => true end.

Definition all_modes : list mode := [MNone; MHtpasswd; MMTLS].
Definition all_cfgs : list cfg :=
  flat_map (fun m => flat_map (fun a => map (fun e => mkCfg m a e) [false; true]) [false; true]) all_modes.

(* ------------------------------------------------------------------ *)
(* what a client presents *)

Inductive peer :=
| PeerNone                   (* direct interceptor call only: no peer in the context *)
| PeerPlain                  (* plain-text connection: AuthInfo is not credentials.TLSInfo / r.TLS == nil *)
| PeerTLS (chains : list Z)  (* TLS connection; lengths of tls.ConnectionState.VerifiedChains ([] = no certificate) *)
| PeerBadCert.               (* TLS client certificate the server's CA pool does not verify *)

Record cred := mkCred {
  cr_nomd : bool;               (* direct interceptor call only: context without incoming metadata *)
  cr_userinfo : option string;  (* gRPC: Some ui -> the :authority pseudo-header is ui@host:port *)
  cr_authz : option string;     (* "authorization" metadata value / Authorization header *)
  cr_b64 : option string;       (* oracle column: base64.StdEncoding.DecodeString of cr_authz without its
                                   first six characters; None = decoding error, or no such header *)
  cr_peer : peer }.

(* the htpasswd file of the model (and of the harness): user -> password.  The hash schemes
   (bcrypt, {SHA}, apr1) are library code; a stored secret matches exactly its password. *)
Definition htpasswd_db : list (string * string) :=
  [("alice", "wonderland"); ("bob", "builder"); ("carol", "pa:ss")].

Fixpoint lookup (u : string) (db : list (string * string)) : option string :=
  match db with [] => None | (k, v) :: t => if String.eqb k u then Some v else lookup u t end.

(* GrpcBasicAuth.allowed / the tail of auth.BasicAuth.CheckAuth: secrets(user) == "" -> unknown user;
   else CheckSecret(password, secret) *)
Definition allowed (u p : string) : bool :=
  match lookup u htpasswd_db with None => false | Some pw => String.eqb p pw end.

(* ------------------------------------------------------------------ *)
(* gRPC: server/grpc_basic_auth.go *)

Definition hostport : string := "127.0.0.1:9092".
Definition authority (c : cred) : string :=
  match cr_userinfo c with Some ui => ui ++ "@" ++ hostport | None => hostport end.

(* the incoming metadata as (key, first value) pairs; gRPC always supplies :authority *)
Definition metadata_of (c : cred) : list (string * string) :=
  (":authority", authority c)
  :: (match cr_authz c with Some v => [("authorization", v)] | None => [] end)
  ++ [("content-type", "application/grpc"); ("user-agent", "grpc-go")].

Inductive login := LoginErr | Login (u p : string).

(* the loop of getLogin over the metadata entries, `continue` = go on with the rest *)
Fixpoint getLogin_loop (b64 : option string) (md : list (string * string)) : login :=
  match md with
  | [] => LoginErr                                   (* errNoAuthMetadata *)
  | (k, v) :: rest =>
      if String.eqb k ":authority" then
        match cut colon v with
        | None => getLogin_loop b64 rest
        | Some (u, r) =>
            match cut at_sign r with
            | None => getLogin_loop b64 rest
            | Some (p, _) => Login u p
            end
        end
      else if String.eqb k "authorization" && String.prefix "Basic " v then
        match b64 with
        | None => getLogin_loop b64 rest
        | Some a => match cut colon a with
                    | None => getLogin_loop b64 rest
                    | Some (u, p) => Login u p
                    end
        end
      else getLogin_loop b64 rest
  end.

Definition getLogin (md_order : list (string * string) -> list (string * string)) (c : cred) : login :=
  if cr_nomd c then LoginErr                         (* errNoMetadata *)
  else getLogin_loop (cr_b64 c) (md_order (metadata_of c)).

Definition read_only (method : string) : bool := mem method Gen.Consts.readOnlyMethods.
Definition is_health (method : string) : bool := String.eqb method Gen.Auth.grpcHealthServiceName.

Definition basic_tail (c : cred) : bool :=
  match getLogin (fun l => l) c with
  | LoginErr => false
  | Login u p => if String.eqb u "" || String.eqb p "" then false else allowed u p
  end.

(* (b *GrpcBasicAuth) UnaryServerInterceptor: true = handler called *)
Definition basic_unary (allow : bool) (method : string) (c : cred) : bool :=
  if is_health method then true
  else if allow && read_only method then true
  else basic_tail c.
(* (b *GrpcBasicAuth) StreamServerInterceptor *)
Definition basic_stream (allow : bool) (method : string) (c : cred) : bool :=
  if is_health method then true
  else if allow && read_only method then true
  else basic_tail c.

(* ------------------------------------------------------------------ *)
(* gRPC: server/grpc.go *)

Definition verified (chains : list Z) : bool :=
  match chains with [] => false | n :: _ => negb (n =? 0) end.

Definition checkGRPCClientCert (c : cred) : bool :=
  match cr_peer c with
  | PeerNone => false               (* "no peer found" *)
  | PeerPlain => false              (* "unrecognised peer transport credentials" *)
  | PeerBadCert => false            (* never gets this far: the handshake fails *)
  | PeerTLS chains => verified chains
  end.

Definition mtls_unary (allow : bool) (method : string) (c : cred) : bool :=
  if is_health method then true
  else if allow && read_only method then true
  else checkGRPCClientCert c.
(* the stream interceptor has no health exemption (the exempted method is unary) *)
Definition mtls_stream (allow : bool) (method : string) (c : cred) : bool :=
  if allow && read_only method then true
  else checkGRPCClientCert c.

(* ------------------------------------------------------------------ *)
(* gRPC: which interceptors startGrpcServer chains *)

Inductive icpt := IProm | IMtls (allow : bool) | IBasic (allow : bool) | IIdle.

Definition grpc_chain (c : cfg) : list icpt :=
  (if c_metrics c then [IProm] else [])
  ++ (if is_mtls c then [IMtls (c_allow c)] else [])
  ++ (if is_htpasswd c then [IBasic (c_allow c)] else []).

Definition is_unary (kind : string) : bool := String.eqb kind "unary".

Definition run_icpt (kind method : string) (cr : cred) (i : icpt) : bool :=
  match i with
  | IProm | IIdle => true
  | IMtls a => if is_unary kind then mtls_unary a method cr else mtls_stream a method cr
  | IBasic a => if is_unary kind then basic_unary a method cr else basic_stream a method cr
  end.

(* the listener: plain text unless mTLS; with mTLS a client must speak TLS and a certificate that
   does not verify ends the connection (ClientAuth: tls.VerifyClientCertIfGiven) *)
Definition transport_ok (c : cfg) (p : peer) : bool :=
  match c_mode c, p with
  | MMTLS, PeerTLS _ => true
  | MMTLS, _ => false
  | _, PeerPlain => true
  | _, _ => false
  end.

Inductive goutcome := GAllowed | GUnauth | GNoConn.

Definition grpc_outcome (c : cfg) (method kind : string) (cr : cred) : goutcome :=
  if negb (transport_ok c (cr_peer cr)) then GNoConn
  else if forallb (run_icpt kind method cr) (grpc_chain c) then GAllowed else GUnauth.

(* registered methods, from the regenerated service table *)
Definition all_methods : list (string * string) :=
  flat_map (fun s => snd s) Gen.Auth.grpc_services.
Definition method_names : list string := map fst all_methods.
Definition always_registered : list (string * string) :=
  flat_map (fun s : string * list (bool * string) * string * list (string * string) =>
              match snd (fst (fst s)) with [] => snd s | _ => [] end) Gen.Auth.grpc_services.

Fixpoint kind_of (method : string) (l : list (string * string)) : option string :=
  match l with [] => None | (m, k) :: t => if String.eqb m method then Some k else kind_of method t end.

(* true = the request reaches the service handler.  A method that is not registered never does
   (grpc answers Unimplemented before any interceptor runs). *)
Definition grpc_decide (c : cfg) (method : string) (cr : cred) : bool :=
  match kind_of method all_methods with
  | None => false
  | Some k => match grpc_outcome c method k cr with GAllowed => true | _ => false end
  end.

(* ------------------------------------------------------------------ *)
(* HTTP *)

Inductive endpoint := EpCas | EpAc | EpStatus | EpMetrics.
Inductive hmethod := GET | HEAD | PUT | POST | DELETE.      (* POST, DELETE: any other method *)

Inductive hnd :=
| HCacheHandler (reads writes : bool)  (* h.CacheHandler with checkClientCertForReads / ...ForWrites *)
| HStatusPage                          (* h.StatusPageHandler *)
| HPromHandler                         (* promhttp.Handler() *)
| HNotEnabled404                       (* "Endpoint metrics are not enabled on this server." *)
| HBasicAuth (inner : hnd)             (* basicAuthWrapper(inner, &basicAuthenticator) *)
| HUnauthRead (inner : hnd)            (* unauthenticatedReadWrapper(inner, htpasswdSecrets, _) *)
| HVerifyCert (inner : hnd)            (* h.VerifyClientCertHandler(inner) *)
| HMetricsMw (inner : hnd)             (* middlewarestd.Handler(_, metricsMdlw, inner): measures, passes on *)
| HIdle (inner : hnd)                  (* idle-timer reset, passes on *)
| HLdap (inner : hnd).                 (* ldapAuthWrapper: outside the modelled configurations *)

Inductive houtcome :=
| HServed      (* the endpoint's own code ran: cache read or write, status page, metrics page *)
| H401
| HNoConn
| H405         (* CacheHandler's default clause: nothing is read or written *)
| H404Stub     (* the /metrics stub of a server without endpoint metrics *)
| HPanic.      (* nil SecretProvider called *)

(* net/http Request.BasicAuth: scheme compared case-insensitively, base64, strings.Cut on ":" *)
Definition http_basic_parse (c : cred) : option (string * string) :=
  match cr_authz c with
  | None => None
  | Some v =>
      if String.eqb (lower (substring 0 6 v)) "basic " then
        match cr_b64 c with None => None | Some a => cut colon a end
      else None
  end.

(* httpCache.hasValidClientCert *)
Definition hasValidClientCert (c : cred) : bool :=
  match cr_peer c with PeerTLS chains => verified chains | _ => false end.

(* auth.BasicAuth.CheckAuth(r) != "" ; secrets_set = the BasicAuth value's Secrets field is non-nil *)
Definition check_auth (secrets_set : bool) (c : cred) : option bool :=
  match http_basic_parse c with
  | None => Some false
  | Some (u, p) => if secrets_set then Some (allowed u p) else None       (* None: nil func call *)
  end.

Fixpoint serve (binit : bool) (h : hnd) (m : hmethod) (c : cred) : houtcome :=
  match h with
  | HCacheHandler rd wr =>
      match m with
      | GET | HEAD => if rd && negb (hasValidClientCert c) then H401 else HServed
      | PUT => if wr && negb (hasValidClientCert c) then H401 else HServed
      | POST | DELETE => H405
      end
  | HStatusPage => HServed
  | HPromHandler => HServed
  | HNotEnabled404 => H404Stub
  | HBasicAuth inner =>
      match check_auth binit c with
      | None => HPanic
      | Some true => serve binit inner m c
      | Some false => H401
      end
  | HUnauthRead inner =>
      match m with
      | GET | HEAD => serve binit inner m c
      | _ => match check_auth true c with
             | Some true => serve binit inner m c
             | _ => H401
             end
      end
  | HVerifyCert inner => if hasValidClientCert c then serve binit inner m c else H401
  | HMetricsMw inner => serve binit inner m c
  | HIdle inner => serve binit inner m c
  | HLdap _ => H401
  end.

(* what startHttpServer registers on the mux, per configuration *)
Definition cache_handler (c : cfg) : hnd :=
  let base := HCacheHandler (is_mtls c && negb (c_allow c)) (is_mtls c) in
  let a := if is_htpasswd c then (if c_allow c then HUnauthRead base else HBasicAuth base) else base in
  if c_metrics c then HMetricsMw a else a.

Definition guard_reads (c : cfg) (h : hnd) : hnd :=
  if c_allow c then h
  else match c_mode c with MMTLS => HVerifyCert h | MHtpasswd => HBasicAuth h | MNone => h end.

Definition status_handler (c : cfg) : hnd :=
  let s := guard_reads c HStatusPage in
  if c_metrics c then HMetricsMw s else s.

Definition metrics_handler (c : cfg) : hnd :=
  if c_metrics c then guard_reads c (HMetricsMw HPromHandler) else HNotEnabled404.

(* basicAuthenticator is filled in only in the htpasswd branch without unauthenticated reads *)
Definition basic_init (c : cfg) : bool := is_htpasswd c && negb (c_allow c).

Definition http_handler (c : cfg) (e : endpoint) : hnd :=
  match e with
  | EpCas | EpAc => cache_handler c           (* mux pattern "/" *)
  | EpStatus => status_handler c              (* "/status" *)
  | EpMetrics => metrics_handler c            (* "/metrics" *)
  end.

Definition http_outcome (c : cfg) (e : endpoint) (m : hmethod) (cr : cred) : houtcome :=
  if negb (transport_ok c (cr_peer cr)) then HNoConn
  else serve (basic_init c) (http_handler c e) m cr.

Definition houtcome_eqb (a b : houtcome) : bool :=
  match a, b with
  | HServed, HServed | H401, H401 | HNoConn, HNoConn | H405, H405 | H404Stub, H404Stub | HPanic, HPanic => true
  | _, _ => false
  end.

(* true = the endpoint's own code runs *)
Definition http_decide (c : cfg) (e : endpoint) (m : hmethod) (cr : cred) : bool :=
  houtcome_eqb (http_outcome c e m cr) HServed.

Definition all_endpoints : list endpoint := [EpCas; EpAc; EpStatus; EpMetrics].
Definition all_hmethods : list hmethod := [GET; HEAD; PUT; POST; DELETE].
Definition is_read (m : hmethod) : bool := match m with GET | HEAD => true | _ => false end.
Definition is_cache_ep (e : endpoint) : bool := match e with EpCas | EpAc => true | _ => false end.

(* ------------------------------------------------------------------ *)
(* specification table: which of the REAPI / ByteStream / Remote Asset / health methods cannot create
   or change cache content.  Written from the protocol definitions, not from the server:
     GetActionResult      returns a stored ActionResult
     FindMissingBlobs     reports which digests are absent
     BatchReadBlobs       returns blob contents
     GetTree              returns the directories below a root
     GetCapabilities      describes the server
     ByteStream.Read      returns blob contents
     QueryWriteStatus     reports the committed size of an upload, changes nothing
     Health Check / Watch / List   report serving status
   Everything else is treated as mutating: UpdateActionResult, BatchUpdateBlobs, ByteStream.Write,
   SpliceBlob (creates a blob from chunks), FetchBlob / FetchDirectory (download INTO the CAS), and
   SplitBlob (REAPI lets the server store the chunks it produces). *)
Module Spec.
  Definition non_mutating : list string := [
    "/build.bazel.remote.execution.v2.ActionCache/GetActionResult";
    "/build.bazel.remote.execution.v2.ContentAddressableStorage/FindMissingBlobs";
    "/build.bazel.remote.execution.v2.ContentAddressableStorage/BatchReadBlobs";
    "/build.bazel.remote.execution.v2.ContentAddressableStorage/GetTree";
    "/build.bazel.remote.execution.v2.Capabilities/GetCapabilities";
    "/google.bytestream.ByteStream/Read";
    "/google.bytestream.ByteStream/QueryWriteStatus";
    "/grpc.health.v1.Health/Check";
    "/grpc.health.v1.Health/Watch";
    "/grpc.health.v1.Health/List" ].
  (* the methods the property names as content-changing: they must be in the domain the theorems
     range over (non-vacuity) *)
  Definition named_mutating : list string := [
    "/build.bazel.remote.execution.v2.ActionCache/UpdateActionResult";
    "/build.bazel.remote.execution.v2.ContentAddressableStorage/BatchUpdateBlobs";
    "/build.bazel.remote.execution.v2.ContentAddressableStorage/SpliceBlob";
    "/google.bytestream.ByteStream/Write";
    "/build.bazel.remote.asset.v1.Fetch/FetchBlob";
    "/build.bazel.remote.asset.v1.Fetch/FetchDirectory" ].
  Definition health_check : string := "/grpc.health.v1.Health/Check".
End Spec.

Definition mutating (method : string) : bool := negb (mem method Spec.non_mutating).

(* ------------------------------------------------------------------ *)
(* the credential states the property enumerates, as concrete wire values *)

Inductive blabel := LNone | LMalformed | LEmptyUser | LEmptyPass | LUnknownUser | LWrongPass | LValid.
Inductive clabel := LNoCert | LUnverifiedCert | LValidCert.
Inductive scope := SBoth | SGrpc | SHttp | SDirect.

Record bcred := mkB {
  b_name : string; b_scope : scope; b_label : blabel;
  b_nomd : bool; b_userinfo : option string; b_authz : option string; b_b64 : option string }.
Record pcred := mkP { p_name : string; p_scope : scope; p_label : clabel; p_peer : peer }.

Definition basic_creds : list bcred := [
  mkB "none" SBoth LNone false None None None;
  mkB "no-metadata" SDirect LNone true None None None;
  mkB "hdr-bearer" SBoth LMalformed false None (Some "Bearer YWxpY2U6d29uZGVybGFuZA==") None;
  mkB "hdr-bad-base64" SBoth LMalformed false None (Some "Basic %%%not-base64%%%") None;
  mkB "hdr-no-colon" SBoth LMalformed false None (Some "Basic YWxpY2V3b25kZXJsYW5k") (Some "alicewonderland");
  mkB "hdr-empty-user" SBoth LEmptyUser false None (Some "Basic OndvbmRlcmxhbmQ=") (Some ":wonderland");
  mkB "hdr-empty-pass" SBoth LEmptyPass false None (Some "Basic YWxpY2U6") (Some "alice:");
  mkB "hdr-unknown-user" SBoth LUnknownUser false None (Some "Basic bWFsbG9yeTp3b25kZXJsYW5k") (Some "mallory:wonderland");
  mkB "hdr-user-other-case" SBoth LUnknownUser false None (Some "Basic QWxpY2U6d29uZGVybGFuZA==") (Some "Alice:wonderland");
  mkB "hdr-wrong-pass" SBoth LWrongPass false None (Some "Basic YWxpY2U6d3Jvbmc=") (Some "alice:wrong");
  mkB "hdr-pass-other-case" SBoth LWrongPass false None (Some "Basic YWxpY2U6V29uZGVybGFuZA==") (Some "alice:Wonderland");
  mkB "hdr-valid-alice" SBoth LValid false None (Some "Basic YWxpY2U6d29uZGVybGFuZA==") (Some "alice:wonderland");
  mkB "hdr-valid-bob" SBoth LValid false None (Some "Basic Ym9iOmJ1aWxkZXI=") (Some "bob:builder");
  mkB "hdr-valid-carol" SBoth LValid false None (Some "Basic Y2Fyb2w6cGE6c3M=") (Some "carol:pa:ss");
  (* "basic " in lower case: net/http accepts the scheme case-insensitively, getLogin does not *)
  mkB "hdr-lowercase-scheme-grpc" SGrpc LMalformed false None (Some "basic YWxpY2U6d29uZGVybGFuZA==") (Some "alice:wonderland");
  mkB "hdr-lowercase-scheme-http" SHttp LValid false None (Some "basic YWxpY2U6d29uZGVybGFuZA==") (Some "alice:wonderland");
  mkB "authority-valid-alice" SGrpc LValid false (Some "alice:wonderland") None None;
  mkB "authority-valid-carol" SGrpc LValid false (Some "carol:pa:ss") None None;
  mkB "authority-unknown-user" SGrpc LUnknownUser false (Some "mallory:wonderland") None None;
  mkB "authority-wrong-pass" SGrpc LWrongPass false (Some "alice:wrong") None None;
  mkB "authority-empty-user" SGrpc LEmptyUser false (Some ":wonderland") None None;
  mkB "authority-empty-pass" SGrpc LEmptyPass false (Some "alice:") None None;
  mkB "authority-no-colon" SGrpc LMalformed false (Some "alicewonderland") None None;
  mkB "both-channels-invalid" SGrpc LWrongPass false (Some "alice:wrong") (Some "Basic bWFsbG9yeTp3b25kZXJsYW5k") (Some "mallory:wonderland")
].

Definition peer_creds : list pcred := [
  mkP "plain" SBoth LNoCert PeerPlain;
  mkP "tls-no-cert" SBoth LNoCert (PeerTLS []);
  mkP "tls-unverified-cert" SBoth LUnverifiedCert PeerBadCert;
  mkP "tls-valid-cert" SBoth LValidCert (PeerTLS [2]);
  mkP "no-peer" SDirect LNoCert PeerNone;
  mkP "tls-unverified-seen-by-interceptor" SDirect LUnverifiedCert (PeerTLS []);
  mkP "tls-empty-chain" SDirect LUnverifiedCert (PeerTLS [0]);
  mkP "tls-valid-two-chains" SDirect LValidCert (PeerTLS [1; 3])
].

Definition wire (b : bcred) (p : pcred) : cred :=
  mkCred (b_nomd b) (b_userinfo b) (b_authz b) (b_b64 b) (p_peer p).

Definition grpc_scope (s : scope) : bool := match s with SHttp => false | _ => true end.
Definition http_scope (s : scope) : bool := match s with SBoth | SHttp => true | _ => false end.

(* the credential domains of the theorems: every basic state x every certificate state *)
Definition grpc_creds : list (bcred * pcred) :=
  list_prod (filter (fun b => grpc_scope (b_scope b)) basic_creds) peer_creds.
Definition http_creds : list (bcred * pcred) :=
  list_prod (filter (fun b => http_scope (b_scope b)) basic_creds)
            (filter (fun p => http_scope (p_scope p)) peer_creds).

Definition wire2 (bp : bcred * pcred) : cred := wire (fst bp) (snd bp).

(* "valid credentials" for a configuration, read off the labels (not off the model) *)
Definition blabel_valid (l : blabel) : bool := match l with LValid => true | _ => false end.
Definition clabel_valid (l : clabel) : bool := match l with LValidCert => true | _ => false end.
Definition valid_for (c : cfg) (bp : bcred * pcred) : bool :=
  match c_mode c with
  | MNone => true
  | MHtpasswd => blabel_valid (b_label (fst bp))
  | MMTLS => clabel_valid (p_label (snd bp))
  end.
Definition connects (c : cfg) (bp : bcred * pcred) : bool := transport_ok c (p_peer (snd bp)).

(* ------------------------------------------------------------------ *)
(* boolean forms of the C13 statements: a body per statement, checked over the whole enumerated domain
   by ONE vm_compute each in Proofs/Auth_props.v and lifted from there with forallb_forall *)

Definition all2 {A B} (f : A -> B -> bool) la lb : bool :=
  forallb (fun a => forallb (fun b => f a b) lb) la.
Definition all3 {A B C} (f : A -> B -> C -> bool) la lb lc : bool :=
  forallb (fun a => forallb (fun b => forallb (fun c => f a b c) lc) lb) la.
Definition all4 {A B C D} (f : A -> B -> C -> D -> bool) la lb lc ld : bool :=
  forallb (fun a => forallb (fun b => forallb (fun c => forallb (fun d => f a b c d) ld) lc) lb) la.

Definition is_put (m : hmethod) : bool := match m with PUT => true | _ => false end.
Definition refused401 (o : houtcome) : bool := match o with H401 | HNoConn => true | _ => false end.

Definition body_grpc_mut (c : cfg) (m : string) (bp : bcred * pcred) : bool :=
  implb (auth_on c && mutating m && negb (valid_for c bp)) (negb (grpc_decide c m (wire2 bp))).

Definition body_http_mut (c : cfg) (e : endpoint) (m : hmethod) (bp : bcred * pcred) : bool :=
  implb (auth_on c && is_cache_ep e && negb (is_read m) && negb (valid_for c bp))
        (negb (http_decide c e m (wire2 bp))
         && implb (is_put m) (refused401 (http_outcome c e m (wire2 bp)))).

Definition body_grpc_reads (c : cfg) (m : string) (bp : bcred * pcred) : bool :=
  implb (auth_on c && negb (valid_for c bp))
        (Bool.eqb (grpc_decide c m (wire2 bp))
                  (connects c bp && (String.eqb m Spec.health_check || (c_allow c && read_only m)))).

(* GET / HEAD on the cache endpoints without valid credentials: served exactly when unauthenticated
   reads are allowed (and the client can connect); otherwise 401 or no connection *)
Definition body_http_reads (c : cfg) (e : endpoint) (m : hmethod) (bp : bcred * pcred) : bool :=
  implb (auth_on c && is_cache_ep e && is_read m && negb (valid_for c bp))
        (Bool.eqb (http_decide c e m (wire2 bp)) (c_allow c && connects c bp)
         && (http_decide c e m (wire2 bp) || refused401 (http_outcome c e m (wire2 bp)))).

(* /status and /metrics, any method, without valid credentials: without allow_unauthenticated_reads the
   answer is 401 / no connection — or, for /metrics on a server WITHOUT endpoint metrics, the 404 stub
   that says so; with the option they are served *)
Definition status_metrics_ok (c : cfg) (e : endpoint) (bp : bcred * pcred) (o : houtcome) : bool :=
  match o with
  | H401 => negb (c_allow c)
  | HNoConn => negb (connects c bp)
  | H404Stub => match e with EpMetrics => negb (c_metrics c) | _ => false end
  | HServed => c_allow c && connects c bp
  | _ => false
  end.
Definition body_status_metrics (c : cfg) (e : endpoint) (m : hmethod) (bp : bcred * pcred) : bool :=
  implb (auth_on c && negb (is_cache_ep e) && negb (valid_for c bp))
        (status_metrics_ok c e bp (http_outcome c e m (wire2 bp))).

Definition body_health (c : cfg) (bp : bcred * pcred) : bool :=
  implb (connects c bp) (grpc_decide c Spec.health_check (wire2 bp)).

Definition body_only_health (m : string) : bool :=
  implb (negb (String.eqb m Spec.health_check))
     (existsb (fun c => existsb (fun bp => connects c bp && negb (grpc_decide c m (wire2 bp))) grpc_creds)
              (filter auth_on all_cfgs)).

Definition body_valid_grpc (c : cfg) (bp : bcred * pcred) (m : string) : bool :=
  implb (valid_for c bp && connects c bp) (grpc_decide c m (wire2 bp)).

Definition http_accepts_b (c : cfg) (e : endpoint) (m : hmethod) (o : houtcome) : bool :=
  match o with
  | HServed => true
  | H405 => is_cache_ep e && match m with POST | DELETE => true | _ => false end
  | H404Stub => match e with EpMetrics => negb (c_metrics c) | _ => false end
  | _ => false
  end.
Definition body_valid_http (c : cfg) (bp : bcred * pcred) (e : endpoint) (m : hmethod) : bool :=
  implb (valid_for c bp && connects c bp) (http_accepts_b c e m (http_outcome c e m (wire2 bp))).

Definition incl_b (a b : list string) : bool := forallb (fun x => mem x b) a.
Definition table_sound_b : bool :=
  incl_b Gen.Consts.readOnlyMethods Spec.non_mutating
  && incl_b Gen.Consts.readOnlyMethods (map fst always_registered)
  && mem Gen.Auth.grpcHealthServiceName (map fst always_registered)
  && String.eqb Gen.Auth.grpcHealthServiceName Spec.health_check
  && mem Gen.Auth.grpcHealthServiceName Spec.non_mutating.

Definition body_noauth_grpc (c : cfg) (bp : bcred * pcred) (m : string) : bool :=
  implb (negb (auth_on c) && connects c bp) (grpc_decide c m (wire2 bp)).
Definition open_outcome (o : houtcome) : bool := match o with H401 | HNoConn | HPanic => false | _ => true end.
Definition body_noauth_http (c : cfg) (bp : bcred * pcred) (e : endpoint) (m : hmethod) : bool :=
  implb (negb (auth_on c) && connects c bp) (open_outcome (http_outcome c e m (wire2 bp))).

(* getLogin ranges over a Go map, i.e. in arbitrary order: on the credential domain the order of
   the metadata entries does not change the decision *)
Definition login_ok (l : login) : bool :=
  match l with LoginErr => false | Login u p => negb (String.eqb u "" || String.eqb p "") && allowed u p end.
Definition body_order (bp : bcred * pcred) : bool :=
  Bool.eqb (login_ok (getLogin (fun l => l) (wire2 bp))) (login_ok (getLogin (@rev _) (wire2 bp))).

(* no handler the modelled configurations install can call the nil SecretProvider *)
Definition body_nopanic (c : cfg) (e : endpoint) (m : hmethod) (bp : bcred * pcred) : bool :=
  negb (houtcome_eqb (http_outcome c e m (wire2 bp)) HPanic).

(* ------------------------------------------------------------------ *)
(* correspondence cases written by harness/cmd/auth *)

Fixpoint insert_sorted (x : string * string) (l : list (string * string)) : list (string * string) :=
  match l with
  | [] => [x]
  | y :: t => if String.leb (fst x) (fst y) then x :: l else y :: insert_sorted x t
  end.
Definition sort_methods (l : list (string * string)) : list (string * string) :=
  fold_right insert_sorted [] l.
(* the order in which observations are listed: registered methods sorted by full name *)
Definition sorted_methods : list (string * string) := sort_methods all_methods.

Definition pair_eqb (a b : string * string) : bool := String.eqb (fst a) (fst b) && String.eqb (snd a) (snd b).

Definition http_targets : list (endpoint * hmethod) := list_prod all_endpoints all_hmethods.
Definition ep_path (e : endpoint) : string :=
  match e with EpCas => "/cas/" | EpAc => "/ac/" | EpStatus => "/status" | EpMetrics => "/metrics" end.
Definition hm_name (m : hmethod) : string :=
  match m with GET => "GET" | HEAD => "HEAD" | PUT => "PUT" | POST => "POST" | DELETE => "DELETE" end.
Definition http_target_names : list string :=
  map (fun t : endpoint * hmethod => hm_name (snd t) ++ " " ++ ep_path (fst t)) http_targets.

Definition gchar (o : goutcome) : ascii :=
  match o with GAllowed => "A"%char | GUnauth => "U"%char | GNoConn => "X"%char end.
Definition hchar (o : houtcome) : ascii :=
  match o with HServed => "S"%char | H401 => "U"%char | HNoConn => "X"%char | H405 => "M"%char
             | H404Stub => "N"%char | HPanic => "P"%char end.
Definition bchar (b : bool) : ascii := if b then "A"%char else "U"%char.

Fixpoint find_b (n : string) (l : list bcred) : option bcred :=
  match l with [] => None | b :: t => if String.eqb (b_name b) n then Some b else find_b n t end.
Fixpoint find_p (n : string) (l : list pcred) : option pcred :=
  match l with [] => None | p :: t => if String.eqb (p_name p) n then Some p else find_p n t end.

Definition blabel_name (l : blabel) : string :=
  match l with LNone => "none" | LMalformed => "malformed" | LEmptyUser => "empty-user" | LEmptyPass => "empty-password"
             | LUnknownUser => "unknown-user" | LWrongPass => "wrong-password" | LValid => "valid" end.
Definition scope_name (s : scope) : string :=
  match s with SBoth => "both" | SGrpc => "grpc" | SHttp => "http" | SDirect => "direct" end.
Definition ostr_eqb (a b : option string) : bool :=
  match a, b with None, None => true | Some x, Some y => String.eqb x y | _, _ => false end.

(* a credential row as the harness holds it: name, scope, label, no-metadata, userinfo, authorization, decoded *)
Definition brow := (string * string * string * bool * option string * option string * option string)%type.
Definition brow_ok (r : brow) (b : bcred) : bool :=
  let '(n, sc, lb, nomd, ui, az, d) := r in
  String.eqb n (b_name b) && String.eqb sc (scope_name (b_scope b)) && String.eqb lb (blabel_name (b_label b))
  && Bool.eqb nomd (b_nomd b) && ostr_eqb ui (b_userinfo b) && ostr_eqb az (b_authz b) && ostr_eqb d (b_b64 b).

Inductive acase :=
| CMethods (ms : list (string * string))       (* (method, kind) of the real grpc.Server after ServeGRPC, sorted *)
| CHttpTargets (ts : list string)              (* the HTTP requests of the harness, in its order *)
| CBasicCreds (rows : list brow)               (* the credential table of the harness *)
| CUsers (db : list (string * string))         (* the users of the htpasswd file the harness wrote *)
| CBasicDirect (allow : bool) (b : string) (obs : string)  (* GrpcBasicAuth interceptors called directly, per method *)
| CMtlsDirect (allow : bool) (p : string) (obs : string)   (* GRPCmTLS*ServerInterceptor called directly, per method *)
| CGrpc (c : cfg) (b p : string) (obs : string)            (* real server, every registered method *)
| CHttp (c : cfg) (b p : string) (obs : string).           (* real server, every HTTP target *)

Definition with_cred (b p : string) (f : cred -> string) (obs : string) : bool :=
  match find_b b basic_creds, find_p p peer_creds with
  | Some bc, Some pc => String.eqb (f (wire bc pc)) obs
  | _, _ => false
  end.

Definition ostring {A} (f : A -> ascii) (l : list A) : string := string_of_list_ascii (map f l).

Definition case_ok (c : acase) : bool :=
  match c with
  | CMethods ms => list_eqb pair_eqb ms sorted_methods
  | CHttpTargets ts => list_eqb String.eqb ts http_target_names
  | CBasicCreds rows =>
      (Nat.eqb (List.length rows) (List.length basic_creds))
      && forallb (fun rb => brow_ok (fst rb) (snd rb)) (combine rows basic_creds)
  | CUsers db => list_eqb pair_eqb db htpasswd_db
  | CBasicDirect allow b obs =>
      with_cred b "plain" (fun cr => ostring (fun mk : string * string =>
         bchar (run_icpt (snd mk) (fst mk) cr (IBasic allow))) sorted_methods) obs
  | CMtlsDirect allow p obs =>
      with_cred "none" p (fun cr => ostring (fun mk : string * string =>
         bchar (run_icpt (snd mk) (fst mk) cr (IMtls allow))) sorted_methods) obs
  | CGrpc cf b p obs =>
      with_cred b p (fun cr => ostring (fun mk : string * string =>
         gchar (grpc_outcome cf (fst mk) (snd mk) cr)) sorted_methods) obs
  | CHttp cf b p obs =>
      with_cred b p (fun cr => ostring (fun t : endpoint * hmethod =>
         hchar (http_outcome cf (fst t) (snd t) cr)) http_targets) obs
  end.
