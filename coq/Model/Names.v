(* Model/Names.v — file names of the v2 cache directory and names of backend objects.
   Definitions only.

   * printers: [file_location] (cache/disk/disk.go FileLocation), [file_location_base],
     [lookup_key] (cache/cache.go LookupKey), the backend key functions of s3proxy / azblobproxy
     (objectKeyV1/V2), httpproxy (requestURL) and grpcproxy (resource-name templates);
   * recognisers: a hand-written recogniser of scanDir's file-name pattern
       Gen.Consts.re_disk_re   (64 lower-case hex digits, optionally "-" and a decimal number
       without leading zero, "-" and a non-empty alphanumeric string, optionally ".v1")
     returning the four capture groups, followed by strconv.ParseInt on group 2; the
     directory-name pattern ^[a-f0-9]{2}$; the .DS_Store and lost+found rules.

   Why the recogniser may decide group 2 by counting dashes: after the 64 hex characters the
   pattern only admits  "-" A [ "-" B ] [".v1"]  with A, B alphanumeric, and neither '-' nor '.'
   is alphanumeric, so Go's leftmost-first choice ("take group 2 if the rest still matches") and
   the unique parse coincide: with one dash group 2 is absent and A is the random part (even when
   A = "123"), with two dashes A must be a decimal number without leading zero and B is the random part.  That the
   recogniser accepts the language of Go's regexp and captures the same groups is checked by the
   correspondence driver (harness/cmd/loader) on generated names and near-misses. *)
From Coq Require Import DecimalString DecimalN.
From BR Require Import Base.Prelude.
Open Scope string_scope.
Open Scope Z_scope.

Inductive kind := AC | CAS | RAW.

Definition kind_eqb (a b : kind) : bool :=
  match a, b with AC, AC | CAS, CAS | RAW, RAW => true | _, _ => false end.

(* cache.EntryKind.String / DirName *)
Definition kind_str (k : kind) : string := match k with AC => "ac" | CAS => "cas" | RAW => "raw" end.
Definition kind_dir (k : kind) : string := match k with AC => "ac.v2" | CAS => "cas.v2" | RAW => "raw.v2" end.
(* the numbering of the Go constants (AC = iota, CAS, RAW), for the bridge to Gen.EntryKind_* *)
Definition kind_num (k : kind) : Z := match k with AC => 0 | CAS => 1 | RAW => 2 end.

(* cache.LookupKey *)
Definition lookup_key (k : kind) (h : string) : string := kind_str k ++ "/" ++ h.

(* ------------------------------------------------------------------ *)
(* character classes *)

Definition chr_in (lo hi : N) (c : ascii) : bool :=
  let n := N_of_ascii c in (lo <=? n)%N && (n <=? hi)%N.
Definition is_digit (c : ascii) : bool := chr_in 48 57 c.
Definition is_digit19 (c : ascii) : bool := chr_in 49 57 c.
Definition is_lhex (c : ascii) : bool := is_digit c || chr_in 97 102 c.              (* [a-f0-9] *)
Definition is_alnum (c : ascii) : bool := is_digit c || chr_in 65 90 c || chr_in 97 122 c.  (* [0-9a-zA-Z] *)

Fixpoint all_chars (p : ascii -> bool) (s : string) : bool :=
  match s with EmptyString => true | String c t => p c && all_chars p t end.

Definition nonempty (s : string) : bool := match s with EmptyString => false | _ => true end.

(* ^[a-f0-9]{64}$ (validate.HashKeyRegex, group 1 of the file-name pattern) *)
Definition is_hash (h : string) : bool := Nat.eqb (String.length h) 64 && all_chars is_lhex h.
(* ^[a-f0-9]{2}$ (dre in scanDir, v1DirRegex in migrateDirectory) *)
Definition is_hex2 (s : string) : bool := Nat.eqb (String.length s) 2 && all_chars is_lhex s.
(* [0-9a-zA-Z]+ *)
Definition is_random (r : string) : bool := nonempty r && all_chars is_alnum r.
(* a digit 1-9 followed by digits *)
Definition is_size_digits (s : string) : bool :=
  match s with EmptyString => false | String c t => is_digit19 c && all_chars is_digit t end.

(* strings.ToLower on ASCII *)
Definition lower_char (c : ascii) : ascii :=
  if chr_in 65 90 c then ascii_of_N (N_of_ascii c + 32) else c.
Fixpoint lower (s : string) : string :=
  match s with EmptyString => EmptyString | String c t => String (lower_char c) (lower t) end.

Definition lowercaseDSStoreFile : string := ".ds_store".
Definition lostAndFound : string := "lost+found".
Definition is_dsstore (name : string) : bool := String.eqb (lower name) lowercaseDSStoreFile.
Definition is_lostfound (name : string) : bool := String.eqb name lostAndFound.

(* ------------------------------------------------------------------ *)
(* decimal numbers: %d and strconv.ParseInt(s, 10, 64) on digit strings *)

Definition print_dec (n : Z) : string := NilEmpty.string_of_uint (N.to_uint (Z.to_N n)).
Definition parse_dec (s : string) : option Z :=
  match NilEmpty.uint_of_string s with Some d => Some (Z.of_N (N.of_uint d)) | None => None end.

(* ------------------------------------------------------------------ *)
(* fmt.Sprintf restricted to the verbs %s and %d with already printed arguments *)

Fixpoint sprintf (fmt : string) (args : list string) : string :=
  match fmt with
  | EmptyString => EmptyString
  | String c t =>
      if Ascii.eqb c "%" then
        match t with
        | String _ t' =>
            match args with
            | a :: r => a ++ sprintf t' r
            | [] => "%!(MISSING)" ++ sprintf t' []
            end
        | EmptyString => "%!(NOVERB)"
        end
      else String c (sprintf t args)
  end.

(* path.Join of already clean, non-empty elements *)
Definition join3 (a b c : string) : string := a ++ "/" ++ b ++ "/" ++ c.

(* hash[:2] *)
Definition take2 (h : string) : string := substring 0 2 h.

(* ------------------------------------------------------------------ *)
(* printers: disk.go *)

(* the literals of FileLocation / FileLocationBase (pinned by Bridge_Names) *)
Definition fmt_cas_v1 : string := "cas.v2/%s/%s-%s.v1".
Definition fmt_cas_v2 : string := "cas.v2/%s/%s-%d-%s".
Definition fmt_cas_base : string := "cas.v2/%s/%s-%d".
(* their roles in the source (see tools/go2coq/gen_names.go): arguments of path.Join / fmt.Sprintf,
   and operands of string concatenation *)
Definition fileLocation_joinfmt : list string := ["raw.v2"; "ac.v2"; fmt_cas_v1; fmt_cas_v2].
Definition fileLocation_concat : list string := ["-"; "-"].
Definition fileLocationBase_joinfmt : list string := ["raw.v2"; "ac.v2"; "cas.v2"; fmt_cas_base].

Definition file_location (k : kind) (legacy : bool) (hash : string) (size : Z) (random : string) : string :=
  match k with
  | RAW => join3 "raw.v2" (take2 hash) (hash ++ "-" ++ random)
  | AC => join3 "ac.v2" (take2 hash) (hash ++ "-" ++ random)
  | CAS =>
      if legacy then sprintf fmt_cas_v1 [take2 hash; hash; random]
      else sprintf fmt_cas_v2 [take2 hash; hash; print_dec size; random]
  end.

Definition file_location_base (k : kind) (legacy : bool) (hash : string) (size : Z) : string :=
  match k with
  | RAW => join3 "raw.v2" (take2 hash) hash
  | AC => join3 "ac.v2" (take2 hash) hash
  | CAS => if legacy then join3 "cas.v2" (take2 hash) hash
           else sprintf fmt_cas_base [take2 hash; hash; print_dec size]
  end.

(* as in Go: hash[:2] panics on a hash shorter than two bytes (every caller passes a validated hash) *)
Definition file_location_go (k : kind) (legacy : bool) (hash : string) (size : Z) (random : string) : result string :=
  if (String.length hash <? 2)%nat then Panic "FileLocation: hash[:2]"
  else Ok (file_location k legacy hash size random).

(* ------------------------------------------------------------------ *)
(* the file-name grammar of scanDir *)

(* what a name says: groups 1..4 of the pattern with group 2 converted by ParseInt *)
Record parsed := mkParsed { p_hash : string; p_size : option Z; p_random : string; p_legacy : bool }.

Definition v1_suffix : string := ".v1".

Definition print_name (p : parsed) : string :=
  p_hash p ++ (match p_size p with Some n => "-" ++ print_dec n | None => "" end)
         ++ "-" ++ p_random p ++ (if p_legacy p then v1_suffix else "").

(* the name part FileLocation writes for an entry: which of the fields reach the name *)
Definition shape (k : kind) (legacy : bool) (hash : string) (size : Z) (random : string) : parsed :=
  match k with
  | CAS => if legacy then mkParsed hash None random true else mkParsed hash (Some size) random false
  | _ => mkParsed hash None random false
  end.

Definition parsed_ok (p : parsed) : Prop :=
  is_hash (p_hash p) = true /\ is_random (p_random p) = true /\
  match p_size p with Some n => 1 <= n <= maxInt64 | None => True end.

(* first n characters and the rest; None if the string is shorter *)
Fixpoint split_at (n : nat) (s : string) : option (string * string) :=
  match n with
  | O => Some (EmptyString, s)
  | S m => match s with
           | EmptyString => None
           | String c t => match split_at m t with
                           | Some (a, b) => Some (String c a, b)
                           | None => None
                           end
           end
  end.

(* split at the first '-' *)
Fixpoint split_dash (s : string) : option (string * string) :=
  match s with
  | EmptyString => None
  | String c t =>
      if Ascii.eqb c "-" then Some (EmptyString, t)
      else match split_dash t with
           | Some (a, b) => Some (String c a, b)
           | None => None
           end
  end.

(* strip one trailing ".v1" *)
Fixpoint strip_v1 (s : string) : string * bool :=
  match s with
  | EmptyString => (EmptyString, false)
  | String c t =>
      if String.eqb s v1_suffix then (EmptyString, true)
      else let '(b, l) := strip_v1 t in (String c b, l)
  end.

(* re.FindStringSubmatch(name): Some (sm[1], sm[2], sm[3], sm[4]) when the pattern matches,
   an unmatched optional group being "" as in Go *)
Definition recognise_groups (name : string) : option (string * string * string * string) :=
  match split_at 64 name with
  | None => None
  | Some (h, rest) =>
      if negb (all_chars is_lhex h) then None else
      match rest with
      | String c rest1 =>
          if negb (Ascii.eqb c "-") then None else
          let '(body, leg) := strip_v1 rest1 in
          let g4 := if leg then v1_suffix else "" in
          match split_dash body with
          | None => if is_random body then Some (h, "", body, g4) else None
          | Some (x, y) =>
              if is_size_digits x && is_random y then Some (h, x, y, g4) else None
          end
      | EmptyString => None
      end
  end.

(* strconv.ParseInt(s, 10, 64) on a string of digits: range error above MaxInt64 *)
Definition parse_int64 (s : string) : result Z :=
  match parse_dec s with
  | Some n => if n <=? maxInt64 then Ok n else Err EOutOfRange
  | None => Err EBadRequest
  end.

(* what scanDir derives from one file name: Err ENotFound = "unrecognized file",
   Err EOutOfRange = "failed to parse int" *)
Definition scan_name (name : string) : result parsed :=
  match recognise_groups name with
  | None => Err ENotFound
  | Some (h, g2, r, g4) =>
      if nonempty g2 then
        match parse_int64 g2 with
        | Ok n => Ok (mkParsed h (Some n) r (String.eqb g4 v1_suffix))
        | Err e => Err e
        | Panic s => Panic s
        | Hang s => Hang s
        end
      else Ok (mkParsed h None r (String.eqb g4 v1_suffix))
  end.

Definition recognise (name : string) : option parsed :=
  match scan_name name with Ok p => Some p | _ => None end.

(* the key prefixes scanDir derives from the directory name *)
Definition kind_of_dir (d : string) : option kind :=
  if String.eqb d "cas.v2" then Some CAS
  else if String.eqb d "ac.v2" then Some AC
  else if String.eqb d "raw.v2" then Some RAW
  else None.

(* getElementPath: kind and hash recovered from the lookup key *)
Definition key_kind (key : string) : kind :=
  if prefix "cas" key then CAS else if prefix "ac" key then AC else if prefix "raw" key then RAW else AC.
Definition key_hash (key : string) : string :=
  substring (String.length key - 64) 64 key.
Definition key_hash_go (key : string) : result string :=
  if (String.length key <? 64)%nat then Panic "getElementPath: ks[len(ks)-64:]" else Ok (key_hash key).

(* basename of a '/'-separated path *)
Fixpoint basename_aux (acc s : string) : string :=
  match s with
  | EmptyString => acc
  | String c t => if Ascii.eqb c "/" then basename_aux EmptyString t else basename_aux (acc ++ String c EmptyString) t
  end.
Definition basename (s : string) : string := basename_aux EmptyString s.

(* ------------------------------------------------------------------ *)
(* migration suffixes (load.go) *)

Definition v0_suffix : string := "-222444666".
Definition v1_suffix_cas : string := "-556677.v1".
Definition v1_suffix_other : string := "-112233".

Definition v0_target_name (k : kind) (name : string) : string :=
  name ++ v0_suffix ++ (match k with CAS => v1_suffix | _ => "" end).
Definition v1_target_name (k : kind) (name : string) : string :=
  name ++ (match k with CAS => v1_suffix_cas | _ => v1_suffix_other end).

(* ------------------------------------------------------------------ *)
(* backend object / resource names *)

Inductive smode := Zstd | Uncompressed.   (* storage_mode "zstd" (v2) / "uncompressed" (v1) *)

(* path.Clean applied to  prefix + "/" + <clean relative path>: only what remains of the prefix
   matters.  Components: "" and "." vanish, ".." removes the preceding component (stays when
   there is none and the path is not rooted). *)
Fixpoint split_slash_aux (cur : string) (s : string) : list string :=
  match s with
  | EmptyString => [cur]
  | String c t => if Ascii.eqb c "/" then cur :: split_slash_aux EmptyString t
                  else split_slash_aux (cur ++ String c EmptyString) t
  end.
Definition split_slash (s : string) : list string := split_slash_aux EmptyString s.

Definition rooted (p : string) : bool := match p with String c _ => Ascii.eqb c "/" | _ => false end.

(* stack of kept components, top first *)
Fixpoint clean_stack (is_rooted : bool) (comps : list string) (st : list string) : list string :=
  match comps with
  | [] => st
  | c :: r =>
      if String.eqb c "" || String.eqb c "." then clean_stack is_rooted r st
      else if String.eqb c ".." then
        match st with
        | top :: st' => if String.eqb top ".." then clean_stack is_rooted r (c :: st)
                        else clean_stack is_rooted r st'
        | [] => if is_rooted then clean_stack is_rooted r st else clean_stack is_rooted r [c]
        end
      else clean_stack is_rooted r (c :: st)
  end.

(* the text that path.Join(prefix, rel) puts in front of a clean relative path rel *)
Definition join_prefix (p : string) : string :=
  if String.eqb p "" then "" else
  (if rooted p then "/" else "") ++
  fold_right (fun c acc => c ++ "/" ++ acc) "" (rev (clean_stack (rooted p) (split_slash p) [])).

(* s3proxy / azblobproxy: objectKeyV1, objectKeyV2 *)
Definition object_key_v1 (pre : string) (k : kind) (h : string) : string :=
  join_prefix pre ++ join3 (kind_str k) (take2 h) h.
Definition object_key_v2 (pre : string) (k : kind) (h : string) : string :=
  join_prefix pre ++ join3 (match k with CAS => "cas.v2" | _ => kind_str k end) (take2 h) h.
Definition object_key (m : smode) : string -> kind -> string -> string :=
  match m with Zstd => object_key_v2 | Uncompressed => object_key_v1 end.

Definition s3_key (m : smode) (pre : string) (k : kind) (h : string) : string := object_key m pre k h.
(* azblobproxy prepends the prefix a second time in Get / Contains / UploadFile *)
Definition az_key (m : smode) (pre : string) (k : kind) (h : string) : string :=
  if String.eqb pre "" then object_key m pre k h else pre ++ "/" ++ object_key m pre k h.

(* httpproxy (and gcsproxy, which is httpproxy on https://storage.googleapis.com/<bucket>):
   base is the base URL without trailing slashes *)
Definition fmt_http_cas_v2 : string := "%s/cas.v2/%s".
Definition fmt_http : string := "%s/%s/%s".
Definition http_url (m : smode) (base : string) (k : kind) (h : string) : string :=
  match m, k with
  | Zstd, CAS => sprintf fmt_http_cas_v2 [base; h]
  | _, _ => sprintf fmt_http [base; kind_str k; h]
  end.

(* grpcproxy: CAS blobs travel over ByteStream under a resource name; AC and RAW entries are both
   sent to the ActionCache service under the action digest's hash *)
Definition fmt_grpc_read_v1 : string := "blobs/%s/%d".
Definition fmt_grpc_read_v2 : string := "compressed-blobs/zstd/%s/%d".
Definition fmt_grpc_write_v1 : string := "uploads/%s/blobs/%s/%d".
Definition fmt_grpc_write_v2 : string := "uploads/%s/compressed-blobs/zstd/%s/%d".

Definition grpc_read_name (m : smode) (h : string) (size : Z) : string :=
  sprintf (match m with Zstd => fmt_grpc_read_v2 | Uncompressed => fmt_grpc_read_v1 end) [h; print_dec size].
Definition grpc_write_name (m : smode) (uuid h : string) (size : Z) : string :=
  sprintf (match m with Zstd => fmt_grpc_write_v2 | Uncompressed => fmt_grpc_write_v1 end) [uuid; h; print_dec size].

Inductive grpc_name :=
| GAction (hash : string)            (* ActionCache.GetActionResult / UpdateActionResult, digest hash *)
| GBlob (resource : string).         (* ByteStream.Read resource name *)
Definition grpc_key (m : smode) (k : kind) (h : string) (size : Z) : grpc_name :=
  match k with CAS => GBlob (grpc_read_name m h size) | _ => GAction h end.

(* ------------------------------------------------------------------ *)
(* correspondence cases (harness/cmd/loader name stream, harness/cmd/backendkeys) *)

Definition opt_eqb {A} (eqb : A -> A -> bool) (a b : option A) : bool :=
  match a, b with Some x, Some y => eqb x y | None, None => true | _, _ => false end.
Definition parsed_eqb (a b : parsed) : bool :=
  String.eqb (p_hash a) (p_hash b) && opt_eqb Z.eqb (p_size a) (p_size b)
  && String.eqb (p_random a) (p_random b) && Bool.eqb (p_legacy a) (p_legacy b).

(* harness/cmd/backendkeys: FileLocation, FileLocationBase, LookupKey of the implementation *)
Inductive name_case :=
| NCLoc (k : kind) (legacy : bool) (hash : string) (size : Z) (random : string) (loc base key : string).

Definition name_case_ok (c : name_case) : bool :=
  match c with
  | NCLoc k legacy hash size random loc base key =>
      String.eqb (file_location k legacy hash size random) loc
      && String.eqb (file_location_base k legacy hash size) base
      && String.eqb (lookup_key k hash) key
  end.

Inductive key_case :=
| KS3 (m : smode) (pre : string) (k : kind) (h : string) (observed : string)
| KAz (m : smode) (pre : string) (k : kind) (h : string) (observed : string)
| KHttp (m : smode) (base : string) (k : kind) (h : string) (observed : string)
| KGrpcRead (m : smode) (k : kind) (h : string) (size : Z) (observed : grpc_name)
| KGrpcWrite (m : smode) (uuid h : string) (size : Z) (observed : string).

Definition grpc_name_eqb (a b : grpc_name) : bool :=
  match a, b with
  | GAction x, GAction y | GBlob x, GBlob y => String.eqb x y
  | _, _ => false
  end.

Definition key_case_ok (c : key_case) : bool :=
  match c with
  | KS3 m pre k h o => String.eqb (s3_key m pre k h) o
  | KAz m pre k h o => String.eqb (az_key m pre k h) o
  | KHttp m base k h o => String.eqb (http_url m base k h) o
  | KGrpcRead m k h size o => grpc_name_eqb (grpc_key m k h size) o
  | KGrpcWrite m uuid h size o => String.eqb (grpc_write_name m uuid h size) o
  end.
