(* Model/GoStrings.v — the run-time the TRANSLATED resource-name parsers and key functions
   (Gen/ResNamesSrc.v) execute on.

   Gen/ResNamesSrc.v is regenerated on every run by tools/go2coq (gen_resnames.go) from
   /repo/server/grpc_bytestream.go (parseReadResource, parseWriteResource) and /repo/cache/cache.go
   (LookupKey, TransformActionCacheKey): statement by statement, conditions, index expressions, the
   segment loop with its `break`, the returns in source order.  This file is hand-written and small:
   Go strings are Coq [string]s (one [ascii] per byte), []string is [list string] (the nil slice is
   []), an index or slice expression out of range is [Panic] — nothing is totalised —, the library
   calls the functions make, the error values as error classes.  Definitions only;
   Proofs/ResNames_refine.v proves that the translated functions ARE [parse_read_resource],
   [parse_write_resource] (Model/ByteStream.v), [lookup_key] and [transform_ac_key] (Model/Keys.v). *)
From BR Require Import Base.Prelude Gen.Funcs Model.Keys Model.ByteStream.
Open Scope string_scope.
Open Scope list_scope.
Open Scope Z_scope.

(* ---- sequencing: the first Panic / Err / Hang ends the evaluation *)
Definition bind {A B} (r : result A) (k : A -> result B) : result B :=
  match r with Ok a => k a | Err e => Err e | Panic s => Panic s | Hang s => Hang s end.
Notation "x <- r ;; k" := (bind r (fun x => k)) (at level 61, r at next level, right associativity).

(* ---- slices *)
(* len(x) for a []string / a string *)
Definition go_len {A} (l : list A) : Z := Z.of_nat (List.length l).
Definition go_strlen (s : string) : Z := Z.of_nat (String.length s).

(* x[i]: run-time panic "index out of range" unless 0 <= i < len(x) *)
Definition index {A} (l : list A) (i : Z) (site : string) : result A :=
  if i <? 0 then Panic site
  else match nth_error l (Z.to_nat i) with Some x => Ok x | None => Panic site end.

(* x[i:]: run-time panic "slice bounds out of range" unless 0 <= i <= len(x)
   (the capacity of a slice made by strings.Split equals its length, and x[i:] has no upper bound
   anyway: the bound that is checked is len(x)) *)
Definition slice_from {A} (l : list A) (i : Z) (site : string) : result (list A) :=
  if (i <? 0) || (go_len l <? i) then Panic site else Ok (skipn (Z.to_nat i) l).

(* ---- `for i := range x { body }`: i = 0 .. len(x)-1, len(x) evaluated once.  [S]: the locals of
   the enclosing function the body assigns.  The body falls through ([Next]) or executes `break`
   ([Break]), either way with the new values of those locals. *)
Inductive lflow (St : Type) := Next (s : St) | Break (s : St).
Arguments Next {St} s. Arguments Break {St} s.

Fixpoint idx_loop {St : Type} (n : nat) (i : Z) (body : Z -> St -> result (lflow St)) (s : St) : result St :=
  match n with
  | O => Ok s
  | S n' =>
      r <- body i s;;
      match r with
      | Next s' => idx_loop n' (i + 1) body s'
      | Break s' => Ok s'
      end
  end.
Definition range_index {A St : Type} (l : list A) (body : Z -> St -> result (lflow St)) (s : St) : result St :=
  idx_loop (List.length l) 0 body s.

(* ---- library calls *)
(* strings.Split(s, sep): only the separator "/" has a model ([split_slash]); any other stops *)
Definition strings_Split (s sep : string) : result (list string) :=
  if String.eqb sep "/" then Ok (split_slash s)
  else Panic ("strings.Split: no model of the separator " ++ sep).

(* error values: nil = None, otherwise the class the caller (gRPC status code) sees *)
Definition err_is_nil (e : option errc) : bool := match e with None => true | Some _ => false end.

(* strconv.ParseInt(s, 10, 64) = (value, nil) or (_, *NumError): [parse_int64] of Model/ByteStream.v
   (optional sign, at least one decimal digit, nothing else — no underscores in base 10 —, range
   check, "" is an error).  On error Go returns 0 (syntax) or the nearest bound (range); no caller
   here uses the number then: 0.  Other bases / sizes have no model. *)
Definition strconv_ParseInt (s : string) (base bits : Z) : result (Z * option errc) :=
  if (base =? 10) && (bits =? 64) then
    Ok (match parse_int64 s with Some v => (v, None) | None => (0, Some (EOther 0)) end)
  else Panic "strconv.ParseInt: no model of this base / bit size".

(* grpcServer.validateHash(hash, size, logPrefix): nil or an InvalidArgument status *)
Definition grpcServer_validateHash (hash : string) (size : Z) (_logPrefix : string) : result (option errc) :=
  match validate_hash hash size with
  | Ok _ => Ok None | Err e => Ok (Some e) | Panic s => Panic s | Hang s => Hang s
  end.

(* fmt.Sprintf(format, ...): only ever the text of a log line or of a status message *)
Definition fmt_Sprintf (format : string) : string := format.

(* google.golang.org/grpc/codes -> the error classes of Base/Prelude *)
Definition codes_InvalidArgument : errc := EBadRequest.
Definition codes_NotFound : errc := ENotFound.
Definition codes_ResourceExhausted : errc := EInsufficient.
Definition codes_Internal : errc := EInternal.
Definition codes_Unknown : errc := EInternal.
Definition codes_Unauthenticated : errc := EUnauth.
Definition codes_OutOfRange : errc := EOutOfRange.
Definition status_Error (c : errc) (_msg : string) : option errc := Some c.
Definition status_Errorf (c : errc) (_format : string) : option errc := Some c.

(* `return v.., err`: what the caller sees (every caller looks at err first) *)
Definition go_return {A} (a : A) (e : option errc) : result A :=
  match e with None => Ok a | Some c => Err c end.

(* ---- cache/cache.go *)
Definition EntryKind_String : Z -> string := Gen.EntryKind_String.   (* translated by gen_core.go *)

(* crypto/sha256 + encoding/hex.  A hash.Hash being written is the text written so far; the digest
   h.Sum(nil) is represented by its lower-case hex text, [H] = hex . SHA-256 being a parameter of
   every translated function that calls it; hex.EncodeToString of that representation is itself. *)
Definition sha256_New : string := "".
Definition bytes_of (s : string) : string := s.
Definition sha256_Write (h data : string) : string := h ++ data.
Definition sha256_Sum (H : string -> string) (h : string) : string := H h.
Definition hex_EncodeToString (b : string) : string := b.
