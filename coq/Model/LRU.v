(* Model/LRU.v — executable model of cache/disk/lru.go (SizedLRU).
   Definitions only (plus boolean equalities used by the correspondence check).

   Representation.  [order] is the recency list with the LEAST recently used element FIRST
   (Go: ll.Back() is [hd order], ll.Front() is [last order]); this makes the eviction loops
   structural recursions.  The Go map [cache] is [find_key] on [order] (keys are unique in
   every reachable state: Proofs/LRU_inv.v).  Each list element carries an identity [eid]
   because the Go code hands *list.Element values to callers that use them after dropping
   the lock.  [evq] is the eviction queue (channel contents followed by nothing else: the
   slice a running evictor has taken is the prefix it is working through), oldest first. *)
From BR Require Import Base.Prelude.
Open Scope Z_scope.

Definition BlockSize : Z := 4096.
Definition roundUp4k (n : Z) : Z := ((n + 4095) / 4096) * 4096.
Arguments roundUp4k : simpl never.

(* sumLargerThan(a,b,c) on mathematical integers, for a>0, b>=0, c>0 within int64 *)
Definition sumLargerThan (a b c : Z) : bool := (a + b >? c).

Record item := mkItem { size : Z; sizeOnDisk : Z; random : string; legacy : bool }.
Record entry := mkEntry { ekey : string; evalue : item }.
Record elem := mkElem { eid : nat; ent : entry }.

Record state := mkState {
  order : list elem;
  next : nat;
  cur : Z; unc : Z; res : Z; maxs : Z; hard : Z;
  evq : list entry;
  qbytes : Z;
  peak : Z }.

Definition init (maxSize hardLimit : Z) : state :=
  mkState [] 0 0 0 0 maxSize hardLimit [] 0 0.

Definition r4k_disk (e : elem) : Z := roundUp4k (sizeOnDisk (evalue (ent e))).
Definition r4k_size (e : elem) : Z := roundUp4k (size (evalue (ent e))).

Fixpoint find_key (k : string) (l : list elem) : option elem :=
  match l with
  | [] => None
  | e :: t => if String.eqb (ekey (ent e)) k then Some e else find_key k t
  end.

Fixpoint find_id (id : nat) (l : list elem) : option elem :=
  match l with
  | [] => None
  | e :: t => if Nat.eqb (eid e) id then Some e else find_id id t
  end.

Fixpoint remove_id (id : nat) (l : list elem) : list elem :=
  match l with
  | [] => []
  | e :: t => if Nat.eqb (eid e) id then t else e :: remove_id id t
  end.

Definition set_order (l : list elem) (s : state) : state :=
  mkState l (next s) (cur s) (unc s) (res s) (maxs s) (hard s) (evq s) (qbytes s) (peak s).

(* appendEvictionToQueue *)
Definition enqueue (en : entry) (s : state) : state :=
  mkState (order s) (next s) (cur s) (unc s) (res s) (maxs s) (hard s)
          (evq s ++ [en]) (qbytes s + sizeOnDisk (evalue en)) (peak s).

(* calcTotalDiskSizeAndUpdatePeak: uint64 sum; all three summands are non-negative and far
   below 2^62 in every reachable state, so no wrap is written here (Bridge states the bound) *)
Definition total_disk (s : state) (n : Z) : Z := cur s + qbytes s + n.
Definition upd_peak (n : Z) (s : state) : state :=
  mkState (order s) (next s) (cur s) (unc s) (res s) (maxs s) (hard s) (evq s) (qbytes s)
          (Z.max (peak s) (total_disk s n)).

(* removeElement for an element that is in the list *)
Definition remove_elem (e : elem) (s : state) : state :=
  enqueue (ent e)
    (mkState (remove_id (eid e) (order s)) (next s) (cur s - r4k_disk e) (unc s - r4k_size e)
             (res s) (maxs s) (hard s) (evq s) (qbytes s) (peak s)).

(* The two eviction loops: pop least-recently-used elements while [cond (cur s)] holds.
   Returns the new state and whether the loop met an empty list with [cond] still true
   (Add: the Go loop would spin forever; Reserve: returns an internal error). *)
Fixpoint evict_loop (cond : Z -> bool) (l : list elem) (s : state) : state * bool :=
  if cond (cur s) then
    match l with
    | [] => (s, true)
    | e :: t => evict_loop cond t (remove_elem e s)
    end
  else (s, false).

Definition evict_while (cond : Z -> bool) (s : state) : state * bool :=
  evict_loop cond (order s) s.

Definition bump (dc du : Z) (s : state) : state :=
  mkState (order s) (next s) (cur s + dc) (unc s + du) (res s) (maxs s) (hard s) (evq s) (qbytes s) (peak s).

(* Add.  Outcome: Ok b, or Hang when the Go eviction loop would spin on an empty list. *)
Definition add (k : string) (v : item) (s : state) : state * result bool :=
  let r := roundUp4k (sizeOnDisk v) in
  if r >? maxs s then (s, Ok false) else
  let s1 := upd_peak r s in
  match find_key k (order s1) with
  | Some e =>
      let old := evalue (ent e) in
      let delta := r - roundUp4k (sizeOnDisk old) in
      if res s1 + delta >? maxs s1 then (s1, Ok false) else
      let ud := roundUp4k (size v) - roundUp4k (size old) in
      let e' := mkElem (eid e) (mkEntry k v) in
      let s2 := enqueue (mkEntry (ekey (ent e)) old)
                  (set_order (remove_id (eid e) (order s1) ++ [e']) s1) in
      let '(s3, stuck) := evict_while (fun c => c + delta >? maxs s2) s2 in
      if stuck then (s3, Hang "lru.Add: eviction loop on empty list")
      else (bump delta ud s3, Ok true)
  | None =>
      let delta := r in
      if res s1 + delta >? maxs s1 then (s1, Ok false) else
      let ud := roundUp4k (size v) in
      let e' := mkElem (next s1) (mkEntry k v) in
      let s2 := mkState (order s1 ++ [e']) (S (next s1)) (cur s1) (unc s1) (res s1) (maxs s1)
                        (hard s1) (evq s1) (qbytes s1) (peak s1) in
      let '(s3, stuck) := evict_while (fun c => c + delta >? maxs s2) s2 in
      if stuck then (s3, Hang "lru.Add: eviction loop on empty list")
      else (bump delta ud s3, Ok true)
  end.

(* Get: a hit moves the element to the most-recently-used end *)
Definition get (k : string) (s : state) : state * option (item * nat) :=
  match find_key k (order s) with
  | Some e => (set_order (remove_id (eid e) (order s) ++ [e]) s, Some (evalue (ent e), eid e))
  | None => (s, None)
  end.

(* lookup without touching (used by specifications only) *)
Definition peek (k : string) (s : state) : option item :=
  match find_key k (order s) with Some e => Some (evalue (ent e)) | None => None end.

Definition remove_key (k : string) (s : state) : state :=
  match find_key k (order s) with Some e => remove_elem e s | None => s end.

(* RemoveElement through a handle: [None] means the handle is stale (no longer in the list);
   the Go function must not be called then (disk.go guards it, see Model/Disk.v) *)
Definition remove_element (id : nat) (s : state) : option state :=
  match find_id id (order s) with Some e => Some (remove_elem e s) | None => None end.

Definition reserve (n : Z) (s : state) : state * result unit :=
  if n =? 0 then (s, Ok tt) else
  if n <? 0 then (s, Err EBadRequest) else
  if n >? maxs s then (s, Err EBadRequest) else
  if sumLargerThan n (res s) (maxs s) then (s, Err EInsufficient) else
  let tot := total_disk s n in
  let s1 := upd_peak n s in
  if (hard s1 >? 0) && (tot >? hard s1) then (s1, Err EInsufficient) else
  let '(s2, stuck) := evict_while (fun c => sumLargerThan n c (maxs s1)) s1 in
  if stuck then (s2, Err EInternal) else
  (mkState (order s2) (next s2) (cur s2 + n) (unc s2) (res s2 + n) (maxs s2) (hard s2)
           (evq s2) (qbytes s2) (peak s2), Ok tt).

Definition unreserve (n : Z) (s : state) : state * result unit :=
  if n =? 0 then (s, Ok tt) else
  if n <? 0 then (s, Err EInternal) else
  let newC := cur s - n in
  let newR := res s - n in
  if (newC <? 0) || (newR <? 0) then (s, Err EInternal) else
  (mkState (order s) (next s) newC (unc s) newR (maxs s) (hard s) (evq s) (qbytes s) (peak s), Ok tt).

(* the background remover finishes one queued entry: file unlinked, then qbytes -= sizeOnDisk *)
Definition evictor_step (s : state) : state * option entry :=
  match evq s with
  | [] => (s, None)
  | en :: t =>
      (mkState (order s) (next s) (cur s) (unc s) (res s) (maxs s) (hard s) t
               (qbytes s - sizeOnDisk (evalue en)) (peak s), Some en)
  end.

(* performQueuedEvictions on a non-empty channel: every queued entry, in order *)
Fixpoint drain_n (n : nat) (s : state) : state :=
  match n with O => s | S m => drain_n m (fst (evictor_step s)) end.
Definition drain (s : state) : state * list entry := (drain_n (List.length (evq s)) s, evq s).

(* Stats(): totalSize, reservedSize, numItems, uncompressedSize *)
Definition stats (s : state) : Z * Z * Z * Z :=
  (cur s, res s, Z.of_nat (List.length (order s)), unc s).

(* ------------------------------------------------------------------ *)
(* Operation histories *)

Inductive op :=
| OAdd (k : string) (v : item)
| OGet (k : string)
| ORemoveKey (k : string)
| ORemoveElem (k : string)      (* RemoveElement on the handle a Get for k just returned *)
| OReserve (n : Z)
| OUnreserve (n : Z)
| OEvictorStep
| ODrain.

Inductive out :=
| RBool (b : bool)
| RHit (v : item)
| RMiss
| RUnit
| RErr (e : errc)
| REvicted (k : string) (v : item)
| RIdle
| RDrained (l : list entry)
| RHang.

Definition step (s : state) (o : op) : state * out :=
  match o with
  | OAdd k v => let '(s', r) := add k v s in
                (s', match r with Ok b => RBool b | Err e => RErr e | _ => RHang end)
  | OGet k => let '(s', r) := get k s in
              (s', match r with Some (v, _) => RHit v | None => RMiss end)
  | ORemoveKey k => (remove_key k s, RUnit)
  | ORemoveElem k =>
      let '(s1, r) := get k s in
      match r with
      | Some (_, id) => match remove_element id s1 with Some s2 => (s2, RUnit) | None => (s1, RHang) end
      | None => (s1, RMiss)
      end
  | OReserve n => let '(s', r) := reserve n s in
                  (s', match r with Ok _ => RUnit | Err e => RErr e | _ => RHang end)
  | OUnreserve n => let '(s', r) := unreserve n s in
                    (s', match r with Ok _ => RUnit | Err e => RErr e | _ => RHang end)
  | OEvictorStep => let '(s', r) := evictor_step s in
                    (s', match r with Some en => REvicted (ekey en) (evalue en) | None => RIdle end)
  | ODrain => let '(s', l) := drain s in (s', RDrained l)
  end.

Definition run (s : state) (ops : list op) : state := fold_left (fun s o => fst (step s o)) ops s.

(* trace of (output, snapshot) after every operation — what the correspondence check compares *)
Record snap := mkSnap {
  sn_order : list entry;   (* least recently used first *)
  sn_cur : Z; sn_unc : Z; sn_res : Z; sn_q : Z; sn_peak : Z;
  sn_evq : list entry }.

Definition snapshot (s : state) : snap :=
  mkSnap (map ent (order s)) (cur s) (unc s) (res s) (qbytes s) (peak s) (evq s).

Fixpoint trace (s : state) (ops : list op) : list (out * snap) :=
  match ops with
  | [] => []
  | o :: t => let '(s', r) := step s o in (r, snapshot s') :: trace s' t
  end.

(* boolean equalities for the correspondence check *)
Definition item_eqb (a b : item) : bool :=
  (size a =? size b) && (sizeOnDisk a =? sizeOnDisk b) && String.eqb (random a) (random b)
  && Bool.eqb (legacy a) (legacy b).
Definition entry_eqb (a b : entry) : bool :=
  String.eqb (ekey a) (ekey b) && item_eqb (evalue a) (evalue b).
Definition out_eqb (a b : out) : bool :=
  match a, b with
  | RBool x, RBool y => Bool.eqb x y
  | RHit x, RHit y => item_eqb x y
  | RMiss, RMiss | RUnit, RUnit | RIdle, RIdle | RHang, RHang => true
  | RErr x, RErr y => errc_eqb x y
  | REvicted k x, REvicted k' y => String.eqb k k' && item_eqb x y
  | RDrained x, RDrained y => list_eqb entry_eqb x y
  | _, _ => false
  end.
Definition snap_eqb (a b : snap) : bool :=
  list_eqb entry_eqb (sn_order a) (sn_order b) && (sn_cur a =? sn_cur b) && (sn_unc a =? sn_unc b)
  && (sn_res a =? sn_res b) && (sn_q a =? sn_q b) && (sn_peak a =? sn_peak b)
  && list_eqb entry_eqb (sn_evq a) (sn_evq b).
Definition obs_eqb (a b : out * snap) : bool := out_eqb (fst a) (fst b) && snap_eqb (snd a) (snd b).

(* one correspondence case: configuration, operations, what the implementation showed *)
Definition case_ok (c : Z * Z * list op * list (out * snap)) : bool :=
  let '(mx, hd, ops, observed) := c in
  list_eqb obs_eqb (trace (init mx hd) ops) observed.
