(* Model/GoLRU.v — the run-time the TRANSLATED lru.go (Gen/LRUSrc.v) executes on.

   Gen/LRUSrc.v is regenerated from /repo/cache/disk/lru.go on every run by tools/go2coq
   (gen_lru.go): statement by statement, with int64/uint64 wrap-around written out, the
   receiver [c *SizedLRU] threaded as a value of type [gst], `for` loops as [while] with
   explicit fuel.  This file is hand-written and small: the record of the struct's fields and
   the meaning of the library calls the translated code makes —

     container/list   ll.Back, ll.MoveToFront, ll.PushFront, ll.Remove, ll.Len, e.Value
     Go maps          c.cache[k], c.cache[k] = e, delete(c.cache, k)
     the queue        appendEvictionToQueue (select on a channel of capacity one + an atomic
                      counter; not translated, its source text is pinned in Bridge_Disk)

   A *list.Element is an allocation number ([nat]); what it points to ([Value], a *entry) lives
   in [g_heap], so that [e.Value] can be read after [ll.Remove(e)] exactly as the Go code does,
   and so that removing a stale element behaves as container/list does (no-op on the list, the
   rest of removeElement still runs).

   Proofs/LRU_refine.v proves that the translated functions compute what Model/LRU.v (the model
   every LRU theorem is about) computes. *)
From BR Require Import Base.Prelude Model.LRU.
Open Scope Z_scope.

Record gst := mkG {
  g_ll : list nat;                 (* c.ll, FRONT (most recently used) first *)
  g_heap : list (nat * entry);     (* element -> the *entry in its Value *)
  g_cache : list (string * nat);   (* c.cache *)
  g_next : nat;                    (* allocation counter *)
  g_currentSize : Z;
  g_uncompressedSize : Z;
  g_reservedSize : Z;
  g_maxSize : Z;
  g_totalDiskSizePeak : Z;
  g_maxSizeHardLimit : Z;
  g_queue : list entry;            (* the contents of queuedEvictionsChan, oldest first *)
  g_queuedEvictionsSize : Z }.

Definition ginit (maxSize hardLimit : Z) : gst :=
  mkG [] [] [] 0 0 0 0 maxSize 0 hardLimit [] 0.

Definition set_ll l c := mkG l (g_heap c) (g_cache c) (g_next c) (g_currentSize c) (g_uncompressedSize c) (g_reservedSize c) (g_maxSize c) (g_totalDiskSizePeak c) (g_maxSizeHardLimit c) (g_queue c) (g_queuedEvictionsSize c).
Definition set_heap h c := mkG (g_ll c) h (g_cache c) (g_next c) (g_currentSize c) (g_uncompressedSize c) (g_reservedSize c) (g_maxSize c) (g_totalDiskSizePeak c) (g_maxSizeHardLimit c) (g_queue c) (g_queuedEvictionsSize c).
Definition set_cache m c := mkG (g_ll c) (g_heap c) m (g_next c) (g_currentSize c) (g_uncompressedSize c) (g_reservedSize c) (g_maxSize c) (g_totalDiskSizePeak c) (g_maxSizeHardLimit c) (g_queue c) (g_queuedEvictionsSize c).
(* field assignments of the translated code: [c.f = v] is [set_f c v] *)
Definition set_currentSize c v := mkG (g_ll c) (g_heap c) (g_cache c) (g_next c) v (g_uncompressedSize c) (g_reservedSize c) (g_maxSize c) (g_totalDiskSizePeak c) (g_maxSizeHardLimit c) (g_queue c) (g_queuedEvictionsSize c).
Definition set_uncompressedSize c v := mkG (g_ll c) (g_heap c) (g_cache c) (g_next c) (g_currentSize c) v (g_reservedSize c) (g_maxSize c) (g_totalDiskSizePeak c) (g_maxSizeHardLimit c) (g_queue c) (g_queuedEvictionsSize c).
Definition set_reservedSize c v := mkG (g_ll c) (g_heap c) (g_cache c) (g_next c) (g_currentSize c) (g_uncompressedSize c) v (g_maxSize c) (g_totalDiskSizePeak c) (g_maxSizeHardLimit c) (g_queue c) (g_queuedEvictionsSize c).
Definition set_maxSize c v := mkG (g_ll c) (g_heap c) (g_cache c) (g_next c) (g_currentSize c) (g_uncompressedSize c) (g_reservedSize c) v (g_totalDiskSizePeak c) (g_maxSizeHardLimit c) (g_queue c) (g_queuedEvictionsSize c).
Definition set_totalDiskSizePeak c v := mkG (g_ll c) (g_heap c) (g_cache c) (g_next c) (g_currentSize c) (g_uncompressedSize c) (g_reservedSize c) (g_maxSize c) v (g_maxSizeHardLimit c) (g_queue c) (g_queuedEvictionsSize c).
Definition set_maxSizeHardLimit c v := mkG (g_ll c) (g_heap c) (g_cache c) (g_next c) (g_currentSize c) (g_uncompressedSize c) (g_reservedSize c) (g_maxSize c) (g_totalDiskSizePeak c) v (g_queue c) (g_queuedEvictionsSize c).

Definition zero_item : item := mkItem 0 0 "" false.       (* lruItem{} *)
Definition zero_entry : entry := mkEntry "" zero_item.

(* ---- the heap of list elements ------------------------------------------------------- *)
Fixpoint heap_get (id : nat) (h : list (nat * entry)) : entry :=
  match h with
  | [] => zero_entry
  | (i, en) :: t => if Nat.eqb i id then en else heap_get id t
  end.
Fixpoint heap_set (id : nat) (en : entry) (h : list (nat * entry)) : list (nat * entry) :=
  match h with
  | [] => [(id, en)]
  | (i, e0) :: t => if Nat.eqb i id then (i, en) :: t else (i, e0) :: heap_set id en t
  end.

(* e.Value.( *entry ) *)
Definition elem_value (c : gst) (e : nat) : entry := heap_get e (g_heap c).
(* e.Value.( *entry ).value = v *)
Definition elem_set_value (c : gst) (e : nat) (v : item) : gst :=
  set_heap (heap_set e (mkEntry (ekey (elem_value c e)) v) (g_heap c)) c.

(* ---- container/list ------------------------------------------------------------------- *)
Fixpoint remove_nat (id : nat) (l : list nat) : list nat :=
  match l with
  | [] => []
  | x :: t => if Nat.eqb x id then t else x :: remove_nat id t
  end.
Fixpoint mem_nat (id : nat) (l : list nat) : bool :=
  match l with [] => false | x :: t => Nat.eqb x id || mem_nat id t end.

(* l.Back(): nil on an empty list *)
Definition ll_Back (c : gst) : option nat :=
  match rev (g_ll c) with [] => None | x :: _ => Some x end.
(* l.MoveToFront(e): no-op unless e is an element of l *)
Definition ll_MoveToFront (c : gst) (e : nat) : gst :=
  if mem_nat e (g_ll c) then set_ll (e :: remove_nat e (g_ll c)) c else c.
(* l.PushFront(v): a fresh element *)
Definition ll_PushFront (c : gst) (en : entry) : gst * nat :=
  let id := g_next c in
  (mkG (id :: g_ll c) ((id, en) :: g_heap c) (g_cache c) (S id) (g_currentSize c) (g_uncompressedSize c)
       (g_reservedSize c) (g_maxSize c) (g_totalDiskSizePeak c) (g_maxSizeHardLimit c) (g_queue c)
       (g_queuedEvictionsSize c), id).
(* l.Remove(e): no-op unless e is an element of l; e.Value stays readable *)
Definition ll_Remove (c : gst) (e : nat) : gst := set_ll (remove_nat e (g_ll c)) c.
Definition ll_Len (c : gst) : Z := Z.of_nat (List.length (g_ll c)).

(* ---- the map --------------------------------------------------------------------------- *)
Fixpoint assoc_get (k : string) (m : list (string * nat)) : option nat :=
  match m with
  | [] => None
  | (k', v) :: t => if String.eqb k' k then Some v else assoc_get k t
  end.
Fixpoint assoc_del (k : string) (m : list (string * nat)) : list (string * nat) :=
  match m with
  | [] => []
  | (k', v) :: t => if String.eqb k' k then assoc_del k t else (k', v) :: assoc_del k t
  end.
Definition map_get (c : gst) (k : string) : option nat := assoc_get k (g_cache c).
Definition map_set (c : gst) (k : string) (e : nat) : gst := set_cache ((k, e) :: assoc_del k (g_cache c)) c.
Definition map_delete (c : gst) (k : string) : gst := set_cache (assoc_del k (g_cache c)) c.

(* ---- the eviction queue ---------------------------------------------------------------- *)
(* appendEvictionToQueue: queuedEvictionsSize.Add(e.value.sizeOnDisk); the slice in the channel
   grows by e (or a one-element slice is sent when the channel is empty) *)
Definition appendEvictionToQueue (c : gst) (en : entry) : gst :=
  mkG (g_ll c) (g_heap c) (g_cache c) (g_next c) (g_currentSize c) (g_uncompressedSize c) (g_reservedSize c)
      (g_maxSize c) (g_totalDiskSizePeak c) (g_maxSizeHardLimit c) (g_queue c ++ [en])
      (wrap64 (g_queuedEvictionsSize c + sizeOnDisk (evalue en))).

(* ---- loops ----------------------------------------------------------------------------- *)
Inductive ctl (S R : Type) := Next (s : S) | Return (r : R).
Arguments Next {S R} s. Arguments Return {S R} r.

(* `for cond { body }`: [None] when [fuel] iterations did not end the loop *)
Fixpoint while {S R : Type} (fuel : nat) (cond : S -> bool) (body : S -> ctl S R) (s : S) : option (ctl S R) :=
  match fuel with
  | O => None
  | Datatypes.S f =>
      if cond s then
        match body s with
        | Next s' => while f cond body s'
        | Return r => Some (Return r)
        end
      else Some (Next s)
  end.
