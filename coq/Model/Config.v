(* Model/Config.v — configuration front ends (C19).  Definitions only.

   The configuration structs, the flag table, the translations of get / newFromArgs /
   NewFromYaml / validateConfig and the tag-driven yaml.Unmarshal are GENERATED
   (Gen/Config.v, module GC).  This file adds
     - the library functions the generated code calls (net.SplitHostPort, net.JoinHostPort,
       strconv.Itoa, sort.Float64s, the auth-method predicates), url.Parse stays a parameter;
     - [settings]: the explicitly given keys, keyed by FLAG NAME (yaml-only keys by yaml path),
       and the two front ends [from_flags] (urfave/cli context -> GC.get) and [from_yaml]
       (yaml key lookup -> GC.NewFromYaml);
     - [validate_config]: the hand-written, stage-structured copy of validateConfig the class
       theorems are proved about (Bridge_Config proves it equal to GC.validateConfig);
     - [case_ok] for the correspondence check. *)
From BR Require Import Base.Prelude Gen.Config.
From Coq Require Import DecimalString Decimal.
Export GC.
Open Scope string_scope.
Open Scope Z_scope.

(* ------------------------------------------------------------------ *)
(* library functions *)

Definition chars (s : string) : list ascii := list_ascii_of_string s.
Definition str (l : list ascii) : string := string_of_list_ascii l.

Fixpoint index_of (c : ascii) (l : list ascii) : option nat :=
  match l with
  | [] => None
  | x :: t => if Ascii.eqb x c then Some O else option_map S (index_of c t)
  end.
Fixpoint last_index_of (c : ascii) (l : list ascii) : option nat :=
  match l with
  | [] => None
  | x :: t => match last_index_of c t with
              | Some n => Some (S n)
              | None => if Ascii.eqb x c then Some O else None
              end
  end.
Definition has_char (c : ascii) (l : list ascii) : bool := existsb (Ascii.eqb c) l.

(* net.SplitHostPort: None = any of its errors *)
Definition split_host_port (s : string) : option (string * string) :=
  let l := chars s in
  match last_index_of ":"%char l with
  | None => None
  | Some i =>
    match l with
    | "["%char :: _ =>
      match index_of "]"%char l with
      | None => None
      | Some e =>
        if Nat.eqb (S e) (List.length l) then None else
        if negb (Nat.eqb (S e) i) then None else
        if has_char "["%char (skipn 1 l) then None else
        if has_char "]"%char (skipn (S e) l) then None else
        Some (str (firstn (e - 1) (skipn 1 l)), str (skipn (S i) l))
      end
    | _ =>
      let host := firstn i l in
      if has_char ":"%char host then None else
      if has_char "["%char l then None else
      if has_char "]"%char l then None else
      Some (str host, str (skipn (S i) l))
    end
  end.

Definition join_host_port (host port : string) : string :=
  if has_char ":"%char (chars host) then "[" ++ host ++ "]:" ++ port else host ++ ":" ++ port.

Definition itoa (z : Z) : string := NilEmpty.string_of_int (Z.to_int z).

Fixpoint insert_sorted (x : Z) (l : list Z) : list Z :=
  match l with [] => [x] | y :: t => if x <=? y then x :: l else y :: insert_sorted x t end.
Definition sort_Z (l : list Z) : list Z := fold_right insert_sorted [] l.

Definition mem_str (x : string) (l : list string) : bool := existsb (String.eqb x) l.

(* [up]: url.Parse on the strings that occur (scheme and text of the result, None = error);
   [yf]: what newFromYamlFile does with a path (never reached by the front ends below). *)
Definition model_ext (up : string -> option URL) : Ext :=
  mkExt split_host_port join_host_port itoa up
        (fun m => mem_str m s3proxy_auth_methods) (fun m => mem_str m azblobproxy_auth_methods)
        sort_Z (yaml_Unmarshal_by_tags up) (fun _ => Err (EOther 999)).

(* ------------------------------------------------------------------ *)
(* settings and the two front ends *)

Definition settings := list (string * value).

Fixpoint lookup (k : string) (s : settings) : option value :=
  match s with [] => None | (k', v) :: t => if String.eqb k' k then Some v else lookup k t end.

Fixpoint find_flag (n : string) (l : list flag) : option flag :=
  match l with [] => None | f :: t => if String.eqb (fl_name f) n then Some f else find_flag n t end.

(* the value urfave/cli holds for a flag: what was given (argv or environment), else the default *)
Definition flag_value (given : string -> option value) (n : string) : option value :=
  match given n with
  | Some v => Some v
  | None => option_map fl_default (find_flag n cli_flags)
  end.

Definition bool_text (b : bool) : string := if b then "true" else "false".

(* ctx.String / Int / Int64 / Bool / Duration parse the flag's textual value again
   (lookupInt: ParseInt, lookupDuration: time.ParseDuration, ...), whatever the flag's own type:
   a duration read from an integer flag is 0 because "3600" has no unit *)
Definition ctx_of (given : string -> option value) : Ctx :=
  mkCtx
    (fun n => match flag_value given n with
              | Some (VS s) => s | Some (VI z) => itoa z | Some (VB b) => bool_text b | _ => "" end)
    (fun n => match flag_value given n with Some (VI z) => z | _ => 0 end)
    (fun n => match flag_value given n with Some (VI z) => z | _ => 0 end)
    (fun n => match flag_value given n with Some (VB b) => b | _ => false end)
    (fun n => match flag_value given n with Some (VD z) => z | _ => 0 end).

(* the command line / environment is accepted by the cli library: every key is a flag and the
   value parses as the flag's type *)
Definition flag_accepts (k : string) (v : value) : bool :=
  match find_flag k cli_flags with Some f => kind_accepts (fl_kind f) v | None => false end.
Definition flags_ok (s : settings) : bool := forallb (fun kv => flag_accepts (fst kv) (snd kv)) s.

Definition E_CLI : Z := 900.       (* rejected by the cli library *)
Definition E_NOYAML : Z := 901.    (* a key that has no YAML spelling *)

Definition from_flags (X : Ext) (s : settings) : result Config :=
  if flags_ok s then get X (ctx_of (fun n => lookup n s)) else Err (EOther E_CLI).

(* flag name -> Config field path (flag_wiring) -> yaml key path (yaml_fields); the deprecated
   host/port keys and the listener addresses are spelled alike in both *)
Fixpoint assoc3 (k : string) (l : list (string * string * string)) : option string :=
  match l with [] => None | (p, _, f) :: t => if String.eqb f k then Some p else assoc3 k t end.
Fixpoint yaml_of_field (p : string) (l : list (string * string * kind)) : option string :=
  match l with [] => None | (fp, yp, _) :: t => if String.eqb fp p then Some yp else yaml_of_field p t end.
Definition is_yaml_key (k : string) : bool := existsb (fun r => String.eqb (snd (fst r)) k) yaml_fields.
Definition yaml_key_of (k : string) : option string :=
  match assoc3 k flag_wiring with
  | Some p => yaml_of_field p yaml_fields
  | None => if is_yaml_key k then Some k else None
  end.
(* the settings key a yaml key path is read from *)
Definition key_of_yaml (yp : string) : string :=
  match find (fun f => match yaml_key_of (fl_name f) with Some y => String.eqb y yp | None => false end) cli_flags with
  | Some f => fl_name f
  | None => yp
  end.
(* the same, tabulated once for every key of yaml_fields (Bridge_Config: key_table_spec) *)
Definition key_table : list (string * string) :=
  Eval vm_compute in map (fun r => (snd (fst r), key_of_yaml (snd (fst r)))) yaml_fields.
Fixpoint assoc (k : string) (l : list (string * string)) : option string :=
  match l with [] => None | (a, b) :: t => if String.eqb a k then Some b else assoc k t end.
Definition settings_key (yp : string) : string := match assoc yp key_table with Some k => k | None => yp end.
Definition yaml_data_of (given : string -> option value) : YamlData := fun yp => given (settings_key yp).
Definition yaml_keys_ok (s : settings) : bool :=
  forallb (fun kv => match yaml_key_of (fst kv) with
                     | Some yp => String.eqb (settings_key yp) (fst kv) | None => false end) s.

Definition from_yaml (X : Ext) (s : settings) : result Config :=
  if yaml_keys_ok s then NewFromYaml X (yaml_data_of (fun n => lookup n s)) else Err (EOther E_NOYAML).

(* ------------------------------------------------------------------ *)
(* validateConfig, stage by stage (error codes = GC.error_messages) *)

Definition err {A} (n : Z) : result A := Err (EOther n).
Definition b2z (b : bool) : Z := if b then 1 else 0.
Definition nonempty (s : string) : bool := negb (String.eqb s "").

Definition proxy_count (c : Config) : Z :=
  b2z (is_some (Config_S3CloudStorage c)) + b2z (is_some (Config_HTTPBackend c))
  + b2z (is_some (Config_GoogleCloudStorage c)) + b2z (is_some (Config_AzBlobConfig c))
  + b2z (is_some (Config_GRPCBackend c)).

Definition st_required (c : Config) : result unit :=
  if String.eqb (Config_Dir c) "" then err 1 else
  if Config_MaxSize c <=? 0 then err 2 else
  if negb (String.eqb (Config_StorageMode c) "zstd") && negb (String.eqb (Config_StorageMode c) "uncompressed") then err 3 else
  if negb (String.eqb (Config_ZstdImplementation c) "go") && negb (String.eqb (Config_ZstdImplementation c) "cgo") then err 4 else
  if proxy_count c >? 1 then err 5 else Ok tt.

(* yields the HTTP TCP port ("" for a Unix socket) *)
Definition st_http (X : Ext) (c : Config) : result string :=
  if String.prefix "unix://" (Config_HTTPAddress c) then
    if String.eqb (str_drop 7 (Config_HTTPAddress c)) "" then err 6 else Ok ""
  else match net_SplitHostPort X (Config_HTTPAddress c) with
       | Some (_, p) => Ok p
       | None => err 7
       end.

Definition grpc_listens (c : Config) : bool :=
  negb (String.eqb (Config_GRPCAddress c) "") && negb (String.eqb (Config_GRPCAddress c) "none").

Definition st_grpc (X : Ext) (c : Config) (httpPort : string) : result unit :=
  if grpc_listens c then
    if String.prefix "unix://" (Config_GRPCAddress c) then
      if String.eqb (str_drop 7 (Config_GRPCAddress c)) "" then err 8 else Ok tt
    else match net_SplitHostPort X (Config_GRPCAddress c) with
         | Some (_, gp) =>
           if negb (String.eqb httpPort "") && negb (String.eqb gp "") && String.eqb httpPort gp then err 10 else Ok tt
         | None => err 9
         end
  else Ok tt.

Definition st_profile (c : Config) : result unit :=
  if negb (String.eqb (Config_ProfileAddress c) "") && negb (String.eqb (Config_ProfileAddress c) "none") then
    if String.prefix "unix://" (Config_ProfileAddress c) then
      if String.eqb (str_drop 7 (Config_ProfileAddress c)) "" then err 11 else Ok tt
    else Ok tt
  else Ok tt.

Definition no_authentication (c : Config) : bool :=
  String.eqb (Config_TLSCaFile c) "" && String.eqb (Config_HtpasswdFile c) "" && negb (is_some (Config_LDAP c)).

(* conditions are written exactly as the translation of the source has them *)
Definition st_tls_auth_limits (c : Config) : result unit :=
  if String.eqb (Config_GRPCAddress c) "none" && Config_ExperimentalRemoteAssetAPI c then err 12 else
  if (negb (String.eqb (Config_TLSCertFile c) "") && String.eqb (Config_TLSKeyFile c) "")
     || (String.eqb (Config_TLSCertFile c) "" && negb (String.eqb (Config_TLSKeyFile c) "")) then err 13 else
  if negb (String.eqb (Config_TLSCaFile c) "")
     && (String.eqb (Config_TLSCertFile c) "" || String.eqb (Config_TLSKeyFile c) "") then err 14 else
  if Config_AllowUnauthenticatedReads c && String.eqb (Config_TLSCaFile c) "" && String.eqb (Config_HtpasswdFile c) ""
     && negb (is_some (Config_LDAP c)) then err 15 else
  if Config_MaxBlobSize c <=? 0 then err 16 else
  if Config_MaxProxyBlobSize c <=? 0 then err 17 else
  if is_some (Config_GoogleCloudStorage c) && is_some (Config_HTTPBackend c) && is_some (Config_S3CloudStorage c) then err 18 else
  Ok tt.

Definition st_gcs (c : Config) : result unit :=
  match Config_GoogleCloudStorage c with
  | Some g => if String.eqb (GoogleCloudStorageConfig_Bucket g) "" then err 19 else Ok tt
  | None => Ok tt
  end.

(* URLBackendConfig.validate *)
Definition url_backend_validate (b : URLBackendConfig) (protocol : string) : result unit :=
  match URLBackendConfig_BaseURL b with
  | None => err 101
  | Some u =>
    let secure := String.eqb (URL_Scheme u) (protocol ++ "s") in
    if negb (String.eqb (URL_Scheme u) protocol) && negb secure then err 102 else
    if nonempty (URLBackendConfig_KeyFile b) || nonempty (URLBackendConfig_CertFile b) then
      if String.eqb (URLBackendConfig_KeyFile b) "" || String.eqb (URLBackendConfig_CertFile b) "" then err 103 else
      if negb secure then err 104 else
      if nonempty (URLBackendConfig_CaFile b) && negb secure then err 105 else Ok tt
    else
      if nonempty (URLBackendConfig_CaFile b) && negb secure then err 105 else Ok tt
  end.

Definition st_url_backend (o : option URLBackendConfig) (protocol : string) : result unit :=
  match o with Some b => url_backend_validate b protocol | None => Ok tt end.

Definition st_s3 (X : Ext) (c : Config) : result unit :=
  match Config_S3CloudStorage c with
  | Some s =>
    if negb (s3proxy_IsValidAuthMethod X (S3CloudStorageConfig_AuthMethod s)) then err 20 else
    if match S3CloudStorageConfig_KeyVersion s with Some k => negb (k =? 2) | None => false end then err 21 else
    if negb (String.eqb (S3CloudStorageConfig_BucketLookupType s) "")
       && negb (String.eqb (S3CloudStorageConfig_BucketLookupType s) "auto")
       && negb (String.eqb (S3CloudStorageConfig_BucketLookupType s) "dns")
       && negb (String.eqb (S3CloudStorageConfig_BucketLookupType s) "path") then err 22 else
    if negb (String.eqb (S3CloudStorageConfig_SignatureType s) "")
       && negb (String.eqb (S3CloudStorageConfig_SignatureType s) "v2")
       && negb (String.eqb (S3CloudStorageConfig_SignatureType s) "v4")
       && negb (String.eqb (S3CloudStorageConfig_SignatureType s) "v4streaming")
       && negb (String.eqb (S3CloudStorageConfig_SignatureType s) "anonymous") then err 23 else
    Ok tt
  | None => Ok tt
  end.

Definition st_azblob (X : Ext) (c : Config) : result unit :=
  match Config_AzBlobConfig c with
  | Some a =>
    if String.eqb (AzBlobStorageConfig_StorageAccount a) "" then err 24 else
    if String.eqb (AzBlobStorageConfig_ContainerName a) "" then err 25 else
    if negb (azblobproxy_IsValidAuthMethod X (AzBlobStorageConfig_AuthMethod a)) then err 26 else Ok tt
  | None => Ok tt
  end.

Definition st_buckets (c : Config) : result unit :=
  match Config_MetricsDurationBuckets c with
  | Some l => if has_dup l then err 27 else Ok tt
  | None => Ok tt
  end.

Definition ldap_defaults (l : LDAPConfig) : LDAPConfig :=
  let l1 := if String.eqb (LDAPConfig_UsernameAttribute l) "" then set_LDAPConfig_UsernameAttribute "uid" l else l in
  if LDAPConfig_CacheTime l1 <=? 0 then set_LDAPConfig_CacheTime 3600 l1 else l1.

(* validateConfig also fills in the LDAP defaults: the configuration it leaves behind *)
Definition st_ldap (c : Config) : result Config :=
  if negb (String.eqb (Config_HtpasswdFile c) "") && negb (String.eqb (Config_TLSCaFile c) "") && is_some (Config_LDAP c) then err 28 else
  match Config_LDAP c with
  | Some l =>
    if String.eqb (LDAPConfig_URL l) "" then err 29 else
    if String.eqb (LDAPConfig_BaseDN l) "" then err 30 else
    Ok (set_Config_LDAP (Some (ldap_defaults l)) c)
  | None => Ok c
  end.

Definition st_logging (c : Config) : result Config :=
  if String.eqb (Config_AccessLogLevel c) "none" || String.eqb (Config_AccessLogLevel c) "all" then
    if String.eqb (Config_LogTimezone c) "UTC" || String.eqb (Config_LogTimezone c) "local" || String.eqb (Config_LogTimezone c) "none"
    then Ok c else err 32
  else err 31.

Definition validate_config (X : Ext) (c : Config) : result Config :=
  bind (st_required c) (fun _ =>
  bind (st_http X c) (fun httpPort =>
  bind (st_grpc X c httpPort) (fun _ =>
  bind (st_profile c) (fun _ =>
  bind (st_tls_auth_limits c) (fun _ =>
  bind (st_gcs c) (fun _ =>
  bind (st_url_backend (Config_HTTPBackend c) "http") (fun _ =>
  bind (st_url_backend (Config_GRPCBackend c) "grpc") (fun _ =>
  bind (st_s3 X c) (fun _ =>
  bind (st_azblob X c) (fun _ =>
  bind (st_buckets c) (fun _ =>
  bind (st_ldap c) (fun c1 =>
  st_logging c1)))))))))))).

(* ------------------------------------------------------------------ *)
(* the effective configuration, and which settings both syntaxes can express *)

(* max_size_hard_limit <= 0 means "no hard limit" (main.go hands it to the disk cache, which
   tests hard > 0): the flag default -1 and the YAML default 0 are the same configuration *)
Definition norm_entry (kv : string * value) : string * value :=
  match kv with
  | (k, VI z) => if String.eqb k "MaxSizeHardLimit" then (k, VI (Z.max 0 z)) else kv
  | _ => kv
  end.
Definition eff (r : result Config) : option (list (string * value)) :=
  match r with Ok c => Some (map norm_entry (flatten_Config "" c)) | _ => None end.

Definition present (s : settings) (k : string) : bool := is_some (lookup k s).
Definition str_given (s : settings) (k : string) : bool :=
  match lookup k s with Some (VS x) => nonempty x | _ => false end.
Definition int_pos (s : settings) (k : string) : bool :=
  match lookup k s with Some (VI z) => z >? 0 | _ => false end.

(* the listener addresses do not rest on a default (those differ on purpose: flags 8080 / 9092 /
   127.0.0.1, YAML 0 / none / "") *)
Definition listeners_explicit (s : settings) : bool :=
  (str_given s "http_address" || present s "port")
  && (str_given s "grpc_address" || present s "grpc_port")
  && (str_given s "profile_address" || negb (int_pos s "profile_port") || present s "profile_host").

(* what the property quantifies over *)
Definition settings_valid (s : settings) : Prop :=
  flags_ok s = true /\ yaml_keys_ok s = true /\ listeners_explicit s = true.

(* the flags of a section (fields "<Section>.x" of flag_wiring) *)
Definition section_flags (sec : string) : list string :=
  map (fun r => snd r) (filter (fun r => String.prefix (sec ++ ".") (fst (fst r))) flag_wiring).
(* get() builds a section only when its trigger flag is non-empty: keys of a section given
   without the trigger are dropped by the flag front end and used by the YAML one *)
Definition sections_triggered (s : settings) : bool :=
  forallb (fun st => negb (existsb (present s) (section_flags (fst st))) || str_given s (snd st)) section_triggers.
(* omitted s3 keys whose flag default is not the YAML zero value *)
Definition s3_defaults_given (s : settings) : bool :=
  negb (str_given s "s3.bucket") || (present s "s3.bucket_lookup_type" && present s "s3.aws_profile").

(* the three places where the front ends really differ (the C19_agree_refuted theorems) are left out *)
Definition expressible_in_both (s : settings) : Prop :=
  settings_valid s /\ lookup "ldap.cache_time" s = None
  /\ sections_triggered s = true /\ s3_defaults_given s = true.

(* ------------------------------------------------------------------ *)
(* correspondence cases *)

Definition kind_eqb (a b : kind) : bool :=
  match a, b with
  | KString, KString | KInt, KInt | KInt64, KInt64 | KBool, KBool | KDuration, KDuration
  | KFloatList, KFloatList | KIntPtr, KIntPtr | KURL, KURL => true
  | _, _ => false
  end.
Definition value_eqb (a b : value) : bool :=
  match a, b with
  | VS x, VS y => String.eqb x y
  | VI x, VI y | VD x, VD y => x =? y
  | VB x, VB y => Bool.eqb x y
  | VL x, VL y => list_eqb Z.eqb x y
  | _, _ => false
  end.
Definition entry_eqb (a b : string * value) : bool := String.eqb (fst a) (fst b) && value_eqb (snd a) (snd b).

Definition is_zero (v : value) : bool :=
  match v with VS s => String.eqb s "" | VI z | VD z => z =? 0 | VB b => negb b | VL _ => false end.
(* what the harness writes down of a Config: the non-zero basic fields in declaration order *)
Definition flat (c : Config) : list (string * value) :=
  filter (fun kv => negb (is_zero (snd kv))) (flatten_Config "" c).

Inductive observed := OOk (fields : list (string * value)) | OErr (msg : string).

Fixpoint err_text (code : Z) (l : list (Z * string * string)) : option string :=
  match l with [] => None | (c, _, m) :: t => if c =? code then Some m else err_text code t end.
(* the observed message starts with the literal text of the error return the model chose;
   errors handed on from a library call have no literal text *)
Definition err_matches (code : Z) (msg : string) : bool :=
  if code =? E_CLI then String.prefix "cli: " msg else
  match err_text code error_messages with
  | Some m => if String.prefix "(" m then true else String.prefix m msg
  | None => false
  end.
Definition obs_eqb (r : result Config) (o : observed) : bool :=
  match r, o with
  | Ok c, OOk l => list_eqb entry_eqb (flat c) l
  | Err (EOther n), OErr m => err_matches n m
  | _, _ => false
  end.

(* url.Parse as observed on the strings of the case: (text, Some scheme | None = error) *)
Fixpoint url_oracle (t : list (string * option string)) (s : string) : option URL :=
  match t with
  | [] => None
  | (u, r) :: t' => if String.eqb u s then option_map (fun sch => mkURL sch s) r else url_oracle t' s
  end.

Inductive ccase :=
| CTable (rows : list (string * kind * value * list string))        (* flags.GetCliFlags at run time *)
| CRun (urls : list (string * option string)) (s : settings) (by_flags by_yaml : observed)
| CValidate (c : Config) (o : observed).                             (* validateConfig on a struct *)

Definition flag_row (f : flag) := (fl_name f, fl_kind f, fl_default f, fl_env f).
Definition row_eqb (a b : string * kind * value * list string) : bool :=
  let '(n1, k1, v1, e1) := a in let '(n2, k2, v2, e2) := b in
  String.eqb n1 n2 && kind_eqb k1 k2 && value_eqb v1 v2 && list_eqb String.eqb e1 e2.

Definition case_ok (c : ccase) : bool :=
  match c with
  | CTable rows => list_eqb row_eqb (map flag_row cli_flags) rows
  | CRun urls s fl yl =>
    let X := model_ext (url_oracle urls) in
    obs_eqb (from_flags X s) fl && obs_eqb (from_yaml X s) yl
  | CValidate c o => obs_eqb (validate_config (model_ext (fun _ => None)) c) o
  end.
