(* Model/Load.v — executable model of start-up on an existing cache directory
   (cache/disk/load.go: New, migrateDirectories, migrateDirectory, migrateV1Subdir, scanDir,
   loadExistingFiles).  Definitions only.

   A directory population is a three-level tree, which is as deep as the code looks:
       <dir>/<top>/<sub>/<leaf>
   Lists are in os.ReadDir order (sorted by name).  Only regular files and directories are
   modelled (no symlinks, devices, permission errors).  File contents are an identifier
   ([f_cid]): nothing at start-up reads or writes file contents, files are only renamed and
   unlinked.

   The 768 directories <kind>.v2/<xx> that New creates with MkdirAll are not materialised: an
   absent [SD xx] under [TD "<kind>.v2"] stands for the existing empty directory (scanning it
   yields nothing; a rename into it creates the [SD]).

   What is NOT modelled, because it depends on goroutine timing (reported to the coordinator):
   * migrateDirectory's error path after a failed v0 rename: the worker blocks on an unbuffered
     channel or the dispatcher closes / sends on a closed channel — modelled as [Hang];
   * scanDir when as many leaf directories fail as there are worker goroutines: the dispatcher
     can block on the work channel for ever instead of returning the error — the model says [Err]. *)
From BR Require Import Base.Prelude Model.LRU Model.Names.
Open Scope string_scope.
Open Scope Z_scope.

Record file := mkFile { f_name : string; f_size : Z; f_atime : Z; f_cid : Z }.

Inductive leafent := LF (f : file) | LD (name : string).
Inductive subent := SF (f : file) | SD (name : string) (content : list leafent).
Inductive topent := TF (f : file) | TD (name : string) (content : list subent).
Definition tree := list topent.

Definition leaf_name (e : leafent) : string := match e with LF f => f_name f | LD n => n end.
Definition sub_name (e : subent) : string := match e with SF f => f_name f | SD n _ => n end.
Definition top_name (e : topent) : string := match e with TF f => f_name f | TD n _ => n end.

Definition rbind {A B} (r : result A) (f : A -> result B) : result B :=
  match r with Ok a => f a | Err e => Err e | Panic s => Panic s | Hang s => Hang s end.

(* ------------------------------------------------------------------ *)
(* New: MkdirAll(<dir>/<kind>.v2/<xx>) for the 3 x 256 directories *)

Definition find_top (n : string) (t : tree) : option topent :=
  find (fun e => String.eqb (top_name e) n) t.

Definition top_blocked (k : kind) (t : tree) : bool :=
  match find_top (kind_dir k) t with
  | Some (TF _) => true
  | Some (TD _ l) => existsb (fun e => match e with SF f => is_hex2 (f_name f) | SD _ _ => false end) l
  | None => false
  end.

Definition ensure_top (k : kind) (t : tree) : tree :=
  match find_top (kind_dir k) t with Some _ => t | None => (t ++ [TD (kind_dir k) []])%list end.

Definition mkdirs (t : tree) : result tree :=
  if top_blocked CAS t || top_blocked AC t || top_blocked RAW t then Err EInternal
  else Ok (ensure_top RAW (ensure_top AC (ensure_top CAS t))).

(* ------------------------------------------------------------------ *)
(* os.Rename into <kind>.v2/<sub>/ : replaces a file of the same name, fails on a directory of the
   same name (or a file where a directory is needed, or a missing directory) *)

Definition same_sort (a b : leafent) : bool :=
  match a, b with LF _, LF _ | LD _, LD _ => true | _, _ => false end.

Fixpoint leaf_put (e : leafent) (l : list leafent) : option (list leafent) :=
  match l with
  | [] => Some [e]
  | x :: r =>
      if String.eqb (leaf_name x) (leaf_name e) then (if same_sort x e then Some (e :: r) else None)
      else match leaf_put e r with Some r' => Some (x :: r') | None => None end
  end.

Fixpoint sub_put (sub : string) (e : leafent) (l : list subent) : option (list subent) :=
  match l with
  | [] => if is_hex2 sub then Some [SD sub [e]] else None
  | x :: r =>
      if String.eqb (sub_name x) sub then
        match x with
        | SD n c => match leaf_put e c with Some c' => Some (SD n c' :: r) | None => None end
        | SF _ => None
        end
      else match sub_put sub e r with Some r' => Some (x :: r') | None => None end
  end.

Fixpoint top_put (dir sub : string) (e : leafent) (t : tree) : option tree :=
  match t with
  | [] => None
  | x :: r =>
      if String.eqb (top_name x) dir then
        match x with
        | TD n c => match sub_put sub e c with Some c' => Some (TD n c' :: r) | None => None end
        | TF _ => None
        end
      else match top_put dir sub e r with Some r' => Some (x :: r') | None => None end
  end.

(* rename keeps size, access time and content *)
Definition rename_leaf (e : leafent) (n : string) : leafent :=
  match e with LF f => LF (mkFile n (f_size f) (f_atime f) (f_cid f)) | LD _ => LD n end.

(* ------------------------------------------------------------------ *)
(* migrateV1Subdir: <kind>/<xx>/<hash> -> <kind>.v2/<xx>/<hash>-112233 | -556677.v1.
   Its errors are only logged by the caller; what was renamed before the error stays renamed,
   the rest of the subdirectory is deleted with the source directory afterwards. *)

Fixpoint migrate_v1 (k : kind) (dest2 : string) (content : list leafent) (t : tree) : tree :=
  match content with
  | [] => t
  | e :: r =>
      let n := leaf_name e in
      if is_hash n then
        match top_put (kind_dir k) dest2 (rename_leaf e (v1_target_name k n)) t with
        | Some t' => migrate_v1 k dest2 r t'
        | None => t
        end
      else if is_dsstore n then migrate_v1 k dest2 r t
      else t
  end.

(* migrateDirectory: the items of <dir>/<kind> *)
Fixpoint migrate_items (k : kind) (items : list subent) (t : tree) : result tree :=
  match items with
  | [] => Ok t
  | SD n content :: r =>
      if (String.length n <? 2)%nat then Panic "migrateDirectory: oldName[:2]"
      else migrate_items k r (migrate_v1 k (take2 n) content t)
  | SF f :: r =>
      if is_hash (f_name f) then
        match top_put (kind_dir k) (take2 (f_name f)) (rename_leaf (LF f) (v0_target_name k (f_name f))) t with
        | Some t' => migrate_items k r t'
        | None => Hang "migrateDirectory: rename failed (blocked send on errChan / close of closed channel)"
        end
      else migrate_items k r t
  end.

Definition remove_top (n : string) (t : tree) : tree :=
  filter (fun e => negb (String.eqb (top_name e) n)) t.

Definition migrate_kind (k : kind) (t : tree) : result tree :=
  match find_top (kind_str k) t with
  | None => Ok t
  | Some (TF _) => Err EInternal          (* os.Stat succeeds, os.ReadDir fails *)
  | Some (TD _ items) =>
      rbind (migrate_items k items t) (fun t' => Ok (remove_top (kind_str k) t'))   (* os.RemoveAll *)
  end.

Definition migrate (t : tree) : result tree :=
  rbind (migrate_kind AC t) (fun t1 => rbind (migrate_kind CAS t1) (migrate_kind RAW)).

(* ------------------------------------------------------------------ *)
(* scanDir *)

Record sfile := mkSfile { s_kind : kind; s_sub : string; s_file : file; s_parsed : parsed }.

Fixpoint scan_leaf (k : kind) (sub : string) (l : list leafent) : result (list sfile) :=
  match l with
  | [] => Ok []
  | LD n :: r => if is_lostfound n then scan_leaf k sub r else Err EInternal
  | LF f :: r =>
      match scan_name (f_name f) with
      | Ok p => rbind (scan_leaf k sub r) (fun l' => Ok (mkSfile k sub f p :: l'))
      | _ => Err EInternal
      end
  end.

Fixpoint scan_sub (k : kind) (l : list subent) : result (list sfile) :=
  match l with
  | [] => Ok []
  | SF f :: r => if is_dsstore (f_name f) then scan_sub k r else Err EInternal
  | SD n c :: r =>
      if is_lostfound n then scan_sub k r
      else if negb (is_hex2 n) then Err EInternal
      else rbind (scan_leaf k n c) (fun a => rbind (scan_sub k r) (fun b => Ok (a ++ b)%list))
  end.

Fixpoint scan_tree (t : tree) : result (list sfile) :=
  match t with
  | [] => Ok []
  | TF f :: r => if is_dsstore (f_name f) then scan_tree r else Err EInternal
  | TD n l :: r =>
      if is_lostfound n then scan_tree r
      else match kind_of_dir n with
           | None => Err EInternal
           | Some k => rbind (scan_sub k l) (fun a => rbind (scan_tree r) (fun b => Ok (a ++ b)%list))
           end
  end.

(* what scanDir records for a file *)
Definition sf_key (x : sfile) : string := lookup_key (s_kind x) (p_hash (s_parsed x)).
Definition sf_item (x : sfile) : item :=
  mkItem (match p_size (s_parsed x) with Some n => n | None => f_size (s_file x) end)
         (f_size (s_file x)) (p_random (s_parsed x)) (p_legacy (s_parsed x)).
Definition sf_atime (x : sfile) : Z := f_atime (s_file x).
Definition sf_entry (x : sfile) : entry := mkEntry (sf_key x) (sf_item x).

(* a place in the v2 tree: <kind>.v2 / <sub> / <name> *)
Definition place := (kind * string * string)%type.
Definition place_eqb (a b : place) : bool :=
  let '(k1, s1, n1) := a in let '(k2, s2, n2) := b in
  kind_eqb k1 k2 && String.eqb s1 s2 && String.eqb n1 n2.
Definition place_str (p : place) : string := let '(k, s, n) := p in join3 (kind_dir k) s n.
Definition sf_place (x : sfile) : place := (s_kind x, s_sub x, f_name (s_file x)).

(* getElementPath: where the index believes the file of (key, item) is *)
Definition item_place (key : string) (v : item) : place :=
  let k := key_kind key in let h := key_hash key in
  (k, take2 h, print_name (shape k (legacy v) h (size v) (random v))).

(* sort.Sort(result) with Less = ts.Before, ts = atime.Get(info): by ACCESS time only (the
   modification time plays no role; Bridge_Names.scanDir_sort_key_pinned pins the statements).
   sort.Sort is not stable; the model sorts stably, the strict statements about order assume
   pairwise distinct access times, and the correspondence check compares modulo ties. *)
Fixpoint insert_by (x : sfile) (l : list sfile) : list sfile :=
  match l with
  | [] => [x]
  | y :: r => if sf_atime x <=? sf_atime y then x :: l else y :: insert_by x r
  end.
Fixpoint sort_atime (l : list sfile) : list sfile :=
  match l with [] => [] | x :: r => insert_by x (sort_atime r) end.

(* os.Remove *)
Fixpoint unlink (p : place) (present : list place) : option (list place) :=
  match present with
  | [] => None
  | q :: r => if place_eqb q p then Some r
              else match unlink p r with Some r' => Some (q :: r') | None => None end
  end.

(* the Add loop of loadExistingFiles, oldest first *)
Fixpoint load_loop (items : list sfile) (s : state) (present : list place) : result (state * list place) :=
  match items with
  | [] => Ok (s, present)
  | x :: r =>
      let '(s', res) := add (sf_key x) (sf_item x) s in
      match res with
      | Ok true => load_loop r s' present
      | Ok false =>
          match unlink (item_place (sf_key x) (sf_item x)) present with
          | Some present' => load_loop r s' present'
          | None => Err EInternal
          end
      | Err e => Err e
      | Panic p => Panic p
      | Hang h => Hang h
      end
  end.

(* the background remover works through the queue (a failing unlink is only logged) *)
Definition unlink_all (q : list entry) (present : list place) : list place :=
  fold_left (fun pr en => match unlink (item_place (ekey en) (evalue en)) pr with
                          | Some pr' => pr' | None => pr end) q present.

Definition finish (sp : state * list place) : state * list place :=
  let '(s, present) := sp in
  let '(s', q) := drain s in (s', unlink_all q present).

(* loadExistingFiles on the scanned files *)
Definition load_files (max_size hard_limit : Z) (files : list sfile) : result (state * list place) :=
  rbind (load_loop (sort_atime files) (init max_size hard_limit) (map sf_place files))
        (fun sp => Ok (finish sp)).

(* New(dir, max_size, WithMaxSizeHardLimit(hard_limit)) up to the point where it returns *)
Definition startup (max_size hard_limit : Z) (t : tree) : result (state * list place) :=
  rbind (mkdirs t) (fun t1 =>
  rbind (migrate t1) (fun t2 =>
  rbind (scan_tree t2) (fun files => load_files max_size hard_limit files))).

(* ------------------------------------------------------------------ *)
(* the population grammar of C09: what this or an earlier release (or the file system) leaves in a
   cache directory.  Boolean, so that concrete populations are checked by computation.
   (Names within one directory are unique in a file system; the theorems do not need it.) *)

(* a file name written under <kind>.v2/<sub>: recognised, in the directory of its hash, and of the
   shape FileLocation gives to that key space *)
Definition name_fits (k : kind) (sub : string) (p : parsed) : bool :=
  String.eqb (take2 (p_hash p)) sub &&
  match k with
  | CAS => match p_size p with Some _ => negb (p_legacy p) | None => p_legacy p end
  | _ => match p_size p with Some _ => false | None => negb (p_legacy p) end
  end.

Definition leaf_ok (k : kind) (sub : string) (e : leafent) : bool :=
  match e with
  | LD n => is_lostfound n
  | LF f => (0 <=? f_size f) && match scan_name (f_name f) with Ok p => name_fits k sub p | _ => false end
  end.
Definition leafdir_ok (k : kind) (sub : string) (c : list leafent) : bool := forallb (leaf_ok k sub) c.

Definition sub_ok (k : kind) (e : subent) : bool :=
  match e with
  | SF f => is_dsstore (f_name f)
  | SD n c => is_lostfound n || (is_hex2 n && leafdir_ok k n c)
  end.
Definition subdir_ok (k : kind) (l : list subent) : bool := forallb (sub_ok k) l.

(* legacy directories ac/ cas/ raw/: v0 files named by their hash, v1 two-level subdirectories
   (with .DS_Store files), anything else directly in the directory is skipped by the code *)
Definition v1_leaf_ok (sub : string) (e : leafent) : bool :=
  match e with
  | LF f => (is_hash (f_name f) && String.eqb (take2 (f_name f)) sub && (0 <=? f_size f)) || is_dsstore (f_name f)
  | LD _ => false
  end.
Definition legacy_ok (e : subent) : bool :=
  match e with
  | SF f => negb (is_hash (f_name f)) || (0 <=? f_size f)
  | SD n c => is_hex2 n && forallb (v1_leaf_ok n) c
  end.

Definition kind_of_legacy_dir (d : string) : option kind :=
  if String.eqb d "cas" then Some CAS else if String.eqb d "ac" then Some AC
  else if String.eqb d "raw" then Some RAW else None.

Definition top_ok (e : topent) : bool :=
  match e with
  | TF f => is_dsstore (f_name f)
  | TD n l =>
      is_lostfound n ||
      match kind_of_dir n with
      | Some k => subdir_ok k l
      | None => match kind_of_legacy_dir n with Some _ => forallb legacy_ok l | None => false end
      end
  end.

Definition population_ok (t : tree) : bool := forallb top_ok t.

(* ------------------------------------------------------------------ *)
(* correspondence cases (harness/cmd/loader) *)

Inductive observed :=
| OErr                                                            (* New returned an error *)
| OOk (order : list entry) (cur unc : Z) (files : list string).   (* recency list (oldest first), Stats, files left *)

Fixpoint count_str (x : string) (l : list string) : nat :=
  match l with [] => O | y :: r => (if String.eqb x y then 1 else 0) + count_str x r end.
Definition same_strings (a b : list string) : bool :=
  Nat.eqb (List.length a) (List.length b) && forallb (fun x => Nat.eqb (count_str x a) (count_str x b)) a.

(* directory creation + migration + scan: the files scanDir reports *)
Definition scan_all (t : tree) : result (list sfile) :=
  rbind (mkdirs t) (fun t1 => rbind (migrate t1) scan_tree).

(* The recency list is compared up to the order of entries with EQUAL access time: sort.Sort is
   not stable and the order in which the scanning goroutines deliver their results is not
   deterministic, so such entries may be indexed in any order.  With pairwise distinct access
   times this is equality of the lists. *)
Fixpoint entry_atime (files : list sfile) (en : entry) : Z :=
  match files with
  | [] => 0
  | x :: r => if entry_eqb (sf_entry x) en then sf_atime x else entry_atime r en
  end.
Fixpoint count_entry (en : entry) (l : list entry) : nat :=
  match l with [] => O | y :: r => (if entry_eqb en y then 1 else 0) + count_entry en r end.
Definition same_entries (a b : list entry) : bool :=
  Nat.eqb (List.length a) (List.length b) && forallb (fun x => Nat.eqb (count_entry x a) (count_entry x b)) a.
Definition order_agrees (files : list sfile) (model observed : list entry) : bool :=
  same_entries model observed &&
  list_eqb Z.eqb (map (entry_atime files) model) (map (entry_atime files) observed).

Definition case_ok (c : Z * Z * tree * observed) : bool :=
  let '(mx, hd, t, o) := c in
  match startup mx hd t, o with
  | Ok (s, present), OOk order c u files =>
      order_agrees (match scan_all t with Ok fs => fs | _ => [] end) (map ent (LRU.order s)) order
      && (cur s =? c) && (unc s =? u)
      && same_strings (map place_str present) files
  | Err _, OErr => true
  | _, _ => false
  end.
