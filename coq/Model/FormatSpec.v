(* Model/FormatSpec.v — the published bazel-remote v2 CAS blob file layout, written down
   independently of the reader model (Model/Casblob.v is NOT imported; nothing of parse_header is
   reused).  Source: the comments on `type header` in cache/disk/casblob/casblob.go and the zstd
   format document they refer to:

     offset  0  4 bytes  magic number of a zstd skippable frame, 0x184D2A50, little-endian
     offset  4  4 bytes  frame size: the size of the rest of the header
     offset  8  8 bytes  uncompressed (logical) size, int64
     offset 16  1 byte   compression type: 0 identity, 1 zstandard
     offset 17  4 bytes  chunk size, uint32
     offset 21  8 bytes  number of table entries (chunks + 1), int64
     offset 29  8 bytes each: the offset in the file of every chunk, then a final entry with the
                         size of the file (header + data)
     then the chunks, each an independently compressed zstd frame of chunk-size bytes of the blob
     (the last one possibly shorter), the first directly after the table.

   Definitions only. *)
From BR Require Import Base.Prelude.
Open Scope list_scope.
Open Scope Z_scope.

Definition spec_magic : Z := 407710288.          (* 0x184D2A50 *)
Definition spec_fixed_part : Z := 29.             (* 4 + 4 + 8 + 1 + 4 + 8 *)
Definition spec_identity : Z := 0.
Definition spec_zstandard : Z := 1.
Definition spec_default_chunk : Z := 1048576.     (* what bazel-remote 2.x writes: 1 MiB *)

Definition is_byte (b : Z) : bool := (0 <=? b) && (b <=? 255).

Definition byte_at (f : list Z) (i : nat) : Z := nth i f 0.
Definition u32_at (f : list Z) (i : nat) : Z :=
  byte_at f i + 256 * byte_at f (i + 1) + 65536 * byte_at f (i + 2) + 16777216 * byte_at f (i + 3).
Definition u64_at (f : list Z) (i : nat) : Z := u32_at f i + 4294967296 * u32_at f (i + 4).
Definition i64_at (f : list Z) (i : nat) : Z :=
  let u := u64_at f i in if u <? 9223372036854775808 then u else u - 18446744073709551616.

(* bytes [a, b) of the file *)
Definition slice (f : list Z) (a b : Z) : list Z := firstn (Z.to_nat (b - a)) (skipn (Z.to_nat a) f).

Fixpoint table_at (f : list Z) (pos : nat) (n : nat) : list Z :=
  match n with O => [] | S k => i64_at f pos :: table_at f (pos + 8) k end.

Fixpoint strictly_increasing (l : list Z) : bool :=
  match l with
  | a :: t => match t with b :: _ => (a <? b) && strictly_increasing t | [] => true end
  | [] => true
  end.

Fixpoint slices (f : list Z) (offs : list Z) : list (list Z) :=
  match offs with
  | a :: t => match t with b :: _ => slice f a b :: slices f t | [] => [] end
  | [] => []
  end.

(* (logical size, compression type, chunk size, the compressed chunks) of a well-formed file *)
Definition spec_decode (f : list Z) : option (Z * Z * Z * list (list Z)) :=
  let len := Z.of_nat (List.length f) in
  if negb (forallb is_byte f) then None else
  if len <? spec_fixed_part then None else
  if negb (u32_at f 0 =? spec_magic) then None else
  let frame := u32_at f 4 in
  let size := i64_at f 8 in
  let comp := byte_at f 16 in
  let chunk := u32_at f 17 in
  let count := i64_at f 21 in
  if count <? 2 then None else                      (* at least one chunk, plus the end entry *)
  let hlen := spec_fixed_part + 8 * count in
  if negb (frame =? hlen - 8) then None else        (* the skippable frame is exactly the header *)
  if len <? hlen then None else
  let offs := table_at f 29 (Z.to_nat count) in
  if negb (hd 0 offs =? hlen) then None else        (* first chunk directly after the table *)
  if negb (strictly_increasing offs) then None else
  if negb (last offs 0 =? len) then None else       (* final entry: size of the file *)
  if size <=? 0 then None else                      (* empty blobs are never stored *)
  Some (size, comp, chunk, slices f offs).

(* data cut into chunk-size pieces, the last one non-empty and possibly shorter *)
Definition chunking (c : Z) (data : list Z) (ps : list (list Z)) : Prop :=
  List.concat ps = data /\ ps <> [] /\
  (forall i, (S i < List.length ps)%nat -> Z.of_nat (List.length (nth i ps [])) = c) /\
  0 < Z.of_nat (List.length (nth (List.length ps - 1) ps [])) <= c.

Section Conformance.
(* DecodeAll of some standard zstd decoder *)
Variable dec_all : list Z -> option (list Z).

(* file is a v2 compressed CAS blob file holding data, with whatever chunk size its header states *)
Definition conformant (file data : list Z) : Prop :=
  exists c chunks ps,
    spec_decode file = Some (Z.of_nat (List.length data), spec_zstandard, c, chunks) /\
    0 < c /\ chunking c data ps /\
    Forall2 (fun ch p => dec_all ch = Some p) chunks ps.

End Conformance.
