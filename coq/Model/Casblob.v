(* Model/Casblob.v — executable model of /repo/cache/disk/casblob/casblob.go (chunked-zstd CAS blob
   files): little-endian fields, header encoder (header.write), readHeader check by check,
   GetUncompressedReadCloser / GetZstdReadCloser, WriteAndClose, ExtractLogicalSize.
   Definitions only; the lemmas are in Proofs/Casblob_*.v.

   Bytes are [Z]; every decoder reads a byte as [b mod 256], so the functions are total on
   arbitrary lists without a well-formedness premise.  File positions and sizes are [Z].
   Places where the Go code would panic return [Panic] (checked division, indexing, make, slicing).
   The zstd codec is a Section variable triple (enc, dec_all, dec_stream); the framing laws are
   hypotheses of the Proofs files only. *)
From BR Require Import Base.Prelude Gen.Consts Gen.Funcs.
Open Scope list_scope.
Open Scope Z_scope.

(* ------------------------------------------------------------------ *)
(* result monad *)

Definition bind {A B} (r : result A) (f : A -> result B) : result B :=
  match r with Ok a => f a | Err e => Err e | Panic s => Panic s | Hang s => Hang s end.
Notation "'do' x <- e ; k" := (bind e (fun x => k)) (at level 200, x name, e at level 100, k at level 200).

(* error classes (what the harness canonicalises error messages to) *)
Definition E_small : errc := EOther 1.       (* "file too small" *)
Definition E_magic : errc := EOther 2.       (* errWrongMagicNum *)
Definition E_nochunk : errc := EOther 3.     (* "need at least one chunk" *)
Definition E_fit : errc := EOther 4.         (* "chunk table with %d entries does not fit" *)
Definition E_chunk0 : errc := EOther 5.      (* "invalid chunk size: 0" *)
Definition E_count : errc := EOther 6.       (* "found %d chunks, but a blob of size ..." *)
Definition E_frame : errc := EOther 7.       (* "metadata frame size" *)
Definition E_incr : errc := EOther 8.        (* "offset table values should increase" *)
Definition E_last : errc := EOther 9.        (* "final offset in chunk table" *)
Definition E_read : errc := EOther 10.       (* short read (io.EOF / io.ErrUnexpectedEOF) *)
Definition E_expected : errc := EOther 11.   (* "expected a blob of size" *)
Definition E_unsupported : errc := EOther 12. (* "unsupported compression type" *)
Definition E_remainder : errc := EOther 13.  (* "cannot start reading at" *)
Definition E_decode : errc := EOther 14.     (* DecodeAll failed *)
Definition E_stream : errc := EOther 15.     (* the returned reader fails while being read *)
Definition E_seek : errc := EOther 16.       (* Seek to a negative position *)
Definition E_nonpos : errc := EOther 17.     (* ExtractLogicalSize: "expected blob to have positive size" *)
Definition W_size : errc := EOther 21.       (* "invalid file size" *)
Definition W_short : errc := EOther 22.      (* "only managed to read %d of %d bytes" *)
Definition W_extra : errc := EOther 23.      (* "expected %d bytes but got at least %d more" *)
Definition W_probe : errc := EOther 24.      (* "failed to read chunk of size" *)
Definition W_hash : errc := EOther 25.       (* "checksums don't match" *)
Definition W_copy : errc := EOther 26.       (* Identity: io.Copy returned the stream's error *)
Definition W_count : errc := EOther 27.      (* Identity: "expected to copy %d bytes, actually copied" *)

(* ------------------------------------------------------------------ *)
(* checked Go primitives *)

Definition go_quot (a b : Z) : result Z :=
  if b =? 0 then Panic "integer divide by zero" else Ok (Z.quot a b).
Definition go_rem (a b : Z) : result Z :=
  if b =? 0 then Panic "integer divide by zero" else Ok (Z.rem a b).

(* runtime.makeslice panics for a negative length or more than maxAlloc (2^48 on linux/amd64) bytes *)
Definition maxAlloc : Z := 281474976710656.
Definition go_make (len elemsize : Z) : result unit :=
  if (len <? 0) || (len * elemsize >? maxAlloc) then Panic "makeslice: len out of range" else Ok tt.

Definition idx (l : list Z) (i : Z) : result Z :=
  if (i <? 0) || (Z.of_nat (List.length l) <=? i) then Panic "index out of range"
  else Ok (nth (Z.to_nat i) l 0).

Definition zlen {A} (l : list A) : Z := Z.of_nat (List.length l).
Definition zskipn {A} (z : Z) (l : list A) : list A := skipn (Z.to_nat z) l.
Definition zfirstn {A} (z : Z) (l : list A) : list A := firstn (Z.to_nat z) l.

(* ------------------------------------------------------------------ *)
(* little-endian fields (encoding/binary, binary.LittleEndian) *)

Fixpoint le_enc (n : nat) (v : Z) : list Z :=
  match n with O => [] | S k => v mod 256 :: le_enc k (v / 256) end.
Fixpoint le_dec (l : list Z) : Z :=
  match l with [] => 0 | b :: t => b mod 256 + 256 * le_dec t end.

Definition enc_u8 (v : Z) := le_enc 1 v.
Definition enc_u32 (v : Z) := le_enc 4 v.
Definition enc_i64 (v : Z) := le_enc 8 v.          (* two's complement: v mod 2^64 *)
Definition u8_of (l : list Z) : Z := le_dec (firstn 1 l).
Definition u32_of (l : list Z) : Z := le_dec (firstn 4 l).
Definition i64_of (l : list Z) : Z := wrap64 (le_dec (firstn 8 l)).

Definition byte_ok (b : Z) : bool := (0 <=? b) && (b <? 256).
Definition bytes_ok (l : list Z) : bool := forallb byte_ok l.

(* ------------------------------------------------------------------ *)
(* header *)

Record header := mkHeader {
  h_usize : Z;          (* uncompressedSize int64 *)
  h_comp : Z;           (* compression uint8 *)
  h_chunk : Z;          (* chunkSize uint32 *)
  h_offs : list Z }.    (* chunkOffsets []int64 *)

(* header.write: the fields in order, each through binary.Write little-endian *)
Definition encode_header (h : header) : list Z :=
  enc_u32 skippableFrameMagicNumber ++
  enc_u32 (Gen.header_frameSize (h_offs h)) ++
  enc_i64 (h_usize h) ++
  enc_u8 (h_comp h) ++
  enc_u32 (h_chunk h) ++
  enc_i64 (zlen (h_offs h)) ++
  flat_map enc_i64 (h_offs h).

(* the fixed 29 bytes as read by the successive binary.Read calls of readHeader *)
Record raw := mkRaw {
  r_magic : Z; r_frame : Z; r_usize : Z; r_comp : Z; r_chunk : Z; r_num : Z;
  r_rest : list Z }.    (* the bytes after the fixed part: chunk table, then data *)

Definition decode_raw (f : list Z) : raw :=
  mkRaw (u32_of f) (u32_of (skipn 4 f)) (i64_of (skipn 8 f)) (u8_of (skipn 16 f))
        (u32_of (skipn 17 f)) (i64_of (skipn 21 f)) (skipn 29 f).

Fixpoint decode_offsets (n : nat) (l : list Z) : list Z :=
  match n with O => [] | S k => i64_of l :: decode_offsets k (skipn 8 l) end.

(* the loop "prevOffset := -1; for ... if off[i] <= prevOffset { error }": Some last, or None *)
Fixpoint increasing_from (prev : Z) (l : list Z) : option Z :=
  match l with
  | [] => Some prev
  | x :: t => if x <=? prev then None else increasing_from x t
  end.

(* the checks of readHeader after the file-size check, in source order *)
Definition validate (fsz : Z) (r : raw) : result header :=
  if negb (r_magic r =? skippableFrameMagicNumber) then Err E_magic else
  if r_num r <? 2 then Err E_nochunk else
  if r_num r >? Z.quot (fsz - chunkTableOffset) 8 then Err E_fit else
  do _ <- (if r_comp r =? Zstandard then
             if r_chunk r =? 0 then Err E_chunk0 else
             do q <- go_quot (r_usize r) (r_chunk r);
             do m <- go_rem (r_usize r) (r_chunk r);
             let expected := if m =? 0 then q else q + 1 in
             if (r_usize r <=? 0) || negb (r_num r - 1 =? expected) then Err E_count else Ok tt
           else Ok tt);
  let metadataSize := r_num r * 8 + 8 + 1 + 4 + 8 in
  if negb (r_frame r =? metadataSize) then Err E_frame else
  do _ <- go_make (r_num r) 8;
  if zlen (r_rest r) <? 8 * r_num r then Err E_read else
  let offs := decode_offsets (Z.to_nat (r_num r)) (r_rest r) in
  match increasing_from (-1) offs with
  | None => Err E_incr
  | Some last =>
      if negb (last =? fsz) then Err E_last
      else Ok (mkHeader (r_usize r) (r_comp r) (r_chunk r) offs)
  end.

(* readHeader on a file with these bytes (file size = number of bytes) *)
Definition parse_header (file : list Z) : result header :=
  let fsz := zlen file in
  if fsz <=? chunkTableOffset + 16 then Err E_small else validate fsz (decode_raw file).

(* ExtractLogicalSize on a stream with these bytes: the logical size; the returned reader
   delivers the same bytes again *)
Definition extract_logical_size (stream : list Z) : result Z :=
  if zlen stream <? 16 then Err E_read else
  let u := i64_of (skipn 8 stream) in
  if u <=? 0 then Err E_nonpos else Ok u.

(* ------------------------------------------------------------------ *)
(* chunk tables *)

(* offsets of consecutive chunks of the given lengths starting at pos, plus the end *)
Fixpoint offsets_from (pos : Z) (lens : list Z) : list Z :=
  pos :: match lens with [] => [] | l :: t => offsets_from (pos + l) t end.

(* cut data into pieces of the given lengths *)
Fixpoint split_by (lens : list Z) (data : list Z) : list (list Z) :=
  match lens with
  | [] => []
  | l :: t => zfirstn l data :: split_by t (zskipn l data)
  end.

(* position of the descriptor when readHeader returns: the end of the chunk table *)
Definition after_header (h : header) : Z := chunkTableOffset + 8 * zlen (h_offs h).

(* ------------------------------------------------------------------ *)
(* the writer's control skeleton: it depends on lengths, the way the stream ends, and the hash
   comparison only *)

(* the chunk loop: k iterations, rem = remainingRawData, avail = bytes the reader still has *)
Fixpoint write_plan (k : nat) (c rem avail : Z) : result (list Z) :=
  match k with
  | O => Ok []
  | S k' =>
      let chunkEnd := if rem <=? c then rem else c in
      if avail <? chunkEnd then Err W_short      (* io.ReadFull: EOF / ErrUnexpectedEOF / stream error *)
      else do l <- write_plan k' c (rem - chunkEnd) (avail - chunkEnd); Ok (chunkEnd :: l)
  end.

Definition num_chunks (c t size : Z) : Z :=
  if t =? Zstandard then
    (if Z.rem size c >? 0 then Z.quot size c + 1 else Z.quot size c)
  else 1.

(* c: chunk size (and length of the pooled read buffer); t: compression type; size: declared size;
   avail: number of bytes the reader delivers; ends_err: it then fails instead of returning EOF;
   hash_ok: the SHA-256 of the bytes consumed equals the declared hash.
   Ok: the lengths of the plaintext chunks written. *)
Definition write_ctl (c t size avail : Z) (ends_err hash_ok : bool) : result (list Z) :=
  if size <=? 0 then Err W_size else
  if t =? Identity then
    if ends_err then Err W_copy
    else if negb (avail =? size) then Err W_count
    else if negb hash_ok then Err W_hash
    else Ok [size]
  else
    do lens <- write_plan (Z.to_nat (num_chunks c t size)) c size avail;
    let extra := avail - sumZ (fun x => x) lens in
    if extra >=? c then Err W_extra
    else if negb ((extra =? 0) && negb ends_err) then Err W_probe
    else if negb hash_ok then Err W_hash
    else Ok lens.

(* the table as first written: chunkOffsets[0] = chunkTableOffset, the rest zero *)
Definition header0 (c t size : Z) (nchunks : nat) : header :=
  mkHeader size t c (chunkTableOffset :: repeat 0 nchunks).

(* ------------------------------------------------------------------ *)
Section Codec.

Variable enc : list Z -> list Z.                      (* EncodeAll: one frame from one chunk *)
Variable enc_stream : list Z -> list Z.               (* streaming encoder (GetLegacyZstdReadCloser) *)
Variable dec_all : list Z -> option (list Z).         (* DecodeAll *)
Variable dec_stream : list Z -> option (list Z).      (* streaming decoder over concatenated frames *)
Variable hashok : list Z -> bool.                     (* hex(SHA-256(bytes)) = the declared hash *)

(* ---- WriteAndClose.  Ok (returned size on disk, final file bytes) *)
Definition write_and_close (c t : Z) (data : list Z) (ends_err : bool) (size : Z)
  : result (Z * list Z) :=
  do lens <- write_ctl c t size (zlen data) ends_err
               (hashok (if t =? Identity then data else zfirstn size data));
  if t =? Identity then
    let h := header0 c t size 1 in
    Ok (zlen data + Gen.header_size (h_offs h), encode_header h ++ data)
  else
    let frames := map enc (split_by lens data) in
    let hs := Gen.header_size (h_offs (header0 c t size (List.length lens))) in
    let offs := offsets_from hs (map zlen frames) in
    Ok (last offs 0, encode_header (mkHeader size t c offs) ++ List.concat frames).

(* the file contents after each file-system step of a compressed write that gets as far as
   writing m of the chunks (m = all of them on the success path), BEFORE the table is rewritten:
   the header fields one binary.Write at a time, then the zero table, then each chunk *)
Definition torn_states (c t size : Z) (nchunks : nat) (frames : list (list Z)) : list (list Z) :=
  let h0 := encode_header (header0 c t size nchunks) in
  map (fun n => firstn n h0) [0; 4; 8; 16; 17; 21; 29]%nat ++
  map (fun k => h0 ++ List.concat (firstn k frames)) (seq 0 (S (List.length frames))).

(* ---- readers *)

Definition open_blob (file : list Z) (expected : Z) : result header :=
  do h <- parse_header file;
  if negb (expected =? -1) && negb (h_usize h =? expected) then Err E_expected else Ok h.

(* "Find the first relevant chunk" + Seek: chunkNum, remainder, the file from the new position *)
Definition seek_chunk (file : list Z) (h : header) (offset : Z) : result (Z * Z * list Z) :=
  do chunkNum <- go_quot offset (h_chunk h);
  do remainder <- go_rem offset (h_chunk h);
  do pos <- (if chunkNum >? 0 then idx (h_offs h) chunkNum else Ok (after_header h));
  if pos <? 0 then Err E_seek else Ok (chunkNum, remainder, zskipn pos file).

(* read and decode the first chunk, slice it at remainder: (chunk[remainder:], file after the chunk) *)
Definition read_first_chunk (h : header) (chunkNum remainder : Z) (rest : list Z)
  : result (list Z * list Z) :=
  do hi <- idx (h_offs h) (chunkNum + 1);
  do lo <- idx (h_offs h) chunkNum;
  let clen := hi - lo in
  do _ <- go_make clen 1;
  if zlen rest <? clen then Err E_read else
  match dec_all (zfirstn clen rest) with
  | None => Err E_decode
  | Some u =>
      if remainder >? zlen u then Err E_remainder
      else if remainder <? 0 then Panic "slice bounds out of range"
      else Ok (zskipn remainder u, zskipn clen rest)
  end.

(* GetUncompressedReadCloser + reading the result to the end *)
Definition uncompressed_reader (file : list Z) (expected offset : Z) : result (list Z) :=
  do h <- open_blob file expected;
  if h_comp h =? Identity then
    Ok (zskipn (after_header h + (if offset >? 0 then offset else 0)) file)
  else if negb (h_comp h =? Zstandard) then Err E_unsupported
  else
    do s <- seek_chunk file h offset;
    let '(chunkNum, remainder, rest) := s in
    if remainder =? 0 then
      match dec_stream rest with Some d => Ok d | None => Err E_stream end
    else
      do fc <- read_first_chunk h chunkNum remainder rest;
      let '(tl, rest') := fc in
      if chunkNum =? zlen (h_offs h) - 2 then Ok tl
      else match dec_stream rest' with Some d => Ok (tl ++ d) | None => Err E_stream end.

(* GetZstdReadCloser + reading the result to the end: the compressed bytes delivered *)
Definition zstd_reader (file : list Z) (expected offset : Z) : result (list Z) :=
  do h <- open_blob file expected;
  if h_comp h =? Identity then
    Ok (enc_stream (zskipn (after_header h + (if offset >? 0 then offset else 0)) file))
  else if negb (h_comp h =? Zstandard) then Err E_unsupported
  else if offset =? 0 then Ok file
  else
    do s <- seek_chunk file h offset;
    let '(chunkNum, remainder, rest) := s in
    if remainder =? 0 then Ok rest
    else
      do fc <- read_first_chunk h chunkNum remainder rest;
      let '(tl, rest') := fc in
      if chunkNum =? zlen (h_offs h) - 2 then Ok (enc tl) else Ok (enc tl ++ rest').

End Codec.

(* ------------------------------------------------------------------ *)
(* correspondence cases.  The codec is instantiated by a finite table of (frame, plaintext) pairs
   observed from the real zstd libraries by the harness (oracle columns). *)

Definition zlist_eqb := list_eqb Z.eqb.

Fixpoint is_prefix (a b : list Z) : bool :=
  match a, b with
  | [], _ => true
  | x :: a', y :: b' => (x =? y) && is_prefix a' b'
  | _, _ => false
  end.

Definition ctable := list (list Z * list Z).

Fixpoint t_dec_all (t : ctable) (f : list Z) : option (list Z) :=
  match t with [] => None | (fr, p) :: t' => if zlist_eqb fr f then Some p else t_dec_all t' f end.
Fixpoint t_enc (t : ctable) (x : list Z) : list Z :=
  match t with [] => [] | (fr, p) :: t' => if zlist_eqb p x then fr else t_enc t' x end.
Fixpoint t_find_prefix (t : ctable) (l : list Z) : option (list Z * list Z) :=
  match t with
  | [] => None
  | (fr, p) :: t' =>
      if negb (zlist_eqb fr []) && is_prefix fr l then Some (fr, p) else t_find_prefix t' l
  end.

(* zstd skippable frames: magic 0x184D2A50 .. 0x184D2A5F, then a uint32 size *)
Definition skippable_len (l : list Z) : option Z :=
  let m := u32_of l in
  if (zlen l >=? 8) && (407710288 <=? m) && (m <=? 407710303) then
    let n := 8 + u32_of (skipn 4 l) in if n <=? zlen l then Some n else None
  else None.

Fixpoint t_dec_stream (fuel : nat) (t : ctable) (l : list Z) : option (list Z) :=
  match fuel with
  | O => None
  | S k =>
      match l with
      | [] => Some []
      | _ =>
          match skippable_len l with
          | Some n => t_dec_stream k t (zskipn n l)
          | None =>
              match t_find_prefix t l with
              | Some (fr, p) => option_map (app p) (t_dec_stream k t (skipn (List.length fr) l))
              | None => None
              end
          end
      end
  end.

(* the framing laws of a zstd codec the theorems are relative to (hypotheses, never axioms):
   DecodeAll inverts EncodeAll; the streaming decoder decodes a frame DecodeAll accepts and goes
   on with the rest; it ends cleanly at the end of input; it skips skippable frames *)
Record codec_laws (enc : list Z -> list Z) (dec_all dec_stream : list Z -> option (list Z)) : Prop :=
  mkCodecLaws {
    law_dec_enc : forall x, dec_all (enc x) = Some x;
    law_stream_frame : forall f p r,
      dec_all f = Some p -> dec_stream (f ++ r) = option_map (app p) (dec_stream r);
    law_stream_nil : dec_stream [] = Some [];
    law_stream_skippable : forall l n,
      skippable_len l = Some n -> dec_stream l = dec_stream (zskipn n l) }.

Inductive hobs := HOk (usize comp chunk : Z) (offs : list Z) | HErr (code : Z) | HPanic.
Inductive robs := ROk (bytes : list Z) | RErr (code : Z) | RPanic.
Inductive wobs :=
| WOk (ret fsz : Z) (hdr : list Z) (plain_lens comp_lens : list Z)
| WErr (code : Z).

Definition hobs_of (r : result header) : hobs :=
  match r with
  | Ok h => HOk (h_usize h) (h_comp h) (h_chunk h) (h_offs h)
  | Err (EOther n) => HErr n
  | Err _ => HErr 0
  | _ => HPanic
  end.
(* a failed read and a failed decode of the first chunk are one observable class (14): the Go
   errors cannot be told apart reliably (a truncated frame is also reported as unexpected EOF) *)
Definition robs_of (r : result (list Z)) : robs :=
  match r with
  | Ok b => ROk b
  | Err (EOther n) => RErr (if n =? 10 then 14 else n)
  | Err _ => RErr 0
  | _ => RPanic
  end.

Definition hobs_eqb (a b : hobs) : bool :=
  match a, b with
  | HOk u c k o, HOk u' c' k' o' => (u =? u') && (c =? c') && (k =? k') && zlist_eqb o o'
  | HErr x, HErr y => x =? y
  | HPanic, HPanic => true
  | _, _ => false
  end.
Definition robs_eqb (a b : robs) : bool :=
  match a, b with
  | ROk x, ROk y => zlist_eqb x y
  | RErr x, RErr y => x =? y
  | RPanic, RPanic => true
  | _, _ => false
  end.

(* one read probe: expected size, offset, extra codec table entries (the re-encoded first chunk,
   the streaming encoder's output), what the two readers delivered *)
Definition probe := (Z * Z * ctable * robs * robs)%type.

Definition probe_ok (file : list Z) (tbl : ctable) (p : probe) : bool :=
  let '(expected, offset, extra, ou, oz) := p in
  let t := extra ++ tbl in
  let ds := t_dec_stream (S (List.length file)) t in
  robs_eqb (robs_of (uncompressed_reader (t_dec_all t) ds file expected offset)) ou &&
  robs_eqb (robs_of (zstd_reader (t_enc t) (t_enc t) (t_dec_all t) file expected offset)) oz.

Inductive ccase :=
| CHeader (file : list Z) (obs : hobs)
| CLogical (stream : list Z) (obs : Z)                 (* ExtractLogicalSize: size, or -code *)
| CReader (file : list Z) (tbl : ctable) (hdr : hobs) (probes : list probe)
| CWriter (t size avail : Z) (ends_err hash_ok : bool) (obs : wobs).

Definition wcase_ok (t size avail : Z) (ends_err hash_ok : bool) (obs : wobs) : bool :=
  match write_ctl defaultChunkSize t size avail ends_err hash_ok, obs with
  | Err (EOther n), WErr m => n =? m
  | Ok lens, WOk ret fsz hdr plens clens =>
      zlist_eqb lens plens &&
      (if t =? Identity then
         let h := header0 defaultChunkSize t size 1 in
         zlist_eqb hdr (encode_header h) && zlist_eqb clens [avail] &&
         (fsz =? Gen.header_size (h_offs h) + avail) && (ret =? fsz) &&
         (* a file written with Identity compression is not accepted by readHeader: table [29; 0] *)
         hobs_eqb (hobs_of (validate fsz (decode_raw hdr))) (HErr 8)
       else
         let hs := Gen.header_size (h_offs (header0 defaultChunkSize t size (List.length lens))) in
         let offs := offsets_from hs clens in
         let h := mkHeader size t defaultChunkSize offs in
         (List.length clens =? List.length lens)%nat &&
         zlist_eqb hdr (encode_header h) && (ret =? last offs 0) && (fsz =? ret) &&
         hobs_eqb (hobs_of (validate fsz (decode_raw hdr))) (HOk size t defaultChunkSize offs))
  | _, _ => false
  end.

Definition case_ok (c : ccase) : bool :=
  match c with
  | CHeader file obs => hobs_eqb (hobs_of (parse_header file)) obs
  | CLogical stream obs =>
      match extract_logical_size stream with
      | Ok n => n =? obs | Err (EOther n) => (- n) =? obs | _ => false end
  | CReader file tbl hdr probes =>
      hobs_eqb (hobs_of (parse_header file)) hdr && forallb (probe_ok file tbl) probes
  | CWriter t size avail ends_err hash_ok obs => wcase_ok t size avail ends_err hash_ok obs
  end.
