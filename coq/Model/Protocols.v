(* Model/Protocols.v — the two goroutine protocols of C14 that are not part of the ByteStream.Write
   model: (a) SpliceBlob (server/grpc_cas.go): a writer goroutine copies the chunks into the write
   end [pw] of an io.Pipe, disk.Put reads the other end [pr], the writer reports on
   [writerResultChan] (capacity 1), the handler polls that channel with select/default when Put
   failed; (b) casblob.GetLegacyZstdReadCloser: a goroutine runs enc.ReadFrom(f) into [pw], the
   caller of the cache owns [pr].

   Processes are state machines over shared control state.  io.Pipe is synchronous: a Write blocks
   until a Read takes the data (one joint step) or until either end is closed; Close on either end
   never blocks.  A buffered channel of capacity 1 accepts a send only when empty.  Data is
   abstracted: the only thing that matters for blocking is WHETHER a process still has data to
   move, so all loops over data (chunks of the request, pieces of a chunk, pieces of the file,
   flush writes of the encoder) draw from one budget [n : nat]; a loop may also end before the
   budget is spent (an over-approximation of every finite request / file).  The size classes of
   the property text {none, some, exactly-size, more} appear as the choices Put has after each
   read: continue, fail now (more than declared / disk error), or see EOF and accept (exactly) or
   refuse (fewer, or wrong hash).

   A system is [cstep : C -> bool -> list (C * bool)]: from control state c, knowing whether the
   budget is exhausted, the enabled moves, each with the flag "spends one unit of budget".
   Definitions only; the proofs are in Proofs/Protocols_*.v. *)
From BR Require Import Base.Prelude Model.Keys Model.ByteStream.
From Coq Require Import Relations.
Open Scope nat_scope.

(* ------------------------------------------------------------------ *)
(* generic part *)

Section Generic.
  Context {C : Type}.
  Variable cstep : C -> bool -> list (C * bool).

  Inductive step : C * nat -> C * nat -> Prop :=
  | step_keep c n c' : In (c', false) (cstep c (Nat.eqb n 0)) -> step (c, n) (c', n)
  | step_dec c n c' : In (c', true) (cstep c false) -> step (c, S n) (c', n).

  Definition reach (s s' : C * nat) : Prop := clos_refl_trans_1n _ step s s'.
  Definition stuck (s : C * nat) : Prop := forall s', ~ step s s'.

  (* every maximal run from s is finite, and ends in a state satisfying P *)
  Definition all_runs_end_in (P : C * nat -> Prop) (s : C * nat) : Prop :=
    Acc (fun a b => step b a) s /\ forall s', reach s s' -> stuck s' -> P s'.

  (* the finite abstraction: control state x "budget exhausted" *)
  Definition abs (s : C * nat) : C * bool := (fst s, Nat.eqb (snd s) 0).

  Variable eqb : C -> C -> bool.
  Definition aeqb (a b : C * bool) : bool := eqb (fst a) (fst b) && Bool.eqb (snd a) (snd b).
  Definition memb (a : C * bool) (l : list (C * bool)) : bool := existsb (aeqb a) l.

  Definition asucc (a : C * bool) : list (C * bool) :=
    flat_map (fun m : C * bool => if snd m then [(fst m, false); (fst m, true)] else [(fst m, snd a)])
             (cstep (fst a) (snd a)).

  (* search for the reachable abstract states (untrusted; [check] below validates the result) *)
  Fixpoint explore (fuel : nat) (todo seen : list (C * bool)) : list (C * bool) :=
    match fuel with
    | O => seen
    | S f => match todo with
             | [] => seen
             | a :: rest => if memb a seen then explore f rest seen
                            else explore f (asucc a ++ rest) (a :: seen)
             end
    end.

  Variable rank : C -> nat.
  Variable K : nat.
  Variable final : C -> bool.

  (* S is closed under the moves; a move that does not spend budget lowers the rank; a move that
     spends budget is only offered when there is budget and leads to a rank below K; a state
     without moves is final *)
  Definition check_state (S : list (C * bool)) (a : C * bool) : bool :=
    let ms := cstep (fst a) (snd a) in
    forallb (fun m : C * bool => if snd m
                      then negb (snd a) && (rank (fst m) <? K) && memb (fst m, false) S && memb (fst m, true) S
                      else (rank (fst m) <? rank (fst a)) && memb (fst m, snd a) S) ms
    && match ms with [] => final (fst a) | _ => true end.
  Definition check (S : list (C * bool)) : bool := forallb (check_state S) S.

  (* a concrete run given state by state *)
  Definition move_ok (s s' : C * nat) : bool :=
    (Nat.eqb (snd s') (snd s) && existsb (fun m : C * bool => negb (snd m) && eqb (fst m) (fst s')) (cstep (fst s) (Nat.eqb (snd s) 0)))
    || (Nat.eqb (S (snd s')) (snd s) && existsb (fun m : C * bool => snd m && eqb (fst m) (fst s')) (cstep (fst s) false)).
  Fixpoint path_ok (s : C * nat) (l : list (C * nat)) : bool :=
    match l with [] => true | s' :: t => move_ok s s' && path_ok s' t end.
End Generic.

(* ------------------------------------------------------------------ *)
(* (a) SpliceBlob *)

(* the handler: it is inside cache.Put until HPutErr / HPutOk *)
Inductive hpc :=
| HStart      (* Put called; nothing read yet *)
| HRead       (* Put is reading pr (blocked in r.Read until the writer offers data or closes pw) *)
| HEof        (* Put has read EOF and decides *)
| HDrain      (* Put failed; its deferred io.Copy(io.Discard, r) is reading pr *)
| HPutErr     (* Put returned an error: select { case <-writerResultChan: ... default: } *)
| HPutOk      (* Put returned nil *)
| HRet.       (* the handler has returned *)

(* the writer goroutine *)
Inductive wpc :=
| WLoop       (* top of `for _, chunkDigest := range req.ChunkDigests`; no chunk file open *)
| WCopy       (* in io.Copy(pw, rc): reading the chunk file *)
| WOffer      (* in io.Copy(pw, rc): blocked in pw.Write *)
| WCheck      (* copiedBytes != chunkDigest.SizeBytes ? *)
| WCloseErr   (* an error was met with rc open: rc.Close() *)
| WSendErr    (* writerResultChan <- error *)
| WSendNil    (* writerResultChan <- nil *)
| WClose      (* deferred pw.Close() *)
| WExit.

Inductive chan := ChEmpty | ChNil | ChErr.

Record sctl := mkS { s_h : hpc; s_w : wpc; s_ch : chan; s_wclosed : bool; s_rcopen : bool }.

Definition hpc_eqb (a b : hpc) : bool :=
  match a, b with
  | HStart, HStart | HRead, HRead | HEof, HEof | HDrain, HDrain | HPutErr, HPutErr | HPutOk, HPutOk | HRet, HRet => true
  | _, _ => false
  end.
Definition wpc_eqb (a b : wpc) : bool :=
  match a, b with
  | WLoop, WLoop | WCopy, WCopy | WOffer, WOffer | WCheck, WCheck | WCloseErr, WCloseErr
  | WSendErr, WSendErr | WSendNil, WSendNil | WClose, WClose | WExit, WExit => true
  | _, _ => false
  end.
Definition chan_eqb (a b : chan) : bool :=
  match a, b with ChEmpty, ChEmpty | ChNil, ChNil | ChErr, ChErr => true | _, _ => false end.
Definition sctl_eqb (a b : sctl) : bool :=
  hpc_eqb (s_h a) (s_h b) && wpc_eqb (s_w a) (s_w b) && chan_eqb (s_ch a) (s_ch b)
  && Bool.eqb (s_wclosed a) (s_wclosed b) && Bool.eqb (s_rcopen a) (s_rcopen b).

Definition set_h (c : sctl) (h : hpc) : sctl := mkS h (s_w c) (s_ch c) (s_wclosed c) (s_rcopen c).
Definition set_w (c : sctl) (w : wpc) : sctl := mkS (s_h c) w (s_ch c) (s_wclosed c) (s_rcopen c).
Definition set_hw (c : sctl) (h : hpc) (w : wpc) : sctl := mkS h w (s_ch c) (s_wclosed c) (s_rcopen c).

(* where a failing Put goes: into its deferred drain (the code as it is), or straight back to the
   handler (the variant without the drain, used for the counter-example) *)
Definition put_fails (drain : bool) : hpc := if drain then HDrain else HPutErr.

(* moves of the handler; a pipe read is a joint move with a writer blocked in pw.Write *)
Definition splice_h (drain : bool) (c : sctl) : list (sctl * bool) :=
  match s_h c with
  | HStart =>
      [ (set_h c (put_fails drain), false)     (* rejected before reading: size, limit, reservation, temp file *)
      ; (set_h c HRead, false) ]
  | HRead =>
      (if wpc_eqb (s_w c) WOffer
       then [ (set_hw c HRead WCopy, false)                  (* data taken, Put goes on *)
            ; (set_hw c (put_fails drain) WCopy, false) ]    (* data taken, then Put fails: too much data, disk error *)
       else [])
      ++ (if s_wclosed c then [ (set_h c HEof, false) ] else [])
  | HEof =>
      [ (set_h c HPutOk, false)                (* exactly the declared bytes with the declared hash: r = nil, no drain *)
      ; (set_h c (put_fails drain), false) ]   (* fewer bytes, or another hash *)
  | HDrain =>
      (if wpc_eqb (s_w c) WOffer then [ (set_hw c HDrain WCopy, false) ] else [])
      ++ (if s_wclosed c then [ (set_h c HPutErr, false) ] else [])
  | HPutErr =>
      [ (mkS HRet (s_w c) ChEmpty (s_wclosed c) (s_rcopen c), false) ]   (* a ready result is taken, else default *)
  | HPutOk => [ (set_h c HRet, false) ]
  | HRet => []
  end.

(* moves of the writer goroutine on its own *)
Definition splice_w (z : bool) (c : sctl) : list (sctl * bool) :=
  match s_w c with
  | WLoop =>
      (set_w c WSendNil, false)                                            (* no chunk left *)
      :: (if z then [] else
          [ (set_w c WSendErr, true)                                        (* cache.Get: error or miss *)
          ; (mkS (s_h c) WCopy (s_ch c) (s_wclosed c) true, true) ])        (* cache.Get: hit, rc open *)
  | WCopy =>
      [ (set_w c WCheck, false)                                            (* rc: EOF *)
      ; (set_w c WCloseErr, false) ]                                       (* rc: read error *)
      ++ (if z then [] else [ (set_w c WOffer, true) ])                    (* rc: data, pw.Write *)
  | WOffer => []                                                           (* only the joint move; pr is never closed *)
  | WCheck =>
      [ (mkS (s_h c) WLoop (s_ch c) (s_wclosed c) false, false)            (* sizes agree: rc.Close(), next chunk *)
      ; (set_w c WCloseErr, false) ]
  | WCloseErr => [ (mkS (s_h c) WSendErr (s_ch c) (s_wclosed c) false, false) ]
  | WSendErr => if chan_eqb (s_ch c) ChEmpty
                then [ (mkS (s_h c) WClose ChErr (s_wclosed c) (s_rcopen c), false) ] else []
  | WSendNil => if chan_eqb (s_ch c) ChEmpty
                then [ (mkS (s_h c) WClose ChNil (s_wclosed c) (s_rcopen c), false) ] else []
  | WClose => [ (mkS (s_h c) WExit (s_ch c) true (s_rcopen c), false) ]
  | WExit => []
  end.

Definition splice_cstep (drain : bool) (c : sctl) (z : bool) : list (sctl * bool) :=
  splice_h drain c ++ splice_w z c.

(* THE PREMISE of the SpliceBlob protocol, read off the source of diskCache.Put as go2coq prints
   it (Gen.DiskSrc.src_diskCache_Put, pinned verbatim in Bridge/Bridge_Disk.v): the feeder
   goroutine terminates because Put consumes the read end on every return path — SpliceBlob never
   closes pr itself.  In the text: the function opens with the deferred drain
   `if r != nil { io.Copy(io.Discard, r) }`, and r is assigned exactly once, to nil, right after
   writeAndCloseFile succeeded (it has read r to EOF then).  [put_drains src] decides that; the
   theorems about the code are stated for [splice_cstep (put_drains src)]. *)
Fixpoint count_sub (p s : string) : nat :=
  match s with
  | EmptyString => O
  | String _ t => ((if starts_with p s then 1 else 0) + count_sub p t)%nat
  end.
Definition put_drain_prefix : string :=
  "func(ctx context.Context, kind cache.EntryKind, hash string, size int64, r io.Reader) (rErr error) { defer func() { if r != nil { _, _ = io.Copy(io.Discard, r) } }()"%string.
Definition put_release_point : string :=
  "sizeOnDisk, err = c.writeAndCloseFile(ctx, r, kind, hash, size, tf) if err != nil { return internalErr(err) } r = nil"%string.
Definition put_drains (src : string) : bool :=
  starts_with put_drain_prefix src
  && Nat.eqb (count_sub put_release_point src) 1
  && Nat.eqb (count_sub " r = "%string src) 1     (* no other assignment to r ... *)
  && Nat.eqb (count_sub " r := "%string src) 0.   (* ... and r is not shadowed *)

Definition splice_init : sctl := mkS HStart WLoop ChEmpty false false.
Definition splice_final (c : sctl) : bool :=
  hpc_eqb (s_h c) HRet && wpc_eqb (s_w c) WExit && s_wclosed c && negb (s_rcopen c).

Definition hrank (h : hpc) : nat :=
  match h with HStart => 6 | HRead => 5 | HEof => 4 | HDrain => 3 | HPutErr => 2 | HPutOk => 1 | HRet => 0 end.
Definition wrank (w : wpc) : nat :=
  match w with WOffer => 9 | WCopy => 8 | WCheck => 7 | WLoop => 6 | WCloseErr => 5 | WSendErr => 4
             | WSendNil => 3 | WClose => 2 | WExit => 0 end.
Definition splice_rank (c : sctl) : nat := hrank (s_h c) + wrank (s_w c).
Definition rankK : nat := 32.

Definition splice_states (drain : bool) : list (sctl * bool) :=
  explore (splice_cstep drain) sctl_eqb 4000 [(splice_init, false); (splice_init, true)] [].

(* ------------------------------------------------------------------ *)
(* (b) GetLegacyZstdReadCloser *)

Inductive gpc :=
| GRead       (* in enc.ReadFrom(f): reading the file / compressing *)
| GOffer      (* in enc.ReadFrom(f): blocked in pw.Write *)
| GFail       (* ReadFrom returned an error: pw.CloseWithError(err) *)
| GEncClose   (* enc.Close(): may have buffered output to flush *)
| GFlush      (* enc.Close(): in pw.Write *)
| GFClose     (* f.Close() *)
| GPwClose    (* pw.Close() *)
| GExit.

(* the caller of cache.GetZstd (HTTP GET, ByteStream.Read, BatchReadBlobs) *)
Inductive cpc :=
| CHold       (* owns pr: may read, may close at any moment (deferred Close on every return path) *)
| CEof        (* a Read returned EOF or an error *)
| CClosed     (* pr.Close() done; the caller has returned *)
| CGone.      (* returned WITHOUT closing pr (only in the variant used for the counter-example) *)

Record lctl := mkL { l_g : gpc; l_c : cpc; l_wclosed : bool; l_rclosed : bool; l_fopen : bool }.

Definition gpc_eqb (a b : gpc) : bool :=
  match a, b with
  | GRead, GRead | GOffer, GOffer | GFail, GFail | GEncClose, GEncClose | GFlush, GFlush
  | GFClose, GFClose | GPwClose, GPwClose | GExit, GExit => true
  | _, _ => false
  end.
Definition cpc_eqb (a b : cpc) : bool :=
  match a, b with CHold, CHold | CEof, CEof | CClosed, CClosed | CGone, CGone => true | _, _ => false end.
Definition lctl_eqb (a b : lctl) : bool :=
  gpc_eqb (l_g a) (l_g b) && cpc_eqb (l_c a) (l_c b) && Bool.eqb (l_wclosed a) (l_wclosed b)
  && Bool.eqb (l_rclosed a) (l_rclosed b) && Bool.eqb (l_fopen a) (l_fopen b).

Definition lset_g (c : lctl) (g : gpc) : lctl := mkL g (l_c c) (l_wclosed c) (l_rclosed c) (l_fopen c).
Definition lset_c (c : lctl) (k : cpc) : lctl := mkL (l_g c) k (l_wclosed c) (l_rclosed c) (l_fopen c).

Definition legacy_c (closes : bool) (c : lctl) : list (lctl * bool) :=
  match l_c c with
  | CHold =>
      (if closes then [ (mkL (l_g c) CClosed (l_wclosed c) true (l_fopen c), false) ]   (* pr.Close() *)
       else [ (lset_c c CGone, false) ])                                                (* forgets pr *)
      ++ (if negb (l_wclosed c) && (gpc_eqb (l_g c) GOffer || gpc_eqb (l_g c) GFlush)
          then [ (lset_g c (if gpc_eqb (l_g c) GOffer then GRead else GEncClose), false) ]   (* joint move: data *)
          else [])
      ++ (if l_wclosed c then [ (lset_c c CEof, false) ] else [])                       (* EOF / the writer's error *)
  | CEof =>
      if closes then [ (mkL (l_g c) CClosed (l_wclosed c) true (l_fopen c), false) ]
      else [ (lset_c c CGone, false) ]
  | CClosed | CGone => []
  end.

Definition legacy_g (z : bool) (c : lctl) : list (lctl * bool) :=
  match l_g c with
  | GRead =>
      [ (lset_g c GEncClose, false)                                   (* file: EOF *)
      ; (lset_g c GFail, false) ]                                     (* file: read error *)
      ++ (if z then [] else
          [ (lset_g c GRead, true)                                    (* data, kept in the encoder's buffer *)
          ; (lset_g c GOffer, true) ])                                (* data, a block is written to pw *)
  | GOffer => if l_rclosed c then [ (lset_g c GFail, false) ] else []  (* io.ErrClosedPipe *)
  | GFail => [ (mkL GEncClose (l_c c) true (l_rclosed c) (l_fopen c), false) ]
  | GEncClose =>
      (lset_g c GFClose, false)
      :: (if z then [] else [ (lset_g c GFlush, true) ])
  | GFlush => if l_wclosed c || l_rclosed c
              then [ (mkL GFClose (l_c c) true (l_rclosed c) (l_fopen c), false) ]   (* ErrClosedPipe; CloseWithError *)
              else []
  | GFClose => [ (mkL GPwClose (l_c c) (l_wclosed c) (l_rclosed c) false, false) ]
  | GPwClose => [ (mkL GExit (l_c c) true (l_rclosed c) (l_fopen c), false) ]
  | GExit => []
  end.

Definition legacy_cstep (closes : bool) (c : lctl) (z : bool) : list (lctl * bool) :=
  legacy_c closes c ++ legacy_g z c.

Definition legacy_init : lctl := mkL GRead CHold false false true.
Definition legacy_final (c : lctl) : bool :=
  gpc_eqb (l_g c) GExit && cpc_eqb (l_c c) CClosed && l_wclosed c && negb (l_fopen c).

Definition grank (g : gpc) : nat :=
  match g with GOffer => 9 | GRead => 8 | GFail => 7 | GFlush => 6 | GEncClose => 5 | GFClose => 3
             | GPwClose => 2 | GExit => 0 end.
Definition crank (k : cpc) : nat := match k with CHold => 2 | CEof => 1 | CClosed => 0 | CGone => 0 end.
Definition legacy_rank (c : lctl) : nat := grank (l_g c) + crank (l_c c).

Definition legacy_states (closes : bool) : list (lctl * bool) :=
  explore (legacy_cstep closes) lctl_eqb 4000 [(legacy_init, false); (legacy_init, true)] [].

(* ------------------------------------------------------------------ *)
(* correspondence cases (written by harness/cmd/abuse) *)

Open Scope Z_scope.

(* a request whose name the model parsers refuse must have been answered with an error status;
   after a batch of hostile requests the server must be in the final state of the models above:
   no goroutine of the server left, no descriptor on the cache directory, nothing reserved, no
   file outside the index *)
Inductive acase :=
| AWriteName (name : string) (obs_error : bool)          (* ByteStream.Write, first message *)
| AReadName (name : string) (obs_error : bool)           (* ByteStream.Read *)
| AQwsName (name : string) (obs_error : bool)            (* QueryWriteStatus *)
| AHttpUrl (url : string) (validateAC : bool) (obs_400 : bool)
| AQuiesce (goroutines fds reserved stray : Z).

Definition case_ok (c : acase) : bool :=
  match c with
  | AWriteName name e => is_ok (parse_write_resource name) || e
  | AReadName name e => is_ok (parse_read_resource name) || e
  | AQwsName name e => is_ok (parse_write_resource name) || e
  | AHttpUrl url v e => match parse_request_url url v with Some _ => true | None => e end
  | AQuiesce g f r s => (g =? 0) && (f =? 0) && (r =? 0) && (s =? 0)
  end.
