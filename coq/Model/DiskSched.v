(* Model/DiskSched.v — schedules at the granularity of the yield points compiled into /repo with
   -tags verif (utils/verifhook): "get.open", "get.drop", "put.commit", "get.commit" and the
   background remover's "evict.unlink".  One scheduling decision lets one request run from its
   current yield point to its next one (several [tstep]s), exactly what releasing the real
   goroutine at its yield point does.  Definitions only. *)
From BR Require Import Base.Prelude Model.LRU Model.Disk.
Open Scope Z_scope.

Definition at_yield (t : thread) : bool :=
  match t_pc t with
  | GetOpen _ _ | GetDrop _ _ | PutCommit _ | GetCommit _ _ _ | Done _ => true
  | _ => false
  end.

(* run a thread until it is parked at a yield point again (or finished) *)
Fixpoint macro (c : cfg) (fuel : nat) (d : dstate) (t : thread) : dstate * thread :=
  match fuel with
  | O => (d, t)
  | S f => match tstep c d t with
           | None => (d, t)
           | Some (d', t') => if at_yield t' then (d', t') else macro c f d' t'
           end
  end.

Inductive slabel :=
| SSpawn (r : request)          (* a request arrives and runs to its first yield point *)
| SRun (i : nat)                (* request i is released and runs to its next yield point *)
| SUnlink                       (* the background remover unlinks one queued file *)
| SCorrupt (key : string).      (* the file of the indexed entry for [key] is damaged on disk *)

Definition corrupt (key : string) (d : dstate) : dstate :=
  match find_key key (order (lru d)) with
  | Some e =>
      let p := path_of key (evalue (ent e)) in
      match find_file p (files d) with
      | Some f => mkD (lru d) (put_file (mkFile p (f_cid f) (f_len f) false (f_logical f)) (files d)) (handed d)
      | None => d
      end
  | None => d
  end.

Definition macro_fuel : nat := 64.

Definition sched_step (c : cfg) (s : sys) (l : slabel) : sys :=
  match l with
  | SSpawn r =>
      let '(d', t') := macro c macro_fuel (sd s) (spawn r) in mkSys d' (thr s ++ [t'])
  | SRun i =>
      match nth_error (thr s) i with
      | Some t => let '(d', t') := macro c macro_fuel (sd s) t in mkSys d' (upd_nth i t' (thr s))
      | None => s
      end
  | SUnlink => match evictor_step (sd s) with Some d' => mkSys d' (thr s) | None => s end
  | SCorrupt key => mkSys (corrupt key (sd s)) (thr s)
  end.

(* what the harness can see after each scheduling decision: the responses of the requests
   (None while in flight) and the index (without the remover's queue, which the real remover
   partly holds privately) *)
Definition obs_snap (s : sys) : LRU.snap :=
  let l := lru (sd s) in
  mkSnap (map ent (order l)) (cur l) (unc l) (res l) (qbytes l) (peak l) [].

Fixpoint sched_trace (c : cfg) (s : sys) (ls : list slabel) : list (list (option response) * LRU.snap) :=
  match ls with
  | [] => []
  | l :: t => let s' := sched_step c s l in
              (map response_of (thr s'), obs_snap s') :: sched_trace c s' t
  end.

Definition sched_final (c : cfg) (s : sys) (ls : list slabel) : sys := fold_left (sched_step c) ls s.

Definition sobs2_eqb (a b : list (option response) * LRU.snap) : bool :=
  list_eqb oresp_eqb (fst a) (fst b) && LRU.snap_eqb (snd a) (snd b).

Definition scase : Type :=
  cfg * Z * Z * list slabel * list (list (option response) * LRU.snap) * list (string * Z * string * bool * Z).

Definition scase_ok (x : scase) : bool :=
  let '(c, mx, hd, ls, observed, dir) := x in
  list_eqb sobs2_eqb (sched_trace c (sinit mx hd) ls) observed
  && rows_eq (map file_row (files (sd (sched_final c (sinit mx hd) ls)))) dir.
