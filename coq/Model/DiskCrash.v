(* Model/DiskCrash.v — kill and restart.  A crash keeps the files (as written so far) and forgets
   the index, the requests in flight and the removal queue; restart rebuilds the index from the
   directory exactly as loadExistingFiles does at this level of abstraction: files sorted by access
   time (oldest first), [LRU.add] for each, a file that cannot be added is removed, then the removal
   queue is drained.  (Names, migration of legacy layouts and the directory walk are Model/Load.v /
   Model/Names.v; here a file name is the tuple it is printed from.)  Definitions only. *)
From BR Require Import Base.Prelude Model.LRU Model.Disk.
Open Scope Z_scope.

(* the index entry the loader derives from a file: logical size from the name for compressed CAS
   files, otherwise the file length *)
Definition item_of_file (f : file) : item :=
  mkItem (if p_size (f_path f) >? 0 then p_size (f_path f) else f_len f) (f_len f)
         (p_random (f_path f)) (p_legacy (f_path f)).

Fixpoint load_loop (fs : list file) (d : dstate) : dstate :=
  match fs with
  | [] => d
  | f :: t =>
      let '(l', r) := LRU.add (p_key (f_path f)) (item_of_file f) (lru d) in
      match r with
      | Ok true => load_loop t (mkD l' (files d) (handed d))
      | _ => load_loop t (mkD l' (remove_file (f_path f) (files d)) (handed d))
      end
  end.

(* image: the files of the crash image, oldest access time first *)
Definition recover (maxSize hardLimit : Z) (image : list file) : dstate :=
  let d0 := mkD (LRU.init maxSize hardLimit) image [] in
  let d1 := load_loop image d0 in
  drain_all (List.length (evq (lru d1))) d1.

(* crash image of a running system: its files, in whatever access-time order [perm] says *)
Definition crash (s : sys) : list file := files (sd s).

(* ---------------- correspondence case ---------------- *)

(* after the restart: reads, each with the observed response *)
Fixpoint reads_trace (c : cfg) (d : dstate) (rs : list request) : list (option response) :=
  match rs with
  | [] => []
  | r :: t => let '(d', o) := exec c d r in o :: reads_trace c d' t
  end.

Definition ccase : Type :=
  cfg * Z * Z * list file * LRU.snap * list request * list (option response).

Definition snap_after_restart (d : dstate) : LRU.snap :=
  let l := lru d in mkSnap (map ent (order l)) (cur l) (unc l) (res l) (qbytes l) 0 [].

Definition ccase_ok (x : ccase) : bool :=
  let '(c, mx, hd, image, snap, reads, observed) := x in
  let d := recover mx hd image in
  LRU.snap_eqb (snap_after_restart d) snap
  && list_eqb oresp_eqb (reads_trace c d reads) observed.
