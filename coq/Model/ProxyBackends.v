(* Model/ProxyBackends.v — executable model of the REAL proxy backends below the disk cache:
   cache/httpproxy/httpproxy.go, cache/grpcproxy/grpcproxy.go, cache/grpcproxy/readcloser.go and
   utils/backendproxy/backendproxy.go, as they are in /repo.  Model/Disk.v treats the backend as an
   arbitrary environment (column [b : bget] of a Get); here every answer of a backend server —
   transport error, status code, size metadata, stream of messages, stream error — is mapped to the
   outcome the disk layer receives from Proxy.Get / Proxy.Contains ([pget], [phas]), [to_bget] turns
   such an outcome into the [bget] of Model/Disk.v, and the upload side (chunking of
   ByteStream.Write, the HTTP HEAD/PUT sequence, the bounded upload queue) is modelled as traces.
   Definitions only.

   Trusted facts about libraries (validated by the driver harness/cmd/proxy on every run, not proved):
   [nethttp] — what Go's net/http client makes of a response on the wire; gRPC status codes
   (NotFound = 5, OK = 0); the protobuf wire format of google.bytestream.WriteRequest
   ([wire_size]); grpc-go's default MaxRecvMsgSize (4194304, [grpc_default_max_recv]). *)
From BR Require Import Base.Prelude Model.LRU Model.Disk Gen.ProxySrc.
Open Scope list_scope.
Open Scope Z_scope.

(* ------------------------------------------------------------------ *)
(* What the disk layer receives *)

(* Proxy.Get: (rc, size, err) *)
Inductive pget :=
| PErr                                     (* (nil, -1, err) *)
| PMiss                                    (* (nil, -1, nil) *)
| PFound (size delivered : Z) (serr : bool). (* (rc, size, nil): rc yields [delivered] bytes, then EOF or (serr) an error *)

(* Proxy.Contains: (bool, size) *)
Inductive phas := HasNo | HasYes (size : Z).

(* the object as the backend holds it: length of the stored representation and the logical size its
   casblob header states (compressed CAS; = length for raw representations) *)
Record pobj := mkObj { o_full : Z; o_logical : Z }.

Definition to_bget (ob : pobj) (o : pget) : bget :=
  match o with
  | PErr => BErr
  | PMiss => BMiss
  | PFound s d e => BFound s (o_full ob) d e 1 (o_logical ob)
  end.

Definition to_bhas (h : phas) : bhas :=
  match h with HasNo => BHasNo | HasYes s => BHasYes s end.

(* ------------------------------------------------------------------ *)
(* httpproxy *)

Definition http_StatusOK : Z := 200.
Definition http_StatusNotFound : Z := 404.

(* rsp.Header.Get("Content-Length"): empty, accepted by strconv.Atoi with value n, or refused *)
Inductive clhdr := CLAbsent | CLInt (n : Z) | CLBad.

(* the *http.Response the proxy gets from http.Client.Do *)
Record hresp := mkHResp {
  h_status : Z;        (* rsp.StatusCode *)
  h_cl : clhdr;        (* the Content-Length header *)
  h_clen : Z;          (* rsp.ContentLength (-1: unknown) *)
  h_body : Z;          (* bytes rsp.Body yields ... *)
  h_berr : bool;       (* ... before it ends with an error (true) or EOF (false) *)
  h_hdrsize : Z }.     (* little-endian int64 in bytes 8..16 of the body (when it has 16 bytes) *)

Inductive hreply := HTransportErr | HReply (r : hresp).

(* remoteHTTPProxyCache.Get; v2cas = (kind == cache.CAS && r.v2mode) *)
Definition http_get (v2cas : bool) (rp : hreply) : pget :=
  match rp with
  | HTransportErr => PErr
  | HReply r =>
      if h_status r =? http_StatusNotFound then PMiss else
      if negb (h_status r =? http_StatusOK) then PErr else
      if v2cas then
        (* casblob.ExtractLogicalSize: io.ReadFull of 16 bytes, then uncompressedSize <= 0 is refused *)
        if h_body r <? 16 then PErr else
        if h_hdrsize r <=? 0 then PErr else PFound (h_hdrsize r) (h_body r) (h_berr r)
      else
        match h_cl r with
        | CLAbsent => PErr
        | CLBad => PErr
        | CLInt n => PFound n (h_body r) (h_berr r)
        end
  end.

(* remoteHTTPProxyCache.Contains (the reply is that of the HEAD request) *)
Definition http_contains (v2cas : bool) (rp : hreply) : phas :=
  match rp with
  | HTransportErr => HasNo
  | HReply r =>
      if h_status r =? http_StatusOK then (if v2cas then HasYes (-1) else HasYes (h_clen r)) else HasNo
  end.

(* remoteHTTPProxyCache.UploadFile as a trace.  [UClose true] closes the reader of the file that was
   handed to Put, [UClose false] closes http.NoBody.  A PUT hands its body to the transport, which
   closes it whatever happens (net/http contract): [UPut] is always followed by that close. *)
Inductive uact :=
| UClose (orig : bool)
| UHead
| UPut (orig : bool) (clen : Z)     (* body = the file (orig) or http.NoBody; req.ContentLength *)
| UDrain (ok : bool)                (* io.Copy(io.Discard, rsp.Body) *)
| UCloseRsp.

Record hup_env := mkHUp {
  hu_headreq_err : bool;   (* http.NewRequestWithContext(HEAD) fails *)
  hu_head : hreply;
  hu_putreq_err : bool;    (* http.NewRequestWithContext(PUT) fails *)
  hu_put : hreply }.

Definition http_upload (logical sod : Z) (e : hup_env) : list uact :=
  let orig := negb (logical =? 0) in                     (* item.Rc still is the file *)
  let pre := if orig then [] else [UClose true] in
  if hu_headreq_err e then pre ++ [UClose orig] else
  pre ++ UHead ::
  (if (match hu_head e with HReply r => h_status r =? http_StatusOK | _ => false end) then [UClose orig]
   else if hu_putreq_err e then [UClose orig]
   else UPut orig sod :: UClose orig ::
        match hu_put e with
        | HTransportErr => []
        | HReply r => if h_berr r then [UDrain false] else [UDrain true; UCloseRsp]
        end).

Definition closes_of_file (tr : list uact) : Z :=
  sumZ (fun a => match a with UClose true => 1 | _ => 0 end) tr.
Definition puts_of (tr : list uact) : list (bool * Z) :=
  flat_map (fun a => match a with UPut o n => [(o, n)] | _ => [] end) tr.

(* What Go's net/http client makes of a scripted response on the wire (trusted; the driver compares
   it with the real client on every case).  [w_sent] body bytes are written before the connection is
   closed; without a Content-Length the body is sent chunked and [w_term] says whether the
   terminating chunk was sent. *)
Inductive wire_cl := WCLNone | WCLNum (n : Z) | WCLJunk.
Record wire := mkWire { w_status : Z; w_cl : wire_cl; w_sent : Z; w_term : bool; w_hdrsize : Z }.
Inductive wreply := WConnClosed | WResp (w : wire).

Definition nethttp (wr : wreply) : hreply :=
  match wr with
  | WConnClosed => HTransportErr
  | WResp w =>
      match w_cl w with
      | WCLJunk => HTransportErr                                   (* "bad Content-Length" *)
      | WCLNum n =>
          if n <? 0 then HTransportErr else
          HReply (mkHResp (w_status w) (CLInt n) n (Z.min (w_sent w) n) (w_sent w <? n) (w_hdrsize w))
      | WCLNone => HReply (mkHResp (w_status w) CLAbsent (-1) (w_sent w) (negb (w_term w)) (w_hdrsize w))
      end
  end.

(* ------------------------------------------------------------------ *)
(* grpcproxy *)

Definition code_OK : Z := 0.
Definition code_NotFound : Z := 5.

Inductive acreply := ACErr (code : Z) | ACOk (len : Z).           (* GetActionResult: error status / len(proto.Marshal(res)) *)
Inductive fbreply := FBErr (code : Z)                             (* FetchBlob: rpc error *)
                   | FBResp (status : Z) (digest : option Z).     (* res.Status.GetCode(), res.BlobDigest (size_bytes) *)
Inductive fmreply := FMErr | FMResp (nmissing : Z).               (* FindMissingBlobs: error / len(MissingBlobDigests) *)
Record rdreply := mkRd {                                          (* ByteStream.Read *)
  rd_open_err : bool;           (* the call itself fails *)
  rd_chunks : list Z;           (* len(Data) of the messages the stream delivers *)
  rd_end_err : bool }.          (* then an error status (true) or io.EOF (false) *)
Record gscript := mkG { g_ac : acreply; g_fb : fbreply; g_fm : fmreply; g_rd : rdreply }.

Inductive fdres := FDErr | FDDigest (size : Z).

(* remoteGrpcProxyCache.fetchBlobDigest; hex_ok: hex.DecodeString(hash) succeeds *)
Definition fetch_digest (hex_ok : bool) (fb : fbreply) : fdres :=
  if negb hex_ok then FDErr else
  match fb with
  | FBErr _ => FDErr
  | FBResp st d =>
      if st =? code_NotFound then FDErr else
      if negb (st =? code_OK) then FDErr else
      match d with
      | None => FDErr              (* "FetchBlob response without a blob digest" *)
      | Some s => FDDigest s
      end
  end.

Definition sum_chunks (l : list Z) : Z := sumZ (fun x => x) l.

(* remoteGrpcProxyCache.Get *)
Definition grpc_get (k : kind) (hex_ok : bool) (size : Z) (g : gscript) : pget :=
  match k with
  | CAS =>
      let rd sz := if rd_open_err (g_rd g) then PErr
                   else PFound sz (sum_chunks (rd_chunks (g_rd g))) (rd_end_err (g_rd g)) in
      if size <? 0 then
        match fetch_digest hex_ok (g_fb g) with
        | FDErr => PErr
        | FDDigest s => rd s
        end
      else rd size
  | _ =>
      match g_ac g with
      | ACErr c => if c =? code_NotFound then PMiss else PErr
      | ACOk n => PFound n n false
      end
  end.

(* remoteGrpcProxyCache.Contains *)
Definition grpc_contains (k : kind) (hex_ok : bool) (size : Z) (g : gscript) : phas :=
  match k with
  | CAS =>
      if size <? 0 then
        match fetch_digest hex_ok (g_fb g) with
        | FDErr => HasNo
        | FDDigest s => HasYes s
        end
      else match g_fm g with
           | FMErr => HasNo
           | FMResp n => if n >? 0 then HasNo else HasYes size
           end
  | _ =>
      match grpc_get k hex_ok size g with
      | PFound n _ _ => if n <? 0 then HasNo else HasYes n
      | _ => HasNo
      end
  end.

(* ---- readcloser.go: StreamReadCloser over a stream of messages (payloads as lists of bytes) *)

Record rstate := mkR { r_buf : list Z; r_msgs : list (list Z) }.

Inductive rres :=
| ROk (out : list Z) (st : rstate)     (* (len out, nil) *)
| REnd (out : list Z) (st : rstate)    (* (len out, io.EOF) *)
| RFail.                               (* (-1, err): bytes already copied from the buffer are not reported *)

(* one Read(p) with len(p) = k; [fail]: the stream ends with an error rather than io.EOF *)
Definition read1 (fail : bool) (k : nat) (s : rstate) : rres :=
  let out1 := firstn k (r_buf s) in
  let buf' := skipn k (r_buf s) in
  if Nat.eqb (List.length out1) k then ROk out1 (mkR buf' (r_msgs s)) else
  match r_msgs s with
  | m :: ms => let k2 := (k - List.length out1)%nat in
               ROk (out1 ++ firstn k2 m) (mkR (skipn k2 m) ms)
  | [] => if fail then RFail else REnd out1 (mkR [] [])
  end.

(* io.Copy: Read with a buffer of k bytes until an error; (bytes received, ended with an error) *)
Fixpoint copy_all (fail : bool) (k : nat) (fuel : nat) (s : rstate) (acc : list Z) : option (list Z * bool) :=
  match fuel with
  | O => None
  | S f =>
      match read1 fail k s with
      | ROk out s' => copy_all fail k f s' (acc ++ out)
      | REnd out _ => Some (acc ++ out, false)
      | RFail => Some (acc, true)
      end
  end.

Definition stream_measure (s : rstate) : nat :=
  (List.length (r_buf s) + fold_right (fun m a => S (List.length m) + a) 0 (r_msgs s))%nat.

(* ---- UploadFile, CAS: ByteStream.Write *)

Inductive rerr := RNil | REof | ROther.     (* the error of one item.Rc.Read: nil, io.EOF, another *)

Inductive gact :=
| GSend (has_rn : bool) (n : Z)     (* stream.Send(&bs.WriteRequest{ResourceName: rn, Data: buf[:n]}) *)
| GCloseSend
| GCloseAndRecv
| GCloseRc.                         (* the deferred item.Rc.Close() *)

Definition fails_at (fail_at : option nat) (idx : nat) : bool :=
  match fail_at with Some i => Nat.eqb i idx | None => false end.

(* the loop over the results (n, err) of the successive item.Rc.Read(buf); when the script is
   exhausted the reader is at EOF *)
Fixpoint up_loop (first : bool) (idx : nat) (fail_at : option nat) (reads : list (Z * rerr)) : list gact :=
  match reads with
  | [] => [GCloseAndRecv]
  | (n, e) :: rest =>
      match e with
      | ROther => [GCloseSend]
      | _ => if n >? 0 then
               GSend first n :: (if fails_at fail_at idx then [] else up_loop false (S idx) fail_at rest)
             else [GCloseAndRecv]
      end
  end.

Definition buf_size (sod maxc : Z) : Z := if sod >? maxc then maxc else sod.

(* the reads of a regular file of [flen] bytes into a buffer of b bytes *)
Definition file_reads (flen b : Z) : list (Z * rerr) :=
  if b <=? 0 then [(0, RNil)] else
  repeat (b, RNil) (Z.to_nat (flen / b)) ++ (if flen mod b =? 0 then [] else [(flen mod b, RNil)]) ++ [(0, REof)].

Definition grpc_upload_cas (open_err : bool) (fail_at : option nat) (reads : list (Z * rerr)) : list gact :=
  if open_err then [GCloseRc] else up_loop true 0 fail_at reads ++ [GCloseRc].

Definition sends_of (tr : list gact) : list (bool * Z) :=
  flat_map (fun a => match a with GSend h n => [(h, n)] | _ => [] end) tr.

(* resource name of the upload: "uploads/<uuid>/blobs/<hash>/<size>" resp.
   "uploads/<uuid>/compressed-blobs/zstd/<hash>/<size>" — its length *)
Definition ndigits (n : Z) : Z :=
  if n <? 10 then 1 else if n <? 100 then 2 else if n <? 1000 then 3 else if n <? 10000 then 4 else
  if n <? 100000 then 5 else if n <? 1000000 then 6 else if n <? 10000000 then 7 else
  if n <? 100000000 then 8 else if n <? 1000000000 then 9 else if n <? 10000000000 then 10 else
  if n <? 100000000000 then 11 else if n <? 1000000000000 then 12 else if n <? 10000000000000 then 13 else
  if n <? 100000000000000 then 14 else if n <? 1000000000000000 then 15 else
  if n <? 10000000000000000 then 16 else if n <? 100000000000000000 then 17 else
  if n <? 1000000000000000000 then 18 else 19.
Definition dec_len (z : Z) : Z := if z <? 0 then 1 + ndigits (- z) else ndigits z.   (* len(fmt.Sprintf("%d", z)), z an int64 *)

Definition uuid_len : Z := 36.
Definition hash_len : Z := 64.
Definition rn_len (v2 : bool) (logical : Z) : Z :=
  8 + uuid_len + (if v2 then 23 else 7) + hash_len + 1 + dec_len logical.
Definition rn_len_max : Z := 8 + uuid_len + 23 + hash_len + 1 + 20.     (* 152 *)

(* protobuf: length of a varint, of a length-delimited field with a one-byte tag (proto3: an empty
   field is not emitted); google.bytestream.WriteRequest{resource_name = 1, data = 10}, write_offset
   and finish_write at their zero values *)
Definition varint_len (n : Z) : Z :=
  if n <? 128 then 1 else if n <? 16384 then 2 else if n <? 2097152 then 3 else
  if n <? 268435456 then 4 else if n <? 34359738368 then 5 else if n <? 4398046511104 then 6 else
  if n <? 562949953421312 then 7 else if n <? 72057594037927936 then 8 else
  if n <? 9223372036854775808 then 9 else 10.
Definition field_len (n : Z) : Z := if n =? 0 then 0 else 1 + varint_len n + n.
Definition wire_size (rnlen datalen : Z) : Z := field_len rnlen + field_len datalen.
Definition msg_size (v2 : bool) (logical : Z) (m : bool * Z) : Z :=
  wire_size (if fst m then rn_len v2 logical else 0) (snd m).

Definition grpc_default_max_recv : Z := 4194304.      (* grpc-go defaultServerMaxReceiveMessageSize *)
(* bound on everything in a WriteRequest besides the data: tag + length varint + name, tag + length varint *)
Definition wire_overhead : Z := 1 + 2 + rn_len_max + 1 + 4.      (* 160 *)

(* ---- UploadFile, AC/RAW: read SizeOnDisk bytes, unmarshal, UpdateActionResult.  The reader
   delivers [avail] bytes and then, persistently, io.EOF or (tail_err) another error. *)
Inductive acup := AUShort | AUUnmarshalErr | AUUpdate (logical : Z) (ok : bool) | AUHang.
Definition grpc_upload_ac (logical sod avail : Z) (tail_err parses update_ok : bool) : acup :=
  if sod <=? avail then (if parses then AUUpdate logical update_ok else AUUnmarshalErr)
  else if tail_err then AUHang else AUShort.

(* ------------------------------------------------------------------ *)
(* backendproxy.StartUploaders + Put of both proxies: bounded queue, non-blocking send.
   Items are numbered in the order in which they are Put. *)

Record qcfg := mkQC { q_workers : Z; q_cap : Z }.
Definition q_enabled (c : qcfg) : bool := (0 <? q_cap c) && (0 <? q_workers c).   (* uploadQueue != nil *)

Record qstate := mkQ {
  q_next : nat;            (* number of Puts so far *)
  q_queue : list nat;      (* buffered in the channel *)
  q_running : list nat;    (* taken by a worker, UploadFile in progress *)
  q_started : list nat;    (* every item ever handed to UploadFile, in order *)
  q_done : list nat;       (* UploadFile returned *)
  q_dropped : list nat;    (* refused by Put *)
  q_closed : list nat;     (* reader closed (by Put when refusing, by UploadFile otherwise) *)
  q_logged : nat }.        (* "too many uploads queued" *)

Definition q_init : qstate := mkQ 0 [] [] [] [] [] [] 0.

Inductive qev := QPut | QTake | QFinish (id : nat).

Fixpoint remove_nat (x : nat) (l : list nat) : list nat :=
  match l with [] => [] | y :: t => if Nat.eqb x y then t else y :: remove_nat x t end.
Definition mem_nat (x : nat) (l : list nat) : bool := existsb (Nat.eqb x) l.

Definition qstep (c : qcfg) (s : qstate) (e : qev) : qstate :=
  match e with
  | QPut =>
      let id := q_next s in
      if negb (q_enabled c) then     (* uploadQueue == nil: close, return (not logged) *)
        mkQ (S id) (q_queue s) (q_running s) (q_started s) (q_done s) (q_dropped s ++ [id]) (q_closed s ++ [id]) (q_logged s)
      else if Z.of_nat (List.length (q_queue s)) <? q_cap c then     (* case r.uploadQueue <- item *)
        mkQ (S id) (q_queue s ++ [id]) (q_running s) (q_started s) (q_done s) (q_dropped s) (q_closed s) (q_logged s)
      else                           (* default: log, close *)
        mkQ (S id) (q_queue s) (q_running s) (q_started s) (q_done s) (q_dropped s ++ [id]) (q_closed s ++ [id]) (S (q_logged s))
  | QTake =>                         (* an idle worker receives from the channel *)
      match q_queue s with
      | x :: rest =>
          if Z.of_nat (List.length (q_running s)) <? q_workers c then
            mkQ (q_next s) rest (q_running s ++ [x]) (q_started s ++ [x]) (q_done s) (q_dropped s) (q_closed s) (q_logged s)
          else s
      | [] => s
      end
  | QFinish id =>                    (* UploadFile(id) returns; it closed the reader *)
      if mem_nat id (q_running s) then
        mkQ (q_next s) (q_queue s) (remove_nat id (q_running s)) (q_started s) (q_done s ++ [id]) (q_dropped s) (q_closed s ++ [id]) (q_logged s)
      else s
  end.

Definition qrun (c : qcfg) (evs : list qev) : qstate := fold_left (qstep c) evs q_init.

(* ------------------------------------------------------------------ *)
(* Correspondence cases written by harness/cmd/proxy *)

(* observed result of Proxy.Get, the returned reader drained *)
Inductive pobs := OErr | OMiss | OFound (size delivered : Z) (serr : bool) | OPanic.
(* observed result of disk.Cache.Get with the real proxy attached, fresh cache (a panic is an
   observation no model value matches) *)
Inductive dobs := DHit (size : Z) | DMiss | DErr | DPanic | DSkip.

Definition pobs_ok (m : pget) (o : pobs) : bool :=
  match m, o with
  | PErr, OErr => true
  | PMiss, OMiss => true
  | PFound s d e, OFound s' d' e' =>
      (s =? s') && Bool.eqb e e' && (if e then (0 <=? d') && (d' <=? d) else d =? d')
  | _, _ => false
  end.

Definition dummy_hash : string := "aaaaaaaaaaaaaaaaaaaaaaaaaaaaaaaaaaaaaaaaaaaaaaaaaaaaaaaaaaaaaaaa".
Definition case_cache_max : Z := 67108864.

Definition disk_expect (v2 : bool) (maxproxy : Z) (k : kind) (sz : Z) (ob : pobj) (o : pget) : dobs :=
  match snd (exec (mkCfg v2 1099511627776 maxproxy true) (dinit case_cache_max 0)
                  (RGet k dummy_hash sz 0 false (to_bget ob o) "r")) with
  | Some (GetHit s _ _) => DHit s
  | Some GetMiss => DMiss
  | Some (GetErr _) => DErr
  | _ => DSkip
  end.

Definition dobs_ok (m o : dobs) : bool :=
  match m, o with
  | _, DSkip => true
  | DHit a, DHit b => a =? b
  | DMiss, DMiss => true
  | DErr, DErr => true
  | _, _ => false
  end.

(* disk.Contains for an entry that is not in the local index: the proxy is consulted only when
   size <= max_proxy_blob_size, and its answer accepted when foundSize <= max_proxy_blob_size and the
   sizes do not mismatch *)
Definition disk_has_expect (maxproxy sz : Z) (h : phas) : phas :=
  if sz >? maxproxy then HasNo else
  match h with
  | HasYes f => if (f <=? maxproxy) && negb (mismatch sz f) then HasYes f else HasNo
  | x => x
  end.

(* observed result of Contains (of the proxy, of disk.Cache): a panic is an observation no model
   value matches *)
Inductive hobs := ObsNo | ObsYes (size : Z) | ObsPanic.
Definition hobs_ok (m : phas) (o : hobs) : bool :=
  match m, o with
  | HasNo, ObsNo => true
  | HasYes x, ObsYes y => x =? y
  | _, _ => false
  end.

Inductive hsrc := HWire (w : wreply) | HView (r : hreply).
Definition hview (s : hsrc) : hreply := match s with HWire w => nethttp w | HView r => r end.

Definition is_v2cas (v2 : bool) (k : kind) : bool := v2 && kind_eqb k CAS.

Definition pair_list_eqb (a b : list (bool * Z)) : bool :=
  list_eqb (fun x y => Bool.eqb (fst x) (fst y) && (snd x =? snd y)) a b.
Definition nat_list_eqb (a b : list nat) : bool := list_eqb Nat.eqb a b.
Definition z_list_eqb (a b : list Z) : bool := list_eqb Z.eqb a b.

Inductive pcase :=
(* Get: storage mode zstd?, kind, requested size, the backend's answer, the object, max_proxy_blob_size;
   observed proxy-level and disk-level results *)
| CHttpGet (v2 : bool) (k : kind) (sz : Z) (src : hsrc) (ob : pobj) (maxproxy : Z) (po : pobs) (d : dobs)
| CGrpcGet (v2 : bool) (k : kind) (hex_ok : bool) (sz : Z) (g : gscript) (ob : pobj) (maxproxy : Z) (po : pobs) (d : dobs)
(* Contains: observed (exists, size) of the proxy and of disk.Cache.Contains *)
| CHttpHas (v2 : bool) (k : kind) (sz : Z) (src : hsrc) (maxproxy : Z) (po dk : hobs)
| CGrpcHas (v2 : bool) (k : kind) (hex_ok : bool) (sz : Z) (g : gscript) (maxproxy : Z) (po dk : hobs)
(* UploadFile CAS over gRPC: mode, LogicalSize, SizeOnDisk, length of the file, index of the failing Send;
   observed: (has resource name, len(Data)) and proto.Size of every WriteRequest received, length of
   the resource name, number of Close calls on the reader *)
| CGrpcUp (v2 : bool) (logical sod flen : Z) (open_err : bool) (fail_at : option nat)
          (msgs : list (bool * Z)) (sizes : list Z) (rnlen : Z) (closes : Z)
(* UploadFile over HTTP: LogicalSize, SizeOnDisk, replies to HEAD and PUT; observed requests
   (false = HEAD, true = PUT with its Content-Length) and number of Close calls on the reader *)
| CHttpUp (logical sod : Z) (head put : hreply) (reqs : list (bool * Z)) (closes : Z)
(* UploadFile AC/RAW over gRPC: LogicalSize, SizeOnDisk (= bytes the reader has), proto.Unmarshal succeeds,
   the backend accepts; observed: an UpdateActionResult arrived, with this digest size *)
| CGrpcAcUp (logical sod : Z) (parses ok : bool) (updated : bool) (dsize : Z)
(* the upload queue: workers, capacity, events; observed: items refused, items uploaded (in order
   of their start), items whose reader was closed exactly once = all *)
| CQueue (workers cap : Z) (evs : list qev) (dropped started : list nat) (nput : nat) (all_closed_once : bool).

Definition http_reqs (tr : list uact) : list (bool * Z) :=
  flat_map (fun a => match a with UHead => [(false, 0)] | UPut _ n => [(true, n)] | _ => [] end) tr.

Definition proxy_case_ok (c : pcase) : bool :=
  match c with
  | CHttpGet v2 k sz src ob mp po d =>
      let m := http_get (is_v2cas v2 k) (hview src) in
      pobs_ok m po && dobs_ok (disk_expect v2 mp k sz ob m) d
  | CGrpcGet v2 k hex sz g ob mp po d =>
      let m := grpc_get k hex sz g in
      pobs_ok m po && dobs_ok (disk_expect v2 mp k sz ob m) d
  | CHttpHas v2 k sz src mp po dk =>
      let m := http_contains (is_v2cas v2 k) (hview src) in
      hobs_ok m po && hobs_ok (disk_has_expect mp sz m) dk
  | CGrpcHas v2 k hex sz g mp po dk =>
      let m := grpc_contains k hex sz g in
      hobs_ok m po && hobs_ok (disk_has_expect mp sz m) dk
  | CGrpcUp v2 logical sod flen open_err fail_at msgs sizes rnlen closes =>
      let tr := grpc_upload_cas open_err fail_at (file_reads flen (buf_size sod ProxySrc.maxChunkSize)) in
      pair_list_eqb (sends_of tr) msgs &&
      z_list_eqb (map (msg_size v2 logical) msgs) sizes &&
      (match msgs with [] => true | _ => rnlen =? rn_len v2 logical end) &&
      (closes =? 1)
  | CHttpUp logical sod head put reqs closes =>
      let tr := http_upload logical sod (mkHUp false head false put) in
      pair_list_eqb (http_reqs tr) reqs && (closes =? closes_of_file tr)
  | CGrpcAcUp logical sod parses ok updated dsize =>
      match grpc_upload_ac logical sod sod false parses ok with
      | AUUpdate l _ => updated && (dsize =? l)
      | _ => negb updated
      end
  | CQueue w cap evs dropped started nput ok =>
      let s := qrun (mkQC w cap) evs in
      nat_list_eqb (q_dropped s) dropped && nat_list_eqb (q_started s) started &&
      Nat.eqb (q_next s) nput && ok
  end.
