(* Model/GoCasblob.v — the run-time the TRANSLATED readHeader (Gen/ReadHeaderSrc.v) executes on.

   Gen/ReadHeaderSrc.v is regenerated from /repo/cache/disk/casblob/casblob.go on every run by
   tools/go2coq (gen_readheader.go): statement by statement from the go/ast, every arithmetic
   expression with its int64/uint32 wrap-around written out, every `/`, `%`, index and `make`
   as a checked primitive that can panic, every binary.Read as a read at the descriptor's
   position.  This file is hand-written and small: it gives the meaning of the library calls and
   of the control constructs the translated code uses —

     *os.File                 [gfile]: the size Stat reports and the bytes from the read position on
     f.Stat(), fi.Size()      [file_Stat], [fi_Size]
     binary.Read(f, LE, &x)   [binary_Read_u32/_i64/_u8]: io.ReadFull of 4/8/1 bytes; a short read
                              leaves x as it was and returns io.EOF / io.ErrUnexpectedEOF
     binary.Read(f, LE, s)    [binary_Read_i64s] for s []int64: io.ReadFull of 8*len(s) bytes
     make([]int64, n)         [make_i64s]: runtime.makeslice (panics for n < 0 or n*8 > maxAlloc)
     a / b, a % b, s[i]       [go_quot], [go_rem], [idx] of Model/Casblob.v
     return / if / for        [xres]: a statement list either goes on (XNext, with the values of
                              the locals it assigned) or has returned from the function (XRet)
     fmt.Errorf / errors.New  [raise_msg]: the model's error class of the format text

   Proofs/ReadHeader_refine.v proves that the translated function computes exactly
   Casblob.parse_header, the function every theorem about readHeader is stated for.
   Definitions only. *)
From BR Require Import Base.Prelude Gen.Consts Model.Casblob.
Open Scope string_scope.
Open Scope list_scope.
Open Scope Z_scope.

(* ---- statements: go on or return ------------------------------------------------------- *)
Inductive xres (A : Type) := XNext (a : A) | XRet (r : result header).
Arguments XNext {A} a. Arguments XRet {A} r.

Definition xbind {A B} (x : xres A) (k : A -> xres B) : xres B :=
  match x with XNext a => k a | XRet r => XRet r end.

(* a checked primitive inside a statement: a panic ends the function *)
Definition xlift {A} (r : result A) : xres A :=
  match r with
  | Ok a => XNext a
  | Err e => XRet (Err e)
  | Panic s => XRet (Panic s)
  | Hang s => XRet (Hang s)
  end.

(* the function body: control must not fall off its end *)
Definition xrun (x : xres unit) : result header :=
  match x with XNext _ => Panic "missing return" | XRet r => r end.

(* `for init; cond; post { body }` whose trip count is bounded by [fuel] (the translator only
   accepts counting loops `for i := c; [int64](i) < N; i++` whose body assigns neither i nor N
   and passes S (Z.to_nat N)); running out of fuel is reported, not hidden *)
Fixpoint for_loop {S : Type} (fuel : nat) (cond : S -> bool) (body : S -> xres S) (post : S -> S)
  (s : S) : xres S :=
  match fuel with
  | O => XRet (Hang "for: out of fuel")
  | Datatypes.S k =>
      if cond s then
        match body s with
        | XNext s' => for_loop k cond body post (post s')
        | XRet r => XRet r
        end
      else XNext s
  end.

(* ---- errors ------------------------------------------------------------------------------ *)
Definition err_is_nil (e : option errc) : bool := match e with None => true | Some _ => false end.

(* `return nil, err`: with err == nil the callers would dereference the nil header *)
Definition ret_nil_err (e : option errc) : result header :=
  match e with Some c => Err c | None => Panic "readHeader returned (nil, nil)" end.

(* error class of an error text / format string of casblob.go *)
Definition err_table : list (string * errc) := [
  ("file too small (%d) than the minimum header size (%d)", E_small);
  ("unable to read magic number: %w", E_read);
  ("expected magic number not found", E_magic);
  ("unable to read frameSize: %w", E_read);
  ("internal error: need at least one chunk, found %d", E_nochunk);
  ("chunk table with %d entries does not fit in a file of size %d", E_fit);
  ("invalid chunk size: 0", E_chunk0);
  ("found %d chunks, but a blob of size %d with chunk size %d needs %d", E_count);
  ("metadata frame size %d, but metadata size %d", E_frame);
  ("offset table values should increase: %d -> %d", E_incr);
  ("final offset in chunk table %d should be file size %d", E_last)
].

Fixpoint find_err (t : list (string * errc)) (m : string) : option errc :=
  match t with
  | [] => None
  | (k, e) :: t' => if String.eqb k m then Some e else find_err t' m
  end.

Definition raise_msg (m : string) : result header :=
  match find_err err_table m with
  | Some e => Err e
  | None => Panic ("no error class of the model has the text: " ++ m)
  end.

(* ---- the header value `var h header` ----------------------------------------------------- *)
Definition zero_header : header := mkHeader 0 0 0 [].
Definition set_h_usize (h : header) (v : Z) := mkHeader v (h_comp h) (h_chunk h) (h_offs h).
Definition set_h_comp (h : header) (v : Z) := mkHeader (h_usize h) v (h_chunk h) (h_offs h).
Definition set_h_chunk (h : header) (v : Z) := mkHeader (h_usize h) (h_comp h) v (h_offs h).
Definition set_h_offs (h : header) (v : list Z) := mkHeader (h_usize h) (h_comp h) (h_chunk h) v.

Definition wrapU8 (z : Z) : Z := z mod 256.

(* ---- the file ------------------------------------------------------------------------------ *)
Record gfile := mkF {
  f_size : Z;           (* what Stat reports *)
  f_rest : list Z }.    (* the bytes from the read position to the end *)

(* a freshly opened file with these bytes *)
Definition open_file (bytes : list Z) : gfile := mkF (zlen bytes) bytes.

(* os.FileInfo: only Size() is used.  Stat on an open descriptor does not fail *)
Definition file_Stat (f : gfile) : Z * option errc := (f_size f, None).
Definition fi_Size (fi : Z) : Z := fi.

Definition advance (n : nat) (f : gfile) : gfile := mkF (f_size f) (skipn n (f_rest f)).

(* io.ReadFull(f, make([]byte, n)): the bytes, or None (io.EOF / io.ErrUnexpectedEOF) when fewer
   than n are left; the position moves past what was read either way *)
Definition read_full (n : nat) (f : gfile) : gfile * option (list Z) :=
  if Z.of_nat n <=? zlen (f_rest f) then (advance n f, Some (firstn n (f_rest f)))
  else (advance n f, None).

(* binary.Read(f, binary.LittleEndian, &x): (file, new value of x, err) *)
Definition binary_Read_u32 (f : gfile) (old : Z) : gfile * Z * option errc :=
  match read_full 4 f with
  | (f', Some bs) => (f', le_dec bs, None)
  | (f', None) => (f', old, Some E_read)
  end.
Definition binary_Read_u8 (f : gfile) (old : Z) : gfile * Z * option errc :=
  match read_full 1 f with
  | (f', Some bs) => (f', le_dec bs, None)
  | (f', None) => (f', old, Some E_read)
  end.
Definition binary_Read_i64 (f : gfile) (old : Z) : gfile * Z * option errc :=
  match read_full 8 f with
  | (f', Some bs) => (f', wrap64 (le_dec bs), None)
  | (f', None) => (f', old, Some E_read)
  end.

Fixpoint dec_i64s (n : nat) (l : list Z) : list Z :=
  match n with
  | O => []
  | S k => wrap64 (le_dec (firstn 8 l)) :: dec_i64s k (skipn 8 l)
  end.

(* binary.Read(f, binary.LittleEndian, s) with s []int64: all of s or nothing *)
Definition binary_Read_i64s (f : gfile) (old : list Z) : gfile * list Z * option errc :=
  let n := List.length old in
  match read_full (8 * n) f with
  | (f', Some bs) => (f', dec_i64s n bs, None)
  | (f', None) => (f', old, Some E_read)
  end.

(* make([]int64, n) *)
Definition make_i64s (n : Z) : result (list Z) :=
  do _ <- go_make n 8; Ok (repeat 0 (Z.to_nat n)).

(* ---- running the translated function on a correspondence case ------------------------------ *)
(* [CHeader file obs] cases of the casblob driver can be evaluated against any implementation of
   readHeader over a file's bytes: Casblob.case_ok does it for parse_header, this for the
   translated source (instantiate [rh] with ReadHeaderSrc_readHeader) *)
Definition src_case_ok (rh : gfile -> result header) (c : ccase) : bool :=
  match c with
  | CHeader file obs => hobs_eqb (hobs_of (rh (open_file file))) obs
  | CReader file _ hdr _ => hobs_eqb (hobs_of (rh (open_file file))) hdr
  | _ => true
  end.
