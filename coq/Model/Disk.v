(* Model/Disk.v — executable small-step model of cache/disk/disk.go and findmissing.go on top of
   Model/LRU.v.  One step = one index critical section (under diskCache.mu), or one file-system
   call, or one move of the backend environment.  Requests are little programs (threads); any
   interleaving of their steps is a run.  Definitions only.

   Abstractions.
   * File contents: a record naming WHICH upload's bytes the file holds ([cid]), how many bytes
     are in it and whether it is complete; byte-level facts live in Model/Casblob.v.
   * Paths: the tuple the file name is printed from (Model/Names.v proves the printers injective).
   * SHA-256 / zstd / the backend: oracle columns in the request (stream length, "hash matches",
     on-disk size, backend behaviour script); the theorems quantify over all their values. *)
From BR Require Import Base.Prelude Model.LRU.
Open Scope Z_scope.

Inductive kind := AC | CAS | RAW.
Definition kind_eqb (a b : kind) : bool :=
  match a, b with AC, AC | CAS, CAS | RAW, RAW => true | _, _ => false end.
Definition kind_str (k : kind) : string :=
  match k with AC => "ac" | CAS => "cas" | RAW => "raw" end.
Definition lookup_key (k : kind) (hash : string) : string := (kind_str k ++ "/" ++ hash)%string.

Definition emptySha256 : string := "e3b0c44298fc1c149afbf4c8996fb92427ae41e4649b934ca495991b7852b855".
Definition hashLen : Z := 64.

Record cfg := mkCfg {
  c_zstd : bool;        (* storage mode zstd (true) or uncompressed (false) *)
  c_maxblob : Z;        (* max_blob_size as given to the disk layer *)
  c_maxproxy : Z;       (* max_proxy_blob_size *)
  c_proxy : bool }.     (* a proxy backend is configured *)

(* isSizeMismatch *)
Definition mismatch (req found : Z) : bool := (req >? -1) && (found >? -1) && negb (req =? found).

(* ---------------- files ---------------- *)

(* what a file name is printed from: lookup key, logical size (only for compressed CAS names,
   0 otherwise), random suffix, legacy (.v1) flag *)
Record path := mkPath { p_key : string; p_size : Z; p_random : string; p_legacy : bool }.
Definition path_eqb (a b : path) : bool :=
  String.eqb (p_key a) (p_key b) && (p_size a =? p_size b) && String.eqb (p_random a) (p_random b)
  && Bool.eqb (p_legacy a) (p_legacy b).

Definition is_cas_key (key : string) : bool := String.prefix "cas/" key.

Definition path_of (key : string) (v : item) : path :=
  mkPath key (if is_cas_key key && negb (legacy v) then size v else 0) (random v) (legacy v).

Record file := mkFile {
  f_path : path;
  f_cid : Z;          (* identity of the content (which upload / backend object) *)
  f_len : Z;          (* bytes in the file *)
  f_complete : bool;  (* fully written: for compressed CAS, the chunk table is final *)
  f_logical : Z }.    (* logical size the content claims (header field), = f_len for raw files *)

Fixpoint find_file (p : path) (fs : list file) : option file :=
  match fs with [] => None | f :: t => if path_eqb (f_path f) p then Some f else find_file p t end.
Fixpoint remove_file (p : path) (fs : list file) : list file :=
  match fs with [] => [] | f :: t => if path_eqb (f_path f) p then t else f :: remove_file p t end.
Definition put_file (f : file) (fs : list file) : list file := f :: remove_file (f_path f) fs.

(* ---------------- requests and their oracle columns ---------------- *)

Record stream := mkStream {
  st_cid : Z;         (* content identity *)
  st_len : Z;         (* bytes the reader delivers before it ends *)
  st_err : bool;      (* it ends with an error rather than a clean EOF *)
  st_hash_ok : bool;  (* SHA-256 of the delivered bytes equals the declared hash (oracle) *)
  st_ondisk : Z }.    (* size of the file the writer produces when it succeeds (oracle for zstd) *)

(* behaviour of the backend for one Get *)
Inductive bget :=
| BErr                (* transport / server error *)
| BMiss
| BFound (claimed full delivered : Z) (berr : bool) (cid logical : Z).
   (* claimed: size the proxy reports; full: length of the complete object as the backend stores
      it; delivered <= full bytes arrive, then EOF or (berr) an error; logical: the logical size
      written in the object's header (compressed CAS) *)

(* behaviour of the backend for one Contains *)
Inductive bhas := BHasNo | BHasYes (sz : Z).

Inductive request :=
| RPut (k : kind) (hash : string) (sz : Z) (st : stream) (rnd : string)
| RGet (k : kind) (hash : string) (sz off : Z) (zstd : bool) (b : bget) (rnd : string)
| RContains (k : kind) (hash : string) (sz : Z) (b : bhas)
| RFindMissing (ds : list (string * Z)) (bs : list bhas) (failfast : bool).

Inductive response :=
| PutOk
| PutErr (e : errc)
| GetHit (sz : Z) (cid : Z) (flen : Z)  (* size reported, content identity, bytes in the file served *)
| GetMiss
| GetErr (e : errc)
| Has (b : bool) (sz : Z)
| Missing (ds : list (string * Z))
| MissingFailFast.                        (* errMissingBlob *)

(* ---------------- threads ---------------- *)

Inductive pc :=
(* Put *)
| PutStart | PutCreate | PutWrite | PutFinish | PutCommit (ondisk : Z)
(* Get *)
| GetStart | GetOpen (v : item) (id : nat) | GetSlow | GetValidate (v : item) (id : nat) (f : file)
| GetDrop (v : item) (id : nat) | GetProxyDecide (locked_miss : bool) | GetFetch | GetCreate (claimed : Z)
| GetCopy (claimed : Z) | GetCheck (claimed : Z) | GetCommit (claimed : Z) (ondisk : Z) (f : file)
(* Contains *)
| HasStart | HasProxy
(* FindMissing: remaining digests/backend answers of later batches, slots of the current batch *)
| FMBatch (todo : list ((string * Z) * bhas)) (acc : list (option (string * Z)))
| FMProxy (slots : list ((string * Z) * bhas)) (todo : list ((string * Z) * bhas)) (acc : list (option (string * Z)))
(* common tail: deferred clean-up, then the response *)
| Cleanup (r : response)
| Done (r : response).

Record thread := mkThread {
  t_req : request;
  t_pc : pc;
  t_held : Z;            (* bytes this request has reserved and not yet returned *)
  t_tmp : option path }. (* temp file it must remove unless committed *)

Record dstate := mkD {
  lru : LRU.state;
  files : list file;
  handed : list (string * Z * Z) }.  (* uploads handed to the backend queue: key, logical size, on-disk size *)

Definition spawn (r : request) : thread :=
  mkThread r (match r with
              | RPut _ _ _ _ _ => PutStart
              | RGet _ _ _ _ _ _ _ => GetStart
              | RContains _ _ _ _ => HasStart
              | RFindMissing ds bs _ => FMBatch (combine ds (bs ++ repeat BHasNo (List.length ds))) []
              end) 0 None.

Definition set_lru (l : LRU.state) (d : dstate) : dstate := mkD l (files d) (handed d).
Definition set_files (fs : list file) (d : dstate) : dstate := mkD (lru d) fs (handed d).

Definition goto (t : thread) (p : pc) : thread := mkThread (t_req t) p (t_held t) (t_tmp t).
Definition finish (t : thread) (r : response) : thread := goto t (Cleanup r).

Definition errc_of (r : result unit) : errc := match r with Err e => e | _ => EInternal end.

Fixpoint firstn_batch {A} (n : nat) (l : list A) : list A * list A :=
  match n, l with
  | O, _ => ([], l)
  | _, [] => ([], [])
  | S m, x :: t => let '(a, b) := firstn_batch m t in (x :: a, b)
  end.

Definition batchSize : nat := 20.

(* findMissingLocalCAS over one batch, under one critical section *)
Fixpoint fm_local (l : LRU.state) (b : list ((string * Z) * bhas))
  : LRU.state * list (option ((string * Z) * bhas)) :=
  match b with
  | [] => (l, [])
  | ((h, sz), bh) :: t =>
      if (sz =? 0) && String.eqb h emptySha256 then
        let '(l', r) := fm_local l t in (l', None :: r)
      else
        let '(l1, g) := LRU.get (lookup_key CAS h) l in
        let found := match g with Some (v, _) => negb (mismatch sz (size v)) | None => false end in
        let '(l', r) := fm_local l1 t in
        (l', (if found then None else Some ((h, sz), bh)) :: r)
  end.

Definition count_some {A} (l : list (option A)) : nat := List.length (filter (fun o => match o with Some _ => true | None => false end) l).

(* one step of a thread.  [None] = the thread is finished (no step). *)
Definition tstep (c : cfg) (d : dstate) (t : thread) : option (dstate * thread) :=
  match t_pc t, t_req t with
  (* ================= Put ================= *)
  | PutStart, RPut k hash sz st rnd =>
      if sz <? 0 then Some (d, goto t (Done (PutErr EBadRequest))) else
      if sz >? c_maxblob c then Some (d, goto t (Done (PutErr EBadRequest))) else
      if negb (Z.of_nat (String.length hash) =? hashLen) then Some (d, goto t (Done (PutErr EBadRequest))) else
      if kind_eqb k CAS && (sz =? 0) && String.eqb hash emptySha256 then
        (* the empty blob is always available; data sent for it is refused, an unreadable stream is an error *)
        (if st_len st >? 0 then Some (d, goto t (Done (PutErr EBadRequest))) else if st_err st then Some (d, goto t (Done (PutErr EInternal))) else Some (d, goto t (Done PutOk))) else
      if sz >? 0 then
        let '(l', r) := LRU.reserve sz (lru d) in
        match r with
        | Ok _ => Some (set_lru l' d, mkThread (t_req t) PutCreate sz None)
        | _ => Some (set_lru l' d, goto t (Done (PutErr (errc_of r))))
        end
      else Some (d, goto t PutCreate)
  | PutCreate, RPut k hash sz st rnd =>
      let lg := kind_eqb k CAS && negb (c_zstd c) in
      let p := mkPath (lookup_key k hash) (if kind_eqb k CAS && negb lg then sz else 0) rnd lg in
      (* O_EXCL: the creator retries until the name is new; with a name already in use this thread
         makes no step (the oracle column [rnd] is the name that was finally created) *)
      match find_file p (files d) with
      | Some _ => None
      | None => Some (set_files (put_file (mkFile p (st_cid st) 0 false sz) (files d)) d,
                      mkThread (t_req t) PutWrite (t_held t) (Some p))
      end
  | PutWrite, RPut k hash sz st rnd =>
      (* the bytes go to the file; nothing shared changes except the (private) file *)
      match t_tmp t with
      | Some p => Some (set_files (put_file (mkFile p (st_cid st) (Z.min (st_len st) (Z.max sz 0)) false sz) (files d)) d,
                        goto t PutFinish)
      | None => Some (d, finish t (PutErr EInternal))
      end
  | PutFinish, RPut k hash sz st rnd =>
      (* verification: exact length, clean EOF, and for CAS the hash *)
      let good := (st_len st =? sz) && negb (st_err st) && (negb (kind_eqb k CAS) || st_hash_ok st)
                  && (negb (kind_eqb k CAS && c_zstd c) || (sz >? 0)) in
      match t_tmp t with
      | Some p =>
          if good then
            let od := if kind_eqb k CAS && c_zstd c then st_ondisk st else sz in
            let d1 := set_files (put_file (mkFile p (st_cid st) od true sz) (files d)) d in
            let d2 := if c_proxy c then mkD (lru d1) (files d1) (handed d1 ++ [(lookup_key k hash, sz, od)]) else d1 in
            Some (d2, goto t (PutCommit od))
          else Some (d, finish t (PutErr EInternal))
      | None => Some (d, finish t (PutErr EInternal))
      end
  | PutCommit od, RPut k hash sz st rnd =>
      let lg := kind_eqb k CAS && negb (c_zstd c) in
      let '(l1, r1) := if t_held t >? 0 then LRU.unreserve (t_held t) (lru d) else (lru d, Ok tt) in
      match r1 with
      | Ok _ =>
          let '(l2, r2) := LRU.add (lookup_key k hash) (mkItem sz od rnd lg) l1 in
          match r2 with
          | Ok true => Some (set_lru l2 d, mkThread (t_req t) (Cleanup PutOk) 0 None)
          | _ => Some (set_lru l2 d, mkThread (t_req t) (Cleanup (PutErr EInternal)) 0 (t_tmp t))
          end
      | _ => Some (set_lru l1 d, finish t (PutErr EInternal))
      end
  (* ================= Get ================= *)
  | GetStart, RGet k hash sz off zstd b rnd =>
      if negb (Z.of_nat (String.length hash) =? hashLen) then Some (d, goto t (Done (GetErr EBadRequest))) else
      if sz <? -1 then Some (d, goto t (Done (GetErr EBadRequest))) else   (* -1 = unknown; other negatives invalid *)
      if kind_eqb k CAS && (sz <=? 0) && String.eqb hash emptySha256 then Some (d, goto t (Done (GetHit 0 0 0))) else
      if negb (kind_eqb k CAS) && zstd then Some (d, goto t (Done (GetErr EBadRequest))) else
      if off <? 0 then Some (d, goto t (Done (GetErr EBadRequest))) else
      if (sz >? 0) && (off >=? sz) then Some (d, goto t (Done (GetErr EBadRequest))) else
      let '(l', g) := LRU.get (lookup_key k hash) (lru d) in
      match g with
      | Some (v, id) =>
          if mismatch sz (size v) then Some (set_lru l' d, goto t (GetProxyDecide false))
          else Some (set_lru l' d, goto t (GetOpen v id))
      | None => Some (set_lru l' d, goto t (GetProxyDecide true))
      end
  | GetOpen v id, RGet k hash sz off zstd b rnd =>
      match find_file (path_of (lookup_key k hash) v) (files d) with
      | Some f => Some (d, goto t (GetValidate v id f))
      | None => Some (d, goto t GetSlow)
      end
  | GetSlow, RGet k hash sz off zstd b rnd =>
      (* one critical section: look up again, open while locked, drop the entry if that fails *)
      let '(l', g) := LRU.get (lookup_key k hash) (lru d) in
      match g with
      | Some (v, id) =>
          match find_file (path_of (lookup_key k hash) v) (files d) with
          | Some f => Some (set_lru l' d, goto t (GetValidate v id f))
          | None =>
              match LRU.remove_element id l' with
              | Some l2 => Some (set_lru l2 d, goto t (GetProxyDecide false))
              | None => Some (set_lru l' d, goto t (GetProxyDecide false))
              end
          end
      | None => Some (set_lru l' d, goto t (GetProxyDecide false))
      end
  | GetValidate v id f, RGet k hash sz off zstd b rnd =>
      if kind_eqb k CAS then
        (* legacy files: a seek never fails; compressed files: header must be complete and agree *)
        let ok := if legacy v then true
                  else f_complete f && ((sz =? -1) || (f_logical f =? sz)) in
        if ok then Some (d, goto t (Done (GetHit (size v) (f_cid f) (f_len f))))
        else Some (d, goto t (GetDrop v id))
      else
        if mismatch sz (f_len f) then Some (d, goto t (GetProxyDecide false))
        else Some (d, goto t (Done (GetHit (f_len f) (f_cid f) (f_len f))))
  | GetDrop v id, RGet k hash sz off zstd b rnd =>
      (* guarded removal: only if the element is still the indexed one and still holds [v] *)
      match find_key (lookup_key k hash) (order (lru d)) with
      | Some e =>
          if Nat.eqb (eid e) id && item_eqb (evalue (ent e)) v then
            match LRU.remove_element id (lru d) with
            | Some l2 => Some (set_lru l2 d, goto t (GetProxyDecide false))
            | None => Some (d, goto t (GetProxyDecide false))
            end
          else Some (d, goto t (GetProxyDecide false))
      | None => Some (d, goto t (GetProxyDecide false))
      end
  | GetProxyDecide _, RGet k hash sz off zstd b rnd =>
      if c_proxy c && (sz <=? c_maxproxy c) then
        if sz >? 0 then
          let '(l', r) := LRU.reserve sz (lru d) in
          match r with
          | Ok _ => Some (set_lru l' d, mkThread (t_req t) GetFetch sz None)
          | _ => Some (set_lru l' d, goto t (Done (GetErr (errc_of r))))
          end
        else Some (d, goto t GetFetch)
      else Some (d, goto t (Done GetMiss))
  | GetFetch, RGet k hash sz off zstd b rnd =>
      match b with
      | BErr => Some (d, finish t (GetErr EInternal))
      | BMiss => Some (d, finish t GetMiss)
      | BFound claimed full delivered berr cid logical =>
          if claimed >? c_maxproxy c then Some (d, finish t GetMiss) else
          if mismatch sz claimed || (claimed <? 0) then Some (d, finish t GetMiss) else
          Some (d, goto t (GetCreate claimed))
      end
  | GetCreate claimed, RGet k hash sz off zstd b rnd =>
      let lg := kind_eqb k CAS && negb (c_zstd c) in
      let p := mkPath (lookup_key k hash) (if kind_eqb k CAS && negb lg then claimed else 0) rnd lg in
      match b with
      | BFound _ full delivered berr cid logical =>
          match find_file p (files d) with
          | Some _ => None
          | None => Some (set_files (put_file (mkFile p cid 0 false logical) (files d)) d,
                          mkThread (t_req t) (GetCopy claimed) (t_held t) (Some p))
          end
      | _ => Some (d, finish t (GetErr EInternal))
      end
  | GetCopy claimed, RGet k hash sz off zstd b rnd =>
      match b, t_tmp t with
      | BFound _ full delivered berr cid logical, Some p =>
          let d1 := set_files (put_file (mkFile p cid delivered false logical) (files d)) d in
          if berr then Some (d1, finish t (GetErr EInternal))
          else Some (d1, goto t (GetCheck claimed))
      | _, _ => Some (d, finish t (GetErr EInternal))
      end
  | GetCheck claimed, RGet k hash sz off zstd b rnd =>
      match b, t_tmp t with
      | BFound _ full delivered berr cid logical, Some p =>
          let raw := negb (kind_eqb k CAS) || negb (c_zstd c) in
          (* validated: the file holds exactly the announced bytes (raw) / a complete blob whose
             header states [claimed] (compressed CAS) *)
          let f := mkFile p cid delivered true logical in
          let d1 := set_files (put_file f (files d)) d in
          if raw then
            if negb (delivered =? claimed) then Some (d, finish t (GetErr EInternal))
            else Some (d1, goto t (GetCommit claimed delivered f))
          else
            if (delivered =? full) && (logical =? claimed) then Some (d1, goto t (GetCommit claimed delivered f))
            else Some (d, finish t (GetErr EInternal))
      | _, _ => Some (d, finish t (GetErr EInternal))
      end
  | GetCommit claimed od f, RGet k hash sz off zstd b rnd =>
      let lg := kind_eqb k CAS && negb (c_zstd c) in
      let '(l1, r1) := if t_held t >? 0 then LRU.unreserve (t_held t) (lru d) else (lru d, Ok tt) in
      match r1 with
      | Ok _ =>
          let '(l2, r2) := LRU.add (lookup_key k hash) (mkItem claimed od rnd lg) l1 in
          match r2 with
          | Ok true => Some (set_lru l2 d, mkThread (t_req t) (Cleanup (GetHit claimed (f_cid f) (f_len f))) 0 None)
          | _ => Some (set_lru l2 d, mkThread (t_req t) (Cleanup (GetErr EInternal)) 0 (t_tmp t))
          end
      | _ => Some (set_lru l1 d, finish t (GetErr EInternal))
      end
  (* ================= Contains ================= *)
  | HasStart, RContains k hash sz b =>
      if negb (Z.of_nat (String.length hash) =? hashLen) then Some (d, goto t (Done (Has false (-1)))) else
      if kind_eqb k CAS && (sz <=? 0) && String.eqb hash emptySha256 then Some (d, goto t (Done (Has true 0))) else
      let '(l', g) := LRU.get (lookup_key k hash) (lru d) in
      match g with
      | Some (v, _) =>
          if negb (mismatch sz (size v)) then Some (set_lru l' d, goto t (Done (Has true (size v))))
          else Some (set_lru l' d, goto t HasProxy)
      | None => Some (set_lru l' d, goto t HasProxy)
      end
  | HasProxy, RContains k hash sz b =>
      if c_proxy c && (sz <=? c_maxproxy c) then
        match b with
        | BHasYes fsz =>
            if (fsz <=? c_maxproxy c) && negb (mismatch sz fsz) then Some (d, goto t (Done (Has true fsz)))
            else Some (d, goto t (Done (Has false (-1))))
        | BHasNo => Some (d, goto t (Done (Has false (-1))))
        end
      else Some (d, goto t (Done (Has false (-1))))
  (* ================= FindMissing ================= *)
  | FMBatch todo acc, RFindMissing ds bs ff =>
      match todo with
      | [] => Some (d, goto t (Done (Missing (flat_map (fun o => match o with Some x => [x] | None => [] end) acc))))
      | _ =>
          let '(batch, rest) := firstn_batch batchSize todo in
          let '(l', res) := fm_local (lru d) batch in
          let nmiss := count_some res in
          let slots := flat_map (fun o => match o with Some x => [x] | None => [] end) res in
          if Nat.eqb nmiss 0 then Some (set_lru l' d, goto t (FMBatch rest (acc ++ map (fun _ => None) res)))
          else if negb (c_proxy c) then
            if ff then Some (set_lru l' d, goto t (Done MissingFailFast))
            else Some (set_lru l' d, goto t (FMBatch rest (acc ++ map (fun o => match o with Some (x, _) => Some x | None => None end) res)))
          else
            (* with a backend: one check per locally missing slot (oversize ones are skipped) *)
            Some (set_lru l' d,
                  goto t (FMProxy slots rest
                            (acc ++ map (fun o => match o with
                                                 | Some ((h, sz), bh) =>
                                                     if sz >? c_maxproxy c then Some (h, sz)
                                                     else match bh with BHasYes _ => None | BHasNo => Some (h, sz) end
                                                 | None => None end) res)))
      end
  | FMProxy slots todo acc, RFindMissing ds bs ff =>
      (* the workers' writes, collapsed: the answers were folded into [acc] above; fail-fast
         reports a miss if any slot stayed missing *)
      if ff && existsb (fun s => match s with ((h, sz), bh) => (sz >? c_maxproxy c) || match bh with BHasNo => true | _ => false end end) slots
      then Some (d, goto t (Done MissingFailFast))
      else Some (d, goto t (FMBatch todo acc))
  (* ================= deferred clean-up ================= *)
  | Cleanup r, _ =>
      match t_tmp t with
      | Some p => Some (set_files (remove_file p (files d)) d, mkThread (t_req t) (Cleanup r) (t_held t) None)
      | None =>
          if t_held t >? 0 then
            let '(l', ur) := LRU.unreserve (t_held t) (lru d) in
            match ur with
            | Ok _ => Some (set_lru l' d, mkThread (t_req t) (Done r) 0 None)
            | _ => Some (set_lru l' d, mkThread (t_req t) (Done (match r with PutOk | PutErr _ => PutErr EInternal | _ => GetErr EInternal end)) 0 None)
            end
          else Some (d, goto t (Done r))
      end
  | Done _, _ => None
  | _, _ => None
  end.

(* the background remover: unlink the file of the oldest queued entry, then account for it *)
Definition evictor_step (d : dstate) : option dstate :=
  let '(l', r) := LRU.evictor_step (lru d) in
  match r with
  | Some en => Some (mkD l' (remove_file (path_of (ekey en) (evalue en)) (files d)) (handed d))
  | None => None
  end.

(* ---------------- the transition system ---------------- *)

Record sys := mkSys { sd : dstate; thr : list thread }.

Inductive label :=
| LSpawn (r : request)
| LStep (i : nat)        (* thread number i makes its next step *)
| LEvict.                (* the background remover handles one queued entry *)

Fixpoint upd_nth {A} (n : nat) (x : A) (l : list A) : list A :=
  match n, l with
  | _, [] => []
  | O, _ :: t => x :: t
  | S m, y :: t => y :: upd_nth m x t
  end.

Definition sstep (c : cfg) (s : sys) (l : label) : sys :=
  match l with
  | LSpawn r => mkSys (sd s) (thr s ++ [spawn r])
  | LStep i =>
      match nth_error (thr s) i with
      | Some t => match tstep c (sd s) t with
                  | Some (d', t') => mkSys d' (upd_nth i t' (thr s))
                  | None => s
                  end
      | None => s
      end
  | LEvict => match evictor_step (sd s) with Some d' => mkSys d' (thr s) | None => s end
  end.

Definition srun (c : cfg) (s : sys) (ls : list label) : sys := fold_left (sstep c) ls s.

Definition dinit (maxSize hardLimit : Z) : dstate := mkD (LRU.init maxSize hardLimit) [] [].
Definition sinit (maxSize hardLimit : Z) : sys := mkSys (dinit maxSize hardLimit) [].

(* run one thread to completion (sequential semantics); fuel bounds the number of steps *)
Fixpoint run_thread (c : cfg) (fuel : nat) (d : dstate) (t : thread) : dstate * thread :=
  match fuel with
  | O => (d, t)
  | S f => match tstep c d t with
           | Some (d', t') => run_thread c f d' t'
           | None => (d, t)
           end
  end.

Definition response_of (t : thread) : option response :=
  match t_pc t with Done r => Some r | _ => None end.

(* generous: the longest program (find-missing over n digests) takes 2*(n/20+1)+2 steps *)
Definition fuel_for (r : request) : nat :=
  match r with
  | RFindMissing ds _ _ => 2 * List.length ds + 8
  | _ => 24
  end.

Definition exec (c : cfg) (d : dstate) (r : request) : dstate * option response :=
  let '(d', t) := run_thread c (fuel_for r) d (spawn r) in (d', response_of t).

Fixpoint drain_all (fuel : nat) (d : dstate) : dstate :=
  match fuel with
  | O => d
  | S f => match evictor_step d with Some d' => drain_all f d' | None => d end
  end.

(* ---------------- sequential histories for the correspondence check ---------------- *)

Inductive sop :=
| SReq (r : request)
| SDrain.                 (* let the background remover empty its queue *)

Record dsnap := mkDSnap {
  ds_lru : LRU.snap;
  ds_files : list (string * Z * string * bool * Z) }.  (* key, name-size, random, legacy, file length — sorted by the harness and the model alike *)

Definition file_row (f : file) : string * Z * string * bool * Z :=
  (p_key (f_path f), p_size (f_path f), p_random (f_path f), p_legacy (f_path f), f_len f).

Definition sop_step (c : cfg) (d : dstate) (o : sop) : dstate * option response :=
  match o with
  | SReq r => exec c d r
  | SDrain => (drain_all (List.length (evq (lru d))) d, None)
  end.

Fixpoint strace (c : cfg) (d : dstate) (ops : list sop) : list (option response * LRU.snap) :=
  match ops with
  | [] => []
  | o :: t => let '(d', r) := sop_step c d o in (r, LRU.snapshot (lru d')) :: strace c d' t
  end.

Definition final_files (c : cfg) (d : dstate) (ops : list sop) : list file :=
  files (fold_left (fun d o => fst (sop_step c d o)) ops d).

(* boolean equalities *)
Definition pair_eqb (a b : string * Z) : bool := String.eqb (fst a) (fst b) && (snd a =? snd b).
Definition response_eqb (a b : response) : bool :=
  match a, b with
  | PutOk, PutOk | GetMiss, GetMiss | MissingFailFast, MissingFailFast => true
  | PutErr x, PutErr y | GetErr x, GetErr y => errc_eqb x y
  | GetHit s1 c1 l1, GetHit s2 c2 l2 => (s1 =? s2) && (c1 =? c2) && (l1 =? l2)
  | Has b1 s1, Has b2 s2 => Bool.eqb b1 b2 && (s1 =? s2)
  | Missing x, Missing y => list_eqb pair_eqb x y
  | _, _ => false
  end.
Definition oresp_eqb (a b : option response) : bool :=
  match a, b with Some x, Some y => response_eqb x y | None, None => true | _, _ => false end.
Definition sobs_eqb (a b : option response * LRU.snap) : bool :=
  oresp_eqb (fst a) (fst b) && LRU.snap_eqb (snd a) (snd b).

Definition row_eqb (a b : string * Z * string * bool * Z) : bool :=
  let '(k1, s1, r1, l1, n1) := a in let '(k2, s2, r2, l2, n2) := b in
  String.eqb k1 k2 && (s1 =? s2) && String.eqb r1 r2 && Bool.eqb l1 l2 && (n1 =? n2).

(* set equality of file rows (order-insensitive, lists are duplicate-free by construction) *)
Definition rows_subset (a b : list (string * Z * string * bool * Z)) : bool :=
  forallb (fun x => existsb (row_eqb x) b) a.
Definition rows_eq (a b : list (string * Z * string * bool * Z)) : bool :=
  rows_subset a b && rows_subset b a && Nat.eqb (List.length a) (List.length b).

(* a correspondence case: configuration, max, hard, operations, observed (response, index snapshot)
   after every operation, observed directory at the end *)
Definition dcase : Type :=
  cfg * Z * Z * list sop * list (option response * LRU.snap) * list (string * Z * string * bool * Z).

Definition dcase_ok (x : dcase) : bool :=
  let '(c, mx, hd, ops, observed, dir) := x in
  list_eqb sobs_eqb (strace c (dinit mx hd) ops) observed
  && rows_eq (map file_row (final_files c (dinit mx hd) ops)) dir.
