#!/bin/sh
# usage: tools/muttest.sh <patch.diff> <Cxx> [<Cyy> ...]
# Applies the patch to a scratch worktree of /repo (plus /repo's untracked verif_export files), copies
# /verif (with its compiled files) next to it and runs ./check there against the patched tree.
# Nothing in /repo or /verif is touched.  Prints each check's last lines and exit code.
set -e
patch=$(readlink -f "$1"); shift
id=$$
wt=/tmp/mut-$id-repo
vf=/tmp/mut-$id-verif
git -C /repo worktree add -q --detach "$wt" HEAD
( cd /repo && git ls-files --others --exclude-standard | while read f; do mkdir -p "$wt/$(dirname "$f")"; cp "$f" "$wt/$f"; done )
if ! git -C "$wt" apply "$patch"; then echo "PATCH DOES NOT APPLY"; git -C /repo worktree remove --force "$wt"; exit 3; fi
rsync -a --exclude .git --exclude 'build' --exclude replays /verif/ "$vf/"
for p in "$@"; do
  echo "=== $p against $(basename "$patch")"
  ( cd "$vf" && VERIF_REPO="$wt" timeout 2700 ./check "$p" > "$vf/_out.txt" 2>&1; rc=$?; grep -a "VIOLATION\|KNOWN-FINDING" "$vf/_out.txt" | cut -c1-200; grep -a "^\[check\] $p" "$vf/_out.txt" | cut -c1-220; grep -a "broken:" "$vf/_out.txt" | head -${MUT_TAIL:-3} | cut -c1-300; echo "exit=$rc" ) || true
done
git -C /repo worktree remove --force "$wt"
rm -rf "$vf"
