#!/bin/sh
# usage: tools/goal.sh Proofs/X.v LINE  — show the goals after line LINE (debug helper)
cd /verif/coq
f=$1; n=$2
head -n "$n" "$f" > /verif/build/_goal.v
printf '\nShow.\nAbort.\n' >> /verif/build/_goal.v
cd /verif/build && coqc -Q /verif/coq BR _goal.v 2>&1 | grep -v '^Warning\|cannot-define' | head -${3:-80}
