#!/usr/bin/env python3
"""Assemble DESIGN.md from docs/_design_*.md (+ docs/_seedtable.md when present)."""
import os
V=os.path.dirname(os.path.dirname(os.path.abspath(__file__)))
r=lambda n: open(os.path.join(V,'docs',n)).read()
d=r('_design_2456.md'); a=d.index("---------------------------------------------------------------------------------------\n## 4. The tie")
txt=r('_design_head.md')+r('_design_s1.md')+d[:a]+"---------------------------------------------------------------------------------------\n"+r('_design_s3.md')+d[a:]+r('_design_7.md')+r('_design_tail.md')
st=os.path.join(V,'docs','_seedtable.md')
txt=txt.replace('SEEDTABLE', open(st).read() if os.path.exists(st) else '(the table is generated from the seed run; see docs/_seedtable.md once present)')
open(os.path.join(V,'DESIGN.md'),'w').write(txt)
print(len(txt.splitlines()),'lines')
