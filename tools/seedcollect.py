#!/usr/bin/env python3
"""usage: tools/seedcollect.py <ID> <Cxx> <dir with patch.diff demo_test.go NOTES.md> <package dir of the demo> <needs text>
Copies an independently written breaking change into seeded/<ID>/ and writes its meta.json."""
import json, os, shutil, sys
V = os.path.dirname(os.path.dirname(os.path.abspath(__file__)))
sid, prop, src, pkg, needs = sys.argv[1:6]
d = os.path.join(V, 'seeded', sid); os.makedirs(d, exist_ok=True)
for f in ('patch.diff', 'demo_test.go', 'NOTES.md'):
    shutil.copy(os.path.join(src, f), os.path.join(d, f))
notes = open(os.path.join(src, 'NOTES.md')).read()
files = sorted({l[6:].strip() for l in open(os.path.join(src, 'patch.diff')) if l.startswith('+++ b/')})
json.dump({'property': prop, 'summary': ' '.join(notes.split())[:1400], 'needs': needs,
           'demo': 'cp demo_test.go into `%s`/ ; GOFLAGS=-mod=mod GOPROXY=off go test -vet=off -count=1 -run Seed ./%s/ (passes on HEAD, fails with patch.diff applied)' % (pkg, pkg),
           'files_changed': files}, open(os.path.join(d, 'meta.json'), 'w'), indent=1)
print('collected', sid, files)
