#!/usr/bin/env python3
"""usage: tools/casedebug.py <cases.v> <index>  — print the model's view of one disk case next to what was observed"""
import sys, re, subprocess, os
src = open(sys.argv[1]).read(); idx = int(sys.argv[2])
a = src.index('Definition cases'); b = src.index(':= [', a) + 4; e = src.rindex('\n].')
body = src[b:e]
cases, depth, cur, instr = [], 0, '', False
i = 0
while i < len(body):
    ch = body[i]
    if ch == '"':
        instr = not instr
    if not instr:
        if ch == '(': depth += 1
        if ch == ')': depth -= 1
        if ch == ';' and depth == 0:
            cases.append(cur.strip()); cur = ''; i += 1; continue
    cur += ch; i += 1
if cur.strip(): cases.append(cur.strip())
case = cases[idx]
head = src[:a]
out = head + f"Definition thecase : dcase := {case}.\n" + """
Definition model_trace := Eval vm_compute in (let '(c, mx, hd, ops, observed, dir) := thecase in
  map (fun p => (fst (fst p), sobs_eqb (fst p) (snd p), fst (snd p))) (combine (strace c (dinit mx hd) ops) observed)).
Print model_trace.
Definition model_last := Eval vm_compute in (let '(c, mx, hd, ops, observed, dir) := thecase in
  (last (map snd (strace c (dinit mx hd) ops)) (mkSnap [] 0 0 0 0 0 []), last (map snd observed) (mkSnap [] 0 0 0 0 0 []), map file_row (final_files c (dinit mx hd) ops), dir)).
Print model_last.
"""
open('/verif/build/_case.v', 'w').write(out)
r = subprocess.run(['coqc', '-Q', '/verif/coq', 'BR', '_case.v'], cwd='/verif/build', capture_output=True, text=True)
print((r.stdout + r.stderr)[-6000:])
