#!/bin/sh
# usage: tools/coqbuild.sh <targets relative to coq/, e.g. Properties/C13.vo>   (takes the build lock)
mkdir -p /verif/build
exec flock /verif/build/.buildlock sh -c 'cd /verif/coq && sh ./mkproject.sh && timeout 600 make -k -j16 "$@" 2>&1 | grep -v "^COQDEP\|^COQC\|cannot-define-projection" | tail -60' sh "$@"
