#!/usr/bin/env python3
"""Assemble /verif/MANIFEST.json from props/Cxx.json fragments (one per property).
A property without a fragment (or with "claimed": false) is listed under not_applicable."""
import json, os, sys
V = os.path.dirname(os.path.dirname(os.path.abspath(__file__)))
props = [json.loads(l) for l in open(os.path.join(V, 'properties.jsonl'))]
checks, na = [], []
for p in props:
    pid = p['id']
    f = os.path.join(V, 'props', pid + '.json')
    frag = json.load(open(f)) if os.path.exists(f) else None
    if not frag or not frag.get('claimed', True):
        na.append({"property_id": pid, "reason": (frag or {}).get('reason', 'check not built yet in this session (work in progress; see DESIGN.md section 7 for the plan)')})
        continue
    checks.append({
        "property_id": pid,
        "quick_cmd": f"./check {pid} --tier quick",
        "thorough_cmd": f"./check {pid} --tier thorough",
        "evidence_file": f"/verif/evidence/{pid}.json",
        "replay_cmd_template": f"./check {pid} --replay {{path}}",
        "engine": "coq-proof+correspondence",
        "level_claimed": {"category": "proof", "text": frag['level_text'], "design_ref": frag.get('design_ref', f"DESIGN.md section 7, {pid}")},
        "level_note": frag['level_note'],
        "technique": frag.get('technique', 'machine-checked proof in Coq 8.16 over an executable Gallina model, tied to the source by a regenerating translator (go2coq) and a differential correspondence check')
    })
hooks = json.load(open(os.path.join(V, 'props', '_hooks.json')))
man = {
    "version": 1,
    "setup_cmd": "./setup.sh",
    "hooks": hooks,
    "engines": [{"name": "coq-proof+correspondence", "path": "/verif/check",
                 "serves_properties": [c['property_id'] for c in checks],
                 "kind_free_text": "Coq 8.16.1 development (coq/) with Gen/ regenerated from /repo by tools/go2coq on every run; Go harness (harness/, built with -tags verif against /repo) drives the implementation and emits cases evaluated against the model inside Coq with vm_compute"}],
    "checks": checks,
    "notes": open(os.path.join(V, 'props', '_notes.txt')).read().strip(),
    "not_applicable": na,
}
json.dump(man, open(os.path.join(V, 'MANIFEST.json'), 'w'), indent=1)
print(f"MANIFEST.json: {len(checks)} checks, {len(na)} not claimed")
