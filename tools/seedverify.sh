#!/bin/sh
# usage: tools/seedverify.sh <seeded/ID>   — confirm in a scratch worktree that the seeded change
# compiles, that the packages it touches still pass their tests, and that its demonstration passes
# without the change and fails with it.  Prints one summary line.
set -u
sd=$(readlink -f "$1"); id=$(basename "$sd")
wt=/tmp/sv-$$-repo
export GOFLAGS=-mod=mod GOPROXY=off
git -C /repo worktree add -q --detach "$wt" HEAD
pkgdir=$(python3 - "$sd" <<'PY'
import json,sys,re
j=json.load(open(sys.argv[1]+'/meta.json')); d=j.get('demo','')
m=re.search(r'(cache/disk/casblob|cache/disk|cache/grpcproxy|cache/httpproxy|server|config|utils/[a-z0-9]+)/?[a-z_0-9]*demo_test\.go|into `?((?:cache|server|config|utils)[a-z/0-9]*)', d)
print((m.group(1) or m.group(2)).rstrip('/') if m else 'cache/disk')
PY
)
cp "$sd/demo_test.go" "$wt/$pkgdir/zz_seed_demo_test.go"
cd "$wt"
base=$(timeout 900 go test -vet=off -count=1 -run 'Seed|Demo' ./$pkgdir/ 2>&1 | tail -n 1)
if ! git apply "$sd/patch.diff" 2>/dev/null; then echo "$id: PATCH-DOES-NOT-APPLY"; cd /; git -C /repo worktree remove --force "$wt"; exit 0; fi
build=ok; go build ./... >/dev/null 2>&1 || build=FAIL
mut=$(timeout 900 go test -vet=off -count=1 -run 'Seed|Demo' ./$pkgdir/ 2>&1 | tail -n 1)
rm "$wt/$pkgdir/zz_seed_demo_test.go"
changed=$(git diff --name-only | xargs -n1 dirname | sort -u | sed 's|^|./|' | tr '\n' ' ')
suite=$(timeout 1500 go test -vet=off -count=1 $changed 2>&1 | grep -c '^FAIL\|^--- FAIL' )
echo "$id: pkg=$pkgdir build=$build demo-without=[$base] demo-with=[$mut] touched-package-test-failures=$suite"
cd /; git -C /repo worktree remove --force "$wt"
