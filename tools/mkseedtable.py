#!/usr/bin/env python3
"""Read build/seedlog/<ID>.log (written by tools/seedverify.sh + tools/muttest.sh), update
seeded/<ID>/meta.json with what the coordinator ran and observed, and write docs/_seedtable.md."""
import glob, json, os, re
V = os.path.dirname(os.path.dirname(os.path.abspath(__file__)))
rows = []
for mpath in sorted(glob.glob(os.path.join(V, 'seeded', 'C??-?', 'meta.json'))):
    sid = os.path.basename(os.path.dirname(mpath))
    meta = json.load(open(mpath))
    log = os.path.join(V, 'build', 'seedlog', sid + '.log')
    if not os.path.exists(log):
        # no run of this seed in this session: keep what the last run recorded
        cc = meta.get('coordinator_confirmation')
        if cc:
            rows.append((sid, meta, cc.get('confirmed', False), cc.get('checks', [])))
        continue
    txt = open(log, errors='replace').read()
    conf = re.search(r'^%s: (.*)$' % re.escape(sid), txt, flags=re.M)
    confirmation = conf.group(1) if conf else 'not confirmed'
    ok = ('demo-with=[FAIL' in confirmation or 'demo-with=[---' in confirmation) and 'demo-without=[ok' in confirmation and 'build=ok' in confirmation
    checks = []
    for m in re.finditer(r'^=== (C\d\d) against.*?\n(.*?)(?=^=== |\Z)', txt, flags=re.M | re.S):
        pid, body = m.group(1), m.group(2)
        viol = re.search(r'VIOLATION property=%s replay=\S+( no-failing-input-found)?' % pid, body)
        summ = re.search(r'\[check\] %s \w+: .*' % pid, body)
        brk = re.findall(r'broken: (\S+) (\S+)', body)
        rc = re.search(r'exit=(\d+)', body)
        checks.append({'property': pid, 'violation': bool(viol),
                       'failing_input_found': bool(viol) and not viol.group(1),
                       'exit': int(rc.group(1)) if rc else None,
                       'summary': summ.group(0)[:200] if summ else '',
                       'broken': sorted(set(f"{a} {b}" for a, b in brk))[:4]})
    meta['coordinator_confirmation'] = {
        'ran': 'tools/seedverify.sh seeded/%s (scratch worktree: demonstration without the change, git apply, go build ./..., tests of the touched packages, demonstration with the change); tools/muttest.sh seeded/%s/patch.diff %s (the registered checks against the patched tree on a copy of /verif)' % (sid, sid, ' '.join(c['property'] for c in checks)),
        'observed': confirmation, 'confirmed': ok, 'checks': checks}
    json.dump(meta, open(mpath, 'w'), indent=1)
    rows.append((sid, meta, ok, checks))

out = ['| seed | what it changes (needs to manifest) | confirmed | caught by |', '|---|---|---|---|']
caught = total = 0
for sid, meta, ok, checks in rows:
    if not checks:
        out.append('| %s | %s | %s | not evaluated yet (see meta.json) |' % (sid, (meta.get('summary', '') or '')[:170].replace('|', '/').replace('\n', ' '), 'yes' if ok else 'see meta.json'))
        continue
    total += 1
    hit = [c for c in checks if c['violation']]
    if hit: caught += 1
    def how(c):
        kinds = sorted(set(b.split()[0] for b in c['broken']))
        return '%s (%s%s)' % (c['property'], 'failing input' if c['failing_input_found'] else 'no-failing-input-found', ('; ' + ', '.join(kinds)) if kinds else '')
    what = (meta.get('summary', '') or '')[:170].replace('|', '/').replace('\n', ' ')
    needs = (meta.get('needs', '') or '')[:120].replace('|', '/').replace('\n', ' ')
    out.append('| %s | %s — *%s* | %s | %s |' % (sid, what, needs, 'yes' if ok else 'see meta.json',
               ', '.join(how(c) for c in hit) if hit else '**not caught** by ' + ', '.join(c['property'] for c in checks)))
out.append('')
out.append('%d of %d independently seeded changes are reported by the check of the property they break.' % (caught, total))
open(os.path.join(V, 'docs', '_seedtable.md'), 'w').write('\n'.join(out) + '\n')
print('%d/%d caught' % (caught, total))
for sid, meta, ok, checks in rows:
    if checks and not any(c['violation'] for c in checks): print('MISSED', sid, [c['summary'][-90:] for c in checks])
