#!/usr/bin/env python3
"""Regenerate coq/Bridge/Bridge_Disk.v from the current coq/Gen/DiskSrc.v (use only after the disk
models have been re-validated against a changed source)."""
import re
src=open('/verif/coq/Gen/DiskSrc.v').read()
out=['(* Bridge/Bridge_Disk.v — the functions of cache/disk (lru.go, disk.go, findmissing.go, load.go),',
'   utils/tempfile and utils/sha256verifier that Model/LRU.v and Model/Disk.v mirror, pinned to the',
'   statement text (comments, logging and metrics removed) the models were written against.  Regenerate',
'   this file with tools/mkbridge_disk.py ONLY after the models have been re-validated against the',
'   changed source. *)',
'From BR Require Import Base.Prelude Gen.DiskSrc.','Open Scope string_scope.','']
for m in re.finditer(r'^Definition (src_[A-Za-z0-9_]+) : string := (".*")\.$', src, flags=re.M):
    out.append(f'Lemma {m.group(1)}_pinned : Gen.DiskSrc.{m.group(1)} =\n  {m.group(2)}.\nProof. reflexivity. Qed.\n')
open('/verif/coq/Bridge/Bridge_Disk.v','w').write('\n'.join(out))

# the casblob functions in full (Gen/CasblobText.v)
src=open('/verif/coq/Gen/CasblobText.v').read()
out=['(* Bridge/Bridge_CasblobText.v — the reader/writer functions of cache/disk/casblob in full, pinned to the',
'   statement text (comments and logging removed) Model/Casblob.v, Model/DiskCrash.v and the crash-safety',
'   argument of C08 (chunk table finalised last) were written against.  Regenerate with',
'   tools/mkbridge_disk.py ONLY after the models have been re-validated against the changed source. *)',
'From BR Require Import Base.Prelude Gen.CasblobText.','Open Scope string_scope.','']
for m in re.finditer(r'^Definition (src_[A-Za-z0-9_]+) : string := (".*")\.$', src, flags=re.M):
    out.append(f'Lemma {m.group(1)}_pinned : Gen.CasblobText.{m.group(1)} =\n  {m.group(2)}.\nProof. reflexivity. Qed.\n')
open('/verif/coq/Bridge/Bridge_CasblobText.v','w').write('\n'.join(out))
