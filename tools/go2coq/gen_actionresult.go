package main

// Gen/ActionResult.v: the checks of validate.ActionResult and maybeNilDigest in source order
// (enclosing range loop, condition text, error text), and the order of the decisive calls in
// UpdateActionResult and in the AC branch of the HTTP PUT handler.  Bridge_ActionResult.v pins
// the model's check table and operation order against them, so adding, removing or reordering a
// check — or moving the AC Put in front of the CAS Puts — breaks an obligation.

import (
	"bytes"
	"fmt"
	"go/ast"
	"go/constant"
	"go/printer"
	"go/token"
	"path/filepath"
	"strings"
)

func init() { areas = append(areas, genActionResult) }

func (p *pkg) src(n ast.Node) string {
	var b bytes.Buffer
	if err := printer.Fprint(&b, p.fset, n); err != nil {
		die("print: %v", err)
	}
	return strings.Join(strings.Fields(b.String()), " ")
}

// text of `var name = fmt.Errorf("lit")` / errors.New("lit") / status.Error(code, "lit")
func (p *pkg) errVarText(name string) (string, bool) {
	for _, f := range p.files {
		for _, d := range f.Decls {
			gd, ok := d.(*ast.GenDecl)
			if !ok || gd.Tok != token.VAR {
				continue
			}
			for _, sp := range gd.Specs {
				vs := sp.(*ast.ValueSpec)
				for i, id := range vs.Names {
					if id.Name != name || i >= len(vs.Values) {
						continue
					}
					if ce, ok := vs.Values[i].(*ast.CallExpr); ok {
						return p.firstStringArg(ce)
					}
				}
			}
		}
	}
	return "", false
}

func (p *pkg) firstStringArg(ce *ast.CallExpr) (string, bool) {
	for _, a := range ce.Args {
		if tv, ok := p.info.Types[a]; ok && tv.Value != nil && tv.Value.Kind() == constant.String {
			return constant.StringVal(tv.Value), true
		}
		if bl, ok := a.(*ast.BasicLit); ok && bl.Kind == token.STRING {
			s := bl.Value
			if len(s) >= 2 && s[0] == '"' {
				var out string
				if _, err := fmt.Sscanf(s, "%q", &out); err == nil {
					return out, true
				}
			}
		}
	}
	return "", false
}

// the error text a `return X` statement yields: "" for nil
func (p *pkg) returnText(rs *ast.ReturnStmt) string {
	if len(rs.Results) == 0 {
		return ""
	}
	e := rs.Results[len(rs.Results)-1]
	switch x := e.(type) {
	case *ast.Ident:
		if x.Name == "nil" {
			return ""
		}
		if t, ok := p.errVarText(x.Name); ok {
			return t
		}
		die("%s: cannot resolve the error text of %s", p.fset.Position(rs.Pos()), x.Name)
	case *ast.CallExpr:
		if t, ok := p.firstStringArg(x); ok {
			return t
		}
	}
	die("%s: unsupported return expression in a validator", p.fset.Position(rs.Pos()))
	return ""
}

type vcheck struct{ scope, cond, msg string }

// if-return checks of a statement list; `err = f(x)` followed by `if err != nil { return … }`
// is reported as the condition `f(x) != nil`.
func (p *pkg) checksOf(stmts []ast.Stmt, scope string, out *[]vcheck, ranges *[]string) {
	pendingCall := ""
	for _, st := range stmts {
		switch x := st.(type) {
		case *ast.AssignStmt:
			pendingCall = ""
			if len(x.Lhs) == 1 && len(x.Rhs) == 1 {
				if id, ok := x.Lhs[0].(*ast.Ident); ok && id.Name == "err" {
					if _, isCall := x.Rhs[0].(*ast.CallExpr); isCall {
						pendingCall = p.src(x.Rhs[0])
					}
				}
			}
		case *ast.IfStmt:
			if x.Init != nil || x.Else != nil || len(x.Body.List) != 1 {
				die("%s: validator check of unsupported shape", p.fset.Position(x.Pos()))
			}
			rs, ok := x.Body.List[0].(*ast.ReturnStmt)
			if !ok {
				die("%s: validator check does not return", p.fset.Position(x.Pos()))
			}
			cond := p.src(x.Cond)
			if cond == "err != nil" {
				if pendingCall == "" {
					die("%s: `err != nil` without a preceding err = call", p.fset.Position(x.Pos()))
				}
				cond = pendingCall + " != nil"
			}
			*out = append(*out, vcheck{scope, cond, p.returnText(rs)})
			pendingCall = ""
		case *ast.RangeStmt:
			if scope != "" {
				die("%s: nested range loop in a validator", p.fset.Position(x.Pos()))
			}
			se, ok := x.X.(*ast.SelectorExpr)
			if !ok {
				die("%s: range over an unsupported expression", p.fset.Position(x.Pos()))
			}
			*ranges = append(*ranges, se.Sel.Name)
			p.checksOf(x.Body.List, se.Sel.Name, out, ranges)
			pendingCall = ""
		case *ast.DeclStmt:
			pendingCall = ""
		case *ast.ReturnStmt:
			// final `return nil`
			if t := p.returnText(x); t != "" {
				die("%s: unconditional error return in a validator", p.fset.Position(x.Pos()))
			}
		default:
			die("%s: unsupported statement %T in a validator", p.fset.Position(st.Pos()), st)
		}
	}
}

// calls of interest inside a function (or inside one branch of it), in source order
func (p *pkg) callOrder(root ast.Node, interesting func(string, *ast.CallExpr) (string, bool)) []string {
	var out []string
	ast.Inspect(root, func(n ast.Node) bool {
		ce, ok := n.(*ast.CallExpr)
		if !ok {
			return true
		}
		name := p.src(ce.Fun)
		if s, ok := interesting(name, ce); ok {
			out = append(out, s)
		}
		return true
	})
	return out
}

func coqStrList(xs []string) string {
	var ys []string
	for _, x := range xs {
		ys = append(ys, coqString(x))
	}
	return "[" + strings.Join(ys, "; ") + "]"
}

func genActionResult(out string) {
	validate := load("utils/validate")
	server := load("server")
	disk := load("cache/disk")

	var w bytes.Buffer
	w.WriteString(header)

	// ---- validate.ActionResult
	var checks []vcheck
	var ranges []string
	validate.checksOf(validate.findFunc("", "ActionResult").Body.List, "", &checks, &ranges)
	w.WriteString("(* utils/validate/action_result.go: ActionResult — (range loop, condition, error text) in source order *)\n")
	w.WriteString("Definition validate_checks : list (string * string * string) := [\n")
	for i, c := range checks {
		sep := ";"
		if i == len(checks)-1 {
			sep = ""
		}
		fmt.Fprintf(&w, "  (%s, %s, %s)%s\n", coqString(c.scope), coqString(c.cond), coqString(c.msg), sep)
	}
	w.WriteString("].\n")
	fmt.Fprintf(&w, "Definition validate_ranges : list string := %s.\n", coqStrList(ranges))

	var dchecks []vcheck
	var noRanges []string
	validate.checksOf(validate.findFunc("", "maybeNilDigest").Body.List, "", &dchecks, &noRanges)
	w.WriteString("(* maybeNilDigest — (condition, error text; \"\" = return nil) *)\n")
	w.WriteString("Definition digest_checks : list (string * string) := [\n")
	for i, c := range dchecks {
		sep := ";"
		if i == len(dchecks)-1 {
			sep = ""
		}
		fmt.Fprintf(&w, "  (%s, %s)%s\n", coqString(c.cond), coqString(c.msg), sep)
	}
	w.WriteString("].\n")

	// ---- UpdateActionResult: the decisive calls in source order
	upd := server.findFunc("grpcServer", "UpdateActionResult")
	order := server.callOrder(upd.Body, func(name string, ce *ast.CallExpr) (string, bool) {
		switch name {
		case "s.validateHash", "validate.ActionResult", "addWorkerMetadataGRPC", "proto.Marshal":
			return name, true
		case "s.cache.Put":
			if len(ce.Args) >= 2 {
				return "Put " + server.src(ce.Args[1]), true
			}
		}
		return "", false
	})
	w.WriteString("(* server/grpc_ac.go: UpdateActionResult — validation, metadata, marshalling and every cache.Put, in source order *)\n")
	fmt.Fprintf(&w, "Definition update_call_order : list string := %s.\n", coqStrList(order))

	// ---- GetActionResult: the fields handed to maybeInline, in order
	get := server.findFunc("grpcServer", "GetActionResult")
	gorder := server.callOrder(get.Body, func(name string, ce *ast.CallExpr) (string, bool) {
		switch name {
		case "s.validateHash", "validate.ActionResult", "s.cache.GetValidatedActionResult":
			return name, true
		case "s.maybeInline":
			if len(ce.Args) >= 4 {
				return "maybeInline " + server.src(ce.Args[2]) + " " + server.src(ce.Args[3]), true
			}
		}
		return "", false
	})
	fmt.Fprintf(&w, "Definition get_call_order : list string := %s.\n", coqStrList(gorder))

	// ---- HTTP PUT, the validateAC branch: `if h.validateAC && kind == cache.AC { … }` inside case http.MethodPut
	handler := server.findFunc("httpCache", "CacheHandler")
	var acBranch *ast.BlockStmt
	var putCase *ast.CaseClause
	ast.Inspect(handler.Body, func(n ast.Node) bool {
		if cc, ok := n.(*ast.CaseClause); ok && len(cc.List) == 1 && server.src(cc.List[0]) == "http.MethodPut" {
			putCase = cc
		}
		return true
	})
	if putCase == nil {
		die("CacheHandler: case http.MethodPut not found")
	}
	for _, st := range putCase.Body {
		if is, ok := st.(*ast.IfStmt); ok && server.src(is.Cond) == "h.validateAC && kind == cache.AC" {
			acBranch = is.Body
		}
	}
	if acBranch == nil {
		die("CacheHandler PUT: the `h.validateAC && kind == cache.AC` branch was not found")
	}
	interestingHTTP := func(name string, ce *ast.CallExpr) (string, bool) {
		switch name {
		case "io.ReadAll", "decoder.DecodeAll", "addWorkerMetadataHTTP", "validate.ActionResult", "proto.Marshal":
			return name, true
		case "h.cache.Put":
			if len(ce.Args) >= 2 {
				return "Put " + server.src(ce.Args[1]), true
			}
		}
		return "", false
	}
	horder := server.callOrder(acBranch, interestingHTTP)
	// the Put that follows the branch
	after := false
	for _, st := range putCase.Body {
		if is, ok := st.(*ast.IfStmt); ok && is.Body == acBranch {
			after = true
			continue
		}
		if after {
			horder = append(horder, server.callOrder(st, interestingHTTP)...)
		}
	}
	w.WriteString("(* server/http.go: CacheHandler PUT, validateAC branch followed by the Put *)\n")
	fmt.Fprintf(&w, "Definition http_put_call_order : list string := %s.\n", coqStrList(horder))
	// the size / encoding guards in front of it: condition texts of the if statements before the branch
	var guards []string
	for _, st := range putCase.Body {
		if is, ok := st.(*ast.IfStmt); ok {
			if is.Body == acBranch {
				break
			}
			guards = append(guards, server.src(is.Cond))
			if e, ok := is.Else.(*ast.IfStmt); ok {
				guards = append(guards, server.src(e.Cond))
			}
		}
	}
	fmt.Fprintf(&w, "Definition http_put_guards : list string := %s.\n", coqStrList(guards))

	// ---- addWorkerMetadataHTTP / GRPC: the guard on an existing worker name
	for _, fn := range []string{"addWorkerMetadataGRPC", "addWorkerMetadataHTTP"} {
		fd := server.findFunc("", fn)
		var conds []string
		ast.Inspect(fd.Body, func(n ast.Node) bool {
			if is, ok := n.(*ast.IfStmt); ok {
				conds = append(conds, server.src(is.Cond))
			}
			return true
		})
		fmt.Fprintf(&w, "Definition %s_conds : list string := %s.\n", fn, coqStrList(conds))
	}

	// ---- GetValidatedActionResult: what is appended to pendingValidations, in source order
	gv := disk.findFunc("diskCache", "GetValidatedActionResult")
	var appended []string
	ast.Inspect(gv.Body, func(n ast.Node) bool {
		as, ok := n.(*ast.AssignStmt)
		if !ok || len(as.Lhs) != 1 || len(as.Rhs) != 1 {
			return true
		}
		if id, ok := as.Lhs[0].(*ast.Ident); !ok || id.Name != "pendingValidations" {
			return true
		}
		if ce, ok := as.Rhs[0].(*ast.CallExpr); ok && disk.src(ce.Fun) == "append" && len(ce.Args) == 2 {
			appended = append(appended, disk.src(ce.Args[1]))
		}
		return true
	})
	var gvConds []string
	ast.Inspect(gv.Body, func(n ast.Node) bool {
		switch x := n.(type) {
		case *ast.RangeStmt:
			gvConds = append(gvConds, "range "+disk.src(x.X))
		case *ast.IfStmt:
			c := disk.src(x.Cond)
			if strings.Contains(c, "Contents") || strings.Contains(c, "Digest != nil") {
				gvConds = append(gvConds, "if "+c)
			}
		}
		return true
	})
	w.WriteString("(* cache/disk/disk.go: GetValidatedActionResult — the dependency walk *)\n")
	fmt.Fprintf(&w, "Definition pending_appends : list string := %s.\n", coqStrList(appended))
	fmt.Fprintf(&w, "Definition pending_walk : list string := %s.\n", coqStrList(gvConds))

	writeIfChanged(filepath.Join(out, "ActionResult.v"), w.Bytes())
}
