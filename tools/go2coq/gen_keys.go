package main

// Gen/Keys.v: what the key-space / resource-name models (Model/Keys.v, Model/ByteStream.v; C15, C16)
// take from the source.  The functions involved build strings with Sprintf / path.Join and compare
// path segments with keywords, which the expression translator does not cover; so for each of them
// the string literals (in source order) and the conditions of their if statements (as source text,
// in source order) are pinned, plus the statements that order key mangling and hash validation.

import (
	"bytes"
	"fmt"
	"go/ast"
	"go/printer"
	"go/token"
	"path/filepath"
	"strconv"
	"strings"
)

func init() { areas = append(areas, genKeys) }

func coqStringList(xs []string) string {
	var ys []string
	for _, x := range xs {
		ys = append(ys, coqString(x))
	}
	return "[" + strings.Join(ys, "; ") + "]"
}

func (p *pkg) nodeText(n ast.Node) string {
	var b bytes.Buffer
	if err := printer.Fprint(&b, p.fset, n); err != nil {
		die("cannot print a node of %s: %v", p.dir, err)
	}
	return strings.Join(strings.Fields(b.String()), " ")
}

// string literals of a function body, in source order
func (p *pkg) funcLiterals(recv, name string) []string {
	fd := p.findFunc(recv, name)
	var out []string
	ast.Inspect(fd.Body, func(n ast.Node) bool {
		if bl, ok := n.(*ast.BasicLit); ok && bl.Kind == token.STRING {
			s, err := strconv.Unquote(bl.Value)
			if err != nil {
				die("%s.%s: bad string literal %s", recv, name, bl.Value)
			}
			out = append(out, s)
		}
		return true
	})
	return out
}

// conditions of the if statements of a function body (closures included), in source order
func (p *pkg) funcConds(recv, name string) []string {
	fd := p.findFunc(recv, name)
	var out []string
	ast.Inspect(fd.Body, func(n ast.Node) bool {
		if is, ok := n.(*ast.IfStmt); ok {
			out = append(out, p.nodeText(is.Cond))
		}
		return true
	})
	return out
}

func mentions(n ast.Node, idents []string) bool {
	found := false
	ast.Inspect(n, func(m ast.Node) bool {
		if id, ok := m.(*ast.Ident); ok {
			for _, w := range idents {
				if id.Name == w {
					found = true
				}
			}
		}
		return !found
	})
	return found
}

// simple statements (assignments, expression statements, returns, channel sends) mentioning one of
// the identifiers, and the conditions of the if statements directly containing one, in source order
func (p *pkg) funcMentions(recv, name string, idents ...string) []string {
	fd := p.findFunc(recv, name)
	var out []string
	ast.Inspect(fd.Body, func(n ast.Node) bool {
		switch s := n.(type) {
		case *ast.IfStmt:
			direct := false // a simple statement directly in the body mentions one
			for _, b := range s.Body.List {
				switch b.(type) {
				case *ast.AssignStmt, *ast.ExprStmt, *ast.ReturnStmt, *ast.SendStmt:
					if mentions(b, idents) {
						direct = true
					}
				}
			}
			if direct {
				out = append(out, "if "+p.nodeText(s.Cond))
			}
		case *ast.AssignStmt, *ast.ExprStmt, *ast.ReturnStmt, *ast.SendStmt:
			if mentions(s, idents) {
				out = append(out, p.nodeText(s))
			}
		}
		return true
	})
	if len(out) == 0 {
		die("%s.%s does not mention %v any more", recv, name, idents)
	}
	return out
}

// string literals in the initialiser of a package-level variable
func (p *pkg) varLiterals(name string) []string {
	var out []string
	for _, f := range p.files {
		for _, d := range f.Decls {
			gd, ok := d.(*ast.GenDecl)
			if !ok || gd.Tok != token.VAR {
				continue
			}
			for _, sp := range gd.Specs {
				vs := sp.(*ast.ValueSpec)
				for i, id := range vs.Names {
					if id.Name != name || i >= len(vs.Values) {
						continue
					}
					ast.Inspect(vs.Values[i], func(n ast.Node) bool {
						if bl, ok := n.(*ast.BasicLit); ok && bl.Kind == token.STRING {
							s, _ := strconv.Unquote(bl.Value)
							out = append(out, s)
						}
						return true
					})
					return out
				}
			}
		}
	}
	die("var %s not found in %s", name, p.dir)
	return nil
}

func genKeys(out string) {
	disk := load("cache/disk")
	cachep := load("cache")
	server := load("server")

	var w bytes.Buffer
	w.WriteString(header)
	emit := func(name string, xs []string) {
		fmt.Fprintf(&w, "Definition %s : list string :=\n  %s.\n", name, coqStringList(xs))
	}
	w.WriteString("(* cache/cache.go *)\n")
	emit("lits_cache_LookupKey", cachep.funcLiterals("", "LookupKey"))
	emit("stmts_cache_LookupKey", cachep.funcMentions("", "LookupKey", "hash"))
	emit("conds_cache_TransformActionCacheKey", cachep.funcConds("", "TransformActionCacheKey"))
	emit("stmts_cache_TransformActionCacheKey", cachep.funcMentions("", "TransformActionCacheKey", "key", "instance", "newKey"))

	w.WriteString("(* cache/disk/disk.go *)\n")
	emit("lits_disk_FileLocation", disk.funcLiterals("diskCache", "FileLocation"))
	emit("conds_disk_FileLocation", disk.funcConds("diskCache", "FileLocation"))
	emit("stmts_disk_FileLocation", disk.funcMentions("diskCache", "FileLocation", "hash"))
	emit("lits_disk_FileLocationBase", disk.funcLiterals("diskCache", "FileLocationBase"))
	emit("conds_disk_FileLocationBase", disk.funcConds("diskCache", "FileLocationBase"))
	emit("stmts_disk_FileLocationBase", disk.funcMentions("diskCache", "FileLocationBase", "hash"))
	emit("lits_disk_getElementPath", disk.funcLiterals("diskCache", "getElementPath"))
	emit("conds_disk_getElementPath", disk.funcConds("diskCache", "getElementPath"))
	emit("stmts_disk_getElementPath", disk.funcMentions("diskCache", "getElementPath", "hash", "kind"))
	emit("stmts_disk_get_zstd_guard", disk.funcMentions("diskCache", "get", "errOnlyCompressedCAS"))
	emit("lits_disk_errOnlyCompressedCAS", disk.varLiterals("errOnlyCompressedCAS"))
	emit("stmts_disk_GetZstd", disk.funcMentions("diskCache", "GetZstd", "get"))

	w.WriteString("(* server/http.go *)\n")
	emit("conds_server_parseRequestURL", server.funcConds("", "parseRequestURL"))
	emit("stmts_server_parseRequestURL", server.funcMentions("", "parseRequestURL", "m", "parts", "hash", "instance"))
	emit("stmts_server_CacheHandler_key", server.funcMentions("httpCache", "CacheHandler", "TransformActionCacheKey", "parseRequestURL", "GetZstd"))

	w.WriteString("(* server/grpc.go, server/grpc_ac.go *)\n")
	emit("conds_server_validateHash", server.funcConds("grpcServer", "validateHash"))
	emit("stmts_server_GetActionResult_key", server.funcMentions("grpcServer", "GetActionResult", "TransformActionCacheKey", "validateHash"))
	emit("stmts_server_UpdateActionResult_key", server.funcMentions("grpcServer", "UpdateActionResult", "TransformActionCacheKey", "validateHash"))

	w.WriteString("(* server/grpc_bytestream.go *)\n")
	keywords := func(xs []string) []string { // the literals that are compared with path segments
		var ys []string
		for _, x := range xs {
			if x != "" && !strings.ContainsAny(x, " %") {
				ys = append(ys, x)
			}
		}
		return ys
	}
	emit("keywords_server_parseReadResource", keywords(server.funcLiterals("grpcServer", "parseReadResource")))
	emit("conds_server_parseReadResource", server.funcConds("grpcServer", "parseReadResource"))
	emit("stmts_server_parseReadResource", server.funcMentions("grpcServer", "parseReadResource", "rem", "fields"))
	emit("keywords_server_parseWriteResource", keywords(server.funcLiterals("grpcServer", "parseWriteResource")))
	emit("conds_server_parseWriteResource", server.funcConds("grpcServer", "parseWriteResource"))
	emit("stmts_server_parseWriteResource", server.funcMentions("grpcServer", "parseWriteResource", "rem", "fields"))
	emit("conds_server_Write", server.funcConds("grpcServer", "Write"))
	emit("stmts_server_Write_channels", server.funcMentions("grpcServer", "Write", "recvResult", "putResult"))
	emit("stmts_server_Write_committed", server.funcMentions("grpcServer", "Write", "CommittedSize"))
	emit("stmts_server_Write_contains", server.funcMentions("grpcServer", "Write", "Contains"))
	emit("stmts_server_QueryWriteStatus_contains", server.funcMentions("grpcServer", "QueryWriteStatus", "Contains"))
	emit("conds_server_QueryWriteStatus", server.funcConds("grpcServer", "QueryWriteStatus"))
	emit("stmts_server_QueryWriteStatus", server.funcMentions("grpcServer", "QueryWriteStatus", "exists", "parseWriteResource"))
	writeIfChanged(filepath.Join(out, "Keys.v"), w.Bytes())
}
