package main

// Statement-level translation of cache/disk/findmissing.go (findMissingLocalCAS, filterNonNil) and of
// cache.LookupKey into Gallina: Gen/FindMissingSrc.v.  Run-time: Model/GoFindMissing.v (slices of
// *pb.Digest as list (option (string * Z)), index reads/writes and pointer dereferences that can
// panic, the range loop) and, for c.lru.Get, the translated SizedLRU.Get of Gen/LRUSrc.v.
//
// Expressions that can panic (s[i], p.Hash, p.SizeBytes, s[:n]) are translated in evaluation order
// with rbind; `a && b` keeps its short circuit.  Mutex and logging calls are dropped.  Anything
// outside the supported subset leaves a FindMissingSrc.v that holds only the reason, so everything
// depending on the translated functions fails to compile and the check reports it.

import (
	"bytes"
	"fmt"
	"go/ast"
	"go/token"
	"os"
	"path/filepath"
	"strings"
)

func init() { areas = append(areas, genFindMissing) }

type fmUnsupported string

func fdie(format string, a ...interface{}) { panic(fmUnsupported(fmt.Sprintf(format, a...))) }

type fkind int

const (
	fkNone fkind = iota
	fkZ
	fkBool
	fkString
	fkDigests   // []*pb.Digest
	fkDigestPtr // *pb.Digest
	fkItem      // lruItem
	fkElemPtr   // *list.Element
	fkNil
)

func fcoq(k fkind) string {
	switch k {
	case fkZ:
		return "Z"
	case fkBool:
		return "bool"
	case fkString:
		return "string"
	case fkDigests:
		return "list digest_ptr"
	case fkDigestPtr:
		return "digest_ptr"
	case fkItem:
		return "item"
	case fkElemPtr:
		return "option nat"
	}
	return "?"
}

type fvar struct {
	name string
	kind fkind
}

type ftr struct {
	p       *pkg
	cachep  *pkg
	fd      *ast.FuncDecl
	hasRecv bool
	slices  []string // slice parameters, returned to the caller (in-place writes)
	results []fkind
	vars    []fvar // declaration order
	fresh   int
}

func (t *ftr) pos(n ast.Node) string {
	return strings.TrimPrefix(t.p.fset.Position(n.Pos()).String(), repo+"/")
}

func (t *ftr) kind(name string) (fkind, bool) {
	for i := len(t.vars) - 1; i >= 0; i-- {
		if t.vars[i].name == name {
			return t.vars[i].kind, true
		}
	}
	return fkNone, false
}

func (t *ftr) declare(name string, k fkind) {
	if _, ok := t.kind(name); ok {
		for i := range t.vars {
			if t.vars[i].name == name {
				if t.vars[i].kind != k {
					fdie("local %s changes its type", name)
				}
				return
			}
		}
	}
	t.vars = append(t.vars, fvar{name, k})
}

func (t *ftr) tmp() string {
	t.fresh++
	return fmt.Sprintf("x%d", t.fresh)
}

func typeKind(p *pkg, e ast.Expr) fkind {
	switch p.nodeText(e) {
	case "[]*pb.Digest":
		return fkDigests
	case "*pb.Digest":
		return fkDigestPtr
	case "int", "int64":
		return fkZ
	case "bool":
		return fkBool
	case "string":
		return fkString
	}
	return fkNone
}

// the static kind of an expression
func (t *ftr) kindOf(e ast.Expr) fkind {
	if tv, ok := t.p.info.Types[e]; ok && tv.Value != nil {
		switch tv.Value.Kind().String() {
		case "Int":
			return fkZ
		case "String":
			return fkString
		case "Bool":
			return fkBool
		}
	}
	switch x := e.(type) {
	case *ast.ParenExpr:
		return t.kindOf(x.X)
	case *ast.BasicLit:
		if x.Kind == token.INT {
			return fkZ
		}
		if x.Kind == token.STRING {
			return fkString
		}
	case *ast.Ident:
		switch x.Name {
		case "nil":
			return fkNil
		case "true", "false":
			return fkBool
		}
		if k, ok := t.kind(x.Name); ok {
			return k
		}
	case *ast.IndexExpr:
		if t.kindOf(x.X) == fkDigests {
			return fkDigestPtr
		}
	case *ast.SliceExpr:
		return t.kindOf(x.X)
	case *ast.SelectorExpr:
		switch t.kindOf(x.X) {
		case fkDigestPtr:
			switch x.Sel.Name {
			case "SizeBytes":
				return fkZ
			case "Hash":
				return fkString
			}
		case fkItem:
			if x.Sel.Name == "size" || x.Sel.Name == "sizeOnDisk" {
				return fkZ
			}
		}
	case *ast.UnaryExpr:
		if x.Op == token.NOT {
			return fkBool
		}
		if x.Op == token.SUB {
			return fkZ
		}
	case *ast.BinaryExpr:
		switch x.Op {
		case token.LAND, token.LOR, token.EQL, token.NEQ, token.LSS, token.LEQ, token.GTR, token.GEQ:
			return fkBool
		case token.ADD:
			return t.kindOf(x.X)
		case token.SUB, token.MUL:
			return fkZ
		}
	case *ast.CallExpr:
		switch t.p.nodeText(x.Fun) {
		case "int64", "int", "len":
			return fkZ
		case "isSizeMismatch":
			return fkBool
		case "cache.LookupKey":
			return fkString
		}
	}
	return fkNone
}

// exprK translates e in evaluation order and hands a PURE Coq term for its value to k; operations
// that can panic are bound with rbind around what k produces (which is therefore of a result type).
func (t *ftr) exprK(e ast.Expr, k func(string) string) string {
	if tv, ok := t.p.info.Types[e]; ok && tv.Value != nil {
		if id, isId := e.(*ast.Ident); isId && id.Name == "emptySha256" {
			return k("disk_emptySha256")
		}
		return k(constExpr(tv))
	}
	switch x := e.(type) {
	case *ast.ParenExpr:
		return t.exprK(x.X, k)
	case *ast.Ident:
		switch x.Name {
		case "true", "false":
			return k(x.Name)
		case "nil":
			return k("None")
		}
		if _, ok := t.kind(x.Name); !ok {
			fdie("%s: free identifier %s", t.pos(e), x.Name)
		}
		return k("v_" + x.Name)
	case *ast.IndexExpr:
		if t.kindOf(x.X) != fkDigests {
			fdie("%s: index into an unsupported value", t.pos(e))
		}
		return t.exprK(x.X, func(s string) string {
			return t.exprK(x.Index, func(i string) string {
				v := t.tmp()
				return fmt.Sprintf("rbind (slice_get %s %s) (fun %s =>\n%s)", s, i, v, k(v))
			})
		})
	case *ast.SliceExpr:
		if t.kindOf(x.X) != fkDigests || x.Low != nil || x.High == nil || x.Slice3 {
			fdie("%s: only s[:n] on a digest slice is supported", t.pos(e))
		}
		return t.exprK(x.X, func(s string) string {
			return t.exprK(x.High, func(n string) string {
				v := t.tmp()
				return fmt.Sprintf("rbind (slice_to %s %s) (fun %s =>\n%s)", s, n, v, k(v))
			})
		})
	case *ast.SelectorExpr:
		switch t.kindOf(x.X) {
		case fkDigestPtr:
			if x.Sel.Name == "SizeBytes" || x.Sel.Name == "Hash" {
				return t.exprK(x.X, func(p string) string {
					v := t.tmp()
					return fmt.Sprintf("rbind (digest_%s %s) (fun %s =>\n%s)", x.Sel.Name, p, v, k(v))
				})
			}
		case fkItem:
			switch x.Sel.Name {
			case "size":
				return t.exprK(x.X, func(p string) string { return k("(LRU.size " + p + ")") })
			case "sizeOnDisk":
				return t.exprK(x.X, func(p string) string { return k("(sizeOnDisk " + p + ")") })
			}
		}
		fdie("%s: unsupported selector %s", t.pos(e), t.p.nodeText(e))
	case *ast.UnaryExpr:
		if x.Op == token.NOT {
			return t.exprK(x.X, func(a string) string { return k("(negb " + a + ")") })
		}
	case *ast.BinaryExpr:
		if x.Op == token.LAND || x.Op == token.LOR {
			op, short := "&&", "false"
			if x.Op == token.LOR {
				op, short = "||", "true"
			}
			if t.pure(x.Y) {
				return t.exprK(x.X, func(a string) string {
					return t.exprK(x.Y, func(b string) string { return k(fmt.Sprintf("(%s %s %s)", a, op, b)) })
				})
			}
			// the right operand can panic: it is evaluated only when the left one does not decide
			v := t.tmp()
			inner := t.exprK(x.X, func(a string) string {
				rhs := t.exprK(x.Y, func(b string) string { return "Ok " + b })
				if x.Op == token.LAND {
					return fmt.Sprintf("(if %s then %s else Ok %s)", a, rhs, short)
				}
				return fmt.Sprintf("(if %s then Ok %s else %s)", a, short, rhs)
			})
			return fmt.Sprintf("rbind (%s) (fun %s =>\n%s)", inner, v, k(v))
		}
		xk, yk := t.kindOf(x.X), t.kindOf(x.Y)
		return t.exprK(x.X, func(a string) string {
			return t.exprK(x.Y, func(b string) string {
				if yk == fkNil && (xk == fkDigestPtr || xk == fkElemPtr) {
					switch x.Op {
					case token.EQL:
						return k("(is_nil " + a + ")")
					case token.NEQ:
						return k("(negb (is_nil " + a + "))")
					}
				}
				if xk == fkString && yk == fkString {
					switch x.Op {
					case token.EQL:
						return k(fmt.Sprintf("(String.eqb %s %s)", a, b))
					case token.NEQ:
						return k(fmt.Sprintf("(negb (String.eqb %s %s))", a, b))
					case token.ADD:
						return k(fmt.Sprintf("(%s ++ %s)", a, b))
					}
				}
				if xk == fkZ && yk == fkZ {
					switch x.Op {
					case token.EQL:
						return k(fmt.Sprintf("(%s =? %s)", a, b))
					case token.NEQ:
						return k(fmt.Sprintf("(negb (%s =? %s))", a, b))
					case token.LSS:
						return k(fmt.Sprintf("(%s <? %s)", a, b))
					case token.LEQ:
						return k(fmt.Sprintf("(%s <=? %s)", a, b))
					case token.GTR:
						return k(fmt.Sprintf("(%s >? %s)", a, b))
					case token.GEQ:
						return k(fmt.Sprintf("(%s >=? %s)", a, b))
					case token.ADD:
						return k(fmt.Sprintf("(wrap64 (%s + %s))", a, b))
					case token.SUB:
						return k(fmt.Sprintf("(wrap64 (%s - %s))", a, b))
					}
				}
				fdie("%s: unsupported operator %s on %s", t.pos(e), x.Op, t.p.nodeText(e))
				return ""
			})
		})
	case *ast.CallExpr:
		fn := t.p.nodeText(x.Fun)
		switch fn {
		case "int64", "int":
			if len(x.Args) == 1 && t.kindOf(x.Args[0]) == fkZ {
				return t.exprK(x.Args[0], func(a string) string { return k("(wrap64 " + a + ")") })
			}
		case "len":
			if len(x.Args) == 1 && t.kindOf(x.Args[0]) == fkDigests {
				return t.exprK(x.Args[0], func(a string) string { return k("(Z.of_nat (List.length " + a + "))") })
			}
		case "isSizeMismatch":
			if len(x.Args) == 2 {
				return t.exprK(x.Args[0], func(a string) string {
					return t.exprK(x.Args[1], func(b string) string { return k(fmt.Sprintf("(Gen.isSizeMismatch %s %s)", a, b)) })
				})
			}
		case "cache.LookupKey":
			if len(x.Args) == 2 {
				kindArg := ""
				if se, ok := x.Args[0].(*ast.SelectorExpr); ok && t.p.nodeText(se.X) == "cache" {
					if v, ok := t.cachep.constValue(se.Sel.Name); ok {
						kindArg = coqZ(v.ExactString())
					}
				}
				if kindArg == "" {
					fdie("%s: the kind argument of LookupKey must be a constant of package cache", t.pos(e))
				}
				return t.exprK(x.Args[1], func(h string) string { return k(fmt.Sprintf("(FMSrc_LookupKey %s %s)", kindArg, h)) })
			}
		}
	}
	fdie("%s: unsupported expression %s", t.pos(e), t.p.nodeText(e))
	return ""
}

// no operation that can panic inside e
func (t *ftr) pure(e ast.Expr) bool {
	ok := true
	ast.Inspect(e, func(n ast.Node) bool {
		switch x := n.(type) {
		case *ast.IndexExpr, *ast.SliceExpr:
			ok = false
		case *ast.SelectorExpr:
			if t.kindOf(x.X) == fkDigestPtr {
				ok = false
			}
		}
		return ok
	})
	return ok
}

type fctx struct {
	inLoop bool
	state  []string // loop state (names, without c)
}

func (t *ftr) tuple(names []string) string {
	var parts []string
	if t.hasRecv {
		parts = append(parts, "c")
	}
	for _, n := range names {
		parts = append(parts, "v_"+n)
	}
	if len(parts) == 0 {
		return "tt"
	}
	if len(parts) == 1 {
		return parts[0]
	}
	return "(" + strings.Join(parts, ", ") + ")"
}

// the value of the whole function: receiver state, the slice parameters as written, the results
func (t *ftr) retTerm(vals []string) string {
	var tail []string
	for _, s := range t.slices {
		tail = append(tail, "v_"+s)
	}
	tail = append(tail, vals...)
	tl := ""
	switch len(tail) {
	case 0:
		tl = "tt"
	case 1:
		tl = tail[0]
	default:
		tl = "(" + strings.Join(tail, ", ") + ")"
	}
	if t.hasRecv {
		return "(c, " + tl + ")"
	}
	return tl
}

func (t *ftr) retType() string {
	var tail []string
	for range t.slices {
		tail = append(tail, "list digest_ptr")
	}
	for _, k := range t.results {
		tail = append(tail, fcoq(k))
	}
	tl := "unit"
	if len(tail) > 0 {
		tl = strings.Join(tail, " * ")
	}
	if t.hasRecv {
		return "gst * (" + tl + ")"
	}
	return tl
}

func (t *ftr) finish(term string, cx fctx) string {
	if cx.inLoop {
		return "Ok (Return " + term + ")"
	}
	return "Ok " + term
}

// c.mu.Lock() / c.mu.Unlock()
func (t *ftr) isMutexStmt(s ast.Stmt) bool {
	es, ok := s.(*ast.ExprStmt)
	if !ok {
		return false
	}
	txt := t.p.nodeText(es.X)
	return txt == "c.mu.Lock()" || txt == "c.mu.Unlock()"
}

// the variables, declared before the loop, that its body assigns (x = e, x++, x[i] = e), in declaration order
func (t *ftr) loopState(body *ast.BlockStmt, exclude string) []string {
	assigned := map[string]bool{}
	mark := func(e ast.Expr) {
		switch l := e.(type) {
		case *ast.Ident:
			assigned[l.Name] = true
		case *ast.IndexExpr:
			if id, ok := l.X.(*ast.Ident); ok {
				assigned[id.Name] = true
			} else {
				fdie("%s: unsupported assignment target", t.pos(e))
			}
		default:
			fdie("%s: unsupported assignment target", t.pos(e))
		}
	}
	ast.Inspect(body, func(n ast.Node) bool {
		switch x := n.(type) {
		case *ast.AssignStmt:
			if x.Tok != token.DEFINE {
				for _, l := range x.Lhs {
					mark(l)
				}
			} else {
				for _, l := range x.Lhs {
					if _, ok := l.(*ast.Ident); !ok {
						mark(l)
					}
				}
			}
		case *ast.IncDecStmt:
			mark(x.X)
		}
		return true
	})
	if assigned[exclude] {
		fdie("%s: the loop body assigns the loop variable %s", t.pos(body), exclude)
	}
	var out []string
	for _, v := range t.vars {
		if assigned[v.name] && v.name != exclude {
			out = append(out, v.name)
		}
	}
	return out
}

func (t *ftr) stmts(ss []ast.Stmt, cx fctx, ind string) string {
	for len(ss) > 0 && (isNoiseStmt(ss[0]) || t.isMutexStmt(ss[0])) {
		ss = ss[1:]
	}
	if len(ss) == 0 {
		if cx.inLoop {
			return "Ok (Next " + t.tuple(cx.state) + ")"
		}
		if len(t.results) != 0 {
			fdie("%s: control reaches the end of the function without a return", t.pos(t.fd))
		}
		return t.finish(t.retTerm(nil), cx)
	}
	s, rest := ss[0], ss[1:]
	nvars := len(t.vars)
	next := func() string { return t.stmts(rest, cx, ind) }
	switch x := s.(type) {
	case *ast.ReturnStmt:
		if len(x.Results) != len(t.results) {
			fdie("%s: naked or mismatched return", t.pos(s))
		}
		var vals []string
		var rec func(i int) string
		rec = func(i int) string {
			if i == len(x.Results) {
				return t.finish(t.retTerm(vals), cx)
			}
			return t.exprK(x.Results[i], func(v string) string { vals = append(vals, v); return rec(i + 1) })
		}
		return rec(0)

	case *ast.BranchStmt:
		if x.Tok == token.CONTINUE && x.Label == nil && cx.inLoop {
			return "Ok (Next " + t.tuple(cx.state) + ")"
		}

	case *ast.DeclStmt:
		gd := x.Decl.(*ast.GenDecl)
		if gd.Tok == token.VAR {
			out := ""
			for _, sp := range gd.Specs {
				vs := sp.(*ast.ValueSpec)
				if len(vs.Values) != 0 || vs.Type == nil {
					fdie("%s: only `var x T` declarations are supported", t.pos(s))
				}
				k := typeKind(t.p, vs.Type)
				zero := map[fkind]string{fkZ: "0", fkBool: "false", fkString: "\"\""}[k]
				if zero == "" {
					fdie("%s: var of unsupported type", t.pos(s))
				}
				for _, id := range vs.Names {
					t.declare(id.Name, k)
					out += fmt.Sprintf("let v_%s := %s in\n%s", id.Name, zero, ind)
				}
			}
			return out + next()
		}

	case *ast.IncDecStmt:
		if id, ok := x.X.(*ast.Ident); ok {
			if k, _ := t.kind(id.Name); k == fkZ {
				op := "+"
				if x.Tok == token.DEC {
					op = "-"
				}
				return fmt.Sprintf("let v_%s := (wrap64 (v_%s %s 1)) in\n%s%s", id.Name, id.Name, op, ind, next())
			}
		}

	case *ast.AssignStmt:
		// item, listElem := c.lru.Get(key)
		if len(x.Lhs) == 2 && len(x.Rhs) == 1 && x.Tok == token.DEFINE {
			if ce, ok := x.Rhs[0].(*ast.CallExpr); ok && t.p.nodeText(ce.Fun) == "c.lru.Get" && len(ce.Args) == 1 && t.hasRecv {
				a, okA := x.Lhs[0].(*ast.Ident)
				b, okB := x.Lhs[1].(*ast.Ident)
				if okA && okB {
					return t.exprK(ce.Args[0], func(key string) string {
						pa, pb := "_", "_"
						if a.Name != "_" {
							t.declare(a.Name, fkItem)
							pa = "v_" + a.Name
						}
						if b.Name != "_" {
							t.declare(b.Name, fkElemPtr)
							pb = "v_" + b.Name
						}
						return fmt.Sprintf("let '(c, (%s, %s)) := LRUSrc_Get c %s in\n%s%s", pa, pb, key, ind, next())
					})
				}
			}
		}
		if len(x.Lhs) != 1 || len(x.Rhs) != 1 || (x.Tok != token.DEFINE && x.Tok != token.ASSIGN) {
			fdie("%s: unsupported assignment %s", t.pos(s), t.p.nodeText(s))
		}
		switch l := x.Lhs[0].(type) {
		case *ast.Ident:
			k := t.kindOf(x.Rhs[0])
			if k == fkNone || k == fkNil {
				fdie("%s: local of unsupported type", t.pos(s))
			}
			if x.Tok == token.ASSIGN {
				if k0, ok := t.kind(l.Name); !ok || k0 != k {
					fdie("%s: assignment to unknown local %s", t.pos(s), l.Name)
				}
			}
			return t.exprK(x.Rhs[0], func(v string) string {
				if x.Tok == token.DEFINE {
					t.declare(l.Name, k)
				}
				return fmt.Sprintf("let v_%s := %s in\n%s%s", l.Name, v, ind, next())
			})
		case *ast.IndexExpr:
			id, ok := l.X.(*ast.Ident)
			if ok && t.kindOf(l.X) == fkDigests && x.Tok == token.ASSIGN {
				rk := t.kindOf(x.Rhs[0])
				if rk != fkNil && rk != fkDigestPtr {
					fdie("%s: unsupported value stored into a digest slice", t.pos(s))
				}
				return t.exprK(l.Index, func(i string) string {
					return t.exprK(x.Rhs[0], func(v string) string {
						return fmt.Sprintf("rbind (slice_set v_%s %s %s) (fun v_%s =>\n%s%s)", id.Name, i, v, id.Name, ind, next())
					})
				})
			}
		}

	case *ast.IfStmt:
		if x.Init != nil {
			fdie("%s: unsupported if-with-init", t.pos(s))
		}
		thenS := append([]ast.Stmt{}, x.Body.List...)
		elseS := append([]ast.Stmt{}, blockOf(x.Else)...)
		if !fterminates(thenS) {
			thenS = append(thenS, rest...)
		}
		if !fterminates(elseS) {
			elseS = append(elseS, rest...)
		}
		in2 := ind + "  "
		return t.exprK(x.Cond, func(c string) string {
			saved := append([]fvar{}, t.vars...)
			th := t.stmts(thenS, cx, in2)
			t.vars = append([]fvar{}, saved...)
			el := t.stmts(elseS, cx, in2)
			t.vars = saved
			return fmt.Sprintf("if %s then\n%s%s\n%selse\n%s%s", c, in2, th, ind, in2, el)
		})

	case *ast.RangeStmt:
		if cx.inLoop {
			fdie("%s: nested loop", t.pos(s))
		}
		key, ok := x.Key.(*ast.Ident)
		over, ok2 := x.X.(*ast.Ident)
		if !ok || !ok2 || x.Value != nil || x.Tok != token.DEFINE || t.kindOf(x.X) != fkDigests {
			fdie("%s: only `for i := range <digest slice>` is supported", t.pos(s))
		}
		return t.loop(key.Name, over.Name, x.Body, rest, cx, ind)

	case *ast.ForStmt:
		if cx.inLoop {
			fdie("%s: nested loop", t.pos(s))
		}
		// for i := 0; i < len(s); i++ { .. }   with i and s not re-bound in the body
		iv, sv := "", ""
		if as, ok := x.Init.(*ast.AssignStmt); ok && as.Tok == token.DEFINE && len(as.Lhs) == 1 && t.p.nodeText(as.Rhs[0]) == "0" {
			iv = t.p.nodeText(as.Lhs[0])
		}
		if be, ok := x.Cond.(*ast.BinaryExpr); ok && be.Op == token.LSS && t.p.nodeText(be.X) == iv {
			if ce, ok := be.Y.(*ast.CallExpr); ok && t.p.nodeText(ce.Fun) == "len" && len(ce.Args) == 1 {
				if id, ok := ce.Args[0].(*ast.Ident); ok && t.kindOf(id) == fkDigests {
					sv = id.Name
				}
			}
		}
		post, ok := x.Post.(*ast.IncDecStmt)
		if iv == "" || sv == "" || !ok || post.Tok != token.INC || t.p.nodeText(post.X) != iv {
			fdie("%s: only `for i := 0; i < len(s); i++` loops are supported", t.pos(s))
		}
		rebinds := false
		ast.Inspect(x.Body, func(n ast.Node) bool {
			if as, ok := n.(*ast.AssignStmt); ok {
				for _, l := range as.Lhs {
					if id, ok := l.(*ast.Ident); ok && (id.Name == sv || id.Name == iv) {
						rebinds = true
					}
				}
			}
			if st, ok := n.(*ast.IncDecStmt); ok && t.p.nodeText(st.X) == iv {
				rebinds = true
			}
			return true
		})
		if rebinds {
			fdie("%s: the loop body re-binds %s or %s", t.pos(s), iv, sv)
		}
		return t.loop(iv, sv, x.Body, rest, cx, ind)
	}
	_ = nvars
	fdie("%s: unsupported statement %s", t.pos(s), strings.SplitN(t.p.nodeText(s), "\n", 2)[0])
	return ""
}

func (t *ftr) loop(iv, sv string, body *ast.BlockStmt, rest []ast.Stmt, cx fctx, ind string) string {
	for _, n := range body.List {
		ast.Inspect(n, func(m ast.Node) bool {
			if b, ok := m.(*ast.BranchStmt); ok && b.Tok != token.CONTINUE {
				fdie("%s: break/goto in a loop", t.pos(b))
			}
			return true
		})
	}
	state := t.loopState(body, iv)
	saved := append([]fvar{}, t.vars...)
	t.declare(iv, fkZ)
	in2 := ind + "    "
	b := t.stmts(body.List, fctx{inLoop: true, state: state}, in2)
	t.vars = saved
	pat := t.tuple(state)
	if strings.HasPrefix(pat, "(") {
		pat = "'" + pat
	}
	return fmt.Sprintf("loop_then (range_loop (List.length v_%s) 0 (fun v_%s %s =>\n%s%s) %s) (fun %s =>\n%s%s)",
		sv, iv, pat, in2, b, t.tuple(state), pat, ind, t.stmts(rest, cx, ind))
}

func fterminates(ss []ast.Stmt) bool {
	if len(ss) == 0 {
		return false
	}
	if b, ok := ss[len(ss)-1].(*ast.BranchStmt); ok && b.Tok == token.CONTINUE {
		return true
	}
	return terminates(ss)
}

func (t *ftr) function(coqName string) string {
	fd := t.fd
	var params []string
	if fd.Recv != nil {
		if len(fd.Recv.List) != 1 || len(fd.Recv.List[0].Names) != 1 || fd.Recv.List[0].Names[0].Name != "c" {
			fdie("%s: the receiver must be named c", t.pos(fd))
		}
		t.hasRecv = true
		params = append(params, "(c : gst)")
	}
	for _, fl := range fd.Type.Params.List {
		k := typeKind(t.p, fl.Type)
		if k == fkNone {
			fdie("%s: parameter of unsupported type %s", t.pos(fl), t.p.nodeText(fl.Type))
		}
		for _, n := range fl.Names {
			t.declare(n.Name, k)
			if k == fkDigests {
				t.slices = append(t.slices, n.Name)
			}
			params = append(params, fmt.Sprintf("(v_%s : %s)", n.Name, fcoq(k)))
		}
	}
	if fd.Type.Results != nil {
		for _, fl := range fd.Type.Results.List {
			k := typeKind(t.p, fl.Type)
			if k == fkNone || len(fl.Names) != 0 {
				fdie("%s: result of unsupported type", t.pos(fl))
			}
			t.results = append(t.results, k)
		}
	}
	stripNoise(fd.Body)
	body := t.stmts(fd.Body.List, fctx{}, "  ")
	return fmt.Sprintf("(* %s: %s *)\nDefinition %s %s : result (%s) :=\n  %s.\n\n", t.pos(fd), fd.Name.Name, coqName, strings.Join(params, " "), t.retType(), body)
}

func genFindMissing(out string) {
	target := filepath.Join(out, "FindMissingSrc.v")
	defer func() {
		if r := recover(); r != nil {
			msg, ok := r.(fmUnsupported)
			if !ok {
				panic(r)
			}
			fmt.Fprintf(os.Stderr, "go2coq: findmissing.go is outside the translated subset: %s\n", string(msg))
			writeIfChanged(target, []byte("(* GENERATED by tools/go2coq (gen_findmissing.go).  findmissing.go could not be translated. *)\nFrom BR Require Import Base.Prelude.\nOpen Scope string_scope.\nDefinition FMSrc_untranslatable : string := "+coqString(strings.ReplaceAll(string(msg), repo+"/", ""))+".\n"))
		}
	}()
	p := loadPkg("cache/disk")
	cachep := loadPkg("cache")
	var w bytes.Buffer
	w.WriteString("(* GENERATED by tools/go2coq (gen_findmissing.go) from /repo/cache/disk/findmissing.go and cache/cache.go on every\n   check run.  DO NOT EDIT.  Statement-level translation; run-time: Model/GoFindMissing.v, Gen/LRUSrc.v. *)\n")
	w.WriteString("From BR Require Import Base.Prelude Gen.Consts Gen.Funcs Model.LRU Model.GoLRU Gen.LRUSrc Model.GoFindMissing.\nOpen Scope string_scope.\nOpen Scope Z_scope.\n\n")

	// cache.LookupKey: return kind.String() + "/" + hash
	lk := cachep.findFunc("", "LookupKey")
	if len(lk.Body.List) != 1 || len(lk.Type.Params.List) != 2 {
		fdie("cache.LookupKey: unexpected shape")
	}
	rs, ok := lk.Body.List[0].(*ast.ReturnStmt)
	if !ok || len(rs.Results) != 1 {
		fdie("cache.LookupKey: unexpected shape")
	}
	kindName := lk.Type.Params.List[0].Names[0].Name
	hashName := lk.Type.Params.List[1].Names[0].Name
	var cat func(e ast.Expr) string
	cat = func(e ast.Expr) string {
		switch x := e.(type) {
		case *ast.BinaryExpr:
			if x.Op == token.ADD {
				return "(" + cat(x.X) + " ++ " + cat(x.Y) + ")"
			}
		case *ast.BasicLit:
			if x.Kind == token.STRING {
				return coqString(strings.Trim(x.Value, "\""))
			}
		case *ast.Ident:
			if x.Name == hashName {
				return "v_" + hashName
			}
		case *ast.CallExpr:
			if cachep.nodeText(x.Fun) == kindName+".String" && len(x.Args) == 0 {
				return "(Gen.EntryKind_String v_" + kindName + ")"
			}
		}
		fdie("cache.LookupKey: unsupported expression %s", cachep.nodeText(e))
		return ""
	}
	fmt.Fprintf(&w, "(* cache/cache.go: LookupKey *)\nDefinition FMSrc_LookupKey (v_%s : Z) (v_%s : string) : string :=\n  %s.\n\n", kindName, hashName, cat(rs.Results[0]))

	for _, fn := range []struct{ recv, name string }{{"", "filterNonNil"}, {"diskCache", "findMissingLocalCAS"}} {
		t := &ftr{p: p, cachep: cachep, fd: p.findFunc(fn.recv, fn.name)}
		w.WriteString(t.function("FMSrc_" + fn.name))
	}
	writeIfChanged(target, w.Bytes())
}
