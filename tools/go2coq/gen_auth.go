package main

// gen_auth.go — C13 (authentication).  Writes coq/Gen/Auth.v:
//   * grpcHealthServiceName (the constant both interceptors use to exempt the health check);
//   * grpc_services: every gRPC service ServeGRPC registers (Register...Server calls in
//     server/grpc.go with the chain of enclosing if-conditions), and for each the full method
//     names and kinds read from the ServiceDesc composite literal the Register function hands to
//     RegisterService (the repository's genproto packages, and the bytestream / health packages
//     in the Go module cache at the versions /repo/go.mod requires);
//   * http_wiring / grpc_wiring: the wrapper-selection structure of startHttpServer and
//     startGrpcServer in main.go — every statement that assigns one of the handler / interceptor
//     variables or registers a mux pattern, in source order, with the chain of enclosing
//     if-conditions (polarity, text) and the statement's normalised source text;
//   * cacheHandler_cert_checks: for every case clause of the method switch in CacheHandler the
//     client-certificate guard that is its first statement (or "" when there is none);
//   * NewHTTPCache_params and the two struct-field initialisers carrying the guard flags;
//   * the normalised source text of the small functions that implement the checks.

import (
	"bytes"
	"fmt"
	"go/ast"
	"go/parser"
	"go/printer"
	"go/token"
	"os"
	"os/exec"
	"path/filepath"
	"sort"
	"strconv"
	"strings"
)

func init() { areas = append(areas, genAuth) }

// ---------------------------------------------------------------------------------------------
// locating imported packages

func authGoModRequires() map[string]string {
	data, err := os.ReadFile(filepath.Join(repo, "go.mod"))
	if err != nil {
		die("auth: %v", err)
	}
	req := map[string]string{}
	for _, line := range strings.Split(string(data), "\n") {
		if i := strings.Index(line, "//"); i >= 0 {
			line = line[:i]
		}
		f := strings.Fields(line)
		if len(f) >= 3 && f[0] == "require" {
			f = f[1:]
		}
		if len(f) == 2 && strings.Contains(f[0], ".") && strings.HasPrefix(f[1], "v") {
			req[f[0]] = f[1]
		}
	}
	return req
}

func authModulePath() string {
	data, _ := os.ReadFile(filepath.Join(repo, "go.mod"))
	for _, line := range strings.Split(string(data), "\n") {
		f := strings.Fields(line)
		if len(f) == 2 && f[0] == "module" {
			return f[1]
		}
	}
	die("auth: no module line in go.mod")
	return ""
}

func authModCache() string {
	if out, err := exec.Command("go", "env", "GOMODCACHE").Output(); err == nil {
		if d := strings.TrimSpace(string(out)); d != "" {
			return d
		}
	}
	if d := os.Getenv("GOMODCACHE"); d != "" {
		return d
	}
	if d := os.Getenv("GOPATH"); d != "" {
		return filepath.Join(strings.Split(d, string(os.PathListSeparator))[0], "pkg", "mod")
	}
	home, _ := os.UserHomeDir()
	return filepath.Join(home, "go", "pkg", "mod")
}

func authEscape(p string) string { // module cache escaping: upper-case letter X -> !x
	var sb strings.Builder
	for _, r := range p {
		if r >= 'A' && r <= 'Z' {
			sb.WriteByte('!')
			sb.WriteRune(r + 'a' - 'A')
		} else {
			sb.WriteRune(r)
		}
	}
	return sb.String()
}

// directory holding the sources of an imported package
func authResolveImport(path string) string {
	mod := authModulePath()
	if path == mod || strings.HasPrefix(path, mod+"/") {
		return filepath.Join(repo, strings.TrimPrefix(strings.TrimPrefix(path, mod), "/"))
	}
	req := authGoModRequires()
	best := ""
	for m := range req {
		if (path == m || strings.HasPrefix(path, m+"/")) && len(m) > len(best) {
			best = m
		}
	}
	if best == "" {
		die("auth: import %s is not provided by any module required in go.mod", path)
	}
	dir := filepath.Join(authModCache(), authEscape(best)+"@"+req[best], strings.TrimPrefix(strings.TrimPrefix(path, best), "/"))
	if st, err := os.Stat(dir); err != nil || !st.IsDir() {
		die("auth: cannot locate the sources of %s (expected %s)", path, dir)
	}
	return dir
}

func authParseDir(dir string) (*token.FileSet, []*ast.File) {
	fset := token.NewFileSet()
	ents, err := os.ReadDir(dir)
	if err != nil {
		die("auth: %v", err)
	}
	var files []*ast.File
	for _, e := range ents {
		n := e.Name()
		if e.IsDir() || !strings.HasSuffix(n, ".go") || strings.HasSuffix(n, "_test.go") || strings.HasPrefix(n, "verif_") {
			continue
		}
		f, err := parser.ParseFile(fset, filepath.Join(dir, n), nil, 0)
		if err != nil {
			die("auth: parse %s: %v", filepath.Join(dir, n), err)
		}
		files = append(files, f)
	}
	if len(files) == 0 {
		die("auth: no Go files in %s", dir)
	}
	return fset, files
}

// ---------------------------------------------------------------------------------------------
// service descriptors

type authMethod struct{ name, kind string }

func authStrLit(e ast.Expr, what string) string {
	bl, ok := e.(*ast.BasicLit)
	if !ok || bl.Kind != token.STRING {
		die("auth: %s is not a string literal", what)
	}
	s, err := strconv.Unquote(bl.Value)
	if err != nil {
		die("auth: %s: %v", what, err)
	}
	return s
}

func authBoolLit(e ast.Expr, what string) bool {
	id, ok := e.(*ast.Ident)
	if !ok || (id.Name != "true" && id.Name != "false") {
		die("auth: %s is not a boolean literal", what)
	}
	return id.Name == "true"
}

// the ServiceDesc handed to RegisterService by func <register> in the package in dir
func authServiceDesc(dir, register string) (string, []authMethod) {
	_, files := authParseDir(dir)
	descName := ""
	for _, f := range files {
		for _, d := range f.Decls {
			fd, ok := d.(*ast.FuncDecl)
			if !ok || fd.Recv != nil || fd.Name.Name != register || fd.Body == nil {
				continue
			}
			ast.Inspect(fd.Body, func(n ast.Node) bool {
				ce, ok := n.(*ast.CallExpr)
				if !ok {
					return true
				}
				se, ok := ce.Fun.(*ast.SelectorExpr)
				if !ok || se.Sel.Name != "RegisterService" || len(ce.Args) != 2 {
					return true
				}
				ue, ok := ce.Args[0].(*ast.UnaryExpr)
				if !ok || ue.Op != token.AND {
					die("auth: %s: RegisterService is not given &<ServiceDesc variable>", register)
				}
				id, ok := ue.X.(*ast.Ident)
				if !ok {
					die("auth: %s: RegisterService is not given &<ServiceDesc variable>", register)
				}
				if descName != "" && descName != id.Name {
					die("auth: %s registers two service descriptors", register)
				}
				descName = id.Name
				return true
			})
		}
	}
	if descName == "" {
		die("auth: function %s (with a RegisterService call) not found in %s", register, dir)
	}
	for _, f := range files {
		for _, d := range f.Decls {
			gd, ok := d.(*ast.GenDecl)
			if !ok || gd.Tok != token.VAR {
				continue
			}
			for _, sp := range gd.Specs {
				vs := sp.(*ast.ValueSpec)
				for i, id := range vs.Names {
					if id.Name != descName || i >= len(vs.Values) {
						continue
					}
					cl, ok := vs.Values[i].(*ast.CompositeLit)
					if !ok {
						die("auth: %s is not a composite literal", descName)
					}
					return authReadDesc(cl, descName)
				}
			}
		}
	}
	die("auth: service descriptor %s not found in %s", descName, dir)
	return "", nil
}

func authReadDesc(cl *ast.CompositeLit, descName string) (string, []authMethod) {
	svc := ""
	var ms []authMethod
	seen := map[string]bool{}
	for _, el := range cl.Elts {
		kv, ok := el.(*ast.KeyValueExpr)
		if !ok {
			die("auth: %s: positional field in ServiceDesc", descName)
		}
		key := kv.Key.(*ast.Ident).Name
		switch key {
		case "ServiceName":
			svc = authStrLit(kv.Value, descName+".ServiceName")
		case "Methods", "Streams":
			list, ok := kv.Value.(*ast.CompositeLit)
			if !ok {
				die("auth: %s.%s is not a composite literal", descName, key)
			}
			for _, m := range list.Elts {
				ml, ok := m.(*ast.CompositeLit)
				if !ok {
					die("auth: %s.%s: unexpected element", descName, key)
				}
				name, cs, ss := "", false, false
				for _, f := range ml.Elts {
					fkv, ok := f.(*ast.KeyValueExpr)
					if !ok {
						die("auth: %s.%s: positional field", descName, key)
					}
					switch fkv.Key.(*ast.Ident).Name {
					case "MethodName", "StreamName":
						name = authStrLit(fkv.Value, descName+" method name")
					case "ClientStreams":
						cs = authBoolLit(fkv.Value, descName+" ClientStreams")
					case "ServerStreams":
						ss = authBoolLit(fkv.Value, descName+" ServerStreams")
					case "Handler":
					default:
						die("auth: %s.%s: unknown field %s", descName, key, fkv.Key.(*ast.Ident).Name)
					}
				}
				if name == "" {
					die("auth: %s.%s: entry without a name", descName, key)
				}
				kind := "unary"
				if key == "Streams" {
					switch {
					case cs && ss:
						kind = "bidi_stream"
					case cs:
						kind = "client_stream"
					case ss:
						kind = "server_stream"
					default:
						die("auth: %s: stream %s is neither client nor server streaming", descName, name)
					}
				}
				if seen[name] {
					die("auth: %s: method %s listed twice", descName, name)
				}
				seen[name] = true
				ms = append(ms, authMethod{name, kind})
			}
		}
	}
	if svc == "" || len(ms) == 0 {
		die("auth: %s: no ServiceName or no methods", descName)
	}
	return svc, ms
}

// ---------------------------------------------------------------------------------------------
// statements under chains of if-conditions

type authCond struct {
	pol  bool
	text string
}

func authText(fset *token.FileSet, n ast.Node) string {
	var buf bytes.Buffer
	if err := (&printer.Config{Mode: printer.RawFormat}).Fprint(&buf, fset, n); err != nil {
		die("auth: print: %v", err)
	}
	return strings.Join(strings.Fields(buf.String()), " ")
}

func authCondText(fset *token.FileSet, s *ast.IfStmt) string {
	t := authText(fset, s.Cond)
	if s.Init != nil {
		t = authText(fset, s.Init) + "; " + t
	}
	return t
}

// walk visits the statements of a function body in source order, descending into blocks and
// if/else chains only; anything else that contains a statement `interesting` accepts makes the
// translator stop (the structure would no longer be a table of conditional assignments).
func authWalk(fset *token.FileSet, stmts []ast.Stmt, conds []authCond, interesting func(ast.Stmt) bool, visit func(ast.Stmt, []authCond)) {
	for _, s := range stmts {
		switch x := s.(type) {
		case *ast.IfStmt:
			c := authCondText(fset, x)
			authWalk(fset, x.Body.List, append(append([]authCond{}, conds...), authCond{true, c}), interesting, visit)
			neg := append(append([]authCond{}, conds...), authCond{false, c})
			switch e := x.Else.(type) {
			case nil:
			case *ast.BlockStmt:
				authWalk(fset, e.List, neg, interesting, visit)
			case *ast.IfStmt:
				authWalk(fset, []ast.Stmt{e}, neg, interesting, visit)
			}
		case *ast.BlockStmt:
			authWalk(fset, x.List, conds, interesting, visit)
		case *ast.AssignStmt, *ast.DeclStmt, *ast.ExprStmt, *ast.ReturnStmt:
			if interesting(s) {
				visit(s, conds)
			}
		default:
			// for / switch / select / go / defer ...: must not hide an interesting statement
			found := false
			ast.Inspect(s, func(n ast.Node) bool {
				if _, isLit := n.(*ast.FuncLit); isLit {
					return false
				}
				if st, ok := n.(ast.Stmt); ok && st != s && interesting(st) {
					found = true
				}
				return true
			})
			if found {
				die("auth: %s: a handler/interceptor assignment sits inside a %T; the wiring is no longer a table of conditional assignments", fset.Position(s.Pos()), s)
			}
		}
	}
}

func authAssigned(s ast.Stmt) []string {
	var out []string
	switch x := s.(type) {
	case *ast.AssignStmt:
		for _, l := range x.Lhs {
			if id, ok := l.(*ast.Ident); ok {
				out = append(out, id.Name)
			}
			if st, ok := l.(*ast.StarExpr); ok {
				if id, ok := st.X.(*ast.Ident); ok {
					out = append(out, "*"+id.Name)
				}
			}
		}
	case *ast.DeclStmt:
		if gd, ok := x.Decl.(*ast.GenDecl); ok && gd.Tok == token.VAR {
			for _, sp := range gd.Specs {
				for _, id := range sp.(*ast.ValueSpec).Names {
					out = append(out, id.Name)
				}
			}
		}
	}
	return out
}

func authCallOn(s ast.Stmt, recv string, sels ...string) string {
	es, ok := s.(*ast.ExprStmt)
	if !ok {
		return ""
	}
	ce, ok := es.X.(*ast.CallExpr)
	if !ok {
		return ""
	}
	se, ok := ce.Fun.(*ast.SelectorExpr)
	if !ok {
		return ""
	}
	id, ok := se.X.(*ast.Ident)
	if !ok || id.Name != recv {
		return ""
	}
	for _, n := range sels {
		if se.Sel.Name == n {
			return recv + "." + n
		}
	}
	return ""
}

func authFindFunc(files []*ast.File, recv, name string) *ast.FuncDecl {
	for _, f := range files {
		for _, d := range f.Decls {
			fd, ok := d.(*ast.FuncDecl)
			if !ok || fd.Name.Name != name || fd.Body == nil {
				continue
			}
			r := ""
			if fd.Recv != nil && len(fd.Recv.List) == 1 {
				t := fd.Recv.List[0].Type
				if st, ok := t.(*ast.StarExpr); ok {
					t = st.X
				}
				if id, ok := t.(*ast.Ident); ok {
					r = id.Name
				}
			}
			if r == recv {
				return fd
			}
		}
	}
	die("auth: function %s.%s not found", recv, name)
	return nil
}

func authFuncText(fset *token.FileSet, fd *ast.FuncDecl) string {
	doc := fd.Doc
	fd.Doc = nil
	t := authText(fset, fd)
	fd.Doc = doc
	return t
}

func authCoqConds(cs []authCond) string {
	var xs []string
	for _, c := range cs {
		p := "false"
		if c.pol {
			p = "true"
		}
		xs = append(xs, fmt.Sprintf("(%s, %s)", p, coqString(c.text)))
	}
	return "[" + strings.Join(xs, "; ") + "]"
}

// wiring table of one function of package main
func authWiring(w *bytes.Buffer, coqName string, fset *token.FileSet, fd *ast.FuncDecl, tracked map[string]bool, recv string, sels ...string) {
	interesting := func(s ast.Stmt) bool {
		for _, n := range authAssigned(s) {
			if tracked[n] {
				return true
			}
		}
		return recv != "" && authCallOn(s, recv, sels...) != ""
	}
	type row struct {
		target string
		conds  []authCond
		text   string
	}
	var rows []row
	authWalk(fset, fd.Body.List, nil, interesting, func(s ast.Stmt, conds []authCond) {
		target := authCallOn(s, recv, sels...)
		if target == "" {
			var ts []string
			for _, n := range authAssigned(s) {
				if tracked[n] {
					ts = append(ts, n)
				}
			}
			target = strings.Join(ts, ",")
		}
		rows = append(rows, row{target, conds, authText(fset, s)})
	})
	if len(rows) == 0 {
		die("auth: no wiring statements found in %s", fd.Name.Name)
	}
	fmt.Fprintf(w, "(* main.go %s: (assigned variable or call, enclosing if-conditions (polarity, text), statement) in source order *)\n", fd.Name.Name)
	fmt.Fprintf(w, "Definition %s : list (string * list (bool * string) * string) := [\n", coqName)
	for i, r := range rows {
		sep := ";"
		if i == len(rows)-1 {
			sep = ""
		}
		fmt.Fprintf(w, "  (%s, %s,\n     %s)%s\n", coqString(r.target), authCoqConds(r.conds), coqString(r.text), sep)
	}
	fmt.Fprintf(w, "].\n\n")
}

// ---------------------------------------------------------------------------------------------

func genAuth(out string) {
	var w bytes.Buffer
	w.WriteString(header)
	server := load("server")
	w.WriteString("(* server/grpc.go: the method name both pairs of interceptors exempt from authentication *)\n")
	server.emitConst(&w, "grpcHealthServiceName", "grpcHealthServiceName")
	w.WriteString("\n")

	// ---- services registered by ServeGRPC
	sfset := token.NewFileSet()
	grpcFile, err := parser.ParseFile(sfset, filepath.Join(repo, "server", "grpc.go"), nil, 0)
	if err != nil {
		die("auth: %v", err)
	}
	imports := map[string]string{}
	for _, im := range grpcFile.Imports {
		p, _ := strconv.Unquote(im.Path.Value)
		name := filepath.Base(p)
		if im.Name != nil {
			name = im.Name.Name
		}
		imports[name] = p
	}
	serve := authFindFunc([]*ast.File{grpcFile}, "", "ServeGRPC")
	isRegister := func(s ast.Stmt) (pkg, fn string) {
		es, ok := s.(*ast.ExprStmt)
		if !ok {
			return "", ""
		}
		ce, ok := es.X.(*ast.CallExpr)
		if !ok {
			return "", ""
		}
		se, ok := ce.Fun.(*ast.SelectorExpr)
		if !ok {
			return "", ""
		}
		id, ok := se.X.(*ast.Ident)
		if !ok || !strings.HasPrefix(se.Sel.Name, "Register") || !strings.HasSuffix(se.Sel.Name, "Server") {
			return "", ""
		}
		return id.Name, se.Sel.Name
	}
	type svcRow struct {
		call    string
		conds   []authCond
		name    string
		methods []authMethod
	}
	var svcs []svcRow
	authWalk(sfset, serve.Body.List, nil, func(s ast.Stmt) bool { p, _ := isRegister(s); return p != "" }, func(s ast.Stmt, conds []authCond) {
		p, fn := isRegister(s)
		ip, ok := imports[p]
		if !ok {
			die("auth: ServeGRPC calls %s.%s but %s is not an imported package", p, fn, p)
		}
		name, ms := authServiceDesc(authResolveImport(ip), fn)
		svcs = append(svcs, svcRow{p + "." + fn, conds, name, ms})
	})
	if len(svcs) == 0 {
		die("auth: ServeGRPC registers no services")
	}
	// any other route by which a service could be registered must be noticed
	ast.Inspect(serve.Body, func(n ast.Node) bool {
		if se, ok := n.(*ast.SelectorExpr); ok && se.Sel.Name == "RegisterService" {
			die("auth: ServeGRPC calls RegisterService directly; not supported")
		}
		return true
	})
	nreg := 0
	ast.Inspect(serve.Body, func(n ast.Node) bool {
		if es, ok := n.(*ast.ExprStmt); ok {
			if p, _ := isRegister(es); p != "" {
				nreg++
			}
		}
		return true
	})
	if nreg != len(svcs) {
		die("auth: ServeGRPC has %d Register...Server calls but %d were reached through if/else chains", nreg, len(svcs))
	}
	w.WriteString("(* server/grpc.go ServeGRPC: (register call, enclosing if-conditions, service name, [(full method name, kind)]);\n   method tables from the ServiceDesc literals in /repo/genproto and in the module cache (bytestream, grpc health) *)\n")
	w.WriteString("Definition grpc_services : list (string * list (bool * string) * string * list (string * string)) := [\n")
	for i, s := range svcs {
		var ms []string
		for _, m := range s.methods {
			ms = append(ms, fmt.Sprintf("(%s, %s)", coqString("/"+s.name+"/"+m.name), coqString(m.kind)))
		}
		sep := ";"
		if i == len(svcs)-1 {
			sep = ""
		}
		fmt.Fprintf(&w, "  (%s, %s, %s,\n    [%s])%s\n", coqString(s.call), authCoqConds(s.conds), coqString(s.name), strings.Join(ms, ";\n     "), sep)
	}
	w.WriteString("].\n\n")

	// ---- main.go wiring
	mfset := token.NewFileSet()
	mainFile, err := parser.ParseFile(mfset, filepath.Join(repo, "main.go"), nil, 0)
	if err != nil {
		die("auth: %v", err)
	}
	mfiles := []*ast.File{mainFile}
	authWiring(&w, "http_wiring", mfset, authFindFunc(mfiles, "", "startHttpServer"),
		map[string]bool{"cacheHandler": true, "statusHandler": true, "middlewareHandler": true, "ch": true, "h": true,
			"checkClientCertForReads": true, "checkClientCertForWrites": true, "basicAuthenticator": true, "ldapAuthenticator": true, "mux": true, "*httpServer": true},
		"mux", "Handle", "HandleFunc")
	authWiring(&w, "grpc_wiring", mfset, authFindFunc(mfiles, "", "startGrpcServer"),
		map[string]bool{"streamInterceptors": true, "unaryInterceptors": true, "opts": true, "gba": true, "it": true, "*grpcServer": true}, "")
	// how run() obtains htpasswdSecrets (startGrpcServer tests it against nil)
	authWiring(&w, "run_wiring", mfset, authFindFunc(mfiles, "", "run"), map[string]bool{"htpasswdSecrets": true}, "")
	for _, fn := range []string{"basicAuthWrapper", "unauthenticatedReadWrapper"} {
		fmt.Fprintf(&w, "Definition src_main_%s : string :=\n  %s.\n", fn, coqString(authFuncText(mfset, authFindFunc(mfiles, "", fn))))
	}
	w.WriteString("\n")

	// ---- server/http.go: the client-certificate guards
	hfset := token.NewFileSet()
	httpFile, err := parser.ParseFile(hfset, filepath.Join(repo, "server", "http.go"), nil, 0)
	if err != nil {
		die("auth: %v", err)
	}
	hfiles := []*ast.File{httpFile}
	ch := authFindFunc(hfiles, "httpCache", "CacheHandler")
	var sw *ast.SwitchStmt
	for _, s := range ch.Body.List {
		if x, ok := s.(*ast.SwitchStmt); ok {
			if sw != nil {
				die("auth: CacheHandler has two top-level switch statements")
			}
			sw = x
		}
	}
	if sw == nil {
		die("auth: CacheHandler has no top-level switch on the method")
	}
	swHead := ""
	if sw.Init != nil {
		swHead = authText(hfset, sw.Init) + "; "
	}
	if sw.Tag != nil {
		swHead += authText(hfset, sw.Tag)
	}
	fmt.Fprintf(&w, "(* server/http.go CacheHandler: the switch header, then per case clause (labels, guard) where guard is the\n   condition of the clause's FIRST statement when that is an if mentioning checkClientCert..., else \"\" *)\n")
	fmt.Fprintf(&w, "Definition cacheHandler_switch : string := %s.\n", coqString(swHead))
	// statements before the switch must not touch the cache: record the calls on h.cache (none expected)
	var pre []string
	for _, s := range ch.Body.List {
		if s == ast.Stmt(sw) {
			break
		}
		ast.Inspect(s, func(n ast.Node) bool {
			if se, ok := n.(*ast.SelectorExpr); ok {
				if in, ok := se.X.(*ast.SelectorExpr); ok && in.Sel.Name == "cache" {
					pre = append(pre, authText(hfset, se))
				}
			}
			return true
		})
	}
	sort.Strings(pre)
	var preq []string
	for _, p := range pre {
		preq = append(preq, coqString(p))
	}
	fmt.Fprintf(&w, "Definition cacheHandler_cache_calls_before_switch : list string := [%s].\n", strings.Join(preq, "; "))
	w.WriteString("Definition cacheHandler_cert_checks : list (string * string) := [\n")
	for i, c := range sw.Body.List {
		cc := c.(*ast.CaseClause)
		label := "default"
		if cc.List != nil {
			var ls []string
			for _, e := range cc.List {
				ls = append(ls, authText(hfset, e))
			}
			label = strings.Join(ls, ", ")
		}
		guard := ""
		if len(cc.Body) > 0 {
			if is, ok := cc.Body[0].(*ast.IfStmt); ok {
				t := authCondText(hfset, is)
				if strings.Contains(t, "checkClientCert") {
					// the guarded block must end the request
					if len(is.Body.List) == 0 {
						die("auth: empty guard block in CacheHandler")
					}
					if _, ok := is.Body.List[len(is.Body.List)-1].(*ast.ReturnStmt); !ok {
						die("auth: the client-certificate guard for %s in CacheHandler does not return", label)
					}
					guard = t
				}
			}
		}
		sep := ";"
		if i == len(sw.Body.List)-1 {
			sep = ""
		}
		fmt.Fprintf(&w, "  (%s, %s)%s\n", coqString(label), coqString(guard), sep)
	}
	w.WriteString("].\n")
	nh := authFindFunc(hfiles, "", "NewHTTPCache")
	var params []string
	for _, f := range nh.Type.Params.List {
		for _, n := range f.Names {
			params = append(params, coqString(n.Name))
		}
	}
	fmt.Fprintf(&w, "Definition NewHTTPCache_params : list string := [%s].\n", strings.Join(params, "; "))
	var inits []string
	ast.Inspect(nh.Body, func(n ast.Node) bool {
		if kv, ok := n.(*ast.KeyValueExpr); ok {
			if id, ok := kv.Key.(*ast.Ident); ok && strings.HasPrefix(id.Name, "checkClientCert") {
				inits = append(inits, coqString(authText(hfset, kv)))
			}
		}
		return true
	})
	fmt.Fprintf(&w, "Definition NewHTTPCache_cert_fields : list string := [%s].\n", strings.Join(inits, "; "))
	for _, fn := range []string{"hasValidClientCert", "VerifyClientCertHandler"} {
		fmt.Fprintf(&w, "Definition src_http_%s : string :=\n  %s.\n", fn, coqString(authFuncText(hfset, authFindFunc(hfiles, "httpCache", fn))))
	}
	w.WriteString("\n")

	// ---- server/grpc.go, server/grpc_basic_auth.go: the interceptors
	for _, fn := range []string{"GRPCmTLSStreamServerInterceptor", "GRPCmTLSUnaryServerInterceptor", "checkGRPCClientCert"} {
		fmt.Fprintf(&w, "Definition src_grpc_%s : string :=\n  %s.\n", fn, coqString(authFuncText(sfset, authFindFunc([]*ast.File{grpcFile}, "", fn))))
	}
	bfset := token.NewFileSet()
	baFile, err := parser.ParseFile(bfset, filepath.Join(repo, "server", "grpc_basic_auth.go"), nil, 0)
	if err != nil {
		die("auth: %v", err)
	}
	for _, fn := range [][2]string{{"GrpcBasicAuth", "StreamServerInterceptor"}, {"GrpcBasicAuth", "UnaryServerInterceptor"}, {"", "getLogin"}, {"GrpcBasicAuth", "allowed"}} {
		fmt.Fprintf(&w, "Definition src_basic_%s : string :=\n  %s.\n", fn[1], coqString(authFuncText(bfset, authFindFunc([]*ast.File{baFile}, fn[0], fn[1]))))
	}

	// ---- config/tls.go: the ClientAuth policy of the mTLS listener
	tfset := token.NewFileSet()
	tlsFile, err := parser.ParseFile(tfset, filepath.Join(repo, "config", "tls.go"), nil, 0)
	if err != nil {
		die("auth: %v", err)
	}
	var clientAuth []string
	ast.Inspect(tlsFile, func(n ast.Node) bool {
		if kv, ok := n.(*ast.KeyValueExpr); ok {
			if id, ok := kv.Key.(*ast.Ident); ok && (id.Name == "ClientAuth" || id.Name == "ClientCAs") {
				clientAuth = append(clientAuth, coqString(authText(tfset, kv)))
			}
		}
		return true
	})
	fmt.Fprintf(&w, "\n(* config/tls.go: every ClientAuth / ClientCAs field initialiser of a tls.Config *)\nDefinition tls_client_auth : list string := [%s].\n", strings.Join(clientAuth, "; "))

	writeIfChanged(filepath.Join(out, "Auth.v"), w.Bytes())
}
