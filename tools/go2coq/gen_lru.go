package main

// Statement-level translation of cache/disk/lru.go (SizedLRU) into Gallina: Gen/LRUSrc.v.
//
// Every method listed in lruFuncs is translated statement by statement into a function over the
// record Model/GoLRU.gst (the struct's fields; container/list, the Go map and the eviction queue are
// the primitives defined there).  int64/uint64 arithmetic is written with wrap64/wrapU64, `for` loops
// become GoLRU.while with explicit fuel, an early `return` inside a loop is GoLRU.Return.  Metrics and
// logging statements are dropped (isNoiseStmt).  Anything outside the supported subset stops the
// translator with an error naming the position: the obligation "lru.go is translated and refines
// Model/LRU.v" (Proofs/LRU_refine.v) is then broken, which the check reports.
//
// Not translated (primitives, source text pinned in Bridge_Disk): appendEvictionToQueue (channel
// select + atomic add), performQueuedEvictions (channel receive + callback), NewSizedLRU and
// RegisterMetrics (construction, prometheus).

import (
	"bytes"
	"fmt"
	"go/ast"
	"go/token"
	"go/types"
	"os"
	"path/filepath"
	"strings"
)

func init() { areas = append(areas, genLRU) }

type lkind int

const (
	kNone lkind = iota
	kZ
	kBool
	kString
	kPtr  // *list.Element that may be nil: option nat
	kElem // *list.Element known to be non-nil: nat
	kEntry
	kItem
	kErr
)

var lruFields = map[string]bool{"currentSize": true, "uncompressedSize": true, "reservedSize": true, "maxSize": true,
	"totalDiskSizePeak": true, "maxSizeHardLimit": true}

type lfun struct {
	name    string
	fd      *ast.FuncDecl
	params  []string
	pkinds  []lkind
	results []lkind
	fueled  bool
}

type ltrans struct {
	p     *pkg
	f     *lfun
	funcs map[string]*lfun
	recv  string
}

func (t *ltrans) pos(n ast.Node) string { return t.p.fset.Position(n.Pos()).String() }

func kindOfType(ty types.Type) lkind {
	if ty == nil {
		return kNone
	}
	s := ty.String()
	switch {
	case s == "int64" || s == "uint64" || s == "int" || s == "untyped int":
		return kZ
	case s == "bool" || s == "untyped bool":
		return kBool
	case s == "string" || s == "untyped string":
		return kString
	case s == "error":
		return kErr
	case strings.HasPrefix(s, "*") && strings.HasSuffix(s, "list.Element"):
		return kPtr
	case strings.HasPrefix(s, "*") && strings.HasSuffix(s, ".entry"):
		return kEntry
	case strings.HasSuffix(s, ".lruItem"):
		return kItem
	}
	return kNone
}

func coqKind(k lkind) string {
	switch k {
	case kZ:
		return "Z"
	case kBool:
		return "bool"
	case kString:
		return "string"
	case kPtr:
		return "option nat"
	case kElem:
		return "nat"
	case kEntry:
		return "entry"
	case kItem:
		return "item"
	case kErr:
		return "option errc"
	}
	return "?"
}

type lenv map[string]lkind

func (e lenv) clone() lenv {
	n := lenv{}
	for k, v := range e {
		n[k] = v
	}
	return n
}

func (t *ltrans) isRecv(e ast.Expr) bool {
	id, ok := e.(*ast.Ident)
	return ok && id.Name == t.recv
}

// c.ll.<M>(args)
func (t *ltrans) llCall(ce *ast.CallExpr) (string, bool) {
	se, ok := ce.Fun.(*ast.SelectorExpr)
	if !ok {
		return "", false
	}
	in, ok := se.X.(*ast.SelectorExpr)
	if !ok || !t.isRecv(in.X) || in.Sel.Name != "ll" {
		return "", false
	}
	return se.Sel.Name, true
}

// c.<method>(args) for a translated method or primitive
func (t *ltrans) selfCall(ce *ast.CallExpr) (string, bool) {
	se, ok := ce.Fun.(*ast.SelectorExpr)
	if !ok || !t.isRecv(se.X) {
		return "", false
	}
	return se.Sel.Name, true
}

func (t *ltrans) expr(e ast.Expr, env lenv) string {
	tv, hasT := t.p.info.Types[e]
	if hasT && tv.Value != nil {
		return constExpr(tv)
	}
	switch x := e.(type) {
	case *ast.ParenExpr:
		return t.expr(x.X, env)
	case *ast.Ident:
		switch x.Name {
		case "true", "false":
			return x.Name
		case "nil":
			return "None"
		}
		if _, ok := env[x.Name]; !ok {
			ldie("%s: free identifier %s", t.pos(e), x.Name)
		}
		return "v_" + x.Name
	case *ast.UnaryExpr:
		switch x.Op {
		case token.NOT:
			return "(negb " + t.expr(x.X, env) + ")"
		case token.SUB:
			w := wrapFor(tv.Type)
			if w == "" {
				ldie("%s: unary minus on unsupported type", t.pos(e))
			}
			return fmt.Sprintf("(%s (- %s))", w, t.expr(x.X, env))
		case token.AND:
			// &entry{k, v}: the entry itself (entries are values in the model; see GoLRU.v on aliasing)
			if cl, ok := x.X.(*ast.CompositeLit); ok {
				return t.expr(cl, env)
			}
		}
	case *ast.CompositeLit:
		switch kindOfType(tv.Type) {
		case kItem:
			if len(x.Elts) == 0 {
				return "zero_item"
			}
		}
		if id, ok := x.Type.(*ast.Ident); ok && id.Name == "entry" && len(x.Elts) == 2 {
			if _, kv := x.Elts[0].(*ast.KeyValueExpr); !kv {
				return fmt.Sprintf("(mkEntry %s %s)", t.expr(x.Elts[0], env), t.expr(x.Elts[1], env))
			}
		}
	case *ast.BinaryExpr:
		a, b := t.expr(x.X, env), t.expr(x.Y, env)
		xk := kindOfType(t.p.info.Types[x.X].Type)
		switch x.Op {
		case token.LAND:
			return fmt.Sprintf("(%s && %s)", a, b)
		case token.LOR:
			return fmt.Sprintf("(%s || %s)", a, b)
		}
		if xk == kString {
			switch x.Op {
			case token.EQL:
				return fmt.Sprintf("(String.eqb %s %s)", a, b)
			case token.NEQ:
				return fmt.Sprintf("(negb (String.eqb %s %s))", a, b)
			}
			ldie("%s: unsupported string operator", t.pos(e))
		}
		if xk != kZ {
			ldie("%s: operator %s on unsupported operand type %v", t.pos(e), x.Op, t.p.info.Types[x.X].Type)
		}
		switch x.Op {
		case token.EQL:
			return fmt.Sprintf("(%s =? %s)", a, b)
		case token.NEQ:
			return fmt.Sprintf("(negb (%s =? %s))", a, b)
		case token.LSS:
			return fmt.Sprintf("(%s <? %s)", a, b)
		case token.LEQ:
			return fmt.Sprintf("(%s <=? %s)", a, b)
		case token.GTR:
			return fmt.Sprintf("(%s >? %s)", a, b)
		case token.GEQ:
			return fmt.Sprintf("(%s >=? %s)", a, b)
		}
		w := wrapFor(tv.Type)
		if w == "" || w == "id" {
			ldie("%s: arithmetic on unsupported type %v", t.pos(e), tv.Type)
		}
		switch x.Op {
		case token.ADD:
			return fmt.Sprintf("(%s (%s + %s))", w, a, b)
		case token.SUB:
			return fmt.Sprintf("(%s (%s - %s))", w, a, b)
		case token.MUL:
			return fmt.Sprintf("(%s (%s * %s))", w, a, b)
		case token.AND:
			return fmt.Sprintf("(%s (Z.land %s %s))", w, a, b)
		}
		ldie("%s: unsupported operator %s", t.pos(e), x.Op)
	case *ast.TypeAssertExpr:
		// e.Value.(*entry)
		if se, ok := x.X.(*ast.SelectorExpr); ok && se.Sel.Name == "Value" && kindOfType(tv.Type) == kEntry {
			if id, ok := se.X.(*ast.Ident); ok {
				if env[id.Name] != kElem {
					ldie("%s: %s.Value read through an element that may be nil", t.pos(e), id.Name)
				}
				return fmt.Sprintf("(elem_value c v_%s)", id.Name)
			}
		}
	case *ast.SelectorExpr:
		if t.isRecv(x.X) {
			if lruFields[x.Sel.Name] {
				return fmt.Sprintf("(g_%s c)", x.Sel.Name)
			}
			ldie("%s: unsupported field c.%s", t.pos(e), x.Sel.Name)
		}
		base := t.expr(x.X, env)
		switch kindOfType(t.p.info.Types[x.X].Type) {
		case kItem:
			switch x.Sel.Name {
			case "size":
				return fmt.Sprintf("(LRU.size %s)", base)
			case "sizeOnDisk":
				return fmt.Sprintf("(sizeOnDisk %s)", base)
			case "random":
				return fmt.Sprintf("(random %s)", base)
			case "legacy":
				return fmt.Sprintf("(legacy %s)", base)
			}
		case kEntry:
			switch x.Sel.Name {
			case "key":
				return fmt.Sprintf("(ekey %s)", base)
			case "value":
				return fmt.Sprintf("(evalue %s)", base)
			}
		}
		ldie("%s: unsupported selector .%s", t.pos(e), x.Sel.Name)
	case *ast.CallExpr:
		if id, ok := x.Fun.(*ast.Ident); ok {
			switch id.Name {
			case "int64":
				return fmt.Sprintf("(wrap64 %s)", t.expr(x.Args[0], env))
			case "uint64":
				return fmt.Sprintf("(wrapU64 %s)", t.expr(x.Args[0], env))
			case "len":
				if se, ok := x.Args[0].(*ast.SelectorExpr); ok && t.isRecv(se.X) && se.Sel.Name == "cache" {
					return "(Z.of_nat (List.length (g_cache c)))"
				}
			case "roundUp4k", "sumLargerThan":
				var args []string
				for _, a := range x.Args {
					args = append(args, t.expr(a, env))
				}
				return fmt.Sprintf("(Gen.%s %s)", id.Name, strings.Join(args, " "))
			}
		}
		// c.queuedEvictionsSize.Load()
		if se, ok := x.Fun.(*ast.SelectorExpr); ok && se.Sel.Name == "Load" && len(x.Args) == 0 {
			if in, ok := se.X.(*ast.SelectorExpr); ok && t.isRecv(in.X) && in.Sel.Name == "queuedEvictionsSize" {
				return "(g_queuedEvictionsSize c)"
			}
		}
		if m, ok := t.llCall(x); ok {
			switch m {
			case "Len":
				return "(ll_Len c)"
			case "Back":
				return "(ll_Back c)"
			}
		}
	}
	ldie("%s: unsupported expression %s", t.pos(e), t.p.nodeText(e))
	return ""
}

func constExpr(tv types.TypeAndValue) string {
	s := tv.Value.ExactString()
	switch kindOfType(tv.Type) {
	case kZ:
		return coqZ(s)
	case kBool:
		return s
	case kString:
		return coqString(strings.Trim(s, "\""))
	}
	return coqZ(s)
}

// the value a `return` produces, by the function's result kinds
func (t *ltrans) retValue(rs []ast.Expr, env lenv) string {
	if len(rs) != len(t.f.results) {
		ldie("%s: naked or mismatched return", t.pos(t.f.fd))
	}
	var vs []string
	for i, r := range rs {
		switch t.f.results[i] {
		case kErr:
			vs = append(vs, t.errValue(r))
		case kPtr:
			if id, ok := r.(*ast.Ident); ok && id.Name != "nil" && env[id.Name] == kElem {
				vs = append(vs, fmt.Sprintf("(Some v_%s)", id.Name))
			} else {
				vs = append(vs, t.expr(r, env))
			}
		default:
			vs = append(vs, t.expr(r, env))
		}
	}
	if len(vs) == 1 {
		return vs[0]
	}
	return "(" + strings.Join(vs, ", ") + ")"
}

// errors are classified the way the callers see them: nil, a *cache.Error with an HTTP code,
// internalErr(..) and plain errors (fmt.Errorf: answered as 500)
func (t *ltrans) errValue(e ast.Expr) string {
	if id, ok := e.(*ast.Ident); ok && id.Name == "nil" {
		return "None"
	}
	if ue, ok := e.(*ast.UnaryExpr); ok && ue.Op == token.AND {
		if cl, ok := ue.X.(*ast.CompositeLit); ok && t.p.nodeText(cl.Type) == "cache.Error" {
			for _, el := range cl.Elts {
				if kv, ok := el.(*ast.KeyValueExpr); ok && t.p.nodeText(kv.Key) == "Code" {
					switch t.p.nodeText(kv.Value) {
					case "http.StatusBadRequest":
						return "(Some EBadRequest)"
					case "http.StatusInsufficientStorage":
						return "(Some EInsufficient)"
					case "http.StatusInternalServerError":
						return "(Some EInternal)"
					case "http.StatusNotFound":
						return "(Some ENotFound)"
					}
				}
			}
		}
	}
	if ce, ok := e.(*ast.CallExpr); ok {
		switch t.p.nodeText(ce.Fun) {
		case "internalErr", "fmt.Errorf", "errors.New":
			return "(Some EInternal)"
		case "badReqErr":
			return "(Some EBadRequest)"
		}
	}
	ldie("%s: unsupported error value %s", t.pos(e), t.p.nodeText(e))
	return ""
}

type lctx struct {
	inLoop bool
}

func (t *ltrans) ret(v string, cx lctx) string {
	full := "c"
	if v != "" {
		full = fmt.Sprintf("(c, %s)", v)
	}
	if cx.inLoop {
		return "Return " + full
	}
	if t.f.fueled {
		return "Some " + full
	}
	return full
}

func assignedOuter(body *ast.BlockStmt) []string {
	declared := map[string]bool{}
	var outs []string
	ast.Inspect(body, func(n ast.Node) bool {
		if as, ok := n.(*ast.AssignStmt); ok {
			for _, l := range as.Lhs {
				if id, ok := l.(*ast.Ident); ok {
					if as.Tok == token.DEFINE {
						declared[id.Name] = true
					} else if !declared[id.Name] {
						outs = append(outs, id.Name)
					}
				}
			}
		}
		return true
	})
	return outs
}

// a call statement with an effect on c; returns the binder pattern and the right-hand side
func (t *ltrans) effectCall(ce *ast.CallExpr, env lenv) (rhs string, resKinds []lkind, needFuel bool, ok bool) {
	arg := func(i int) string { return t.expr(ce.Args[i], env) }
	elemArg := func(i int) string {
		id, isId := ce.Args[i].(*ast.Ident)
		if !isId || env[id.Name] != kElem {
			ldie("%s: list element argument that may be nil", t.pos(ce))
		}
		return "v_" + id.Name
	}
	if m, isLL := t.llCall(ce); isLL {
		switch m {
		case "MoveToFront":
			return "ll_MoveToFront c " + elemArg(0), nil, false, true
		case "Remove":
			return "ll_Remove c " + elemArg(0), nil, false, true
		case "PushFront":
			return "ll_PushFront c " + arg(0), []lkind{kElem}, false, true
		}
		return "", nil, false, false
	}
	if id, isId := ce.Fun.(*ast.Ident); isId && id.Name == "delete" && len(ce.Args) == 2 {
		if se, isSe := ce.Args[0].(*ast.SelectorExpr); isSe && t.isRecv(se.X) && se.Sel.Name == "cache" {
			return "map_delete c " + arg(1), nil, false, true
		}
	}
	if m, isSelf := t.selfCall(ce); isSelf {
		if m == "appendEvictionToQueue" {
			return "appendEvictionToQueue c " + arg(0), nil, false, true
		}
		if f, known := t.funcs[m]; known {
			var args []string
			for i := range ce.Args {
				if f.pkinds[i] == kElem {
					args = append(args, elemArg(i))
				} else {
					args = append(args, arg(i))
				}
			}
			call := "LRUSrc_" + m
			if f.fueled {
				call += " fuel"
			}
			return strings.TrimSpace(call + " c " + strings.Join(args, " ")), f.results, f.fueled, true
		}
	}
	return "", nil, false, false
}

func (t *ltrans) bindCall(ce *ast.CallExpr, lhs []string, env lenv, rest func() string, ind string) (string, bool) {
	rhs, rk, fueled, ok := t.effectCall(ce, env)
	if !ok {
		return "", false
	}
	pat := "c"
	if len(rk) > 0 {
		var names []string
		for i := range rk {
			if i < len(lhs) && lhs[i] != "_" {
				names = append(names, "v_"+lhs[i])
				env[lhs[i]] = rk[i]
			} else {
				names = append(names, "_")
			}
		}
		pat = "'(c, " + strings.Join(names, ", ") + ")"
	}
	if fueled {
		if !t.f.fueled {
			ldie("%s: call of a looping function from a function without fuel", t.pos(ce))
		}
		return fmt.Sprintf("match %s with\n%s| None => None\n%s| Some %s =>\n%s  %s\n%send", rhs, ind, ind, strings.TrimPrefix(pat, "'"), ind, rest(), ind), true
	}
	return fmt.Sprintf("let %s := %s in\n%s%s", pat, rhs, ind, rest()), true
}

func blockOf(s ast.Stmt) []ast.Stmt {
	if s == nil {
		return nil
	}
	if b, ok := s.(*ast.BlockStmt); ok {
		return b.List
	}
	return []ast.Stmt{s}
}

func (t *ltrans) stmts(ss []ast.Stmt, env lenv, cx lctx, ind string) string {
	for len(ss) > 0 && isNoiseStmt(ss[0]) {
		ss = ss[1:]
	}
	if len(ss) == 0 {
		if cx.inLoop {
			return "Next c"
		}
		if len(t.f.results) != 0 {
			ldie("%s: control reaches the end of %s without a return", t.pos(t.f.fd), t.f.name)
		}
		return t.ret("", cx)
	}
	s, rest := ss[0], ss[1:]
	next := func() string { return t.stmts(rest, env, cx, ind) }
	switch x := s.(type) {
	case *ast.ReturnStmt:
		if len(x.Results) == 0 {
			if len(t.f.results) != 0 {
				ldie("%s: naked return", t.pos(s))
			}
			return t.ret("", cx)
		}
		return t.ret(t.retValue(x.Results, env), cx)

	case *ast.ExprStmt:
		if ce, ok := x.X.(*ast.CallExpr); ok {
			if out, ok := t.bindCall(ce, nil, env, next, ind); ok {
				return out
			}
		}

	case *ast.IncDecStmt:

	case *ast.AssignStmt:
		// calls with an effect on c
		if len(x.Rhs) == 1 {
			if ce, ok := x.Rhs[0].(*ast.CallExpr); ok {
				var lhs []string
				allId := true
				for _, l := range x.Lhs {
					if id, ok := l.(*ast.Ident); ok {
						lhs = append(lhs, id.Name)
					} else {
						allId = false
					}
				}
				if allId {
					if out, ok := t.bindCall(ce, lhs, env, next, ind); ok {
						return out
					}
				}
			}
		}
		if len(x.Lhs) != 1 || len(x.Rhs) != 1 {
			ldie("%s: unsupported multi-assignment", t.pos(s))
		}
		rhsE := x.Rhs[0]
		switch l := x.Lhs[0].(type) {
		case *ast.Ident:
			k := kindOfType(t.p.info.Types[rhsE].Type)
			if k == kNone {
				ldie("%s: local of unsupported type %v", t.pos(s), t.p.info.Types[rhsE].Type)
			}
			var rhs string
			switch x.Tok {
			case token.DEFINE, token.ASSIGN:
				rhs = t.expr(rhsE, env)
				if x.Tok == token.ASSIGN {
					if _, ok := env[l.Name]; !ok {
						ldie("%s: assignment to unknown local %s", t.pos(s), l.Name)
					}
					if env[l.Name] == kEntry || env[l.Name] == kElem || env[l.Name] == kPtr {
						ldie("%s: re-assignment of a pointer local", t.pos(s))
					}
				}
			case token.ADD_ASSIGN, token.SUB_ASSIGN:
				w := wrapFor(t.p.info.Types[x.Lhs[0]].Type)
				if w == "" || w == "id" {
					ldie("%s: compound assignment on unsupported type", t.pos(s))
				}
				op := "+"
				if x.Tok == token.SUB_ASSIGN {
					op = "-"
				}
				rhs = fmt.Sprintf("(%s (v_%s %s %s))", w, l.Name, op, t.expr(rhsE, env))
			default:
				ldie("%s: unsupported assignment operator", t.pos(s))
			}
			env[l.Name] = k
			return fmt.Sprintf("let v_%s := %s in\n%s%s", l.Name, rhs, ind, next())
		case *ast.SelectorExpr:
			// c.field (op)= e
			if t.isRecv(l.X) && lruFields[l.Sel.Name] {
				f := l.Sel.Name
				w := wrapFor(t.p.info.Types[x.Lhs[0]].Type)
				var rhs string
				switch x.Tok {
				case token.ASSIGN:
					rhs = t.expr(rhsE, env)
				case token.ADD_ASSIGN:
					rhs = fmt.Sprintf("(%s (g_%s c + %s))", w, f, t.expr(rhsE, env))
				case token.SUB_ASSIGN:
					rhs = fmt.Sprintf("(%s (g_%s c - %s))", w, f, t.expr(rhsE, env))
				default:
					ldie("%s: unsupported assignment operator", t.pos(s))
				}
				return fmt.Sprintf("let c := set_%s c %s in\n%s%s", f, rhs, ind, next())
			}
			// e.Value.(*entry).value = v
			if l.Sel.Name == "value" {
				if ta, ok := l.X.(*ast.TypeAssertExpr); ok {
					if se, ok := ta.X.(*ast.SelectorExpr); ok && se.Sel.Name == "Value" && x.Tok == token.ASSIGN {
						if id, ok := se.X.(*ast.Ident); ok && env[id.Name] == kElem {
							return fmt.Sprintf("let c := elem_set_value c v_%s %s in\n%s%s", id.Name, t.expr(rhsE, env), ind, next())
						}
					}
				}
			}
			ldie("%s: unsupported assignment target %s (a write through a *entry local would alias the queue)", t.pos(s), t.p.nodeText(l))
		case *ast.IndexExpr:
			// c.cache[k] = e
			if se, ok := l.X.(*ast.SelectorExpr); ok && t.isRecv(se.X) && se.Sel.Name == "cache" && x.Tok == token.ASSIGN {
				if id, ok := rhsE.(*ast.Ident); ok && env[id.Name] == kElem {
					return fmt.Sprintf("let c := map_set c %s v_%s in\n%s%s", t.expr(l.Index, env), id.Name, ind, next())
				}
			}
		}

	case *ast.DeclStmt:
		gd := x.Decl.(*ast.GenDecl)
		if gd.Tok == token.VAR {
			out := ""
			for _, sp := range gd.Specs {
				vs := sp.(*ast.ValueSpec)
				for i, id := range vs.Names {
					obj := t.p.info.Defs[id]
					if obj == nil {
						ldie("%s: untyped var", t.pos(s))
					}
					k := kindOfType(obj.Type())
					v := ""
					if i < len(vs.Values) {
						v = t.expr(vs.Values[i], env)
					} else {
						switch k {
						case kZ:
							v = "0"
						case kBool:
							v = "false"
						case kString:
							v = "\"\""
						default:
							ldie("%s: var of unsupported type", t.pos(s))
						}
					}
					env[id.Name] = k
					out += fmt.Sprintf("let v_%s := %s in\n%s", id.Name, v, ind)
				}
			}
			return out + next()
		}

	case *ast.IfStmt:
		thenS := append([]ast.Stmt{}, x.Body.List...)
		elseS := append([]ast.Stmt{}, blockOf(x.Else)...)
		if !terminates(thenS) {
			thenS = append(thenS, rest...)
		}
		if !terminates(elseS) {
			elseS = append(elseS, rest...)
		}
		in2 := ind + "  "
		// if x, ok := c.cache[k]; ok { .. } else { .. }
		if x.Init != nil {
			as, ok := x.Init.(*ast.AssignStmt)
			if ok && as.Tok == token.DEFINE && len(as.Lhs) == 2 && len(as.Rhs) == 1 {
				if ix, ok := as.Rhs[0].(*ast.IndexExpr); ok {
					if se, ok := ix.X.(*ast.SelectorExpr); ok && t.isRecv(se.X) && se.Sel.Name == "cache" {
						v := as.Lhs[0].(*ast.Ident).Name
						okName := as.Lhs[1].(*ast.Ident).Name
						if c, ok := x.Cond.(*ast.Ident); ok && c.Name == okName {
							envT := env.clone()
							envT[v] = kElem
							envE := env.clone()
							return fmt.Sprintf("match map_get c %s with\n%s| Some v_%s =>\n%s%s\n%s| None =>\n%s%s\n%send",
								t.expr(ix.Index, env), ind, v, in2, t.stmts(thenS, envT, cx, in2), ind, in2, t.stmts(elseS, envE, cx, in2), ind)
						}
					}
				}
			}
			ldie("%s: unsupported if-with-init", t.pos(s))
		}
		// if e != nil / e == nil on a list element
		if be, ok := x.Cond.(*ast.BinaryExpr); ok && (be.Op == token.NEQ || be.Op == token.EQL) {
			if id, ok := be.X.(*ast.Ident); ok {
				if n, ok := be.Y.(*ast.Ident); ok && n.Name == "nil" && env[id.Name] == kPtr {
					envS := env.clone()
					envS[id.Name] = kElem
					envN := env.clone()
					someS, noneS := thenS, elseS
					if be.Op == token.EQL {
						someS, noneS = elseS, thenS
					}
					return fmt.Sprintf("match v_%s with\n%s| Some v_%s =>\n%s%s\n%s| None =>\n%s%s\n%send",
						id.Name, ind, id.Name, in2, t.stmts(someS, envS, cx, in2), ind, in2, t.stmts(noneS, envN, cx, in2), ind)
				}
			}
		}
		c := t.expr(x.Cond, env)
		return fmt.Sprintf("if %s then\n%s%s\n%selse\n%s%s", c, in2, t.stmts(thenS, env.clone(), cx, in2), ind, in2, t.stmts(elseS, env.clone(), cx, in2))

	case *ast.ForStmt:
		if x.Init != nil || x.Post != nil || x.Cond == nil {
			ldie("%s: only `for cond { .. }` loops are supported", t.pos(s))
		}
		if cx.inLoop {
			ldie("%s: nested loop", t.pos(s))
		}
		if outs := assignedOuter(x.Body); len(outs) > 0 {
			ldie("%s: loop body assigns outer locals %v", t.pos(s), outs)
		}
		in2 := ind + "    "
		cond := t.expr(x.Cond, env)
		body := t.stmts(x.Body.List, env.clone(), lctx{inLoop: true}, in2)
		return fmt.Sprintf("match while fuel (fun c => %s)\n%s  (fun c =>\n%s%s) c with\n%s| None => None\n%s| Some (Return r) => Some r\n%s| Some (Next c) =>\n%s  %s\n%send",
			cond, ind, in2, body, ind, ind, ind, ind, t.stmts(rest, env, cx, ind+"  "), ind)
	}
	ldie("%s: unsupported statement %s", t.pos(s), strings.SplitN(t.p.nodeText(s), "\n", 2)[0])
	return ""
}

func hasLoop(fd *ast.FuncDecl) bool {
	found := false
	ast.Inspect(fd.Body, func(n ast.Node) bool {
		if _, ok := n.(*ast.ForStmt); ok {
			found = true
		}
		return true
	})
	return found
}

var lruFuncs = []string{"calcTotalDiskSizeAndUpdatePeak", "shiftToNextMetricPeriod", "removeElement", "Add", "Get", "RemoveKey",
	"RemoveElement", "Len", "TotalSize", "UncompressedSize", "ReservedSize", "MaxSize", "Reserve", "Unreserve", "getTailItem"}

// an unsupported construct does not stop the other generators: LRUSrc.v then holds only the reason,
// so everything that depends on the translated functions fails to compile and is reported broken
type lruUnsupported string

func ldie(format string, a ...interface{}) { panic(lruUnsupported(fmt.Sprintf(format, a...))) }

func genLRU(out string) {
	defer func() {
		if r := recover(); r != nil {
			msg, ok := r.(lruUnsupported)
			if !ok {
				panic(r)
			}
			fmt.Fprintf(os.Stderr, "go2coq: lru.go is outside the translated subset: %s\n", string(msg))
			writeIfChanged(filepath.Join(out, "LRUSrc.v"), []byte("(* GENERATED by tools/go2coq (gen_lru.go).  lru.go could not be translated. *)\nFrom BR Require Import Base.Prelude.\nOpen Scope string_scope.\nDefinition LRUSrc_untranslatable : string := "+coqString(strings.ReplaceAll(string(msg), repo+"/", ""))+".\n"))
		}
	}()
	p := loadPkg("cache/disk")
	funcs := map[string]*lfun{}
	var order []*lfun
	for _, name := range lruFuncs {
		fd := p.findFunc("SizedLRU", name)
		f := &lfun{name: name, fd: fd, fueled: hasLoop(fd)}
		for _, fl := range fd.Type.Params.List {
			k := kindOfType(p.info.Types[fl.Type].Type)
			if k == kPtr {
				k = kElem // a nil *list.Element argument would be a nil dereference; callers pass live handles
			}
			if k == kNone {
				ldie("%s: parameter of unsupported type in %s", p.fset.Position(fl.Pos()), name)
			}
			for _, n := range fl.Names {
				f.params = append(f.params, n.Name)
				f.pkinds = append(f.pkinds, k)
			}
		}
		if fd.Type.Results != nil {
			for _, fl := range fd.Type.Results.List {
				k := kindOfType(p.info.Types[fl.Type].Type)
				if k == kNone {
					ldie("%s: result of unsupported type in %s", p.fset.Position(fl.Pos()), name)
				}
				n := len(fl.Names)
				if n == 0 {
					n = 1
				}
				for i := 0; i < n; i++ {
					f.results = append(f.results, k)
				}
			}
		}
		funcs[name] = f
		order = append(order, f)
	}
	var w bytes.Buffer
	w.WriteString("(* GENERATED by tools/go2coq (gen_lru.go) from /repo/cache/disk/lru.go on every check run.  DO NOT EDIT.\n   Statement-level translation of the SizedLRU methods; run-time: Model/GoLRU.v. *)\n")
	w.WriteString("From BR Require Import Base.Prelude Gen.Funcs Model.LRU Model.GoLRU.\nOpen Scope string_scope.\nOpen Scope Z_scope.\n\n")
	for _, f := range order {
		t := &ltrans{p: p, f: f, funcs: funcs, recv: "c"}
		if f.fd.Recv != nil && len(f.fd.Recv.List) == 1 && len(f.fd.Recv.List[0].Names) == 1 {
			t.recv = f.fd.Recv.List[0].Names[0].Name
		}
		if t.recv != "c" {
			ldie("%s: receiver must be named c", p.fset.Position(f.fd.Pos()))
		}
		env := lenv{}
		var params []string
		if f.fueled {
			params = append(params, "(fuel : nat)")
		}
		params = append(params, "(c : gst)")
		for i, n := range f.params {
			env[n] = f.pkinds[i]
			params = append(params, fmt.Sprintf("(v_%s : %s)", n, coqKind(f.pkinds[i])))
		}
		// named results are ordinary locals with zero values
		if f.fd.Type.Results != nil {
			for _, fl := range f.fd.Type.Results.List {
				for _, n := range fl.Names {
					env[n.Name] = kindOfType(p.info.Types[fl.Type].Type)
				}
			}
		}
		stripNoise(f.fd.Body)
		body := t.stmts(f.fd.Body.List, env, lctx{}, "  ")
		fmt.Fprintf(&w, "(* %s: %s *)\nDefinition LRUSrc_%s %s :=\n  %s.\n\n", p.fset.Position(f.fd.Pos()).String()[len(repo)+1:], f.name, f.name, strings.Join(params, " "), body)
	}
	writeIfChanged(filepath.Join(out, "LRUSrc.v"), w.Bytes())
}
