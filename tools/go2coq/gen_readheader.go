package main

// Statement-level translation of readHeader (cache/disk/casblob/casblob.go) into Gallina:
// Gen/ReadHeaderSrc.v, run-time Model/GoCasblob.v.
//
// The function is translated statement by statement from the go/ast; nothing about WHICH reads,
// checks, formulas or error messages it contains is known to this file:
//
//   var x T [= e] / x := e / x = e   let v_x := e in            (zero value when there is no e)
//   h.f = e (h a local `header`)     let v_h := set_h_<f> v_h e in
//   x++                              let v_x := wrap (v_x + 1) in
//   fi, err := f.Stat()              let '(v_fi, v_err) := file_Stat v_f in
//   fi.Size()                        fi_Size v_fi
//   err = binary.Read(f, binary.LittleEndian, &x)      (x a local or a field of h; the width is
//                                    let '(v_f, t, v_err) := binary_Read_<w> v_f <x> in let <x> := t in
//                                    the type of x: uint32, int64, uint8, []int64)
//   a op b, int64(a), ...            wrap64 / wrapU32 / wrapU8 around every typed operation
//   a / b, a % b, s[i], make(T, n)   xbind (xlift (go_quot a b)) (fun t => ..): checked, may panic
//   if c { A } [else { B }]; K       xbind (if c then A else B) (fun <locals A and B assign> => K)
//                                    a branch that does not return ends in XNext <those locals>
//   for i := c; [int64](i) < N; i++  xbind (for_loop (S (Z.to_nat N)) cond body post init) (fun .. => K)
//   return nil, err                  XRet (ret_nil_err v_err)
//   return nil, fmt.Errorf("t", ..)  (arguments evaluated for their panics) XRet (raise_msg "t")
//   return nil, errVar               XRet (raise_msg "<text of the package-level errors.New>")
//   return &h, nil                   XRet (Ok v_h)
//
// Anything else stops the translation with the position and the text of the construct:
// ReadHeaderSrc.v then holds only the reason, Proofs/ReadHeader_refine.v does not compile and the
// check reports the obligation broken; the other generators still run.

import (
	"bytes"
	"fmt"
	"go/ast"
	"go/constant"
	"go/token"
	"go/types"
	"os"
	"path/filepath"
	"strings"
)

func init() { areas = append(areas, genReadHeader) }

type rhUnsupported string

func rhDie(format string, a ...interface{}) { panic(rhUnsupported(fmt.Sprintf(format, a...))) }

type rhKind int

const (
	rkNone rhKind = iota
	rkZ
	rkBool
	rkErr
	rkHeader
	rkSlice // []int64
	rkFileInfo
	rkFile
)

// Go field of casblob.header -> (projection of Casblob.header, kind, Go type it must have)
var rhFields = map[string]struct {
	proj string
	ty   string
}{
	"uncompressedSize": {"h_usize", "int64"},
	"compression":      {"h_comp", "uint8"},
	"chunkSize":        {"h_chunk", "uint32"},
	"chunkOffsets":     {"h_offs", "[]int64"},
}

type rhTr struct {
	p     *pkg
	fd    *ast.FuncDecl
	file  string // name of the *os.File parameter
	ntmp  int
	depth int
}

func (t *rhTr) pos(n ast.Node) string {
	return strings.TrimPrefix(t.p.fset.Position(n.Pos()).String(), repo+"/")
}
func (t *rhTr) text(n ast.Node) string {
	return strings.Join(strings.Fields(t.p.nodeText(n)), " ")
}
func (t *rhTr) tmp() string { t.ntmp++; return fmt.Sprintf("t%d", t.ntmp) }

func (t *rhTr) typeOf(e ast.Expr) types.Type {
	if tv, ok := t.p.info.Types[e]; ok {
		return tv.Type
	}
	if id, ok := e.(*ast.Ident); ok {
		if o := t.p.info.Uses[id]; o != nil {
			return o.Type()
		}
		if o := t.p.info.Defs[id]; o != nil {
			return o.Type()
		}
	}
	return nil
}

func rhKindOf(ty types.Type) rhKind {
	if ty == nil {
		return rkNone
	}
	s := ty.String()
	switch {
	case s == "error":
		return rkErr
	case s == "*os.File":
		return rkFile
	case s == "os.FileInfo" || s == "io/fs.FileInfo" || s == "fs.FileInfo":
		return rkFileInfo
	case s == "[]int64":
		return rkSlice
	case strings.HasSuffix(s, "casblob.header"):
		return rkHeader
	}
	if b, ok := ty.Underlying().(*types.Basic); ok {
		switch b.Kind() {
		case types.Int64, types.Int, types.Uint32, types.Uint8, types.UntypedInt:
			return rkZ
		case types.Bool, types.UntypedBool:
			return rkBool
		}
	}
	return rkNone
}

// the wrap-around of a typed integer operation
func rhWrap(ty types.Type) string {
	if ty == nil {
		return ""
	}
	if b, ok := ty.Underlying().(*types.Basic); ok {
		switch b.Kind() {
		case types.Int64, types.Int:
			return "wrap64"
		case types.Uint32:
			return "wrapU32"
		case types.Uint8:
			return "wrapU8"
		}
	}
	return ""
}

func (t *rhTr) pkgOf(id *ast.Ident) string {
	if o, ok := t.p.info.Uses[id]; ok {
		if pn, ok := o.(*types.PkgName); ok {
			return pn.Imported().Path()
		}
	}
	return ""
}

// pkg.Name(...) -> ("pkgpath", "Name")
func (t *rhTr) qualified(e ast.Expr) (string, string) {
	if se, ok := e.(*ast.SelectorExpr); ok {
		if id, ok := se.X.(*ast.Ident); ok {
			if pk := t.pkgOf(id); pk != "" {
				return pk, se.Sel.Name
			}
		}
	}
	return "", ""
}

type rhEnv map[string]rhKind

func (e rhEnv) clone() rhEnv {
	n := rhEnv{}
	for k, v := range e {
		n[k] = v
	}
	return n
}

func (t *rhTr) local(id *ast.Ident, env rhEnv) string {
	if _, ok := env[id.Name]; !ok {
		rhDie("%s: %s is not a local of the function", t.pos(id), id.Name)
	}
	return "v_" + id.Name
}

// h.<field> for a local h of type header
func (t *rhTr) fieldOf(e ast.Expr, env rhEnv) (h string, proj string, field string, ok bool) {
	se, isSe := e.(*ast.SelectorExpr)
	if !isSe {
		return
	}
	id, isId := se.X.(*ast.Ident)
	if !isId || env[id.Name] != rkHeader {
		return
	}
	f, known := rhFields[se.Sel.Name]
	if !known {
		rhDie("%s: unknown field %s of header", t.pos(e), se.Sel.Name)
	}
	return id.Name, f.proj, se.Sel.Name, true
}

// expression -> (binds "name <- checked primitive", term)
func (t *rhTr) expr(e ast.Expr, env rhEnv) ([]string, string) {
	tv, hasT := t.p.info.Types[e]
	if hasT && tv.Value != nil {
		switch tv.Value.Kind() {
		case constant.Int:
			return nil, coqZ(tv.Value.ExactString())
		case constant.Bool:
			return nil, tv.Value.ExactString()
		}
		rhDie("%s: constant of unsupported kind %s", t.pos(e), t.text(e))
	}
	switch x := e.(type) {
	case *ast.ParenExpr:
		return t.expr(x.X, env)
	case *ast.Ident:
		if x.Name == "nil" {
			rhDie("%s: nil outside a comparison or return", t.pos(e))
		}
		return nil, t.local(x, env)
	case *ast.SelectorExpr:
		if h, proj, _, ok := t.fieldOf(x, env); ok {
			return nil, fmt.Sprintf("(%s v_%s)", proj, h)
		}
	case *ast.UnaryExpr:
		switch x.Op {
		case token.NOT:
			b, s := t.expr(x.X, env)
			return b, "(negb " + s + ")"
		case token.SUB:
			w := rhWrap(tv.Type)
			if w == "" {
				rhDie("%s: unary minus on unsupported type", t.pos(e))
			}
			b, s := t.expr(x.X, env)
			return b, fmt.Sprintf("(%s (- %s))", w, s)
		}
	case *ast.IndexExpr:
		if rhKindOf(t.typeOf(x.X)) != rkSlice {
			rhDie("%s: index into unsupported type: %s", t.pos(e), t.text(e))
		}
		b1, s := t.expr(x.X, env)
		b2, i := t.expr(x.Index, env)
		n := t.tmp()
		return append(append(b1, b2...), fmt.Sprintf("%s <- xlift (idx %s %s)", n, s, i)), n
	case *ast.BinaryExpr:
		ba, a := t.expr(x.X, env)
		bb, b := t.expr(x.Y, env)
		binds := append(ba, bb...)
		xk := rhKindOf(t.typeOf(x.X))
		yk := rhKindOf(t.typeOf(x.Y))
		switch x.Op {
		case token.LAND, token.LOR:
			if len(bb) > 0 {
				rhDie("%s: right operand of %s can panic; short-circuit evaluation of such operands is not supported: %s", t.pos(e), x.Op, t.text(e))
			}
			if xk != rkBool || yk != rkBool {
				rhDie("%s: non-boolean operand of %s", t.pos(e), x.Op)
			}
			op := "&&"
			if x.Op == token.LOR {
				op = "||"
			}
			return binds, fmt.Sprintf("(%s %s %s)", a, op, b)
		}
		if xk != rkZ || yk != rkZ {
			rhDie("%s: operator %s on unsupported operand types: %s", t.pos(e), x.Op, t.text(e))
		}
		switch x.Op {
		case token.EQL:
			return binds, fmt.Sprintf("(%s =? %s)", a, b)
		case token.NEQ:
			return binds, fmt.Sprintf("(negb (%s =? %s))", a, b)
		case token.LSS:
			return binds, fmt.Sprintf("(%s <? %s)", a, b)
		case token.LEQ:
			return binds, fmt.Sprintf("(%s <=? %s)", a, b)
		case token.GTR:
			return binds, fmt.Sprintf("(%s >? %s)", a, b)
		case token.GEQ:
			return binds, fmt.Sprintf("(%s >=? %s)", a, b)
		}
		w := rhWrap(tv.Type)
		if w == "" {
			rhDie("%s: arithmetic on unsupported type %v: %s", t.pos(e), tv.Type, t.text(e))
		}
		switch x.Op {
		case token.ADD:
			return binds, fmt.Sprintf("(%s (%s + %s))", w, a, b)
		case token.SUB:
			return binds, fmt.Sprintf("(%s (%s - %s))", w, a, b)
		case token.MUL:
			return binds, fmt.Sprintf("(%s (%s * %s))", w, a, b)
		case token.QUO:
			n := t.tmp()
			return append(binds, fmt.Sprintf("%s <- xlift (go_quot %s %s)", n, a, b)), fmt.Sprintf("(%s %s)", w, n)
		case token.REM:
			n := t.tmp()
			return append(binds, fmt.Sprintf("%s <- xlift (go_rem %s %s)", n, a, b)), fmt.Sprintf("(%s %s)", w, n)
		}
		rhDie("%s: unsupported operator %s", t.pos(e), x.Op)
	case *ast.CallExpr:
		// conversion T(x) between integer types
		if ftv, ok := t.p.info.Types[x.Fun]; ok && ftv.IsType() && len(x.Args) == 1 {
			w := rhWrap(ftv.Type)
			if w == "" || rhKindOf(t.typeOf(x.Args[0])) != rkZ {
				rhDie("%s: unsupported conversion %s", t.pos(e), t.text(e))
			}
			b, s := t.expr(x.Args[0], env)
			return b, fmt.Sprintf("(%s %s)", w, s)
		}
		if id, ok := x.Fun.(*ast.Ident); ok && id.Name == "make" && t.p.info.Uses[id] == types.Universe.Lookup("make") {
			if len(x.Args) != 2 || rhKindOf(t.typeOf(x.Args[0])) != rkSlice {
				rhDie("%s: unsupported make: %s", t.pos(e), t.text(e))
			}
			b, s := t.expr(x.Args[1], env)
			n := t.tmp()
			return append(b, fmt.Sprintf("%s <- xlift (make_i64s %s)", n, s)), n
		}
		// fi.Size()
		if se, ok := x.Fun.(*ast.SelectorExpr); ok && len(x.Args) == 0 && se.Sel.Name == "Size" {
			if id, ok := se.X.(*ast.Ident); ok && env[id.Name] == rkFileInfo {
				return nil, fmt.Sprintf("(fi_Size v_%s)", id.Name)
			}
		}
	}
	rhDie("%s: unsupported expression %s", t.pos(e), t.text(e))
	return nil, ""
}

// wrap the binds around a term of type xres
func rhBind(binds []string, body string, ind string) string {
	out := ""
	closeP := ""
	for _, b := range binds {
		parts := strings.SplitN(b, " <- ", 2)
		out += fmt.Sprintf("xbind (%s) (fun %s =>\n%s", parts[1], parts[0], ind)
		closeP += ")"
	}
	return out + body + closeP
}

// the text of a package-level `var name = errors.New("text")` / fmt.Errorf("text")
func (t *rhTr) errVarText(id *ast.Ident) string {
	for _, f := range t.p.files {
		for _, d := range f.Decls {
			gd, ok := d.(*ast.GenDecl)
			if !ok || gd.Tok != token.VAR {
				continue
			}
			for _, sp := range gd.Specs {
				vs := sp.(*ast.ValueSpec)
				for i, n := range vs.Names {
					if n.Name != id.Name {
						continue
					}
					if len(vs.Values) != len(vs.Names) {
						rhDie("%s: package variable %s has no initialiser of its own", t.pos(id), id.Name)
					}
					ce, ok := vs.Values[i].(*ast.CallExpr)
					if !ok || len(ce.Args) != 1 {
						rhDie("%s: package variable %s is not errors.New(\"text\")", t.pos(id), id.Name)
					}
					text, _ := t.errCallText(ce)
					return text
				}
			}
		}
	}
	rhDie("%s: %s is neither a local nor a package-level error variable", t.pos(id), id.Name)
	return ""
}

// fmt.Errorf(<constant format>, args...) / errors.New(<constant>): the text and the arguments
func (t *rhTr) errCallText(ce *ast.CallExpr) (string, []ast.Expr) {
	pk, name := t.qualified(ce.Fun)
	if (pk == "fmt" && name == "Errorf") || (pk == "errors" && name == "New") {
		if len(ce.Args) >= 1 {
			if tv, ok := t.p.info.Types[ce.Args[0]]; ok && tv.Value != nil && tv.Value.Kind() == constant.String {
				return constant.StringVal(tv.Value), ce.Args[1:]
			}
		}
		rhDie("%s: error text is not a constant: %s", t.pos(ce), t.text(ce))
	}
	rhDie("%s: unsupported error value %s", t.pos(ce), t.text(ce))
	return "", nil
}

func (t *rhTr) isNil(e ast.Expr) bool {
	id, ok := e.(*ast.Ident)
	return ok && id.Name == "nil" && t.p.info.Uses[id] == types.Universe.Lookup("nil")
}

func (t *rhTr) ret(x *ast.ReturnStmt, env rhEnv, ind string) string {
	if len(x.Results) != 2 {
		rhDie("%s: return with %d values", t.pos(x), len(x.Results))
	}
	r0, r1 := x.Results[0], x.Results[1]
	if t.isNil(r0) {
		switch e := r1.(type) {
		case *ast.Ident:
			if t.isNil(e) {
				rhDie("%s: return nil, nil", t.pos(x))
			}
			if k, ok := env[e.Name]; ok {
				if k != rkErr {
					rhDie("%s: %s is not an error", t.pos(x), e.Name)
				}
				return fmt.Sprintf("XRet (ret_nil_err v_%s)", e.Name)
			}
			return fmt.Sprintf("XRet (raise_msg %s)", coqString(t.errVarText(e)))
		case *ast.CallExpr:
			text, args := t.errCallText(e)
			var binds []string
			for _, a := range args {
				if id, ok := a.(*ast.Ident); ok && env[id.Name] == rkErr {
					continue // %w of a local error
				}
				b, _ := t.expr(a, env)
				binds = append(binds, b...)
			}
			for i := range binds {
				parts := strings.SplitN(binds[i], " <- ", 2)
				binds[i] = "_ <- " + parts[1]
			}
			return rhBind(binds, fmt.Sprintf("XRet (raise_msg %s)", coqString(text)), ind)
		}
		rhDie("%s: unsupported error value in %s", t.pos(x), t.text(x))
	}
	if ue, ok := r0.(*ast.UnaryExpr); ok && ue.Op == token.AND && t.isNil(r1) {
		if id, ok := ue.X.(*ast.Ident); ok && env[id.Name] == rkHeader {
			return fmt.Sprintf("XRet (Ok v_%s)", id.Name)
		}
	}
	rhDie("%s: unsupported return %s", t.pos(x), t.text(x))
	return ""
}

// the locals declared OUTSIDE of the nodes that the nodes assign, in order of first assignment
func (t *rhTr) assignedOuter(env rhEnv, nodes ...ast.Node) []string {
	var outs []string
	seen := map[string]bool{}
	for _, root := range nodes {
		if root == nil {
			continue
		}
		lo, hi := root.Pos(), root.End()
		add := func(e ast.Expr) {
			switch l := e.(type) {
			case *ast.Ident:
				if l.Name == "_" {
					return
				}
				obj := t.p.info.Uses[l]
				if obj == nil {
					return // a definition inside the node
				}
				if obj.Pos() >= lo && obj.Pos() < hi {
					return
				}
				if _, ok := env[l.Name]; !ok {
					rhDie("%s: assignment to %s, which is not a local", t.pos(l), l.Name)
				}
				if !seen[l.Name] {
					seen[l.Name] = true
					outs = append(outs, l.Name)
				}
			case *ast.SelectorExpr:
				if id, ok := l.X.(*ast.Ident); ok {
					obj := t.p.info.Uses[id]
					if obj != nil && !(obj.Pos() >= lo && obj.Pos() < hi) && !seen[id.Name] {
						seen[id.Name] = true
						outs = append(outs, id.Name)
					}
					return
				}
				rhDie("%s: unsupported assignment target %s", t.pos(l), t.text(l))
			case *ast.IndexExpr:
				rhDie("%s: assignment to a slice element is not supported: %s", t.pos(l), t.text(l))
			default:
				rhDie("%s: unsupported assignment target %s", t.pos(e), t.text(e))
			}
		}
		ast.Inspect(root, func(n ast.Node) bool {
			switch s := n.(type) {
			case *ast.AssignStmt:
				for _, l := range s.Lhs {
					add(l)
				}
			case *ast.IncDecStmt:
				add(s.X)
			case *ast.CallExpr:
				if pk, name := t.qualified(s.Fun); pk == "encoding/binary" && name == "Read" && len(s.Args) == 3 {
					if id, ok := s.Args[0].(*ast.Ident); ok {
						add(id)
					}
					tgt := s.Args[2]
					if ue, ok := tgt.(*ast.UnaryExpr); ok && ue.Op == token.AND {
						tgt = ue.X
					}
					add(tgt)
				}
			}
			return true
		})
	}
	return outs
}

func rhTuple(names []string) string {
	switch len(names) {
	case 0:
		return "tt"
	case 1:
		return "v_" + names[0]
	}
	var vs []string
	for _, n := range names {
		vs = append(vs, "v_"+n)
	}
	return "(" + strings.Join(vs, ", ") + ")"
}

func rhPat(names []string) string {
	switch len(names) {
	case 0:
		return "_"
	case 1:
		return "v_" + names[0]
	}
	return "'" + rhTuple(names)
}

// assignment of a translated value to a target (a local or a field of a local header)
func (t *rhTr) assignTo(target ast.Expr, val string, env rhEnv, declKind rhKind) string {
	switch l := target.(type) {
	case *ast.Ident:
		if l.Name == "_" {
			return ""
		}
		if declKind != rkNone {
			env[l.Name] = declKind
		} else if _, ok := env[l.Name]; !ok {
			rhDie("%s: assignment to unknown local %s", t.pos(l), l.Name)
		}
		return fmt.Sprintf("let v_%s := %s in", l.Name, val)
	case *ast.SelectorExpr:
		if h, proj, _, ok := t.fieldOf(l, env); ok {
			return fmt.Sprintf("let v_%s := set_%s v_%s %s in", h, proj, h, val)
		}
	}
	rhDie("%s: unsupported assignment target %s", t.pos(target), t.text(target))
	return ""
}

// err = binary.Read(f, binary.LittleEndian, <target>)
func (t *rhTr) binaryRead(ce *ast.CallExpr, errLhs ast.Expr, define bool, env rhEnv) (string, bool) {
	pk, name := t.qualified(ce.Fun)
	if pk != "encoding/binary" || name != "Read" {
		return "", false
	}
	if len(ce.Args) != 3 {
		rhDie("%s: binary.Read with %d arguments", t.pos(ce), len(ce.Args))
	}
	fid, ok := ce.Args[0].(*ast.Ident)
	if !ok || env[fid.Name] != rkFile {
		rhDie("%s: binary.Read from something that is not the file: %s", t.pos(ce), t.text(ce.Args[0]))
	}
	if opk, on := t.qualified(ce.Args[1]); opk != "encoding/binary" || on != "LittleEndian" {
		rhDie("%s: byte order %s is not binary.LittleEndian", t.pos(ce), t.text(ce.Args[1]))
	}
	tgt := ce.Args[2]
	var width string
	if ue, ok := tgt.(*ast.UnaryExpr); ok && ue.Op == token.AND {
		tgt = ue.X
		ty := t.typeOf(tgt)
		if ty == nil {
			rhDie("%s: untyped read target %s", t.pos(ce), t.text(tgt))
		}
		b, ok := ty.Underlying().(*types.Basic)
		if !ok {
			rhDie("%s: read into unsupported type %v", t.pos(ce), ty)
		}
		switch b.Kind() {
		case types.Uint32:
			width = "u32"
		case types.Int64:
			width = "i64"
		case types.Uint8:
			width = "u8"
		default:
			rhDie("%s: read into unsupported type %v", t.pos(ce), ty)
		}
	} else if rhKindOf(t.typeOf(tgt)) == rkSlice {
		width = "i64s"
	} else {
		rhDie("%s: unsupported read target %s", t.pos(ce), t.text(tgt))
	}
	binds, cur := t.expr(tgt, env)
	if len(binds) > 0 {
		rhDie("%s: read target that can panic: %s", t.pos(ce), t.text(tgt))
	}
	n := t.tmp()
	errName := "_"
	if id, ok := errLhs.(*ast.Ident); ok && id.Name != "_" {
		if define {
			env[id.Name] = rkErr
		} else if env[id.Name] != rkErr {
			rhDie("%s: result of binary.Read assigned to %s, which is not an error", t.pos(ce), id.Name)
		}
		errName = "v_" + id.Name
	} else if errLhs != nil && !ok {
		rhDie("%s: unsupported assignment target %s", t.pos(ce), t.text(errLhs))
	}
	out := fmt.Sprintf("let '(v_%s, %s, %s) := binary_Read_%s v_%s %s in\n", fid.Name, n, errName, width, fid.Name, cur)
	return out + "%s" + t.assignTo(tgt, n, env, rkNone), true
}

func rhZero(k rhKind) string {
	switch k {
	case rkZ:
		return "0"
	case rkBool:
		return "false"
	case rkErr:
		return "(None : option errc)"
	case rkHeader:
		return "zero_header"
	case rkSlice:
		return "[]"
	}
	return ""
}

// ss: the statements; tail: what a list that does not end in a return evaluates to ("" = it must)
func (t *rhTr) stmts(ss []ast.Stmt, env rhEnv, tail string, ind string) string {
	if len(ss) == 0 {
		if tail == "" {
			rhDie("%s: control reaches the end of %s without a return", t.pos(t.fd), t.fd.Name.Name)
		}
		return tail
	}
	s, rest := ss[0], ss[1:]
	next := func() string { return t.stmts(rest, env, tail, ind) }
	line := func(l string) string { return l + "\n" + ind + next() }
	switch x := s.(type) {
	case *ast.ReturnStmt:
		return t.ret(x, env, ind)

	case *ast.DeclStmt:
		gd, ok := x.Decl.(*ast.GenDecl)
		if !ok || gd.Tok != token.VAR {
			break
		}
		out := ""
		for _, sp := range gd.Specs {
			vs := sp.(*ast.ValueSpec)
			for i, id := range vs.Names {
				obj := t.p.info.Defs[id]
				if obj == nil {
					rhDie("%s: untyped var %s", t.pos(s), id.Name)
				}
				k := rhKindOf(obj.Type())
				if k == rkNone || rhZero(k) == "" {
					rhDie("%s: var %s of unsupported type %v", t.pos(s), id.Name, obj.Type())
				}
				v := rhZero(k)
				if i < len(vs.Values) {
					b, e := t.expr(vs.Values[i], env)
					if len(b) > 0 {
						rhDie("%s: initialiser that can panic", t.pos(s))
					}
					v = e
				} else if len(vs.Values) > 0 {
					rhDie("%s: unsupported var declaration", t.pos(s))
				}
				env[id.Name] = k
				out += fmt.Sprintf("let v_%s := %s in\n%s", id.Name, v, ind)
			}
		}
		return out + next()

	case *ast.IncDecStmt:
		id, ok := x.X.(*ast.Ident)
		if !ok || env[id.Name] != rkZ {
			break
		}
		w := rhWrap(t.typeOf(id))
		if w == "" {
			break
		}
		op := "+"
		if x.Tok == token.DEC {
			op = "-"
		}
		return line(fmt.Sprintf("let v_%s := (%s (v_%s %s 1)) in", id.Name, w, id.Name, op))

	case *ast.AssignStmt:
		define := x.Tok == token.DEFINE
		if x.Tok != token.DEFINE && x.Tok != token.ASSIGN {
			rhDie("%s: unsupported assignment operator in %s", t.pos(s), t.text(s))
		}
		if len(x.Rhs) == 1 {
			if ce, ok := x.Rhs[0].(*ast.CallExpr); ok {
				// err = binary.Read(..)
				if len(x.Lhs) == 1 {
					if out, ok := t.binaryRead(ce, x.Lhs[0], define, env); ok {
						parts := strings.SplitN(out, "%s", 2)
						return parts[0] + ind + parts[1] + "\n" + ind + next()
					}
				}
				// fi, err := f.Stat()
				if se, ok := ce.Fun.(*ast.SelectorExpr); ok && se.Sel.Name == "Stat" && len(ce.Args) == 0 && len(x.Lhs) == 2 {
					if id, ok := se.X.(*ast.Ident); ok && env[id.Name] == rkFile {
						a, aok := x.Lhs[0].(*ast.Ident)
						b, bok := x.Lhs[1].(*ast.Ident)
						if !aok || !bok {
							rhDie("%s: unsupported assignment target in %s", t.pos(s), t.text(s))
						}
						env[a.Name] = rkFileInfo
						env[b.Name] = rkErr
						return line(fmt.Sprintf("let '(v_%s, v_%s) := file_Stat v_%s in", a.Name, b.Name, id.Name))
					}
				}
			}
		}
		if len(x.Lhs) != 1 || len(x.Rhs) != 1 {
			rhDie("%s: unsupported multi-assignment %s", t.pos(s), t.text(s))
		}
		k := rhKindOf(t.typeOf(x.Rhs[0]))
		if k != rkZ && k != rkBool && k != rkSlice {
			rhDie("%s: assignment of a value of unsupported type %v: %s", t.pos(s), t.typeOf(x.Rhs[0]), t.text(s))
		}
		binds, v := t.expr(x.Rhs[0], env)
		dk := rkNone
		if define {
			dk = k
		}
		as := t.assignTo(x.Lhs[0], v, env, dk)
		return rhBind(binds, as+"\n"+ind+next(), ind)

	case *ast.IfStmt:
		if x.Init != nil {
			rhDie("%s: if with an init statement", t.pos(s))
		}
		var binds []string
		var cond string
		// err != nil / err == nil
		if be, ok := x.Cond.(*ast.BinaryExpr); ok && (be.Op == token.NEQ || be.Op == token.EQL) && t.isNil(be.Y) {
			id, ok := be.X.(*ast.Ident)
			if !ok || env[id.Name] != rkErr {
				rhDie("%s: comparison of a non-error with nil: %s", t.pos(s), t.text(x.Cond))
			}
			cond = fmt.Sprintf("(err_is_nil v_%s)", id.Name)
			if be.Op == token.NEQ {
				cond = "(negb " + cond + ")"
			}
		} else {
			if rhKindOf(t.typeOf(x.Cond)) != rkBool {
				rhDie("%s: condition of unsupported type: %s", t.pos(s), t.text(x.Cond))
			}
			binds, cond = t.expr(x.Cond, env)
		}
		thenS := x.Body.List
		var elseS []ast.Stmt
		if x.Else != nil {
			elseS = blockOf(x.Else)
		}
		in2 := ind + "  "
		if terminates(thenS) && x.Else != nil && terminates(elseS) {
			if len(rest) > 0 {
				rhDie("%s: unreachable statements after an if whose branches both return", t.pos(rest[0]))
			}
			body := fmt.Sprintf("if %s then\n%s%s\n%selse\n%s%s", cond, in2, t.stmts(thenS, env.clone(), "", in2), ind, in2, t.stmts(elseS, env.clone(), "", in2))
			return rhBind(binds, body, ind)
		}
		var elseNode ast.Node
		if x.Else != nil {
			elseNode = x.Else
		}
		outs := t.assignedOuter(env, x.Body, elseNode)
		join := "XNext " + rhTuple(outs)
		thenT := t.stmts(thenS, env.clone(), join, in2)
		elseT := t.stmts(elseS, env.clone(), join, in2)
		body := fmt.Sprintf("xbind (if %s then\n%s%s\n%selse\n%s%s) (fun %s =>\n%s%s)", cond, in2, thenT, ind, in2, elseT, rhPat(outs), ind, next())
		return rhBind(binds, body, ind)

	case *ast.ForStmt:
		return t.forLoop(x, rest, env, tail, ind)
	}
	rhDie("%s: unsupported statement %s", t.pos(s), strings.SplitN(t.p.nodeText(s), "\n", 2)[0])
	return ""
}

// for i := c; [int64](i) < N; i++ { body }: a counting loop; its trip count is at most N
func (t *rhTr) forLoop(x *ast.ForStmt, rest []ast.Stmt, env rhEnv, tail string, ind string) string {
	if x.Init == nil || x.Cond == nil || x.Post == nil {
		rhDie("%s: only `for i := c; i < N; i++` loops are supported", t.pos(x))
	}
	init, ok := x.Init.(*ast.AssignStmt)
	if !ok || init.Tok != token.DEFINE || len(init.Lhs) != 1 || len(init.Rhs) != 1 {
		rhDie("%s: unsupported loop initialisation %s", t.pos(x), t.text(x.Init))
	}
	iv, ok := init.Lhs[0].(*ast.Ident)
	if !ok {
		rhDie("%s: unsupported loop variable", t.pos(x))
	}
	ib, initV := t.expr(init.Rhs[0], env)
	if len(ib) > 0 || rhKindOf(t.typeOf(init.Rhs[0])) != rkZ {
		rhDie("%s: unsupported loop initialisation %s", t.pos(x), t.text(x.Init))
	}
	post, ok := x.Post.(*ast.IncDecStmt)
	if !ok || post.Tok != token.INC {
		rhDie("%s: the loop must step with %s++", t.pos(x), iv.Name)
	}
	if pid, ok := post.X.(*ast.Ident); !ok || pid.Name != iv.Name {
		rhDie("%s: the loop must step with %s++", t.pos(x), iv.Name)
	}
	// the bound: cond is  i < N  or  T(i) < N  with N a local the body does not assign
	cb, ok := x.Cond.(*ast.BinaryExpr)
	if !ok || cb.Op != token.LSS {
		rhDie("%s: the loop condition must be %s < N: %s", t.pos(x), iv.Name, t.text(x.Cond))
	}
	lhs := cb.X
	if ce, ok := lhs.(*ast.CallExpr); ok && len(ce.Args) == 1 {
		if ftv, ok := t.p.info.Types[ce.Fun]; ok && ftv.IsType() {
			lhs = ce.Args[0]
		}
	}
	if lid, ok := lhs.(*ast.Ident); !ok || lid.Name != iv.Name {
		rhDie("%s: the loop condition must be %s < N: %s", t.pos(x), iv.Name, t.text(x.Cond))
	}
	bound, ok := cb.Y.(*ast.Ident)
	if !ok || env[bound.Name] != rkZ {
		rhDie("%s: the loop bound must be a local integer: %s", t.pos(x), t.text(x.Cond))
	}
	outs := t.assignedOuter(env, x.Body)
	for _, o := range outs {
		if o == bound.Name {
			rhDie("%s: the loop body assigns its bound %s", t.pos(x), o)
		}
	}
	ast.Inspect(x.Body, func(n ast.Node) bool {
		switch s := n.(type) {
		case *ast.BranchStmt:
			rhDie("%s: %s inside a loop", t.pos(s), s.Tok)
		case *ast.ForStmt, *ast.RangeStmt:
			rhDie("%s: nested loop", t.pos(n))
		case *ast.AssignStmt:
			for _, l := range s.Lhs {
				if id, ok := l.(*ast.Ident); ok && id.Name == iv.Name && t.p.info.Uses[id] == t.p.info.Defs[iv] {
					rhDie("%s: the loop body assigns the loop variable", t.pos(s))
				}
			}
		case *ast.IncDecStmt:
			if id, ok := s.X.(*ast.Ident); ok && id.Name == iv.Name {
				rhDie("%s: the loop body assigns the loop variable", t.pos(s))
			}
		}
		return true
	})
	state := append([]string{iv.Name}, outs...)
	lenv := env.clone()
	lenv[iv.Name] = rkZ
	cbnd, cond := t.expr(x.Cond, lenv)
	if len(cbnd) > 0 {
		rhDie("%s: loop condition that can panic", t.pos(x))
	}
	in2 := ind + "    "
	body := t.stmts(x.Body.List, lenv.clone(), "XNext "+rhTuple(state), in2)
	w := rhWrap(t.typeOf(iv))
	if w == "" {
		rhDie("%s: loop variable of unsupported type", t.pos(x))
	}
	pat := rhPat(state)
	initState := append([]string{}, state...)
	initT := rhTuple(initState)
	initT = strings.Replace(initT, "v_"+iv.Name, initV, 1)
	out := fmt.Sprintf("xbind (for_loop (S (Z.to_nat v_%s))\n%s  (fun %s => %s)\n%s  (fun %s =>\n%s%s)\n%s  (fun %s => let v_%s := (%s (v_%s + 1)) in %s)\n%s  %s) (fun %s =>\n%s%s)",
		bound.Name, ind, pat, cond, ind, pat, in2, body, ind, pat, iv.Name, w, iv.Name, rhTuple(state), ind, initT, pat, ind,
		t.stmts(rest, env, tail, ind))
	return out
}

// the struct the field table above describes must be the one in the source
func (t *rhTr) checkHeaderStruct() {
	obj := t.p.tpkg.Scope().Lookup("header")
	if obj == nil {
		rhDie("type header not found in %s", t.p.dir)
	}
	st, ok := obj.Type().Underlying().(*types.Struct)
	if !ok {
		rhDie("header is not a struct")
	}
	if st.NumFields() != len(rhFields) {
		rhDie("header has %d fields, the run-time record Casblob.header has %d", st.NumFields(), len(rhFields))
	}
	for i := 0; i < st.NumFields(); i++ {
		f := st.Field(i)
		want, ok := rhFields[f.Name()]
		if !ok {
			rhDie("header has a field %s the run-time record Casblob.header lacks", f.Name())
		}
		if got := f.Type().Underlying().String(); got != want.ty {
			rhDie("header.%s has type %s, expected %s", f.Name(), got, want.ty)
		}
	}
}

func genReadHeader(out string) {
	target := filepath.Join(out, "ReadHeaderSrc.v")
	defer func() {
		if r := recover(); r != nil {
			msg, ok := r.(rhUnsupported)
			if !ok {
				panic(r)
			}
			fmt.Fprintf(os.Stderr, "go2coq: readHeader is outside the translated subset: %s\n", string(msg))
			writeIfChanged(target, []byte("(* GENERATED by tools/go2coq (gen_readheader.go).  readHeader could not be translated. *)\nFrom BR Require Import Base.Prelude.\nOpen Scope string_scope.\nDefinition ReadHeaderSrc_untranslatable : string := "+coqString(strings.ReplaceAll(string(msg), repo+"/", ""))+".\n"))
		}
	}()
	p := load("cache/disk/casblob")
	fd := p.findFunc("", "readHeader")
	t := &rhTr{p: p, fd: fd}
	t.checkHeaderStruct()
	env := rhEnv{}
	if fd.Type.Params == nil || len(fd.Type.Params.List) != 1 || len(fd.Type.Params.List[0].Names) != 1 ||
		rhKindOf(p.info.Types[fd.Type.Params.List[0].Type].Type) != rkFile {
		rhDie("%s: readHeader must take one *os.File", t.pos(fd))
	}
	t.file = fd.Type.Params.List[0].Names[0].Name
	env[t.file] = rkFile
	if fd.Type.Results == nil || len(fd.Type.Results.List) != 2 || t.text(fd.Type.Results.List[0].Type) != "*header" ||
		t.text(fd.Type.Results.List[1].Type) != "error" || len(fd.Type.Results.List[0].Names) != 0 {
		rhDie("%s: readHeader must return (*header, error)", t.pos(fd))
	}
	body := t.stmts(fd.Body.List, env, "", "  ")
	var w bytes.Buffer
	w.WriteString("(* GENERATED by tools/go2coq (gen_readheader.go) from /repo/cache/disk/casblob/casblob.go on every check run.\n   DO NOT EDIT.  Statement-level translation of readHeader; run-time: Model/GoCasblob.v. *)\n")
	w.WriteString("From BR Require Import Base.Prelude Model.Casblob Model.GoCasblob.\nOpen Scope string_scope.\nOpen Scope Z_scope.\n\n")
	fmt.Fprintf(&w, "(* %s: %s *)\nDefinition ReadHeaderSrc_readHeader (v_%s : gfile) : result header :=\n  xrun (\n  %s).\n", t.pos(fd), fd.Name.Name, t.file, body)
	writeIfChanged(target, w.Bytes())
}
