// go2coq regenerates the Coq files under coq/Gen from the Go sources of bazel-remote's
// working tree.  It handles a deliberately small Go subset and fails loudly on anything else
// (a failure is treated by ./check exactly like a broken proof obligation).
//
// usage: go2coq <repo> <outdir>
package main

import (
	"bytes"
	"fmt"
	"go/ast"
	"go/constant"
	"go/importer"
	"go/parser"
	"go/token"
	"go/types"
	"os"
	"path/filepath"
	"sort"
	"strings"
)

type pkg struct {
	dir   string
	fset  *token.FileSet
	files []*ast.File
	info  *types.Info
	tpkg  *types.Package
}

var repo string
var stdImporter types.Importer
var fakePkgs = map[string]*types.Package{}

type fakeImporter struct{}

func (fakeImporter) Import(path string) (*types.Package, error) {
	if !strings.Contains(strings.Split(path, "/")[0], ".") {
		// standard library
		p, err := stdImporter.Import(path)
		if err == nil {
			return p, nil
		}
	}
	if p, ok := fakePkgs[path]; ok {
		return p, nil
	}
	name := filepath.Base(path)
	if name == "v2" || name == "v3" {
		name = filepath.Base(filepath.Dir(path))
	}
	p := types.NewPackage(path, name)
	p.MarkComplete()
	fakePkgs[path] = p
	return p, nil
}

func die(format string, a ...interface{}) {
	fmt.Fprintf(os.Stderr, "go2coq: "+format+"\n", a...)
	os.Exit(2)
}

func loadPkg(dir string) *pkg {
	fset := token.NewFileSet()
	pkgs, err := parser.ParseDir(fset, filepath.Join(repo, dir), func(fi os.FileInfo) bool {
		n := fi.Name()
		return !strings.HasSuffix(n, "_test.go") && !strings.HasPrefix(n, "verif_")
	}, parser.ParseComments)
	if err != nil {
		die("parse %s: %v", dir, err)
	}
	var files []*ast.File
	for name, p := range pkgs {
		if strings.HasSuffix(name, "_test") {
			continue
		}
		var names []string
		for fn := range p.Files {
			names = append(names, fn)
		}
		sort.Strings(names)
		for _, fn := range names {
			f := p.Files[fn]
			// skip files excluded by build constraints we do not model
			skip := false
			for _, cg := range f.Comments {
				for _, c := range cg.List {
					if strings.HasPrefix(c.Text, "//go:build") && (strings.Contains(c.Text, "windows") || strings.Contains(c.Text, "darwin") || strings.Contains(c.Text, "verif")) && !strings.Contains(c.Text, "!") {
						skip = true
					}
				}
			}
			if strings.HasSuffix(fn, "_windows.go") || strings.HasSuffix(fn, "_darwin.go") {
				skip = true
			}
			if !skip {
				files = append(files, f)
			}
		}
	}
	info := &types.Info{
		Types: map[ast.Expr]types.TypeAndValue{},
		Defs:  map[*ast.Ident]types.Object{},
		Uses:  map[*ast.Ident]types.Object{},
	}
	conf := types.Config{Importer: fakeImporter{}, Error: func(error) {}, FakeImportC: true}
	tp, _ := conf.Check(dir, fset, files, info)
	return &pkg{dir: dir, fset: fset, files: files, info: info, tpkg: tp}
}

func coqString(s string) string {
	for _, r := range s {
		if r > 126 || (r < 32 && r != '\n' && r != '\t') {
			die("non-printable character in string constant %q", s)
		}
	}
	return "\"" + strings.ReplaceAll(s, "\"", "\"\"") + "\""
}

func coqZ(s string) string {
	if strings.HasPrefix(s, "-") {
		return "(" + s + ")"
	}
	return s
}

// ---------------------------------------------------------------------------------------------
// constants

func (p *pkg) constValue(name string) (constant.Value, bool) {
	var found constant.Value
	ok := false
	for id, obj := range p.info.Defs {
		if id.Name != name || obj == nil {
			continue
		}
		if c, isC := obj.(*types.Const); isC {
			if ok && constant.Compare(found, token.NEQ, c.Val()) {
				die("constant %s defined twice with different values in %s", name, p.dir)
			}
			found, ok = c.Val(), true
		}
	}
	return found, ok
}

func (p *pkg) emitConst(w *bytes.Buffer, coqName, name string) {
	v, ok := p.constValue(name)
	if !ok {
		die("constant %s not found in %s", name, p.dir)
	}
	switch v.Kind() {
	case constant.Int:
		fmt.Fprintf(w, "Definition %s : Z := %s.\n", coqName, coqZ(v.ExactString()))
	case constant.String:
		fmt.Fprintf(w, "Definition %s : string := %s.\n", coqName, coqString(constant.StringVal(v)))
	case constant.Float:
		f, _ := constant.Float64Val(v)
		if f != float64(int64(f)) {
			die("constant %s is not integral", name)
		}
		fmt.Fprintf(w, "Definition %s : Z := %d.\n", coqName, int64(f))
	default:
		die("constant %s has unsupported kind", name)
	}
}

// package-level `var name = <string literal>` or `[]byte{...}` of small ints
func (p *pkg) emitVarLiteral(w *bytes.Buffer, coqName, name string) {
	for _, f := range p.files {
		for _, d := range f.Decls {
			gd, ok := d.(*ast.GenDecl)
			if !ok || gd.Tok != token.VAR {
				continue
			}
			for _, sp := range gd.Specs {
				vs := sp.(*ast.ValueSpec)
				for i, id := range vs.Names {
					if id.Name != name || i >= len(vs.Values) {
						continue
					}
					switch e := vs.Values[i].(type) {
					case *ast.CompositeLit:
						var xs []string
						for _, el := range e.Elts {
							tv, ok := p.info.Types[el]
							if !ok || tv.Value == nil {
								die("var %s: non-constant element", name)
							}
							xs = append(xs, coqZ(tv.Value.ExactString()))
						}
						fmt.Fprintf(w, "Definition %s : list Z := [%s].\n", coqName, strings.Join(xs, "; "))
						return
					default:
						tv, ok := p.info.Types[vs.Values[i]]
						if ok && tv.Value != nil && tv.Value.Kind() == constant.String {
							fmt.Fprintf(w, "Definition %s : string := %s.\n", coqName, coqString(constant.StringVal(tv.Value)))
							return
						}
						die("var %s: unsupported initialiser", name)
					}
				}
			}
		}
	}
	die("var %s not found in %s", name, p.dir)
}

// ---------------------------------------------------------------------------------------------
// regular expressions: every regexp.MustCompile(<literal>) with the identifier it is bound to

func (p *pkg) regexes() map[string]string {
	out := map[string]string{}
	record := func(name string, call ast.Expr) {
		ce, ok := call.(*ast.CallExpr)
		if !ok || len(ce.Args) != 1 {
			return
		}
		se, ok := ce.Fun.(*ast.SelectorExpr)
		if !ok || se.Sel.Name != "MustCompile" {
			return
		}
		if x, ok := se.X.(*ast.Ident); !ok || x.Name != "regexp" {
			return
		}
		tv, ok := p.info.Types[ce.Args[0]]
		if !ok || tv.Value == nil {
			die("regexp.MustCompile with a non-constant argument bound to %s in %s", name, p.dir)
		}
		if old, dup := out[name]; dup && old != constant.StringVal(tv.Value) {
			die("two different regexes bound to %s in %s", name, p.dir)
		}
		out[name] = constant.StringVal(tv.Value)
	}
	for _, f := range p.files {
		ast.Inspect(f, func(n ast.Node) bool {
			switch s := n.(type) {
			case *ast.AssignStmt:
				for i, l := range s.Lhs {
					if id, ok := l.(*ast.Ident); ok && i < len(s.Rhs) {
						record(id.Name, s.Rhs[i])
					}
				}
			case *ast.ValueSpec:
				for i, id := range s.Names {
					if i < len(s.Values) {
						record(id.Name, s.Values[i])
					}
				}
			}
			return true
		})
	}
	return out
}

// ---------------------------------------------------------------------------------------------
// small pure functions -> Gallina with explicit wrap-around

type ftrans struct {
	p      *pkg
	fn     *ast.FuncDecl
	nres   int
	consts map[string]string // package constants referenced
}

func (p *pkg) findFunc(recv, name string) *ast.FuncDecl {
	for _, f := range p.files {
		for _, d := range f.Decls {
			fd, ok := d.(*ast.FuncDecl)
			if !ok || fd.Name.Name != name {
				continue
			}
			r := ""
			if fd.Recv != nil && len(fd.Recv.List) == 1 {
				t := fd.Recv.List[0].Type
				if st, ok := t.(*ast.StarExpr); ok {
					t = st.X
				}
				if id, ok := t.(*ast.Ident); ok {
					r = id.Name
				}
			}
			if r == recv {
				return fd
			}
		}
	}
	die("function %s.%s not found in %s", recv, name, p.dir)
	return nil
}

func (t *ftrans) pos(n ast.Node) string { return t.p.fset.Position(n.Pos()).String() }

func wrapFor(ty types.Type) string {
	if ty == nil {
		return ""
	}
	b, ok := ty.Underlying().(*types.Basic)
	if !ok {
		return ""
	}
	switch b.Kind() {
	case types.Int64, types.Int:
		return "wrap64"
	case types.Uint64:
		return "wrapU64"
	case types.Uint32:
		return "wrapU32"
	case types.UntypedInt:
		return "id"
	}
	return ""
}

func coqType(ty types.Type) string {
	b, ok := ty.Underlying().(*types.Basic)
	if !ok {
		return ""
	}
	switch b.Kind() {
	case types.Int64, types.Int, types.Uint64, types.Uint32, types.Uint8, types.Int32:
		return "Z"
	case types.Bool:
		return "bool"
	case types.String:
		return "string"
	}
	return ""
}

func (t *ftrans) expr(e ast.Expr) string {
	tv, hasT := t.p.info.Types[e]
	if hasT && tv.Value != nil {
		switch tv.Value.Kind() {
		case constant.Int:
			return coqZ(tv.Value.ExactString())
		case constant.String:
			return coqString(constant.StringVal(tv.Value))
		case constant.Bool:
			if constant.BoolVal(tv.Value) {
				return "true"
			}
			return "false"
		}
	}
	switch x := e.(type) {
	case *ast.ParenExpr:
		return t.expr(x.X)
	case *ast.Ident:
		if x.Name == "true" || x.Name == "false" {
			return x.Name
		}
		return "v_" + x.Name
	case *ast.UnaryExpr:
		switch x.Op {
		case token.NOT:
			return "(negb " + t.expr(x.X) + ")"
		case token.SUB:
			w := wrapFor(tv.Type)
			if w == "" {
				die("%s: unary minus on unsupported type", t.pos(e))
			}
			return fmt.Sprintf("(%s (- %s))", w, t.expr(x.X))
		}
	case *ast.BinaryExpr:
		a, b := t.expr(x.X), t.expr(x.Y)
		xt := t.p.info.Types[x.X].Type
		isStr := false
		if xt != nil {
			if bb, ok := xt.Underlying().(*types.Basic); ok && (bb.Kind() == types.String || bb.Kind() == types.UntypedString) {
				isStr = true
			}
		}
		switch x.Op {
		case token.LAND:
			return fmt.Sprintf("(%s && %s)", a, b)
		case token.LOR:
			return fmt.Sprintf("(%s || %s)", a, b)
		case token.EQL:
			if isStr {
				return fmt.Sprintf("(String.eqb %s %s)", a, b)
			}
			return fmt.Sprintf("(%s =? %s)", a, b)
		case token.NEQ:
			if isStr {
				return fmt.Sprintf("(negb (String.eqb %s %s))", a, b)
			}
			return fmt.Sprintf("(negb (%s =? %s))", a, b)
		case token.LSS:
			return fmt.Sprintf("(%s <? %s)", a, b)
		case token.LEQ:
			return fmt.Sprintf("(%s <=? %s)", a, b)
		case token.GTR:
			return fmt.Sprintf("(%s >? %s)", a, b)
		case token.GEQ:
			return fmt.Sprintf("(%s >=? %s)", a, b)
		}
		w := wrapFor(tv.Type)
		if w == "" {
			die("%s: arithmetic on unsupported type %v", t.pos(e), tv.Type)
		}
		var op string
		switch x.Op {
		case token.ADD:
			op = fmt.Sprintf("%s + %s", a, b)
		case token.SUB:
			op = fmt.Sprintf("%s - %s", a, b)
		case token.MUL:
			op = fmt.Sprintf("%s * %s", a, b)
		case token.QUO:
			op = fmt.Sprintf("Z.quot %s %s", a, b)
		case token.REM:
			op = fmt.Sprintf("Z.rem %s %s", a, b)
		case token.AND:
			op = fmt.Sprintf("Z.land %s %s", a, b)
		case token.OR:
			op = fmt.Sprintf("Z.lor %s %s", a, b)
		case token.SHL:
			op = fmt.Sprintf("Z.shiftl %s %s", a, b)
		case token.SHR:
			op = fmt.Sprintf("Z.shiftr %s %s", a, b)
		default:
			die("%s: unsupported operator %s", t.pos(e), x.Op)
		}
		return fmt.Sprintf("(%s (%s))", w, op)
	case *ast.CallExpr:
		// conversions and len
		if id, ok := x.Fun.(*ast.Ident); ok && len(x.Args) == 1 {
			switch id.Name {
			case "int64", "int":
				return fmt.Sprintf("(wrap64 %s)", t.expr(x.Args[0]))
			case "uint64":
				return fmt.Sprintf("(wrapU64 %s)", t.expr(x.Args[0]))
			case "uint32":
				return fmt.Sprintf("(wrapU32 %s)", t.expr(x.Args[0]))
			case "len":
				at := t.p.info.Types[x.Args[0]].Type
				if at != nil {
					if bb, ok := at.Underlying().(*types.Basic); ok && bb.Kind() == types.String {
						return fmt.Sprintf("(Z.of_nat (String.length %s))", t.expr(x.Args[0]))
					}
					if _, ok := at.Underlying().(*types.Slice); ok {
						return fmt.Sprintf("(Z.of_nat (List.length %s))", t.expr(x.Args[0]))
					}
				}
			default:
				// call of another translated function of the same package
				return fmt.Sprintf("(%s %s)", id.Name, t.expr(x.Args[0]))
			}
		}
		if id, ok := x.Fun.(*ast.Ident); ok {
			var args []string
			for _, a := range x.Args {
				args = append(args, t.expr(a))
			}
			return fmt.Sprintf("(%s %s)", id.Name, strings.Join(args, " "))
		}
	case *ast.SelectorExpr:
		// receiver field: h.chunkOffsets -> v_h_chunkOffsets (a parameter of the translation)
		if id, ok := x.X.(*ast.Ident); ok {
			return "v_" + id.Name + "_" + x.Sel.Name
		}
	}
	die("%s: unsupported expression %T", t.pos(e), e)
	return ""
}

func terminates(stmts []ast.Stmt) bool {
	if len(stmts) == 0 {
		return false
	}
	switch s := stmts[len(stmts)-1].(type) {
	case *ast.ReturnStmt:
		return true
	case *ast.IfStmt:
		if s.Else == nil {
			return false
		}
		eb, ok := s.Else.(*ast.BlockStmt)
		if !ok {
			return terminates([]ast.Stmt{s.Else})
		}
		return terminates(s.Body.List) && terminates(eb.List)
	}
	return false
}

func (t *ftrans) stmts(ss []ast.Stmt, indent string) string {
	if len(ss) == 0 {
		die("%s: control reaches the end of %s without a return", t.pos(t.fn), t.fn.Name.Name)
	}
	s, rest := ss[0], ss[1:]
	switch x := s.(type) {
	case *ast.ReturnStmt:
		var rs []string
		for _, r := range x.Results {
			rs = append(rs, t.expr(r))
		}
		if len(rs) == 1 {
			return rs[0]
		}
		return "(" + strings.Join(rs, ", ") + ")"
	case *ast.AssignStmt:
		if len(x.Lhs) != 1 || len(x.Rhs) != 1 {
			die("%s: unsupported multi-assignment", t.pos(s))
		}
		id, ok := x.Lhs[0].(*ast.Ident)
		if !ok {
			die("%s: assignment to a non-local", t.pos(s))
		}
		var rhs string
		switch x.Tok {
		case token.DEFINE, token.ASSIGN:
			rhs = t.expr(x.Rhs[0])
		case token.ADD_ASSIGN, token.SUB_ASSIGN:
			w := wrapFor(t.p.info.Types[x.Lhs[0]].Type)
			if w == "" {
				w = wrapFor(t.p.info.Types[x.Rhs[0]].Type)
			}
			if w == "" || w == "id" {
				die("%s: compound assignment on unsupported type", t.pos(s))
			}
			op := "+"
			if x.Tok == token.SUB_ASSIGN {
				op = "-"
			}
			rhs = fmt.Sprintf("(%s (v_%s %s %s))", w, id.Name, op, t.expr(x.Rhs[0]))
		default:
			die("%s: unsupported assignment operator", t.pos(s))
		}
		return fmt.Sprintf("let v_%s := %s in\n%s%s", id.Name, rhs, indent, t.stmts(rest, indent))
	case *ast.IfStmt:
		if x.Init != nil {
			die("%s: if with init statement", t.pos(s))
		}
		c := t.expr(x.Cond)
		thenS := append(append([]ast.Stmt{}, x.Body.List...), nil)[:len(x.Body.List)]
		var elseS []ast.Stmt
		if x.Else != nil {
			if eb, ok := x.Else.(*ast.BlockStmt); ok {
				elseS = eb.List
			} else {
				elseS = []ast.Stmt{x.Else}
			}
		}
		if !terminates(thenS) {
			thenS = append(append([]ast.Stmt{}, thenS...), rest...)
		}
		if !terminates(elseS) {
			elseS = append(append([]ast.Stmt{}, elseS...), rest...)
		}
		return fmt.Sprintf("if %s then\n%s  %s\n%selse\n%s  %s", c, indent, t.stmts(thenS, indent+"  "), indent, indent, t.stmts(elseS, indent+"  "))
	case *ast.DeclStmt:
		gd := x.Decl.(*ast.GenDecl)
		if gd.Tok == token.CONST {
			return t.stmts(rest, indent)
		}
		if gd.Tok == token.VAR {
			out := ""
			for _, sp := range gd.Specs {
				vs := sp.(*ast.ValueSpec)
				for i, id := range vs.Names {
					v := "0"
					if i < len(vs.Values) {
						v = t.expr(vs.Values[i])
					} else if ty := t.p.info.Defs[id]; ty != nil {
						switch coqType(ty.Type()) {
						case "bool":
							v = "false"
						case "string":
							v = "\"\""
						}
					}
					out += fmt.Sprintf("let v_%s := %s in\n%s", id.Name, v, indent)
				}
			}
			return out + t.stmts(rest, indent)
		}
	}
	die("%s: unsupported statement %T", t.pos(s), s)
	return ""
}

// extraParams: receiver fields (or other free names) that become leading parameters, "name:type"
func (p *pkg) emitFunc(w *bytes.Buffer, coqName, recv, name string, extraParams []string) {
	fd := p.findFunc(recv, name)
	t := &ftrans{p: p, fn: fd}
	var params []string
	for _, ep := range extraParams {
		kv := strings.SplitN(ep, ":", 2)
		params = append(params, fmt.Sprintf("(v_%s : %s)", kv[0], kv[1]))
	}
	for _, f := range fd.Type.Params.List {
		ty := t.p.info.Types[f.Type].Type
		ct := ""
		if ty != nil {
			ct = coqType(ty)
		}
		if ct == "" {
			die("%s: parameter of unsupported type in %s", t.pos(f), name)
		}
		for _, n := range f.Names {
			params = append(params, fmt.Sprintf("(v_%s : %s)", n.Name, ct))
		}
	}
	fmt.Fprintf(w, "(* %s: %s *)\nDefinition %s %s :=\n  %s.\n\n", p.fset.Position(fd.Pos()).String()[len(repo)+1:], name, coqName, strings.Join(params, " "), t.stmts(fd.Body.List, "  "))
}

// ---------------------------------------------------------------------------------------------
// tables

// keys of a package-level map[string]... composite literal
func (p *pkg) mapKeys(name string) []string {
	for _, f := range p.files {
		for _, d := range f.Decls {
			gd, ok := d.(*ast.GenDecl)
			if !ok || gd.Tok != token.VAR {
				continue
			}
			for _, sp := range gd.Specs {
				vs := sp.(*ast.ValueSpec)
				for i, id := range vs.Names {
					if id.Name != name || i >= len(vs.Values) {
						continue
					}
					cl, ok := vs.Values[i].(*ast.CompositeLit)
					if !ok {
						die("%s is not a composite literal", name)
					}
					var keys []string
					for _, el := range cl.Elts {
						kv := el.(*ast.KeyValueExpr)
						tv := p.info.Types[kv.Key]
						if tv.Value == nil {
							die("%s: non-constant key", name)
						}
						keys = append(keys, constant.StringVal(tv.Value))
					}
					return keys
				}
			}
		}
	}
	die("map %s not found in %s", name, p.dir)
	return nil
}

func writeIfChanged(path string, data []byte) {
	old, err := os.ReadFile(path)
	if err == nil && bytes.Equal(old, data) {
		return
	}
	if err := os.WriteFile(path, data, 0644); err != nil {
		die("%v", err)
	}
}

const header = "(* GENERATED by tools/go2coq from /repo's working tree on every check run.  DO NOT EDIT. *)\nFrom BR Require Import Base.Prelude.\nOpen Scope string_scope.\nOpen Scope Z_scope.\n\n"

func main() {
	if len(os.Args) != 3 {
		die("usage: go2coq <repo> <outdir>")
	}
	repo = os.Args[1]
	out := os.Args[2]
	stdImporter = importer.ForCompiler(token.NewFileSet(), "source", nil)
	_ = os.MkdirAll(out, 0755)

	gen(out)
}
